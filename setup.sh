#!/bin/sh
# Offline setup after a fresh restore: build the Lean project (models, proofs, per-property drivers),
# the fact extractor and all correspondence harnesses from files on disk only.
cd "$(dirname "$0")" || exit 1
export GOFLAGS=-mod=mod GOPROXY=off GOSUMDB=off GOTOOLCHAIN=local CGO_ENABLED=0
REPO="${VERIF_REPO:-/repo}"
mkdir -p build/bin build/run evidence replays lean/BfeVerif/Generated
python3 tools/gen_lakefile.py
if [ -f extract/main.go ]; then
  (cd extract && go build -o ../build/bin/extract .) || echo "setup: extractor build failed"
  for f in checks/C*.json; do
    id=$(basename "$f" .json)
    if grep -q '"extract": *true' "$f"; then
      ./build/bin/extract "$id" "$REPO" > "lean/BfeVerif/Generated/$id.lean.tmp" && mv "lean/BfeVerif/Generated/$id.lean.tmp" "lean/BfeVerif/Generated/$id.lean" || echo "setup: extract $id failed"
    fi
  done
fi
cd lean || exit 1
# build everything in one go (parallel); fall back to per-property builds so one broken property cannot block the others
if ! lake build BfeVerif $(ls BfeVerif | grep -E '^C[0-9][0-9]$' | while read d; do [ -f BfeVerif/$d/Main.lean ] && echo drv_$(echo $d | tr A-Z a-z); done) >/dev/null 2>&1; then
  for d in $(ls BfeVerif | grep -E '^C[0-9][0-9]$'); do
    lake build BfeVerif.$d.Props >/dev/null 2>&1 || echo "setup: BfeVerif.$d.Props does not build"
    [ -f BfeVerif/$d/Main.lean ] && { lake build drv_$(echo $d | tr A-Z a-z) >/dev/null 2>&1 || echo "setup: driver $d does not build"; }
  done
fi
cd ../harness || exit 1
cp /repo/go.sum go.sum 2>/dev/null
for d in cmd/*/; do
  go build -tags verif -o /dev/null ./$d 2>/dev/null || echo "setup: harness $d does not build"
done
echo "setup done"
exit 0
