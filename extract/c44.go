package main

// C44 facts: the same TLS negotiation facts as C41 (suite table, version constants, the version test of
// checkForResumption), emitted in namespace BfeVerif.Generated.C44 so that C44 is checked on its own.
// The extraction code lives in c41.go (c41TlsNegoFacts).

func init() { register("C44", c41TlsNegoFacts("C44")) }
