package main

// C49 facts: which action commands the code accepts, and which the documentation lists.  Semantic rather than
// syntactic: the command switch is found by following same-package calls from the entry function (ActionFileCheck /
// Do), an arm may yield its parameter count by assignment or by `return n, ...`, counts may be named constants, merged or
// reordered `case` lists give the same (sorted) output.
//
//	bfe_basic/action/action.go   ActionFileCheck: `switch *conf.Cmd { case A, B: paramsLenCheck = n ... default: error }`
//	                              -> basicAccepted : (command string, arity; -1 = any)      (constants resolved)
//	                             Action.Do: the case labels of `switch ac.Cmd`               -> basicDo
//	bfe_modules/mod_rewrite/action.go   keys of `allowActions`                              -> rewriteAllowed
//	bfe_modules/mod_header/action.go    case labels of ActionFileCheck's switch             -> headerAccepted
//	bfe_modules/mod_redirect/action.go  case labels of ActionFileCheck's switch             -> redirectAccepted
//	docs/en_us/modules/mod_{rewrite,header,redirect}/*.md  first column of the table under "### Actions"
//	                                                                                        -> *Documented

import (
	"fmt"
	"go/ast"
	"go/parser"
	"go/token"
	"io/ioutil"
	"os"
	"path/filepath"
	"sort"
	"strings"
)

// c49Pkg: all non-test files of one package directory, with string / integer constants resolved.
type c49Pkg struct {
	funcs  map[string]*ast.FuncDecl
	files  []*ast.File
	strs   map[string]string
	ints   map[string]int64
	values map[string]ast.Expr // package-level var initialisers
}

func c49LoadPkg(repo, dir string) (*c49Pkg, error) {
	p := &c49Pkg{funcs: map[string]*ast.FuncDecl{}, strs: map[string]string{}, ints: map[string]int64{}, values: map[string]ast.Expr{}}
	ents, err := os.ReadDir(filepath.Join(repo, dir))
	if err != nil {
		return nil, err
	}
	fset := token.NewFileSet()
	for _, e := range ents {
		n := e.Name()
		if e.IsDir() || !strings.HasSuffix(n, ".go") || strings.HasSuffix(n, "_test.go") || strings.HasPrefix(n, "zz_verif") {
			continue
		}
		f, err := parser.ParseFile(fset, filepath.Join(repo, dir, n), nil, 0)
		if err != nil {
			return nil, err
		}
		p.files = append(p.files, f)
		for _, d := range f.Decls {
			switch v := d.(type) {
			case *ast.FuncDecl:
				if v.Body != nil {
					if _, dup := p.funcs[v.Name.Name]; !dup {
						p.funcs[v.Name.Name] = v
					}
				}
			case *ast.GenDecl:
				for _, sp := range v.Specs {
					vs, ok := sp.(*ast.ValueSpec)
					if !ok {
						continue
					}
					for i, nm := range vs.Names {
						if i >= len(vs.Values) {
							continue
						}
						if v.Tok == token.VAR {
							p.values[nm.Name] = vs.Values[i]
							continue
						}
						if sv, ok := strLit(vs.Values[i]); ok {
							p.strs[nm.Name] = sv
						} else if iv, ok := c49Int(vs.Values[i], nil); ok {
							p.ints[nm.Name] = iv
						}
					}
				}
			}
		}
	}
	return p, nil
}

func c49Int(e ast.Expr, consts map[string]int64) (int64, bool) {
	switch v := e.(type) {
	case *ast.ParenExpr:
		return c49Int(v.X, consts)
	case *ast.UnaryExpr:
		if v.Op == token.SUB {
			n, ok := c49Int(v.X, consts)
			return -n, ok
		}
	case *ast.Ident:
		n, ok := consts[v.Name]
		return n, ok
	}
	return intLit(e)
}

// str resolves a string literal, a constant of this package, or a constant of package `other` written other.Name.
func (p *c49Pkg) str(e ast.Expr, other *c49Pkg) (string, bool) {
	if s, ok := strLit(e); ok {
		return s, true
	}
	switch v := e.(type) {
	case *ast.ParenExpr:
		return p.str(v.X, other)
	case *ast.Ident:
		s, ok := p.strs[v.Name]
		return s, ok
	case *ast.SelectorExpr:
		if other != nil {
			s, ok := other.strs[v.Sel.Name]
			return s, ok
		}
	}
	return "", false
}

// switches returns every `switch` statement reachable from fn, following calls to functions of the same package
// (depth <= 3, cycle safe).
func (p *c49Pkg) switches(fn *ast.FuncDecl, depth int, seen map[string]bool) []*ast.SwitchStmt {
	var out []*ast.SwitchStmt
	ast.Inspect(fn.Body, func(n ast.Node) bool {
		switch v := n.(type) {
		case *ast.SwitchStmt:
			out = append(out, v)
		case *ast.CallExpr:
			var name string
			switch f := v.Fun.(type) {
			case *ast.Ident:
				name = f.Name
			case *ast.SelectorExpr:
				if x, ok := f.X.(*ast.Ident); ok && x.Obj != nil {
					name = f.Sel.Name
				}
			}
			if fd := p.funcs[name]; fd != nil && depth < 3 && !seen[name] {
				seen[name] = true
				out = append(out, p.switches(fd, depth+1, seen)...)
				delete(seen, name)
			}
		}
		return true
	})
	return out
}

// cmdSwitch picks, among the switches reachable from fn, the one with the most case labels that all resolve to
// strings: the command switch.  Returned: per label the string and the case clause it belongs to.
func (p *c49Pkg) cmdSwitch(fn *ast.FuncDecl, other *c49Pkg) (labels []string, clauses []*ast.CaseClause) {
	for _, sw := range p.switches(fn, 0, map[string]bool{fn.Name.Name: true}) {
		var ls []string
		var cs []*ast.CaseClause
		ok := true
		for _, c := range sw.Body.List {
			cc := c.(*ast.CaseClause)
			for _, e := range cc.List {
				s, isStr := p.str(e, other)
				if !isStr {
					ok = false
				}
				ls = append(ls, s)
				cs = append(cs, cc)
			}
		}
		if ok && len(ls) > len(labels) {
			labels, clauses = ls, cs
		}
	}
	return
}

// arity: the number a command-switch arm yields: `<local> = n` or `return n[, ...]` (n literal, -literal or constant).
func (p *c49Pkg) arity(cc *ast.CaseClause) (int64, bool) {
	for _, st := range cc.Body {
		switch s := st.(type) {
		case *ast.AssignStmt:
			if len(s.Lhs) == 1 && len(s.Rhs) == 1 {
				if _, ok := s.Lhs[0].(*ast.Ident); ok {
					if n, ok := c49Int(s.Rhs[0], p.ints); ok {
						return n, true
					}
				}
			}
		case *ast.ReturnStmt:
			if len(s.Results) >= 1 {
				if n, ok := c49Int(s.Results[0], p.ints); ok {
					return n, true
				}
			}
		}
	}
	return 0, false
}

func c49DocActions(repo, rel string) ([]string, error) {
	b, err := ioutil.ReadFile(filepath.Join(repo, rel))
	if err != nil {
		return nil, err
	}
	var out []string
	in := false
	for _, line := range strings.Split(string(b), "\n") {
		t := strings.TrimSpace(line)
		if strings.HasPrefix(t, "#") {
			in = t == "### Actions"
			continue
		}
		if !in || !strings.HasPrefix(t, "|") {
			continue
		}
		cells := strings.Split(strings.Trim(t, "|"), "|")
		c := strings.TrimSpace(cells[0])
		if c == "" || c == "Action" || strings.HasPrefix(c, "-") {
			continue
		}
		out = append(out, c)
	}
	if len(out) == 0 {
		return nil, fmt.Errorf("%s: no action table under `### Actions`", rel)
	}
	return out, nil
}

func c49StrList(xs []string) string {
	var q []string
	for _, x := range xs {
		q = append(q, leanStr(x))
	}
	return "[" + strings.Join(q, ", ") + "]"
}

func init() {
	register("C49", func(repo string) (string, error) {
		act, err := c49LoadPkg(repo, "bfe_basic/action")
		if err != nil {
			return "", err
		}
		// ActionFileCheck: command -> arity (the switch may live in a helper; arms may be merged or reordered)
		fc := act.funcs["ActionFileCheck"]
		if fc == nil {
			return "", fmt.Errorf("action.ActionFileCheck not found")
		}
		labels, clauses := act.cmdSwitch(fc, nil)
		var accepted []string
		for i, l := range labels {
			n, ok := act.arity(clauses[i])
			if !ok {
				return "", fmt.Errorf("ActionFileCheck: the arm of %s yields no parameter count", l)
			}
			accepted = append(accepted, fmt.Sprintf("(%s, (%d : Int))", leanStr(l), n))
		}
		if len(labels) == 0 {
			// the table as a package-level map literal command -> count
			for _, v := range act.values {
				cl, ok := v.(*ast.CompositeLit)
				if !ok || len(cl.Elts) == 0 {
					continue
				}
				var rows []string
				for _, el := range cl.Elts {
					kv, ok := el.(*ast.KeyValueExpr)
					if !ok {
						rows = nil
						break
					}
					k, ok1 := act.str(kv.Key, nil)
					n, ok2 := c49Int(kv.Value, act.ints)
					if !ok1 || !ok2 {
						rows = nil
						break
					}
					rows = append(rows, fmt.Sprintf("(%s, (%d : Int))", leanStr(k), n))
				}
				if len(rows) > len(accepted) {
					accepted = rows
				}
			}
		}
		if len(accepted) == 0 {
			return "", fmt.Errorf("no command switch / table reachable from action.ActionFileCheck")
		}
		sort.Strings(accepted)
		// Do
		fd := act.funcs["Do"]
		if fd == nil {
			return "", fmt.Errorf("Action.Do not found")
		}
		do, _ := act.cmdSwitch(fd, nil)
		if len(do) == 0 {
			return "", fmt.Errorf("no command switch reachable from Action.Do")
		}
		sort.Strings(do)
		hp, ok := act.strs["HeaderPrefix"]
		if !ok {
			return "", fmt.Errorf("HeaderPrefix constant not found")
		}
		// mod_rewrite allowActions (map / slice literal with action constants as keys or elements)
		rw, err := c49LoadPkg(repo, "bfe_modules/mod_rewrite")
		if err != nil {
			return "", err
		}
		al, ok := rw.values["allowActions"].(*ast.CompositeLit)
		if !ok {
			return "", fmt.Errorf("mod_rewrite.allowActions is not a composite literal")
		}
		var allowed []string
		for _, el := range al.Elts {
			k := el
			if kv, ok := el.(*ast.KeyValueExpr); ok {
				k = kv.Key
			}
			s, ok := rw.str(k, act)
			if !ok {
				return "", fmt.Errorf("allowActions entry is not an action constant")
			}
			allowed = append(allowed, s)
		}
		sort.Strings(allowed)
		labelsOf := func(dir string) ([]string, error) {
			p, err := c49LoadPkg(repo, dir)
			if err != nil {
				return nil, err
			}
			fn := p.funcs["ActionFileCheck"]
			if fn == nil {
				return nil, fmt.Errorf("%s: ActionFileCheck not found", dir)
			}
			ls, _ := p.cmdSwitch(fn, act)
			if len(ls) == 0 {
				return nil, fmt.Errorf("%s: no command switch reachable from ActionFileCheck", dir)
			}
			sort.Strings(ls)
			return ls, nil
		}
		hdr, err := labelsOf("bfe_modules/mod_header")
		if err != nil {
			return "", err
		}
		red, err := labelsOf("bfe_modules/mod_redirect")
		if err != nil {
			return "", err
		}
		// mod_header variables: keys of the VariableHandlers table, and the `%name` entries of the doc's variable table
		hp2, err := c49LoadPkg(repo, "bfe_modules/mod_header")
		if err != nil {
			return "", err
		}
		vh, ok := hp2.values["VariableHandlers"].(*ast.CompositeLit)
		if !ok {
			return "", fmt.Errorf("mod_header.VariableHandlers is not a composite literal")
		}
		var hvars []string
		for _, el := range vh.Elts {
			kv, ok := el.(*ast.KeyValueExpr)
			if !ok {
				return "", fmt.Errorf("VariableHandlers entry is not key: value")
			}
			k, ok := hp2.str(kv.Key, nil)
			if !ok {
				return "", fmt.Errorf("VariableHandlers key is not a string")
			}
			hvars = append(hvars, k)
		}
		sort.Strings(hvars)
		mdb, err := ioutil.ReadFile(filepath.Join(repo, "docs/en_us/modules/mod_header/mod_header.md"))
		if err != nil {
			return "", err
		}
		var dvars []string
		for _, line := range strings.Split(string(mdb), "\n") {
			t := strings.TrimSpace(line)
			if !strings.HasPrefix(t, "|") {
				continue
			}
			c := strings.TrimSpace(strings.Split(strings.Trim(t, "|"), "|")[0])
			if strings.HasPrefix(c, "%") && len(c) > 1 {
				dvars = append(dvars, c[1:])
			}
		}
		sort.Strings(dvars)
		if len(dvars) == 0 {
			return "", fmt.Errorf("mod_header.md: no `| %%variable |` rows")
		}
		dRw, err := c49DocActions(repo, "docs/en_us/modules/mod_rewrite/mod_rewrite.md")
		if err != nil {
			return "", err
		}
		dHd, err := c49DocActions(repo, "docs/en_us/modules/mod_header/mod_header.md")
		if err != nil {
			return "", err
		}
		dRd, err := c49DocActions(repo, "docs/en_us/modules/mod_redirect/mod_redirect.md")
		if err != nil {
			return "", err
		}
		var b strings.Builder
		b.WriteString(header("C49", "bfe_basic/action/*.go", "bfe_modules/mod_{rewrite,header,redirect}/*.go", "docs/en_us/modules/mod_{rewrite,header,redirect}/*.md"))
		fmt.Fprintf(&b, "/-- the command switch reachable from action.ActionFileCheck, sorted: (command, number of params; -1 = any); everything else is `invalid cmd` -/\ndef basicAccepted : List (String × Int) := [\n  %s\n]\n\n", strings.Join(accepted, ",\n  "))
		fmt.Fprintf(&b, "/-- commands of the switch reachable from Action.Do, sorted -/\ndef basicDo : List String := %s\n\n", c49StrList(do))
		fmt.Fprintf(&b, "/-- action.HeaderPrefix -/\ndef headerPrefix : String := %s\n\n", leanStr(hp))
		fmt.Fprintf(&b, "/-- entries of mod_rewrite.allowActions, sorted -/\ndef rewriteAllowed : List String := %s\n\n", c49StrList(allowed))
		fmt.Fprintf(&b, "/-- commands of mod_header.ActionFileCheck, sorted -/\ndef headerAccepted : List String := %s\n\n", c49StrList(hdr))
		fmt.Fprintf(&b, "/-- commands of mod_redirect.ActionFileCheck, sorted -/\ndef redirectAccepted : List String := %s\n\n", c49StrList(red))
		fmt.Fprintf(&b, "/-- docs/en_us/modules/mod_rewrite/mod_rewrite.md, table `### Actions` -/\ndef rewriteDocumented : List String := %s\n\n", c49StrList(dRw))
		fmt.Fprintf(&b, "/-- docs/en_us/modules/mod_header/mod_header.md, table `### Actions` -/\ndef headerDocumented : List String := %s\n\n", c49StrList(dHd))
		fmt.Fprintf(&b, "/-- docs/en_us/modules/mod_redirect/mod_redirect.md, table `### Actions` -/\ndef redirectDocumented : List String := %s\n", c49StrList(dRd))
		fmt.Fprintf(&b, "\n/-- keys of mod_header.VariableHandlers, sorted -/\ndef headerVariables : List String := %s\n", c49StrList(hvars))
		fmt.Fprintf(&b, "\n/-- `%%name` rows of the variable table of mod_header.md, sorted -/\ndef headerVariablesDocumented : List String := %s\n", c49StrList(dvars))
		b.WriteString(footer("C49"))
		return b.String(), nil
	})
}
