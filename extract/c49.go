package main

// C49 facts: which action commands the code accepts, and which the documentation lists.
//
//	bfe_basic/action/action.go   ActionFileCheck: `switch *conf.Cmd { case A, B: paramsLenCheck = n ... default: error }`
//	                              -> basicAccepted : (command string, arity; -1 = any)      (constants resolved)
//	                             Action.Do: the case labels of `switch ac.Cmd`               -> basicDo
//	bfe_modules/mod_rewrite/action.go   keys of `allowActions`                              -> rewriteAllowed
//	bfe_modules/mod_header/action.go    case labels of ActionFileCheck's switch             -> headerAccepted
//	bfe_modules/mod_redirect/action.go  case labels of ActionFileCheck's switch             -> redirectAccepted
//	docs/en_us/modules/mod_{rewrite,header,redirect}/*.md  first column of the table under "### Actions"
//	                                                                                        -> *Documented

import (
	"fmt"
	"go/ast"
	"io/ioutil"
	"path/filepath"
	"strings"
)

func c49Consts(f *ast.File) map[string]string {
	m := map[string]string{}
	for _, d := range f.Decls {
		gd, ok := d.(*ast.GenDecl)
		if !ok {
			continue
		}
		for _, s := range gd.Specs {
			vs, ok := s.(*ast.ValueSpec)
			if !ok {
				continue
			}
			for i, n := range vs.Names {
				if i < len(vs.Values) {
					if v, ok := strLit(vs.Values[i]); ok {
						m[n.Name] = v
					}
				}
			}
		}
	}
	return m
}

func c49Resolve(e ast.Expr, consts map[string]string) (string, bool) {
	if s, ok := strLit(e); ok {
		return s, true
	}
	switch v := e.(type) {
	case *ast.Ident:
		s, ok := consts[v.Name]
		return s, ok
	case *ast.SelectorExpr: // action.ActionXxx
		s, ok := consts[v.Sel.Name]
		return s, ok
	}
	return "", false
}

// c49Switch finds the first `switch <tag>` in fn whose tag prints as tag.
func c49Switch(fn *ast.FuncDecl, isTag func(ast.Expr) bool) *ast.SwitchStmt {
	var sw *ast.SwitchStmt
	ast.Inspect(fn.Body, func(n ast.Node) bool {
		if s, ok := n.(*ast.SwitchStmt); ok && sw == nil && s.Tag != nil && isTag(s.Tag) {
			sw = s
			return false
		}
		return true
	})
	return sw
}

func c49DocActions(repo, rel string) ([]string, error) {
	b, err := ioutil.ReadFile(filepath.Join(repo, rel))
	if err != nil {
		return nil, err
	}
	var out []string
	in := false
	for _, line := range strings.Split(string(b), "\n") {
		t := strings.TrimSpace(line)
		if strings.HasPrefix(t, "#") {
			in = t == "### Actions"
			continue
		}
		if !in || !strings.HasPrefix(t, "|") {
			continue
		}
		cells := strings.Split(strings.Trim(t, "|"), "|")
		c := strings.TrimSpace(cells[0])
		if c == "" || c == "Action" || strings.HasPrefix(c, "-") {
			continue
		}
		out = append(out, c)
	}
	if len(out) == 0 {
		return nil, fmt.Errorf("%s: no action table under `### Actions`", rel)
	}
	return out, nil
}

func c49StrList(xs []string) string {
	var q []string
	for _, x := range xs {
		q = append(q, leanStr(x))
	}
	return "[" + strings.Join(q, ", ") + "]"
}

func init() {
	register("C49", func(repo string) (string, error) {
		_, af, err := parseFile(repo, "bfe_basic/action/action.go")
		if err != nil {
			return "", err
		}
		consts := c49Consts(af)
		// ActionFileCheck
		fc := findFunc(af, "", "ActionFileCheck")
		if fc == nil {
			return "", fmt.Errorf("action.ActionFileCheck not found")
		}
		isStarCmd := func(e ast.Expr) bool {
			st, ok := e.(*ast.StarExpr)
			if !ok {
				return false
			}
			se, ok := st.X.(*ast.SelectorExpr)
			return ok && se.Sel.Name == "Cmd"
		}
		sw := c49Switch(fc, isStarCmd)
		if sw == nil {
			return "", fmt.Errorf("`switch *conf.Cmd` not found in ActionFileCheck")
		}
		var accepted []string
		hasDefaultErr := false
		for _, c := range sw.Body.List {
			cc := c.(*ast.CaseClause)
			if cc.List == nil {
				if len(cc.Body) == 1 {
					if _, ok := cc.Body[0].(*ast.ReturnStmt); ok {
						hasDefaultErr = true
					}
				}
				continue
			}
			if len(cc.Body) != 1 {
				return "", fmt.Errorf("ActionFileCheck: a case arm is not a single `paramsLenCheck = n`")
			}
			as, ok := cc.Body[0].(*ast.AssignStmt)
			if !ok || len(as.Lhs) != 1 || len(as.Rhs) != 1 {
				return "", fmt.Errorf("ActionFileCheck: a case arm is not `paramsLenCheck = n`")
			}
			if id, ok := as.Lhs[0].(*ast.Ident); !ok || id.Name != "paramsLenCheck" {
				return "", fmt.Errorf("ActionFileCheck: a case arm assigns something else than paramsLenCheck")
			}
			var n int64
			if u, ok := as.Rhs[0].(*ast.UnaryExpr); ok {
				v, ok2 := intLit(u.X)
				if !ok2 {
					return "", fmt.Errorf("ActionFileCheck: arity is not an integer literal")
				}
				n = -v
			} else {
				v, ok2 := intLit(as.Rhs[0])
				if !ok2 {
					return "", fmt.Errorf("ActionFileCheck: arity is not an integer literal")
				}
				n = v
			}
			for _, e := range cc.List {
				s, ok := c49Resolve(e, consts)
				if !ok {
					return "", fmt.Errorf("ActionFileCheck: case label is not a string constant")
				}
				accepted = append(accepted, fmt.Sprintf("(%s, (%d : Int))", leanStr(s), n))
			}
		}
		if !hasDefaultErr {
			return "", fmt.Errorf("ActionFileCheck: `default: return error` is gone")
		}
		// Do
		fd := findFunc(af, "Action", "Do")
		if fd == nil {
			return "", fmt.Errorf("Action.Do not found")
		}
		sd := c49Switch(fd, func(e ast.Expr) bool {
			se, ok := e.(*ast.SelectorExpr)
			return ok && se.Sel.Name == "Cmd"
		})
		if sd == nil {
			return "", fmt.Errorf("`switch ac.Cmd` not found in Action.Do")
		}
		var do []string
		for _, c := range sd.Body.List {
			for _, e := range c.(*ast.CaseClause).List {
				s, ok := c49Resolve(e, consts)
				if !ok {
					return "", fmt.Errorf("Action.Do: case label is not a string constant")
				}
				do = append(do, s)
			}
		}
		// header prefix
		hp, ok := consts["HeaderPrefix"]
		if !ok {
			return "", fmt.Errorf("HeaderPrefix constant not found")
		}
		// mod_rewrite allowActions
		_, rf, err := parseFile(repo, "bfe_modules/mod_rewrite/action.go")
		if err != nil {
			return "", err
		}
		al, ok := findValue(rf, "allowActions").(*ast.CompositeLit)
		if !ok {
			return "", fmt.Errorf("mod_rewrite.allowActions is not a composite literal")
		}
		var allowed []string
		for _, el := range al.Elts {
			kv, ok := el.(*ast.KeyValueExpr)
			if !ok {
				return "", fmt.Errorf("allowActions element is not key: value")
			}
			s, ok := c49Resolve(kv.Key, consts)
			if !ok {
				return "", fmt.Errorf("allowActions key is not an action constant")
			}
			allowed = append(allowed, s)
		}
		// mod_header / mod_redirect
		labels := func(rel string) ([]string, error) {
			_, f, err := parseFile(repo, rel)
			if err != nil {
				return nil, err
			}
			lc := c49Consts(f)
			fn := findFunc(f, "", "ActionFileCheck")
			if fn == nil {
				return nil, fmt.Errorf("%s: ActionFileCheck not found", rel)
			}
			s := c49Switch(fn, isStarCmd)
			if s == nil {
				return nil, fmt.Errorf("%s: `switch *conf.Cmd` not found", rel)
			}
			var out []string
			for _, c := range s.Body.List {
				for _, e := range c.(*ast.CaseClause).List {
					v, ok := c49Resolve(e, lc)
					if !ok {
						// constants may live in another file of the package (cookie actions)
						if id, ok2 := e.(*ast.Ident); ok2 {
							v, ok = "const:"+id.Name, true
						}
					}
					if !ok {
						return nil, fmt.Errorf("%s: case label is not a string", rel)
					}
					out = append(out, v)
				}
			}
			return out, nil
		}
		hdr, err := labels("bfe_modules/mod_header/action.go")
		if err != nil {
			return "", err
		}
		red, err := labels("bfe_modules/mod_redirect/action.go")
		if err != nil {
			return "", err
		}
		dRw, err := c49DocActions(repo, "docs/en_us/modules/mod_rewrite/mod_rewrite.md")
		if err != nil {
			return "", err
		}
		dHd, err := c49DocActions(repo, "docs/en_us/modules/mod_header/mod_header.md")
		if err != nil {
			return "", err
		}
		dRd, err := c49DocActions(repo, "docs/en_us/modules/mod_redirect/mod_redirect.md")
		if err != nil {
			return "", err
		}
		var b strings.Builder
		b.WriteString(header("C49", "bfe_basic/action/action.go", "bfe_modules/mod_{rewrite,header,redirect}/action.go", "docs/en_us/modules/mod_{rewrite,header,redirect}/*.md"))
		fmt.Fprintf(&b, "/-- arms of `switch *conf.Cmd` in action.ActionFileCheck: (command, number of params; -1 = any); everything else is `invalid cmd` -/\ndef basicAccepted : List (String × Int) := [\n  %s\n]\n\n", strings.Join(accepted, ",\n  "))
		fmt.Fprintf(&b, "/-- case labels of `switch ac.Cmd` in Action.Do -/\ndef basicDo : List String := %s\n\n", c49StrList(do))
		fmt.Fprintf(&b, "/-- action.HeaderPrefix -/\ndef headerPrefix : String := %s\n\n", leanStr(hp))
		fmt.Fprintf(&b, "/-- keys of mod_rewrite.allowActions -/\ndef rewriteAllowed : List String := %s\n\n", c49StrList(allowed))
		fmt.Fprintf(&b, "/-- case labels of mod_header.ActionFileCheck -/\ndef headerAccepted : List String := %s\n\n", c49StrList(hdr))
		fmt.Fprintf(&b, "/-- case labels of mod_redirect.ActionFileCheck -/\ndef redirectAccepted : List String := %s\n\n", c49StrList(red))
		fmt.Fprintf(&b, "/-- docs/en_us/modules/mod_rewrite/mod_rewrite.md, table `### Actions` -/\ndef rewriteDocumented : List String := %s\n\n", c49StrList(dRw))
		fmt.Fprintf(&b, "/-- docs/en_us/modules/mod_header/mod_header.md, table `### Actions` -/\ndef headerDocumented : List String := %s\n\n", c49StrList(dHd))
		fmt.Fprintf(&b, "/-- docs/en_us/modules/mod_redirect/mod_redirect.md, table `### Actions` -/\ndef redirectDocumented : List String := %s\n", c49StrList(dRd))
		b.WriteString(footer("C49"))
		return b.String(), nil
	})
}
