package main

// C15: lock-discipline facts for BfeServer.ServerConf — every syntactic access `X.ServerConf` in package
// bfe_server (non-test, non-verif files), with the function it occurs in, whether it is a write (left side of an
// assignment) and which confLock mode is held at that point (linear scan of the function body in source order:
// confLock.Lock → 2, confLock.RLock → 1, Unlock/RUnlock → 0; `defer …Unlock()` keeps the lock to the end).

import (
	"fmt"
	"go/ast"
	"go/parser"
	"go/token"
	"os"
	"path/filepath"
	"sort"
	"strings"
)

func init() {
	register("C15", func(repo string) (string, error) {
		dir := filepath.Join(repo, "bfe_server")
		ents, err := os.ReadDir(dir)
		if err != nil {
			return "", err
		}
		type acc struct {
			fn    string
			write bool
			mode  int
			file  string
			line  int
		}
		var accs []acc
		type site struct {
			fn, what, file string
			line           int
		}
		var sites []site
		fset := token.NewFileSet()
		sawField := false
		for _, e := range ents {
			n := e.Name()
			if !strings.HasSuffix(n, ".go") || strings.HasSuffix(n, "_test.go") || strings.HasPrefix(n, "zz_verif") {
				continue
			}
			f, err := parser.ParseFile(fset, filepath.Join(dir, n), nil, 0)
			if err != nil {
				return "", err
			}
			// the field must still be declared next to confLock
			ast.Inspect(f, func(x ast.Node) bool {
				if st, ok := x.(*ast.StructType); ok {
					hasLock, hasConf := false, false
					for _, fl := range st.Fields.List {
						for _, nm := range fl.Names {
							if nm.Name == "confLock" {
								hasLock = true
							}
							if nm.Name == "ServerConf" {
								hasConf = true
							}
						}
					}
					if hasLock && hasConf {
						sawField = true
					}
				}
				return true
			})
			for _, d := range f.Decls {
				fd, ok := d.(*ast.FuncDecl)
				if !ok || fd.Body == nil {
					continue
				}
				// receiver-qualified name, e.g. "ReverseProxy.ServeHTTP", "conn.readRequest", "newConn"
				qual := fd.Name.Name
				if fd.Recv != nil && len(fd.Recv.List) == 1 {
					t := fd.Recv.List[0].Type
					if st, ok := t.(*ast.StarExpr); ok {
						t = st.X
					}
					if id, ok := t.(*ast.Ident); ok {
						qual = id.Name + "." + fd.Name.Name
					}
				}
				ast.Inspect(fd.Body, func(x ast.Node) bool {
					switch v := x.(type) {
					case *ast.CallExpr:
						if sel, ok := v.Fun.(*ast.SelectorExpr); ok && sel.Sel.Name == "GetServerConf" {
							sites = append(sites, site{qual, "GetServerConf", n, fset.Position(v.Pos()).Line})
						}
					case *ast.SelectorExpr:
						if v.Sel.Name == "ServerConf" {
							sites = append(sites, site{qual, "ServerConf", n, fset.Position(v.Pos()).Line})
						}
						if v.Sel.Name == "GetServerConf" {
							// method value (not a call) would escape the call scan: record it as well
							sites = append(sites, site{qual, "GetServerConf-ref", n, fset.Position(v.Pos()).Line})
						}
					}
					return true
				})
				type ev struct {
					pos  token.Pos
					kind int // 0 access-read, 1 access-write, 2 Lock, 3 RLock, 4 Unlock
				}
				var evs []ev
				writes := map[ast.Expr]bool{}
				deferred := map[ast.Node]bool{}
				ast.Inspect(fd.Body, func(x ast.Node) bool {
					switch v := x.(type) {
					case *ast.AssignStmt:
						for _, l := range v.Lhs {
							writes[l] = true
						}
					case *ast.DeferStmt:
						deferred[v.Call] = true
					case *ast.FuncLit:
						// closures run at unknown times: treat their body as holding no lock
						return true
					}
					return true
				})
				ast.Inspect(fd.Body, func(x ast.Node) bool {
					switch v := x.(type) {
					case *ast.CallExpr:
						if sel, ok := v.Fun.(*ast.SelectorExpr); ok {
							if in, ok := sel.X.(*ast.SelectorExpr); ok && in.Sel.Name == "confLock" {
								switch sel.Sel.Name {
								case "Lock":
									evs = append(evs, ev{v.Pos(), 2})
								case "RLock":
									evs = append(evs, ev{v.Pos(), 3})
								case "Unlock", "RUnlock":
									if !deferred[v] {
										evs = append(evs, ev{v.Pos(), 4})
									}
								}
							}
						}
					case *ast.SelectorExpr:
						if v.Sel.Name == "ServerConf" {
							k := 0
							if writes[v] {
								k = 1
							}
							evs = append(evs, ev{v.Pos(), k})
						}
					}
					return true
				})
				sort.Slice(evs, func(i, j int) bool { return evs[i].pos < evs[j].pos })
				mode := 0
				for _, e := range evs {
					switch e.kind {
					case 2:
						mode = 2
					case 3:
						mode = 1
					case 4:
						mode = 0
					default:
						accs = append(accs, acc{fd.Name.Name, e.kind == 1, mode, n, fset.Position(e.pos).Line})
					}
				}
			}
		}
		if !sawField {
			return "", fmt.Errorf("bfe_server: struct with fields confLock and ServerConf not found")
		}
		if len(accs) == 0 {
			return "", fmt.Errorf("bfe_server: no access to ServerConf found")
		}
		sort.Slice(accs, func(i, j int) bool {
			if accs[i].file != accs[j].file {
				return accs[i].file < accs[j].file
			}
			return accs[i].line < accs[j].line
		})
		var b strings.Builder
		b.WriteString(header("C15", "bfe_server/*.go"))
		b.WriteString("/-- every access `X.ServerConf` in package bfe_server: (function, isWrite, confLock mode held: 0 none / 1 RLock / 2 Lock) -/\n")
		b.WriteString("def accesses : List (String × Bool × Nat) := [\n")
		for i, a := range accs {
			sep := ","
			if i == len(accs)-1 {
				sep = ""
			}
			fmt.Fprintf(&b, "  (%s, %v, %d)%s  -- %s:%d\n", leanStr(a.fn), a.write, a.mode, sep, a.file, a.line)
		}
		b.WriteString("]\n\n")
		// a call X.GetServerConf() is seen twice (call + selector): keep the call only
		var ss []site
		for _, x := range sites {
			if x.what == "GetServerConf-ref" {
				dup := false
				for _, y := range sites {
					if y.what == "GetServerConf" && y.file == x.file && y.line == x.line {
						dup = true
					}
				}
				if dup {
					continue
				}
			}
			ss = append(ss, x)
		}
		sort.Slice(ss, func(i, j int) bool {
			if ss[i].file != ss[j].file {
				return ss[i].file < ss[j].file
			}
			return ss[i].line < ss[j].line
		})
		b.WriteString("/-- every place in package bfe_server where the CURRENT server data conf is obtained: a call of\n    `GetServerConf()` or a direct access `X.ServerConf`: (receiver-qualified function, what) -/\n")
		b.WriteString("def snapshotSites : List (String × String) := [\n")
		for i, a := range ss {
			sep := ","
			if i == len(ss)-1 {
				sep = ""
			}
			fmt.Fprintf(&b, "  (%s, %s)%s  -- %s:%d\n", leanStr(a.fn), leanStr(a.what), sep, a.file, a.line)
		}
		b.WriteString("]\n")
		b.WriteString(footer("C15"))
		return b.String(), nil
	})
}
