package main

// C15: lock-discipline facts for BfeServer.ServerConf — every syntactic access `X.ServerConf` in package
// bfe_server (non-test, non-verif files), with the function it occurs in, whether it is a write (left side of an
// assignment) and which confLock mode is held at that point (linear scan of the function body in source order:
// confLock.Lock → 2, confLock.RLock → 1, Unlock/RUnlock → 0; `defer …Unlock()` keeps the lock to the end).

import (
	"fmt"
	"go/ast"
	"go/parser"
	"go/token"
	"os"
	"path/filepath"
	"sort"
	"strings"
)

// ---- lock exits: for every function of the reload / balancer-table code that takes a mutex itself, every way out of
// the function (each `return` and the end of the body) with the number of locks still held there and whether a
// deferred Unlock covers it.  Structural walk: a branch that returns does not affect the code after it.

type lockExit struct {
	fn       string
	line     int
	released bool
}

func lockCallKind(e ast.Expr) int { // +1 Lock/RLock, -1 Unlock/RUnlock, 0 other
	c, ok := e.(*ast.CallExpr)
	if !ok {
		return 0
	}
	sel, ok := c.Fun.(*ast.SelectorExpr)
	if !ok || len(c.Args) != 0 {
		return 0
	}
	switch sel.Sel.Name {
	case "Lock", "RLock":
		return 1
	case "Unlock", "RUnlock":
		return -1
	}
	return 0
}

type lockWalker struct {
	fset     *token.FileSet
	fn       string
	deferred bool
	exits    []lockExit
	locks    int
}

// walk returns (held after the list, terminated)
func (w *lockWalker) walk(stmts []ast.Stmt, held int) (int, bool) {
	for _, st := range stmts {
		switch v := st.(type) {
		case *ast.ExprStmt:
			k := lockCallKind(v.X)
			if k > 0 {
				w.locks++
			}
			held += k
		case *ast.DeferStmt:
			if lockCallKind(v.Call) < 0 {
				w.deferred = true
			}
		case *ast.ReturnStmt:
			w.exits = append(w.exits, lockExit{w.fn, w.fset.Position(v.Pos()).Line, held <= 0 || w.deferred})
			return held, true
		case *ast.BlockStmt:
			h, t := w.walk(v.List, held)
			if t {
				return h, true
			}
			held = h
		case *ast.IfStmt:
			h1, t1 := w.walk(v.Body.List, held)
			h2, t2 := held, false
			if v.Else != nil {
				switch e := v.Else.(type) {
				case *ast.BlockStmt:
					h2, t2 = w.walk(e.List, held)
				case *ast.IfStmt:
					h2, t2 = w.walk([]ast.Stmt{e}, held)
				}
			}
			switch {
			case t1 && t2:
				return held, true
			case t1:
				held = h2
			case t2:
				held = h1
			default:
				if h1 > h2 {
					held = h1
				} else {
					held = h2
				}
			}
		case *ast.ForStmt:
			h, _ := w.walk(v.Body.List, held)
			if h > held {
				held = h
			}
		case *ast.RangeStmt:
			h, _ := w.walk(v.Body.List, held)
			if h > held {
				held = h
			}
		case *ast.SwitchStmt:
			for _, c := range v.Body.List {
				if cc, ok := c.(*ast.CaseClause); ok {
					h, t := w.walk(cc.Body, held)
					if !t && h > held {
						held = h
					}
				}
			}
		case *ast.TypeSwitchStmt:
			for _, c := range v.Body.List {
				if cc, ok := c.(*ast.CaseClause); ok {
					h, t := w.walk(cc.Body, held)
					if !t && h > held {
						held = h
					}
				}
			}
		case *ast.LabeledStmt:
			h, t := w.walk([]ast.Stmt{v.Stmt}, held)
			if t {
				return h, true
			}
			held = h
		}
	}
	return held, false
}

func lockExitsOf(repo string, rels []string) ([]lockExit, error) {
	var out []lockExit
	fset := token.NewFileSet()
	for _, rel := range rels {
		f, err := parser.ParseFile(fset, filepath.Join(repo, rel), nil, 0)
		if err != nil {
			return nil, err
		}
		for _, d := range f.Decls {
			fd, ok := d.(*ast.FuncDecl)
			if !ok || fd.Body == nil {
				continue
			}
			name := fd.Name.Name
			if fd.Recv != nil && len(fd.Recv.List) == 1 {
				t := fd.Recv.List[0].Type
				if st, ok := t.(*ast.StarExpr); ok {
					t = st.X
				}
				if id, ok := t.(*ast.Ident); ok {
					name = id.Name + "." + name
				}
			}
			w := &lockWalker{fset: fset, fn: filepath.Base(rel) + ":" + name}
			h, term := w.walk(fd.Body.List, 0)
			if !term {
				w.exits = append(w.exits, lockExit{w.fn, fset.Position(fd.Body.Rbrace).Line, h <= 0 || w.deferred})
			}
			if w.locks > 0 { // only functions that take a lock themselves
				out = append(out, w.exits...)
			}
		}
	}
	return out, nil
}

func init() {
	register("C15", func(repo string) (string, error) {
		dir := filepath.Join(repo, "bfe_server")
		ents, err := os.ReadDir(dir)
		if err != nil {
			return "", err
		}
		type acc struct {
			fn    string
			write bool
			mode  int
			file  string
			line  int
		}
		var accs []acc
		type site struct {
			fn, what, file string
			line           int
		}
		var sites []site
		fset := token.NewFileSet()
		sawField := false
		for _, e := range ents {
			n := e.Name()
			if !strings.HasSuffix(n, ".go") || strings.HasSuffix(n, "_test.go") || strings.HasPrefix(n, "zz_verif") {
				continue
			}
			f, err := parser.ParseFile(fset, filepath.Join(dir, n), nil, 0)
			if err != nil {
				return "", err
			}
			// the field must still be declared next to confLock
			ast.Inspect(f, func(x ast.Node) bool {
				if st, ok := x.(*ast.StructType); ok {
					hasLock, hasConf := false, false
					for _, fl := range st.Fields.List {
						for _, nm := range fl.Names {
							if nm.Name == "confLock" {
								hasLock = true
							}
							if nm.Name == "ServerConf" {
								hasConf = true
							}
						}
					}
					if hasLock && hasConf {
						sawField = true
					}
				}
				return true
			})
			for _, d := range f.Decls {
				fd, ok := d.(*ast.FuncDecl)
				if !ok || fd.Body == nil {
					continue
				}
				// receiver-qualified name, e.g. "ReverseProxy.ServeHTTP", "conn.readRequest", "newConn"
				qual := fd.Name.Name
				if fd.Recv != nil && len(fd.Recv.List) == 1 {
					t := fd.Recv.List[0].Type
					if st, ok := t.(*ast.StarExpr); ok {
						t = st.X
					}
					if id, ok := t.(*ast.Ident); ok {
						qual = id.Name + "." + fd.Name.Name
					}
				}
				ast.Inspect(fd.Body, func(x ast.Node) bool {
					switch v := x.(type) {
					case *ast.CallExpr:
						if sel, ok := v.Fun.(*ast.SelectorExpr); ok && sel.Sel.Name == "GetServerConf" {
							sites = append(sites, site{qual, "GetServerConf", n, fset.Position(v.Pos()).Line})
						}
					case *ast.SelectorExpr:
						if v.Sel.Name == "ServerConf" {
							sites = append(sites, site{qual, "ServerConf", n, fset.Position(v.Pos()).Line})
						}
						if v.Sel.Name == "GetServerConf" {
							// method value (not a call) would escape the call scan: record it as well
							sites = append(sites, site{qual, "GetServerConf-ref", n, fset.Position(v.Pos()).Line})
						}
					}
					return true
				})
				type ev struct {
					pos  token.Pos
					kind int // 0 access-read, 1 access-write, 2 Lock, 3 RLock, 4 Unlock
				}
				var evs []ev
				writes := map[ast.Expr]bool{}
				deferred := map[ast.Node]bool{}
				ast.Inspect(fd.Body, func(x ast.Node) bool {
					switch v := x.(type) {
					case *ast.AssignStmt:
						for _, l := range v.Lhs {
							writes[l] = true
						}
					case *ast.DeferStmt:
						deferred[v.Call] = true
					case *ast.FuncLit:
						// closures run at unknown times: treat their body as holding no lock
						return true
					}
					return true
				})
				ast.Inspect(fd.Body, func(x ast.Node) bool {
					switch v := x.(type) {
					case *ast.CallExpr:
						if sel, ok := v.Fun.(*ast.SelectorExpr); ok {
							if in, ok := sel.X.(*ast.SelectorExpr); ok && in.Sel.Name == "confLock" {
								switch sel.Sel.Name {
								case "Lock":
									evs = append(evs, ev{v.Pos(), 2})
								case "RLock":
									evs = append(evs, ev{v.Pos(), 3})
								case "Unlock", "RUnlock":
									if !deferred[v] {
										evs = append(evs, ev{v.Pos(), 4})
									}
								}
							}
						}
					case *ast.SelectorExpr:
						if v.Sel.Name == "ServerConf" {
							k := 0
							if writes[v] {
								k = 1
							}
							evs = append(evs, ev{v.Pos(), k})
						}
					}
					return true
				})
				sort.Slice(evs, func(i, j int) bool { return evs[i].pos < evs[j].pos })
				mode := 0
				for _, e := range evs {
					switch e.kind {
					case 2:
						mode = 2
					case 3:
						mode = 1
					case 4:
						mode = 0
					default:
						accs = append(accs, acc{fd.Name.Name, e.kind == 1, mode, n, fset.Position(e.pos).Line})
					}
				}
			}
		}
		if !sawField {
			return "", fmt.Errorf("bfe_server: struct with fields confLock and ServerConf not found")
		}
		if len(accs) == 0 {
			return "", fmt.Errorf("bfe_server: no access to ServerConf found")
		}
		sort.Slice(accs, func(i, j int) bool {
			if accs[i].file != accs[j].file {
				return accs[i].file < accs[j].file
			}
			return accs[i].line < accs[j].line
		})
		var b strings.Builder
		b.WriteString(header("C15", "bfe_server/*.go"))
		b.WriteString("/-- every access `X.ServerConf` in package bfe_server: (function, isWrite, confLock mode held: 0 none / 1 RLock / 2 Lock) -/\n")
		b.WriteString("def accesses : List (String × Bool × Nat) := [\n")
		for i, a := range accs {
			sep := ","
			if i == len(accs)-1 {
				sep = ""
			}
			fmt.Fprintf(&b, "  (%s, %v, %d)%s  -- %s:%d\n", leanStr(a.fn), a.write, a.mode, sep, a.file, a.line)
		}
		b.WriteString("]\n\n")
		// a call X.GetServerConf() is seen twice (call + selector): keep the call only
		var ss []site
		for _, x := range sites {
			if x.what == "GetServerConf-ref" {
				dup := false
				for _, y := range sites {
					if y.what == "GetServerConf" && y.file == x.file && y.line == x.line {
						dup = true
					}
				}
				if dup {
					continue
				}
			}
			ss = append(ss, x)
		}
		sort.Slice(ss, func(i, j int) bool {
			if ss[i].file != ss[j].file {
				return ss[i].file < ss[j].file
			}
			return ss[i].line < ss[j].line
		})
		b.WriteString("/-- every place in package bfe_server where the CURRENT server data conf is obtained: a call of\n    `GetServerConf()` or a direct access `X.ServerConf`: (receiver-qualified function, what) -/\n")
		b.WriteString("def snapshotSites : List (String × String) := [\n")
		for i, a := range ss {
			sep := ","
			if i == len(ss)-1 {
				sep = ""
			}
			fmt.Fprintf(&b, "  (%s, %s)%s  -- %s:%d\n", leanStr(a.fn), leanStr(a.what), sep, a.file, a.line)
		}
		b.WriteString("]\n\n")
		exits, err := lockExitsOf(repo, []string{"bfe_balance/bal_table.go", "bfe_balance/bal_gslb/bal_gslb.go",
			"bfe_server/bfe_confdata_load.go", "bfe_server/bfe_server.go", "bfe_server/reverseproxy.go", "bfe_route/bfe_cluster/bfe_cluster.go"})
		if err != nil {
			return "", err
		}
		haveReload := false
		for _, e := range exits {
			if e.fn == "bal_table.go:BalTable.BalTableReload" {
				haveReload = true
			}
		}
		if !haveReload {
			return "", fmt.Errorf("bal_table.go: BalTable.BalTableReload no longer takes a lock itself")
		}
		b.WriteString("/-- every exit (return statement / end of body, by line) of every function of the reload and balancer-table code\n    that takes a mutex itself: (file:function, line, no lock held there or a deferred Unlock covers it) -/\n")
		b.WriteString("def lockExits : List (String × Nat × Bool) := [\n")
		for i, e := range exits {
			sep := ","
			if i == len(exits)-1 {
				sep = ""
			}
			fmt.Fprintf(&b, "  (%s, %d, %v)%s\n", leanStr(e.fn), e.line, e.released, sep)
		}
		b.WriteString("]\n")
		b.WriteString(footer("C15"))
		return b.String(), nil
	})
}
