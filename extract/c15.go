package main

// C15: facts about the reload / snapshot code, extracted SEMANTICALLY (same-package helpers are followed, locals are
// resolved by type, facts are normalised) so that behaviour-preserving rewrites give the identical Generated file:
//
//  accesses   every access `X.ServerConf` in package bfe_server: (function, isWrite, confLock mode held).  The lock mode
//             comes from a structural walk of the function body; a call of a same-package helper whose only effect on
//             the lock count is +1 / -1 (e.g. `srv.lockConf()`) counts as Lock / Unlock.  Helpers reachable ONLY from
//             InitDataLoad (start-up, before any listener) are reported under "InitDataLoad".  Sorted, de-duplicated.
//  pathSites  for the request-path functions and the request-entry functions: how many places that obtain the
//             CURRENT server data conf (a call of GetServerConf() or an access of .ServerConf) are reachable from them
//             through same-package calls (methods resolved by receiver type).
//  lockExits  for every function of the reload / balancer-table code that takes a mutex (itself or through a helper):
//             every way out (each return, the end of the body) and whether the mutex is released there (no Lock still
//             open, or a deferred Unlock / deferred unlocking helper covers it).  One line per function.

import (
	"fmt"
	"go/ast"
	"go/parser"
	"go/token"
	"os"
	"path/filepath"
	"sort"
	"strings"
)

// ---- package model ---------------------------------------------------------------------------------------------

type c15Pkg struct {
	fset      *token.FileSet
	funcs     map[string]*ast.FuncDecl     // qualified name -> decl
	file      map[string]string            // qualified name -> base file name
	methods   map[string]map[string]string // receiver type -> method name -> qualified name
	fieldType map[string]map[string]string // struct type -> field -> named type
	order     []string
}

func namedType(e ast.Expr) string {
	switch v := e.(type) {
	case *ast.StarExpr:
		return namedType(v.X)
	case *ast.ParenExpr:
		return namedType(v.X)
	case *ast.Ident:
		return v.Name
	case *ast.SelectorExpr: // other package: pkg.Type
		if id, ok := v.X.(*ast.Ident); ok {
			return id.Name + "." + v.Sel.Name
		}
	}
	return ""
}

func c15Load(dir string, only []string) (*c15Pkg, error) {
	p := &c15Pkg{fset: token.NewFileSet(), funcs: map[string]*ast.FuncDecl{}, file: map[string]string{},
		methods: map[string]map[string]string{}, fieldType: map[string]map[string]string{}}
	ents, err := os.ReadDir(dir)
	if err != nil {
		return nil, err
	}
	want := map[string]bool{}
	for _, o := range only {
		want[o] = true
	}
	for _, e := range ents {
		n := e.Name()
		if !strings.HasSuffix(n, ".go") || strings.HasSuffix(n, "_test.go") || strings.HasPrefix(n, "zz_verif") {
			continue
		}
		if len(only) > 0 && !want[n] {
			continue
		}
		f, err := parser.ParseFile(p.fset, filepath.Join(dir, n), nil, 0)
		if err != nil {
			return nil, err
		}
		for _, d := range f.Decls {
			switch v := d.(type) {
			case *ast.GenDecl:
				for _, s := range v.Specs {
					ts, ok := s.(*ast.TypeSpec)
					if !ok {
						continue
					}
					st, ok := ts.Type.(*ast.StructType)
					if !ok {
						continue
					}
					m := map[string]string{}
					for _, fl := range st.Fields.List {
						t := namedType(fl.Type)
						if len(fl.Names) == 0 && t != "" { // embedded
							parts := strings.Split(t, ".")
							m[parts[len(parts)-1]] = t
						}
						for _, nm := range fl.Names {
							m[nm.Name] = t
						}
					}
					p.fieldType[ts.Name.Name] = m
				}
			case *ast.FuncDecl:
				if v.Body == nil {
					continue
				}
				q := v.Name.Name
				if v.Recv != nil && len(v.Recv.List) == 1 {
					rt := namedType(v.Recv.List[0].Type)
					q = rt + "." + v.Name.Name
					if p.methods[rt] == nil {
						p.methods[rt] = map[string]string{}
					}
					p.methods[rt][v.Name.Name] = q
				}
				p.funcs[q] = v
				p.file[q] = n
				p.order = append(p.order, q)
			}
		}
	}
	sort.Strings(p.order)
	return p, nil
}

// env: identifier -> named type, from receiver, parameters and simple local definitions
func (p *c15Pkg) envOf(fd *ast.FuncDecl) map[string]string {
	env := map[string]string{}
	add := func(fl *ast.FieldList) {
		if fl == nil {
			return
		}
		for _, f := range fl.List {
			t := namedType(f.Type)
			for _, n := range f.Names {
				env[n.Name] = t
			}
		}
	}
	add(fd.Recv)
	add(fd.Type.Params)
	// locals: x := <expr with inferable type>, var x T   (two passes so that chains resolve)
	for pass := 0; pass < 2; pass++ {
		ast.Inspect(fd.Body, func(n ast.Node) bool {
			switch v := n.(type) {
			case *ast.AssignStmt:
				if v.Tok == token.DEFINE && len(v.Lhs) == len(v.Rhs) {
					for i, l := range v.Lhs {
						if id, ok := l.(*ast.Ident); ok {
							if t := p.typeOf(v.Rhs[i], env); t != "" {
								env[id.Name] = t
							}
						}
					}
				}
			case *ast.ValueSpec:
				if v.Type != nil {
					for _, id := range v.Names {
						env[id.Name] = namedType(v.Type)
					}
				}
			}
			return true
		})
	}
	return env
}

func (p *c15Pkg) typeOf(e ast.Expr, env map[string]string) string {
	switch v := e.(type) {
	case *ast.Ident:
		return env[v.Name]
	case *ast.ParenExpr:
		return p.typeOf(v.X, env)
	case *ast.StarExpr:
		return p.typeOf(v.X, env)
	case *ast.UnaryExpr:
		return p.typeOf(v.X, env)
	case *ast.SelectorExpr:
		if t := p.typeOf(v.X, env); t != "" {
			if m, ok := p.fieldType[t]; ok {
				return m[v.Sel.Name]
			}
		}
	}
	return ""
}

// callee resolves a call to a same-package function / method ("" if unknown or foreign)
func (p *c15Pkg) callee(c *ast.CallExpr, env map[string]string) string {
	switch f := c.Fun.(type) {
	case *ast.Ident:
		if _, ok := p.funcs[f.Name]; ok {
			return f.Name
		}
	case *ast.SelectorExpr:
		if t := p.typeOf(f.X, env); t != "" {
			if q, ok := p.methods[t][f.Sel.Name]; ok {
				return q
			}
			// promoted method of an embedded same-package struct
			for _, ft := range p.fieldType[t] {
				if q, ok := p.methods[ft][f.Sel.Name]; ok && p.fieldType[t][ft] == ft {
					return q
				}
			}
		}
	}
	return ""
}

// ---- structural lock walk -----------------------------------------------------------------------------------------

func lockCallKind(e ast.Expr) int { // +1 Lock/RLock, -1 Unlock/RUnlock, 0 other
	c, ok := e.(*ast.CallExpr)
	if !ok {
		return 0
	}
	sel, ok := c.Fun.(*ast.SelectorExpr)
	if !ok || len(c.Args) != 0 {
		return 0
	}
	switch sel.Sel.Name {
	case "Lock", "RLock":
		return 1
	case "Unlock", "RUnlock":
		return -1
	}
	return 0
}

func lockMode(e ast.Expr) int { // 2 Lock, 1 RLock, 0 otherwise
	if c, ok := e.(*ast.CallExpr); ok {
		if sel, ok := c.Fun.(*ast.SelectorExpr); ok && len(c.Args) == 0 {
			switch sel.Sel.Name {
			case "Lock":
				return 2
			case "RLock":
				return 1
			}
		}
	}
	return 0
}

type lockWalker struct {
	p        *c15Pkg
	env      map[string]string
	net      map[string]int // helper -> net lock effect (only helpers with a uniform non-zero effect)
	deferred bool
	exits    []bool // released?
	helds    []int
	locks    int
	onAccess func(pos token.Pos, held int) // called for every statement with the lock count before it
}

// effect of one expression statement on the lock count
func (w *lockWalker) effect(e ast.Expr) int {
	if k := lockCallKind(e); k != 0 {
		return k
	}
	if c, ok := e.(*ast.CallExpr); ok {
		if q := w.p.callee(c, w.env); q != "" {
			return w.net[q]
		}
	}
	return 0
}

// walk returns (held after the list, terminated)
func (w *lockWalker) walk(stmts []ast.Stmt, held int) (int, bool) {
	for _, st := range stmts {
		if w.onAccess != nil {
			w.onAccess(st.Pos(), held)
		}
		switch v := st.(type) {
		case *ast.ExprStmt:
			k := w.effect(v.X)
			if k > 0 {
				w.locks++
			}
			held += k
		case *ast.DeferStmt:
			if w.effect(v.Call) < 0 {
				w.deferred = true
			}
			if fl, ok := v.Call.Fun.(*ast.FuncLit); ok { // defer func() { …Unlock() }()
				h, _ := (&lockWalker{p: w.p, env: w.env, net: w.net}).walk(fl.Body.List, 0)
				if h < 0 {
					w.deferred = true
				}
			}
		case *ast.ReturnStmt:
			w.exits = append(w.exits, held <= 0 || w.deferred)
			w.helds = append(w.helds, held)
			return held, true
		case *ast.BlockStmt:
			h, t := w.walk(v.List, held)
			if t {
				return h, true
			}
			held = h
		case *ast.IfStmt:
			h1, t1 := w.walk(v.Body.List, held)
			h2, t2 := held, false
			if v.Else != nil {
				switch e := v.Else.(type) {
				case *ast.BlockStmt:
					h2, t2 = w.walk(e.List, held)
				case *ast.IfStmt:
					h2, t2 = w.walk([]ast.Stmt{e}, held)
				}
			}
			switch {
			case t1 && t2:
				return held, true
			case t1:
				held = h2
			case t2:
				held = h1
			default:
				if h1 > h2 {
					held = h1
				} else {
					held = h2
				}
			}
		case *ast.ForStmt:
			h, _ := w.walk(v.Body.List, held)
			if h > held {
				held = h
			}
		case *ast.RangeStmt:
			h, _ := w.walk(v.Body.List, held)
			if h > held {
				held = h
			}
		case *ast.SwitchStmt:
			held = w.walkCases(v.Body.List, held)
		case *ast.TypeSwitchStmt:
			held = w.walkCases(v.Body.List, held)
		case *ast.SelectStmt:
			for _, c := range v.Body.List {
				if cc, ok := c.(*ast.CommClause); ok {
					h, t := w.walk(cc.Body, held)
					if !t && h > held {
						held = h
					}
				}
			}
		case *ast.LabeledStmt:
			h, t := w.walk([]ast.Stmt{v.Stmt}, held)
			if t {
				return h, true
			}
			held = h
		}
	}
	return held, false
}

func (w *lockWalker) walkCases(list []ast.Stmt, held int) int {
	out := held
	for _, c := range list {
		if cc, ok := c.(*ast.CaseClause); ok {
			h, t := w.walk(cc.Body, held)
			if !t && h > out {
				out = h
			}
		}
	}
	return out
}

// netEffects: helpers whose every exit leaves the same non-zero lock count and that use no defer
func (p *c15Pkg) netEffects() map[string]int {
	net := map[string]int{}
	for round := 0; round < 3; round++ { // helpers of helpers
		for _, q := range p.order {
			fd := p.funcs[q]
			w := &lockWalker{p: p, env: p.envOf(fd), net: net}
			h, term := w.walk(fd.Body.List, 0)
			if !term {
				w.helds = append(w.helds, h)
			}
			if w.deferred || len(w.helds) == 0 {
				continue
			}
			same := true
			for _, x := range w.helds {
				if x != w.helds[0] {
					same = false
				}
			}
			if same && w.helds[0] != 0 {
				net[q] = w.helds[0]
			}
		}
	}
	return net
}

// ---- call graph -------------------------------------------------------------------------------------------------

func (p *c15Pkg) callees(q string) []string {
	fd := p.funcs[q]
	env := p.envOf(fd)
	seen := map[string]bool{}
	ast.Inspect(fd.Body, func(n ast.Node) bool {
		if c, ok := n.(*ast.CallExpr); ok {
			if t := p.callee(c, env); t != "" {
				seen[t] = true
			}
		}
		return true
	})
	var out []string
	for k := range seen {
		out = append(out, k)
	}
	sort.Strings(out)
	return out
}

// ---- module data swaps: does the reload touch the value it replaced? ------------------------------------------------

func selText(e ast.Expr) string {
	switch v := e.(type) {
	case *ast.Ident:
		return v.Name
	case *ast.SelectorExpr:
		if x := selText(v.X); x != "" {
			return x + "." + v.Sel.Name
		}
	case *ast.ParenExpr:
		return selText(v.X)
	case *ast.StarExpr:
		return selText(v.X)
	}
	return ""
}

// swapFacts: every function of the package that assigns a field of its receiver while holding a mutex (the data
// swap), with whether it also calls a method on / passes on the PREVIOUS value of that field (a local defined from the
// field before the swap, or the field itself before the assignment) — e.g. `old := m.geoDB; …; old.Close()`.
func swapFacts(repo, rel string) ([]string, error) {
	pk, err := c15Load(filepath.Join(repo, rel), nil)
	if err != nil {
		return nil, err
	}
	var out []string
	for _, q := range pk.order {
		fd := pk.funcs[q]
		if fd.Recv == nil || len(fd.Recv.List) != 1 || len(fd.Recv.List[0].Names) != 1 {
			continue
		}
		recv := fd.Recv.List[0].Names[0].Name
		locks := false
		var swaps []struct {
			field string
			pos   token.Pos
		}
		ast.Inspect(fd.Body, func(n ast.Node) bool {
			switch v := n.(type) {
			case *ast.CallExpr:
				if lockCallKind(v) > 0 {
					locks = true
				}
			case *ast.AssignStmt:
				if v.Tok == token.ASSIGN {
					for _, l := range v.Lhs {
						if t := selText(l); strings.HasPrefix(t, recv+".") && strings.Count(t, ".") == 1 {
							swaps = append(swaps, struct {
								field string
								pos   token.Pos
							}{t, v.Pos()})
						}
					}
				}
			}
			return true
		})
		if !locks || len(swaps) == 0 {
			continue
		}
		touches := false
		for _, sw := range swaps {
			olds := map[string]bool{}
			ast.Inspect(fd.Body, func(n ast.Node) bool {
				if v, ok := n.(*ast.AssignStmt); ok && len(v.Lhs) == len(v.Rhs) {
					for i, r := range v.Rhs {
						if selText(r) == sw.field && v.Pos() < sw.pos {
							if id, ok := v.Lhs[i].(*ast.Ident); ok {
								olds[id.Name] = true
							}
						}
					}
				}
				return true
			})
			ast.Inspect(fd.Body, func(n ast.Node) bool {
				c, ok := n.(*ast.CallExpr)
				if !ok {
					return true
				}
				if sel, ok := c.Fun.(*ast.SelectorExpr); ok {
					x := selText(sel.X)
					if olds[x] || (x == sw.field && c.Pos() < sw.pos) {
						touches = true
					}
				}
				for _, a := range c.Args {
					if olds[selText(a)] {
						touches = true
					}
				}
				return true
			})
		}
		out = append(out, fmt.Sprintf("  (%s, %v)", leanStr(filepath.Base(rel)+":"+q), touches))
	}
	sort.Strings(out)
	return out, nil
}

func init() {
	register("C15", func(repo string) (string, error) {
		srvPkg, err := c15Load(filepath.Join(repo, "bfe_server"), nil)
		if err != nil {
			return "", err
		}
		// the field must still be declared next to confLock
		if ft := srvPkg.fieldType["BfeServer"]; ft == nil || ft["ServerConf"] == "" {
			return "", fmt.Errorf("bfe_server: BfeServer.ServerConf not found")
		} else if _, ok := ft["confLock"]; !ok {
			return "", fmt.Errorf("bfe_server: BfeServer.confLock not found")
		}
		net := srvPkg.netEffects()

		// call graph, callers
		callees := map[string][]string{}
		callers := map[string][]string{}
		for _, q := range srvPkg.order {
			callees[q] = srvPkg.callees(q)
			for _, c := range callees[q] {
				callers[c] = append(callers[c], q)
			}
		}
		// start-up only helpers
		startup := map[string]bool{"BfeServer.InitDataLoad": true}
		for changed := true; changed; {
			changed = false
			for _, q := range srvPkg.order {
				if startup[q] || len(callers[q]) == 0 {
					continue
				}
				all := true
				for _, c := range callers[q] {
					if !startup[c] {
						all = false
					}
				}
				if all {
					startup[q] = true
					changed = true
				}
			}
		}

		// (1) accesses of .ServerConf with the lock mode held
		type acc struct {
			fn    string
			write bool
			mode  int
		}
		accSet := map[acc]bool{}
		siteCount := map[string]int{} // direct sites per function (GetServerConf() calls + .ServerConf accesses)
		for _, q := range srvPkg.order {
			fd := srvPkg.funcs[q]
			env := srvPkg.envOf(fd)
			writes := map[ast.Expr]bool{}
			ast.Inspect(fd.Body, func(x ast.Node) bool {
				if v, ok := x.(*ast.AssignStmt); ok {
					for _, l := range v.Lhs {
						writes[l] = true
					}
				}
				return true
			})
			// lock mode per statement start: structural walk records (pos, held); mode (R/W) from the latest Lock kind seen
			type mark struct {
				pos  token.Pos
				held int
			}
			var marks []mark
			w := &lockWalker{p: srvPkg, env: env, net: net}
			w.onAccess = func(pos token.Pos, held int) { marks = append(marks, mark{pos, held}) }
			w.walk(fd.Body.List, 0)
			sort.Slice(marks, func(i, j int) bool { return marks[i].pos < marks[j].pos })
			// kind of the most recent lock call before a position (Lock=2 / RLock=1), also through helpers
			type lk struct {
				pos  token.Pos
				mode int
			}
			var lks []lk
			ast.Inspect(fd.Body, func(x ast.Node) bool {
				if c, ok := x.(*ast.CallExpr); ok {
					if m := lockMode(c); m != 0 {
						lks = append(lks, lk{c.Pos(), m})
					} else if t := srvPkg.callee(c, env); t != "" && net[t] > 0 {
						m := 2
						ast.Inspect(srvPkg.funcs[t].Body, func(y ast.Node) bool {
							if cc, ok := y.(*ast.CallExpr); ok && lockMode(cc) == 1 {
								m = 1
							}
							return true
						})
						lks = append(lks, lk{c.Pos(), m})
					}
				}
				return true
			})
			sort.Slice(lks, func(i, j int) bool { return lks[i].pos < lks[j].pos })
			heldAt := func(pos token.Pos) int {
				h := 0
				for _, m := range marks {
					if m.pos <= pos {
						h = m.held
					}
				}
				if h <= 0 && !w.deferred {
					return 0
				}
				if h <= 0 && w.deferred {
					// lock taken with a deferred unlock: held from the Lock statement on
					h = 0
					for _, l := range lks {
						if l.pos < pos {
							h = 1
						}
					}
					if h == 0 {
						return 0
					}
				}
				mode := 0
				for _, l := range lks {
					if l.pos < pos {
						mode = l.mode
					}
				}
				return mode
			}
			name := fd.Name.Name
			if startup[q] {
				name = "InitDataLoad"
			}
			ast.Inspect(fd.Body, func(x ast.Node) bool {
				switch v := x.(type) {
				case *ast.SelectorExpr:
					if v.Sel.Name == "ServerConf" && srvPkg.typeOf(v.X, env) == "BfeServer" {
						accSet[acc{name, writes[v], heldAt(v.Pos())}] = true
						siteCount[q]++
					}
				case *ast.CallExpr:
					if sel, ok := v.Fun.(*ast.SelectorExpr); ok && sel.Sel.Name == "GetServerConf" {
						siteCount[q]++
					}
				}
				return true
			})
		}
		if len(accSet) == 0 {
			return "", fmt.Errorf("bfe_server: no access to BfeServer.ServerConf found")
		}
		var accs []acc
		for a := range accSet {
			accs = append(accs, a)
		}
		sort.Slice(accs, func(i, j int) bool {
			if accs[i].fn != accs[j].fn {
				return accs[i].fn < accs[j].fn
			}
			if accs[i].write != accs[j].write {
				return !accs[i].write
			}
			return accs[i].mode < accs[j].mode
		})

		// (2) sites reachable from request-path / request-entry functions (GetServerConf itself is a leaf)
		reach := func(root string) int {
			seen := map[string]bool{}
			var dfs func(q string)
			total := 0
			dfs = func(q string) {
				if seen[q] || q == "BfeServer.GetServerConf" {
					return
				}
				seen[q] = true
				total += siteCount[q]
				for _, c := range callees[q] {
					dfs(c)
				}
			}
			dfs(root)
			return total
		}
		roots := []string{"ReverseProxy.ServeHTTP", "ReverseProxy.clusterInvoke", "ReverseProxy.FinishReq", "BfeServer.findProduct",
			"BfeServer.findCluster", "BfeServer.FindLocation", "conn.serveRequest",
			"conn.readRequest", "ProtocolHandler.ServeHTTP", "BfeServer.Balance"}
		for _, must := range []string{"ReverseProxy.ServeHTTP", "conn.readRequest", "BfeServer.findCluster", "BfeServer.findProduct"} {
			if _, ok := srvPkg.funcs[must]; !ok {
				return "", fmt.Errorf("bfe_server: function %s not found", must)
			}
		}

		var b strings.Builder
		b.WriteString(header("C15", "bfe_server/*.go", "bfe_balance/bal_table.go", "bfe_balance/bal_gslb/bal_gslb.go", "bfe_route/bfe_cluster/bfe_cluster.go"))
		b.WriteString("/-- every access `X.ServerConf` (X a BfeServer) in package bfe_server: (function, isWrite, confLock mode held: 0 none / 1 RLock / 2 Lock);\n    helpers reachable only from InitDataLoad are listed as \"InitDataLoad\"; sorted, de-duplicated -/\n")
		b.WriteString("def accesses : List (String × Bool × Nat) := [\n")
		for i, a := range accs {
			sep := ","
			if i == len(accs)-1 {
				sep = ""
			}
			fmt.Fprintf(&b, "  (%s, %v, %d)%s\n", leanStr(a.fn), a.write, a.mode, sep)
		}
		b.WriteString("]\n\n")
		b.WriteString("/-- for the request-path and request-entry functions: number of places that obtain the CURRENT server data conf\n    (`GetServerConf()` call or `.ServerConf` access) reachable from them through same-package calls -/\n")
		b.WriteString("def pathSites : List (String × Nat) := [\n")
		var lines []string
		for _, r := range roots {
			if _, ok := srvPkg.funcs[r]; ok {
				lines = append(lines, fmt.Sprintf("  (%s, %d)", leanStr(r), reach(r)))
			}
		}
		b.WriteString(strings.Join(lines, ",\n") + "\n]\n\n")

		// (3) lock exits
		type ex struct {
			fn       string
			idx      int
			released bool
		}
		var exits []ex
		groups := []struct {
			dir   string
			files []string
		}{
			{"bfe_balance", []string{"bal_table.go"}},
			{"bfe_balance/bal_gslb", []string{"bal_gslb.go"}},
			{"bfe_server", []string{"bfe_confdata_load.go", "bfe_server.go", "reverseproxy.go"}},
			{"bfe_route/bfe_cluster", []string{"bfe_cluster.go"}},
		}
		balTable := false
		for _, g := range groups {
			pk, err := c15Load(filepath.Join(repo, g.dir), nil)
			if err != nil {
				return "", err
			}
			inFiles := map[string]bool{}
			for _, f := range g.files {
				inFiles[f] = true
			}
			nt := pk.netEffects()
			for _, q := range pk.order {
				if !inFiles[pk.file[q]] {
					continue
				}
				if nt[q] != 0 {
					continue // a pure lock / unlock helper: judged at its call sites
				}
				fd := pk.funcs[q]
				w := &lockWalker{p: pk, env: pk.envOf(fd), net: nt}
				h, term := w.walk(fd.Body.List, 0)
				if !term {
					w.exits = append(w.exits, h <= 0 || w.deferred)
				}
				if w.locks == 0 && !w.deferred {
					continue
				}
				if pk.file[q] == "bal_table.go" {
					balTable = true
				}
				all := true
				for _, r := range w.exits {
					all = all && r
				}
				// one line per function (the number of return statements is not a fact worth fingerprinting)
				exits = append(exits, ex{pk.file[q] + ":" + q, 0, all})
			}
		}
		if !balTable {
			return "", fmt.Errorf("bal_table.go: no function takes the table lock any more")
		}
		b.WriteString("/-- every function of the reload and balancer-table code that takes a mutex (itself or through a lock helper):\n    (file:function, 0, the mutex is released at EVERY exit: each return and the end of the body) -/\n")
		b.WriteString("def lockExits : List (String × Nat × Bool) := [\n")
		for i, e := range exits {
			sep := ","
			if i == len(exits)-1 {
				sep = ""
			}
			fmt.Fprintf(&b, "  (%s, %d, %v)%s\n", leanStr(e.fn), e.idx, e.released, sep)
		}
		b.WriteString("]\n\n")
		var swaps []string
		// every module directory of the tree (the list is read from the source, not kept here)
		mods, err := os.ReadDir(filepath.Join(repo, "bfe_modules"))
		if err != nil {
			return "", err
		}
		for _, m := range mods {
			if !m.IsDir() || !strings.HasPrefix(m.Name(), "mod_") {
				continue
			}
			l, err := swapFacts(repo, "bfe_modules/"+m.Name())
			if err != nil {
				return "", err
			}
			swaps = append(swaps, l...)
		}
		for _, must := range []string{"mod_geo:ModuleGeo.loadConfData", "mod_block:ProductRuleTable.Update"} {
			found := false
			for _, l := range swaps {
				if strings.Contains(l, must) {
					found = true
				}
			}
			if !found {
				return "", fmt.Errorf("bfe_modules: data swap %s not found", must)
			}
		}
		b.WriteString("/-- module data reloads: every method that replaces a field of its receiver under a mutex:\n    (package:function, it calls a method on / passes on the value it replaced) -/\n")
		b.WriteString("def moduleSwaps : List (String × Bool) := [\n" + strings.Join(swaps, ",\n") + "\n]\n")
		b.WriteString(footer("C15"))
		return b.String(), nil
	})
}
