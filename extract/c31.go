package main

// C31 uses the same HPACK facts as C30 (see c30.go), emitted into its own generated module so that
// `./check C31` re-reads tables.go by itself.

func init() {
	register("C31", func(repo string) (string, error) { return hpackFacts("C31", repo) })
}
