package main

// C40 facts: every `panic(...)` call of package bfe_spdy (non-test files, verif hooks excluded) with its file,
// enclosing function and the first string literal of its argument ("<expr>" if there is none).  The Lean side
// (BfeVerif.C40.Proofs.panicTable) must give every site a disposition, so a new or reworded panic site re-opens
// the obligation (C40_panic_sites_classified).

import (
	"fmt"
	"go/ast"
	"go/token"
	"os"
	"path/filepath"
	"sort"
	"strings"
)

func init() {
	register("C40", func(repo string) (string, error) {
		ents, err := os.ReadDir(filepath.Join(repo, "bfe_spdy"))
		if err != nil {
			return "", err
		}
		var files []string
		for _, e := range ents {
			n := e.Name()
			if strings.HasSuffix(n, ".go") && !strings.HasSuffix(n, "_test.go") && !strings.HasPrefix(n, "zz_verif_") {
				files = append(files, n)
			}
		}
		sort.Strings(files)
		type site struct{ file, fn, msg string }
		var sites []site
		for _, fn := range files {
			_, f, err := parseFile(repo, "bfe_spdy/"+fn)
			if err != nil {
				return "", err
			}
			for _, d := range f.Decls {
				fd, ok := d.(*ast.FuncDecl)
				if !ok || fd.Body == nil {
					continue
				}
				ast.Inspect(fd.Body, func(n ast.Node) bool {
					ce, ok := n.(*ast.CallExpr)
					if !ok {
						return true
					}
					id, ok := ce.Fun.(*ast.Ident)
					if !ok || id.Name != "panic" || len(ce.Args) != 1 {
						return true
					}
					msg := "<expr>"
					ast.Inspect(ce.Args[0], func(m ast.Node) bool {
						if bl, ok := m.(*ast.BasicLit); ok && bl.Kind == token.STRING && msg == "<expr>" {
							if s, ok := strLit(bl); ok {
								msg = s
							}
						}
						return true
					})
					sites = append(sites, site{fn, fd.Name.Name, msg})
					return true
				})
			}
		}
		if len(sites) < 10 {
			return "", fmt.Errorf("only %d panic sites found in bfe_spdy: shape changed", len(sites))
		}
		var b strings.Builder
		b.WriteString(header("C40", "bfe_spdy/*.go"))
		b.WriteString("/-- (file, enclosing function, first string literal of the argument) of every `panic(...)` in package bfe_spdy -/\n")
		b.WriteString("def panicSites : List (String × String × String) := [\n")
		for i, s := range sites {
			sep := ","
			if i == len(sites)-1 {
				sep = ""
			}
			fmt.Fprintf(&b, "  (%s, %s, %s)%s\n", leanStr(s.file), leanStr(s.fn), leanStr(s.msg), sep)
		}
		b.WriteString("]\n")
		b.WriteString(footer("C40"))
		return b.String(), nil
	})
}
