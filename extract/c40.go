package main

// C40 facts: the `panic(...)` calls of package bfe_spdy (non-test files, verif hooks excluded), identified by the first
// string literal of their argument ("<expr>" if there is none) and counted.  The fact is deliberately independent of
// WHERE a site lives (file, enclosing function, closure, helper): extracting a helper or moving code between files
// gives the identical Generated file, while a new, removed or reworded panic site changes it and re-opens the
// obligation (C40_panic_sites_classified: every message, with its number of sites, has a disposition in panicTable).

import (
	"fmt"
	"go/ast"
	"go/token"
	"os"
	"path/filepath"
	"sort"
	"strings"
)

func init() {
	register("C40", func(repo string) (string, error) {
		ents, err := os.ReadDir(filepath.Join(repo, "bfe_spdy"))
		if err != nil {
			return "", err
		}
		var files []string
		for _, e := range ents {
			n := e.Name()
			if strings.HasSuffix(n, ".go") && !strings.HasSuffix(n, "_test.go") && !strings.HasPrefix(n, "zz_verif_") {
				files = append(files, n)
			}
		}
		sort.Strings(files)
		type site struct{ msg string }
		var sites []site
		var parsed []*ast.File
		consts := map[string]string{} // package-level string constants (a message may have been given a name)
		for _, fn := range files {
			_, f, err := parseFile(repo, "bfe_spdy/"+fn)
			if err != nil {
				return "", err
			}
			parsed = append(parsed, f)
			for _, d := range f.Decls {
				gd, ok := d.(*ast.GenDecl)
				if !ok || (gd.Tok != token.CONST && gd.Tok != token.VAR) {
					continue
				}
				for _, sp := range gd.Specs {
					vs, ok := sp.(*ast.ValueSpec)
					if !ok {
						continue
					}
					for i, n := range vs.Names {
						if i < len(vs.Values) {
							if v, ok := strLit(vs.Values[i]); ok {
								consts[n.Name] = v
							}
						}
					}
				}
			}
		}
		for _, f := range parsed {
			// the whole file: function bodies, closures, package-level function literals
			ast.Inspect(f, func(n ast.Node) bool {
				ce, ok := n.(*ast.CallExpr)
				if !ok {
					return true
				}
				id, ok := ce.Fun.(*ast.Ident)
				if !ok || id.Name != "panic" || len(ce.Args) != 1 {
					return true
				}
				msg := "<expr>"
				ast.Inspect(ce.Args[0], func(m ast.Node) bool {
					if msg != "<expr>" {
						return false
					}
					switch v := m.(type) {
					case *ast.BasicLit:
						if v.Kind == token.STRING {
							if s, ok := strLit(v); ok {
								msg = s
							}
						}
					case *ast.Ident:
						if s, ok := consts[v.Name]; ok {
							msg = s
						}
					}
					return true
				})
				sites = append(sites, site{msg})
				return true
			})
		}
		if len(sites) < 10 {
			return "", fmt.Errorf("only %d panic sites found in bfe_spdy: shape changed", len(sites))
		}
		count := map[string]int{}
		for _, st := range sites {
			count[st.msg]++
		}
		msgs := make([]string, 0, len(count))
		for m := range count {
			msgs = append(msgs, m)
		}
		sort.Strings(msgs)
		var b strings.Builder
		b.WriteString(header("C40", "bfe_spdy/*.go"))
		b.WriteString("/-- (first string literal of the argument, number of sites) of the `panic(...)` calls in package bfe_spdy, sorted -/\n")
		b.WriteString("def panicSites : List (String × Nat) := [\n")
		for i, m := range msgs {
			sep := ","
			if i == len(msgs)-1 {
				sep = ""
			}
			fmt.Fprintf(&b, "  (%s, %d)%s\n", leanStr(m), count[m], sep)
		}
		b.WriteString("]\n")
		b.WriteString(footer("C40"))
		return b.String(), nil
	})
}
