package main

// C41 / C44 facts (TLS negotiation):
//   bfe_tls/cipher_suites.go   flag constants (1 << iota block starting at suiteECDHE), the `cipherSuites` table
//                              (id, flags), suite id constants, CheckSuiteECDHE, checkCipherSuiteHttp2Accepted,
//                              TLS_FALLBACK_SCSV
//   bfe_tls/common.go          Version* constants, minVersion/maxVersion defaults, Grade* strings,
//                              defaultCurvePreferences, ClientAuthType enumeration
//   bfe_tls/handshake_server.go the right-hand side of the SCSV comparison `hs.clientHello.vers < …`
//                              and whether checkForResumption refuses a session of another version.

import (
	"fmt"
	"go/ast"
	"go/token"
	"sort"
	"strings"
)

// c41ConstInts collects package-level integer constants (typed or not, hex literals or references to
// other constants, iota blocks of the form `X = iota` / `X T = iota` / `X = 1 << iota`).
func c41ConstInts(f *ast.File, into map[string]int64) {
	for _, d := range f.Decls {
		gd, ok := d.(*ast.GenDecl)
		if !ok || gd.Tok != token.CONST {
			continue
		}
		var lastExpr ast.Expr
		for i, s := range gd.Specs {
			vs := s.(*ast.ValueSpec)
			if len(vs.Values) > 0 {
				lastExpr = vs.Values[0]
			}
			if len(vs.Names) != 1 || lastExpr == nil {
				continue
			}
			if v, ok := c41EvalConst(lastExpr, int64(i), into); ok {
				into[vs.Names[0].Name] = v
			}
		}
	}
}

func c41EvalConst(e ast.Expr, iota int64, env map[string]int64) (int64, bool) {
	switch v := e.(type) {
	case *ast.Ident:
		if v.Name == "iota" {
			return iota, true
		}
		x, ok := env[v.Name]
		return x, ok
	case *ast.ParenExpr:
		return c41EvalConst(v.X, iota, env)
	case *ast.BinaryExpr:
		a, ok1 := c41EvalConst(v.X, iota, env)
		b, ok2 := c41EvalConst(v.Y, iota, env)
		if !ok1 || !ok2 {
			return 0, false
		}
		switch v.Op {
		case token.SHL:
			return a << uint(b), true
		case token.OR:
			return a | b, true
		case token.ADD:
			return a + b, true
		case token.SUB:
			return a - b, true
		case token.MUL:
			return a * b, true
		}
		return 0, false
	}
	return intLit(e)
}

// c41SwitchTrueCases returns the case constants of the single `switch` in fn whose clause body is `return true`.
func c41SwitchTrueCases(fn *ast.FuncDecl, env map[string]int64) ([]int64, error) {
	if fn == nil {
		return nil, fmt.Errorf("function not found")
	}
	var out []int64
	var err error
	n := 0
	ast.Inspect(fn, func(nd ast.Node) bool {
		sw, ok := nd.(*ast.SwitchStmt)
		if !ok {
			return true
		}
		n++
		for _, st := range sw.Body.List {
			cc := st.(*ast.CaseClause)
			if len(cc.Body) != 1 {
				err = fmt.Errorf("%s: case body is not a single statement", fn.Name.Name)
				return false
			}
			rs, ok := cc.Body[0].(*ast.ReturnStmt)
			if !ok || len(rs.Results) != 1 {
				err = fmt.Errorf("%s: case body is not `return <bool>`", fn.Name.Name)
				return false
			}
			id, ok := rs.Results[0].(*ast.Ident)
			if !ok || (id.Name != "true" && id.Name != "false") {
				err = fmt.Errorf("%s: case does not return a bool literal", fn.Name.Name)
				return false
			}
			if cc.List == nil { // default
				if id.Name != "false" {
					err = fmt.Errorf("%s: default returns true", fn.Name.Name)
				}
				continue
			}
			for _, e := range cc.List {
				v, ok := c41EvalConst(e, 0, env)
				if !ok {
					err = fmt.Errorf("%s: case constant not understood", fn.Name.Name)
					return false
				}
				if id.Name == "true" {
					out = append(out, v)
				}
			}
		}
		return false
	})
	if err == nil && n != 1 {
		err = fmt.Errorf("%s: expected exactly one switch", fn.Name.Name)
	}
	return out, err
}

func c41ExprString(e ast.Expr) string {
	switch v := e.(type) {
	case *ast.Ident:
		return v.Name
	case *ast.SelectorExpr:
		return c41ExprString(v.X) + "." + v.Sel.Name
	case *ast.CallExpr:
		var args []string
		for _, a := range v.Args {
			args = append(args, c41ExprString(a))
		}
		return c41ExprString(v.Fun) + "(" + strings.Join(args, ",") + ")"
	case *ast.BasicLit:
		return v.Value
	case *ast.BinaryExpr:
		return c41ExprString(v.X) + v.Op.String() + c41ExprString(v.Y)
	case *ast.ParenExpr:
		return "(" + c41ExprString(v.X) + ")"
	}
	return fmt.Sprintf("<%T>", e)
}

func c41NatList(xs []int64) string {
	p := make([]string, len(xs))
	for i, x := range xs {
		p[i] = fmt.Sprintf("0x%04x", x)
	}
	return "[" + strings.Join(p, ", ") + "]"
}

func c41TlsNegoFacts(id string) func(repo string) (string, error) {
	return func(repo string) (string, error) {
		_, fcs, err := parseFile(repo, "bfe_tls/cipher_suites.go")
		if err != nil {
			return "", err
		}
		_, fco, err := parseFile(repo, "bfe_tls/common.go")
		if err != nil {
			return "", err
		}
		env := map[string]int64{}
		c41ConstInts(fco, env)
		c41ConstInts(fcs, env)
		tlsPkg, err := c41LoadPkg(repo, "bfe_tls")
		if err != nil {
			return "", err
		}
		var b strings.Builder
		b.WriteString(header(id, "bfe_tls/cipher_suites.go", "bfe_tls/common.go", "bfe_tls/handshake_server.go"))

		need := func(lean, goName string) error {
			v, ok := env[goName]
			if !ok {
				return fmt.Errorf("constant %s not found / not understood", goName)
			}
			fmt.Fprintf(&b, "def %s : Nat := 0x%04x  -- %s\n", lean, v, goName)
			return nil
		}
		for _, p := range [][2]string{
			{"suiteECDHE", "suiteECDHE"}, {"suiteECDSA", "suiteECDSA"}, {"suiteTLS12", "suiteTLS12"},
			{"suiteRC4", "suiteRC4"}, {"suiteChacha20", "suiteChacha20"},
			{"versionSSL30", "VersionSSL30"}, {"versionTLS10", "VersionTLS10"}, {"versionTLS11", "VersionTLS11"},
			{"versionTLS12", "VersionTLS12"}, {"minVersionDefault", "minVersion"}, {"maxVersionDefault", "maxVersion"},
			{"fallbackSCSV", "TLS_FALLBACK_SCSV"}, {"curveP256", "CurveP256"},
			{"pointFormatUncompressed", "pointFormatUncompressed"}, {"compressionNone", "compressionNone"},
			{"noClientCert", "NoClientCert"}, {"requestClientCert", "RequestClientCert"},
			{"requireAnyClientCert", "RequireAnyClientCert"}, {"verifyClientCertIfGiven", "VerifyClientCertIfGiven"},
			{"requireAndVerifyClientCert", "RequireAndVerifyClientCert"},
		} {
			if err := need(p[0], p[1]); err != nil {
				return "", err
			}
		}
		// the five flags must be distinct single bits
		seen := map[int64]bool{}
		for _, n := range []string{"suiteECDHE", "suiteECDSA", "suiteTLS12", "suiteRC4", "suiteChacha20"} {
			v := env[n]
			if v <= 0 || v&(v-1) != 0 || seen[v] {
				return "", fmt.Errorf("flag %s = %d is not a distinct single bit", n, v)
			}
			seen[v] = true
		}

		// grade strings
		for _, p := range [][2]string{{"gradeAPlus", "GradeAPlus"}, {"gradeA", "GradeA"}, {"gradeB", "GradeB"}, {"gradeC", "GradeC"}} {
			s, ok := strLit(findValue(fco, p[1]))
			if !ok {
				return "", fmt.Errorf("%s is not a string literal", p[1])
			}
			fmt.Fprintf(&b, "def %s : String := %s\n", p[0], leanStr(s))
		}

		// cipher suite table
		cl, ok := findValue(fcs, "cipherSuites").(*ast.CompositeLit)
		if !ok {
			return "", fmt.Errorf("cipherSuites is not a composite literal")
		}
		b.WriteString("\n/-- `cipherSuites` of cipher_suites.go in table order: (id, flags). -/\ndef cipherSuiteTable : List (Nat × Nat) := [\n")
		for i, e := range cl.Elts {
			row, ok := e.(*ast.CompositeLit)
			if !ok {
				return "", fmt.Errorf("cipherSuites[%d]: not a composite literal", i)
			}
			var idE, flE ast.Expr
			if len(row.Elts) > 0 {
				if _, keyed := row.Elts[0].(*ast.KeyValueExpr); keyed {
					for _, f := range row.Elts {
						kv := f.(*ast.KeyValueExpr)
						switch c41ExprString(kv.Key) {
						case "id":
							idE = kv.Value
						case "flags":
							flE = kv.Value
						}
					}
					if flE == nil {
						flE = &ast.BasicLit{Kind: token.INT, Value: "0"}
					}
				} else if len(row.Elts) == 9 {
					idE, flE = row.Elts[0], row.Elts[5]
				}
			}
			if idE == nil || flE == nil {
				return "", fmt.Errorf("cipherSuites[%d]: neither a 9-field positional nor a keyed literal", i)
			}
			idv, ok1 := c41EvalConst(idE, 0, env)
			fl, ok2 := c41EvalConst(flE, 0, env)
			if !ok1 || !ok2 {
				return "", fmt.Errorf("cipherSuites[%d]: id/flags not understood", i)
			}
			sep := ","
			if i == len(cl.Elts)-1 {
				sep = ""
			}
			fmt.Fprintf(&b, "  (0x%04x, %d)%s\n", idv, fl, sep)
		}
		b.WriteString("]\n\n")

		ecdhe, err := c41TrueSet(tlsPkg, tlsPkg.fn("", "CheckSuiteECDHE"), env, false)
		if err != nil {
			return "", err
		}
		fmt.Fprintf(&b, "/-- ids for which `CheckSuiteECDHE` returns true. -/\ndef checkSuiteECDHE : List Nat := %s\n", c41NatList(ecdhe))
		h2, err := c41TrueSet(tlsPkg, tlsPkg.fn("", "checkCipherSuiteHttp2Accepted"), env, false)
		if err != nil {
			return "", err
		}
		fmt.Fprintf(&b, "/-- ids for which `checkCipherSuiteHttp2Accepted` returns true. -/\ndef http2Accepted : List Nat := %s\n", c41NatList(h2))

		// default curve preferences
		dc, ok := findValue(fco, "defaultCurvePreferences").(*ast.CompositeLit)
		if !ok {
			return "", fmt.Errorf("defaultCurvePreferences is not a composite literal")
		}
		var curves []int64
		for _, e := range dc.Elts {
			v, ok := c41EvalConst(e, 0, env)
			if !ok {
				return "", fmt.Errorf("defaultCurvePreferences: element not understood")
			}
			curves = append(curves, v)
		}
		fmt.Fprintf(&b, "def defaultCurvePreferences : List Nat := %s\n", c41NatList(curves))

		// the bound the hello's version is compared with where alertInappropriateFallback is sent (helpers followed)
		rch := tlsPkg.fn("serverHandshakeState", "readClientHello")
		if rch == nil {
			return "", fmt.Errorf("readClientHello not found")
		}
		viaMethod, err := c41ScsvBound(tlsPkg, rch)
		if err != nil {
			return "", err
		}
		fmt.Fprintf(&b, "\n/-- readClientHello refuses a hello carrying TLS_FALLBACK_SCSV when `clientHello.vers < bound`:\n    true = bound is the effective maximum (`maxVersion()`), false = the raw `MaxVersion` field (0 by default). -/\ndef scsvUsesEffectiveMax : Bool := %v\n", viaMethod)

		// checkForResumption: a session of another version than the connection's is refused?
		cfr := tlsPkg.fn("serverHandshakeState", "checkForResumption")
		if cfr == nil {
			return "", fmt.Errorf("checkForResumption not found")
		}
		sameVers, legacy, err := c41ResumeVersionTests(tlsPkg, cfr)
		if err != nil {
			return "", err
		}
		fmt.Fprintf(&b, "\n/-- checkForResumption refuses when the connection's version differs from the session's\n    (true), or has only the older `sessionState.vers > clientHello.vers` / mutualVersion tests (false). -/\ndef resumeRequiresSameVersion : Bool := %v\n", sameVers)
		fmt.Fprintf(&b, "/-- the older tests are (also) present -/\ndef resumeHasLegacyVersionTests : Bool := %v\n", legacy)

		// curves: what the ECDHE key agreement implements (curveForCurveID) and what bfe's configuration loader
		// lets an operator name (bfe_conf.CurvesMap)
		impl, err := c41TrueSet(tlsPkg, tlsPkg.fn("", "curveForCurveID"), env, true)
		if err != nil {
			return "", err
		}
		fmt.Fprintf(&b, "\n/-- curve ids for which `curveForCurveID` (key_agreement.go) returns a curve -/\ndef implementedCurves : List Nat := %s\n", c41NatList(impl))
		_, fbc, err := parseFile(repo, "bfe_config/bfe_conf/conf_https_basic.go")
		if err != nil {
			return "", err
		}
		cm, ok := findValue(fbc, "CurvesMap").(*ast.CompositeLit)
		if !ok {
			return "", fmt.Errorf("bfe_conf.CurvesMap is not a composite literal")
		}
		var confCurves []int64
		for _, e := range cm.Elts {
			kv, ok := e.(*ast.KeyValueExpr)
			if !ok {
				return "", fmt.Errorf("CurvesMap: unexpected element")
			}
			se, ok := kv.Value.(*ast.SelectorExpr)
			if !ok {
				return "", fmt.Errorf("CurvesMap: value is not bfe_tls.<const>")
			}
			v, ok := env[se.Sel.Name]
			if !ok {
				return "", fmt.Errorf("CurvesMap: constant %s unknown", se.Sel.Name)
			}
			confCurves = append(confCurves, v)
		}
		sort.Slice(confCurves, func(i, j int) bool { return confCurves[i] < confCurves[j] })
		fmt.Fprintf(&b, "/-- curve ids an operator can configure (values of bfe_conf.CurvesMap; GetCurvePreferences rejects other names) -/\ndef configurableCurves : List Nat := %s\n", c41NatList(confCurves))
		// bfe_server/tls_server_rule.go (helpers followed): lookup order VIP map, then SNI map; SNI lower-cased on both sides
		srvPkg, err := c41LoadPkg(repo, "bfe_server")
		if err != nil {
			return "", err
		}
		gr := srvPkg.fn("TLSServerRuleMap", "getRule")
		up := srvPkg.fn("TLSServerRuleMap", "Update")
		if gr == nil || up == nil {
			return "", fmt.Errorf("tls_server_rule.go: getRule / Update not found")
		}
		idx, vipAt, sniAt, lowerAt := 0, -1, -1, -1
		srvPkg.walk(gr, func(n ast.Node) {
			idx++
			switch v := n.(type) {
			case *ast.IndexExpr:
				x := c41ExprString(v.X)
				if strings.HasSuffix(x, "vipRuleMap") && vipAt < 0 {
					vipAt = idx
				}
				if strings.HasSuffix(x, "sniRuleMap") && sniAt < 0 {
					sniAt = idx
				}
			case *ast.CallExpr:
				if c41ExprString(v.Fun) == "strings.ToLower" && lowerAt < 0 {
					lowerAt = idx
				}
			}
		})
		if vipAt < 0 || sniAt < 0 || vipAt > sniAt {
			return "", fmt.Errorf("getRule: lookup order (vip map, then sni map) not understood")
		}
		lowerLoad := false
		srvPkg.walk(up, func(n ast.Node) {
			if c, ok := n.(*ast.CallExpr); ok && c41ExprString(c.Fun) == "strings.ToLower" {
				lowerLoad = true
			}
		})
		lk := lowerAt >= 0
		if lk != lowerLoad {
			return "", fmt.Errorf("tls_server_rule.go: SNI lower-cased on one side of the rule map only (lookup=%v, load=%v)", lk, lowerLoad)
		}
		fmt.Fprintf(&b, "\n/-- TLSServerRuleMap lower-cases the SNI (lookup) and the configured names (Update) before the map lookup;\n    false = both are used verbatim (case-sensitive lookup) -/\ndef sniRuleLookupNormalised : Bool := %v\n", lk)

		// bfe_config/bfe_tls_conf/tls_rule_conf: the duplicate-name test of the rule-file loader compares lower-cased names?
		confPkg, err := c41LoadPkg(repo, "bfe_config/bfe_tls_conf/tls_rule_conf")
		if err != nil {
			return "", err
		}
		csc := confPkg.fn("", "checkSniConf")
		if csc == nil {
			return "", fmt.Errorf("checkSniConf not found")
		}
		dupLower := false
		confPkg.walk(csc, func(n ast.Node) {
			if c, ok := n.(*ast.CallExpr); ok {
				switch c41ExprString(c.Fun) {
				case "strings.ToLower", "strings.EqualFold":
					dupLower = true
				}
			}
		})
		fmt.Fprintf(&b, "\n/-- checkSniConf (rule-file loader) treats two SniConf names that differ only in letter case as duplicates -/\ndef sniConfDuplicateCheckFoldsCase : Bool := %v\n", dupLower)

		// order of operations in readClientHello (helpers followed): the connection's server name is set before anything
		// that looks at it through the Conn (ServerRule.Get, rule.NextProtos.Get, MultiCert.Get)
		first, err := c41ServerNameFirst(tlsPkg, rch)
		if err != nil {
			return "", err
		}
		fmt.Fprintf(&b, "\n/-- readClientHello assigns the Conn's serverName (from the hello's SNI) before the first of ServerRule.Get(c),\n    rule.NextProtos.Get(c), MultiCert.Get(c) — the lookups that read it through the Conn -/\ndef serverNameSetBeforeLookups : Bool := %v\n", first)

		// what a full handshake stores for later resumption: the `vers` of the sessionState built by sendSessionTicket
		// (ticket) and by serverHandshake (session cache), helpers followed
		sst := tlsPkg.fn("serverHandshakeState", "sendSessionTicket")
		shs := tlsPkg.fn("Conn", "serverHandshake")
		if sst == nil || shs == nil {
			return "", fmt.Errorf("sendSessionTicket / serverHandshake not found")
		}
		tv, err := c41IssuedVers(tlsPkg, sst, "sendSessionTicket")
		if err != nil {
			return "", err
		}
		// serverHandshake calls sendSessionTicket: look only at what it builds itself
		cv, err := c41IssuedVersExcluding(tlsPkg, shs, "serverHandshake", sst)
		if err != nil {
			return "", err
		}
		fmt.Fprintf(&b, "\n/-- the sessionState sealed into a ticket by sendSessionTicket has vers = the NEGOTIATED version of the connection\n    (true) or the version the client offered (false) -/\ndef ticketStoresNegotiatedVersion : Bool := %v\n", tv)
		fmt.Fprintf(&b, "\n/-- the sessionState stored in the session cache by serverHandshake has vers = the NEGOTIATED version of the\n    connection (true) or the version the client offered (false) -/\ndef cacheStoresNegotiatedVersion : Bool := %v\n", cv)
		b.WriteString(footer(id))
		return b.String(), nil
	}
}

func init() { register("C41", c41TlsNegoFacts("C41")) }
