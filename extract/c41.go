package main

// C41 / C44 facts (TLS negotiation):
//   bfe_tls/cipher_suites.go   flag constants (1 << iota block starting at suiteECDHE), the `cipherSuites` table
//                              (id, flags), suite id constants, CheckSuiteECDHE, checkCipherSuiteHttp2Accepted,
//                              TLS_FALLBACK_SCSV
//   bfe_tls/common.go          Version* constants, minVersion/maxVersion defaults, Grade* strings,
//                              defaultCurvePreferences, ClientAuthType enumeration
//   bfe_tls/handshake_server.go the right-hand side of the SCSV comparison `hs.clientHello.vers < …`
//                              and whether checkForResumption refuses a session of another version.

import (
	"fmt"
	"go/ast"
	"go/token"
	"strings"
)

// c41ConstInts collects package-level integer constants (typed or not, hex literals or references to
// other constants, iota blocks of the form `X = iota` / `X T = iota` / `X = 1 << iota`).
func c41ConstInts(f *ast.File, into map[string]int64) {
	for _, d := range f.Decls {
		gd, ok := d.(*ast.GenDecl)
		if !ok || gd.Tok != token.CONST {
			continue
		}
		var lastExpr ast.Expr
		for i, s := range gd.Specs {
			vs := s.(*ast.ValueSpec)
			if len(vs.Values) > 0 {
				lastExpr = vs.Values[0]
			}
			if len(vs.Names) != 1 || lastExpr == nil {
				continue
			}
			if v, ok := c41EvalConst(lastExpr, int64(i), into); ok {
				into[vs.Names[0].Name] = v
			}
		}
	}
}

func c41EvalConst(e ast.Expr, iota int64, env map[string]int64) (int64, bool) {
	switch v := e.(type) {
	case *ast.Ident:
		if v.Name == "iota" {
			return iota, true
		}
		x, ok := env[v.Name]
		return x, ok
	case *ast.ParenExpr:
		return c41EvalConst(v.X, iota, env)
	case *ast.BinaryExpr:
		a, ok1 := c41EvalConst(v.X, iota, env)
		b, ok2 := c41EvalConst(v.Y, iota, env)
		if !ok1 || !ok2 {
			return 0, false
		}
		switch v.Op {
		case token.SHL:
			return a << uint(b), true
		case token.OR:
			return a | b, true
		case token.ADD:
			return a + b, true
		case token.SUB:
			return a - b, true
		case token.MUL:
			return a * b, true
		}
		return 0, false
	}
	return intLit(e)
}

// c41SwitchTrueCases returns the case constants of the single `switch` in fn whose clause body is `return true`.
func c41SwitchTrueCases(fn *ast.FuncDecl, env map[string]int64) ([]int64, error) {
	if fn == nil {
		return nil, fmt.Errorf("function not found")
	}
	var out []int64
	var err error
	n := 0
	ast.Inspect(fn, func(nd ast.Node) bool {
		sw, ok := nd.(*ast.SwitchStmt)
		if !ok {
			return true
		}
		n++
		for _, st := range sw.Body.List {
			cc := st.(*ast.CaseClause)
			if len(cc.Body) != 1 {
				err = fmt.Errorf("%s: case body is not a single statement", fn.Name.Name)
				return false
			}
			rs, ok := cc.Body[0].(*ast.ReturnStmt)
			if !ok || len(rs.Results) != 1 {
				err = fmt.Errorf("%s: case body is not `return <bool>`", fn.Name.Name)
				return false
			}
			id, ok := rs.Results[0].(*ast.Ident)
			if !ok || (id.Name != "true" && id.Name != "false") {
				err = fmt.Errorf("%s: case does not return a bool literal", fn.Name.Name)
				return false
			}
			if cc.List == nil { // default
				if id.Name != "false" {
					err = fmt.Errorf("%s: default returns true", fn.Name.Name)
				}
				continue
			}
			for _, e := range cc.List {
				v, ok := c41EvalConst(e, 0, env)
				if !ok {
					err = fmt.Errorf("%s: case constant not understood", fn.Name.Name)
					return false
				}
				if id.Name == "true" {
					out = append(out, v)
				}
			}
		}
		return false
	})
	if err == nil && n != 1 {
		err = fmt.Errorf("%s: expected exactly one switch", fn.Name.Name)
	}
	return out, err
}

func c41ExprString(e ast.Expr) string {
	switch v := e.(type) {
	case *ast.Ident:
		return v.Name
	case *ast.SelectorExpr:
		return c41ExprString(v.X) + "." + v.Sel.Name
	case *ast.CallExpr:
		var args []string
		for _, a := range v.Args {
			args = append(args, c41ExprString(a))
		}
		return c41ExprString(v.Fun) + "(" + strings.Join(args, ",") + ")"
	case *ast.BasicLit:
		return v.Value
	case *ast.BinaryExpr:
		return c41ExprString(v.X) + v.Op.String() + c41ExprString(v.Y)
	case *ast.ParenExpr:
		return "(" + c41ExprString(v.X) + ")"
	}
	return fmt.Sprintf("<%T>", e)
}

func c41NatList(xs []int64) string {
	p := make([]string, len(xs))
	for i, x := range xs {
		p[i] = fmt.Sprintf("0x%04x", x)
	}
	return "[" + strings.Join(p, ", ") + "]"
}

func c41TlsNegoFacts(id string) func(repo string) (string, error) {
	return func(repo string) (string, error) {
		_, fcs, err := parseFile(repo, "bfe_tls/cipher_suites.go")
		if err != nil {
			return "", err
		}
		_, fco, err := parseFile(repo, "bfe_tls/common.go")
		if err != nil {
			return "", err
		}
		_, fhs, err := parseFile(repo, "bfe_tls/handshake_server.go")
		if err != nil {
			return "", err
		}
		env := map[string]int64{}
		c41ConstInts(fco, env)
		c41ConstInts(fcs, env)
		var b strings.Builder
		b.WriteString(header(id, "bfe_tls/cipher_suites.go", "bfe_tls/common.go", "bfe_tls/handshake_server.go"))

		need := func(lean, goName string) error {
			v, ok := env[goName]
			if !ok {
				return fmt.Errorf("constant %s not found / not understood", goName)
			}
			fmt.Fprintf(&b, "def %s : Nat := 0x%04x  -- %s\n", lean, v, goName)
			return nil
		}
		for _, p := range [][2]string{
			{"suiteECDHE", "suiteECDHE"}, {"suiteECDSA", "suiteECDSA"}, {"suiteTLS12", "suiteTLS12"},
			{"suiteRC4", "suiteRC4"}, {"suiteChacha20", "suiteChacha20"},
			{"versionSSL30", "VersionSSL30"}, {"versionTLS10", "VersionTLS10"}, {"versionTLS11", "VersionTLS11"},
			{"versionTLS12", "VersionTLS12"}, {"minVersionDefault", "minVersion"}, {"maxVersionDefault", "maxVersion"},
			{"fallbackSCSV", "TLS_FALLBACK_SCSV"}, {"curveP256", "CurveP256"},
			{"pointFormatUncompressed", "pointFormatUncompressed"}, {"compressionNone", "compressionNone"},
			{"noClientCert", "NoClientCert"}, {"requestClientCert", "RequestClientCert"},
			{"requireAnyClientCert", "RequireAnyClientCert"}, {"verifyClientCertIfGiven", "VerifyClientCertIfGiven"},
			{"requireAndVerifyClientCert", "RequireAndVerifyClientCert"},
		} {
			if err := need(p[0], p[1]); err != nil {
				return "", err
			}
		}
		// the five flags must be distinct single bits
		seen := map[int64]bool{}
		for _, n := range []string{"suiteECDHE", "suiteECDSA", "suiteTLS12", "suiteRC4", "suiteChacha20"} {
			v := env[n]
			if v <= 0 || v&(v-1) != 0 || seen[v] {
				return "", fmt.Errorf("flag %s = %d is not a distinct single bit", n, v)
			}
			seen[v] = true
		}

		// grade strings
		for _, p := range [][2]string{{"gradeAPlus", "GradeAPlus"}, {"gradeA", "GradeA"}, {"gradeB", "GradeB"}, {"gradeC", "GradeC"}} {
			s, ok := strLit(findValue(fco, p[1]))
			if !ok {
				return "", fmt.Errorf("%s is not a string literal", p[1])
			}
			fmt.Fprintf(&b, "def %s : String := %s\n", p[0], leanStr(s))
		}

		// cipher suite table
		cl, ok := findValue(fcs, "cipherSuites").(*ast.CompositeLit)
		if !ok {
			return "", fmt.Errorf("cipherSuites is not a composite literal")
		}
		b.WriteString("\n/-- `cipherSuites` of cipher_suites.go in table order: (id, flags). -/\ndef cipherSuiteTable : List (Nat × Nat) := [\n")
		for i, e := range cl.Elts {
			row, ok := e.(*ast.CompositeLit)
			if !ok || len(row.Elts) != 9 {
				return "", fmt.Errorf("cipherSuites[%d]: not a 9-field positional literal", i)
			}
			idv, ok1 := c41EvalConst(row.Elts[0], 0, env)
			fl, ok2 := c41EvalConst(row.Elts[5], 0, env)
			if !ok1 || !ok2 {
				return "", fmt.Errorf("cipherSuites[%d]: id/flags not understood", i)
			}
			sep := ","
			if i == len(cl.Elts)-1 {
				sep = ""
			}
			fmt.Fprintf(&b, "  (0x%04x, %d)%s  -- %s  %s\n", idv, fl, sep, c41ExprString(row.Elts[0]), c41ExprString(row.Elts[5]))
		}
		b.WriteString("]\n\n")

		ecdhe, err := c41SwitchTrueCases(findFunc(fcs, "", "CheckSuiteECDHE"), env)
		if err != nil {
			return "", err
		}
		fmt.Fprintf(&b, "/-- ids for which `CheckSuiteECDHE` returns true. -/\ndef checkSuiteECDHE : List Nat := %s\n", c41NatList(ecdhe))
		h2, err := c41SwitchTrueCases(findFunc(fcs, "", "checkCipherSuiteHttp2Accepted"), env)
		if err != nil {
			return "", err
		}
		fmt.Fprintf(&b, "/-- ids for which `checkCipherSuiteHttp2Accepted` returns true. -/\ndef http2Accepted : List Nat := %s\n", c41NatList(h2))

		// default curve preferences
		dc, ok := findValue(fco, "defaultCurvePreferences").(*ast.CompositeLit)
		if !ok {
			return "", fmt.Errorf("defaultCurvePreferences is not a composite literal")
		}
		var curves []int64
		for _, e := range dc.Elts {
			v, ok := c41EvalConst(e, 0, env)
			if !ok {
				return "", fmt.Errorf("defaultCurvePreferences: element not understood")
			}
			curves = append(curves, v)
		}
		fmt.Fprintf(&b, "def defaultCurvePreferences : List Nat := %s\n", c41NatList(curves))

		// the SCSV comparison in readClientHello:  if hs.clientHello.vers < <rhs> { alertInappropriateFallback }
		rch := findFunc(fhs, "serverHandshakeState", "readClientHello")
		if rch == nil {
			return "", fmt.Errorf("readClientHello not found")
		}
		rhs := ""
		nScsv := 0
		ast.Inspect(rch, func(nd ast.Node) bool {
			is, ok := nd.(*ast.IfStmt)
			if !ok {
				return true
			}
			be, ok := is.Cond.(*ast.BinaryExpr)
			if ok && be.Op == token.EQL && c41ExprString(be.Y) == "TLS_FALLBACK_SCSV" {
				nScsv++
				for _, st := range is.Body.List {
					if in, ok := st.(*ast.IfStmt); ok {
						if c, ok := in.Cond.(*ast.BinaryExpr); ok && c.Op == token.LSS && c41ExprString(c.X) == "hs.clientHello.vers" {
							rhs = c41ExprString(c.Y)
						}
					}
				}
			}
			return true
		})
		if nScsv != 1 {
			return "", fmt.Errorf("readClientHello: expected exactly one `id == TLS_FALLBACK_SCSV` test, found %d", nScsv)
		}
		var viaMethod string
		switch rhs {
		case "c.config.maxVersion()", "config.maxVersion()":
			viaMethod = "true"
		case "c.config.MaxVersion", "config.MaxVersion":
			viaMethod = "false"
		default:
			return "", fmt.Errorf("readClientHello: SCSV comparison right-hand side %q not understood", rhs)
		}
		fmt.Fprintf(&b, "\n/-- readClientHello compares `hs.clientHello.vers < %s` when TLS_FALLBACK_SCSV is offered:\n    true = the effective maximum (`maxVersion()`), false = the raw `MaxVersion` field (0 by default). -/\ndef scsvUsesEffectiveMax : Bool := %s\n", rhs, viaMethod)

		// checkForResumption: `if c.vers != hs.sessionState.vers { return false }` present?
		cfr := findFunc(fhs, "serverHandshakeState", "checkForResumption")
		if cfr == nil {
			return "", fmt.Errorf("checkForResumption not found")
		}
		sameVers, oldGt, oldMutual := false, false, false
		ast.Inspect(cfr, func(nd ast.Node) bool {
			is, ok := nd.(*ast.IfStmt)
			if !ok {
				return true
			}
			s := c41ExprString(is.Cond)
			if s == "c.vers!=hs.sessionState.vers" || s == "hs.sessionState.vers!=c.vers" {
				if len(is.Body.List) == 1 {
					if rs, ok := is.Body.List[0].(*ast.ReturnStmt); ok && len(rs.Results) == 1 && c41ExprString(rs.Results[0]) == "false" {
						sameVers = true
					}
				}
			}
			if strings.Contains(s, "hs.sessionState.vers>hs.clientHello.vers") {
				oldGt = true
			}
			if is.Init != nil && strings.Contains(s, "vers!=hs.sessionState.vers") {
				oldMutual = true
			}
			return true
		})
		if !sameVers && !(oldGt && oldMutual) {
			return "", fmt.Errorf("checkForResumption: version checks not understood")
		}
		fmt.Fprintf(&b, "\n/-- checkForResumption contains `if c.vers != hs.sessionState.vers { return false }`\n    (true), or only the older `sessionState.vers > clientHello.vers` / mutualVersion tests (false). -/\ndef resumeRequiresSameVersion : Bool := %v\n", sameVers)
		fmt.Fprintf(&b, "/-- the older tests are (also) present -/\ndef resumeHasLegacyVersionTests : Bool := %v\n", oldGt && oldMutual)
		// curves: what the ECDHE key agreement implements (curveForCurveID) and what bfe's configuration loader
		// lets an operator name (bfe_conf.CurvesMap)
		_, fka, err := parseFile(repo, "bfe_tls/key_agreement.go")
		if err != nil {
			return "", err
		}
		cfc := findFunc(fka, "", "curveForCurveID")
		if cfc == nil {
			return "", fmt.Errorf("curveForCurveID not found")
		}
		var impl []int64
		var cerr error
		ast.Inspect(cfc, func(nd ast.Node) bool {
			cc, ok := nd.(*ast.CaseClause)
			if !ok || cc.List == nil {
				return true
			}
			if len(cc.Body) != 1 {
				cerr = fmt.Errorf("curveForCurveID: case body not understood")
				return false
			}
			rs, ok := cc.Body[0].(*ast.ReturnStmt)
			if !ok || len(rs.Results) != 2 || c41ExprString(rs.Results[1]) != "true" {
				cerr = fmt.Errorf("curveForCurveID: case does not return (curve, true)")
				return false
			}
			for _, e := range cc.List {
				v, ok := c41EvalConst(e, 0, env)
				if !ok {
					cerr = fmt.Errorf("curveForCurveID: case constant not understood")
					return false
				}
				impl = append(impl, v)
			}
			return true
		})
		if cerr != nil {
			return "", cerr
		}
		fmt.Fprintf(&b, "\n/-- curve ids for which `curveForCurveID` (key_agreement.go) returns a curve -/\ndef implementedCurves : List Nat := %s\n", c41NatList(impl))
		_, fbc, err := parseFile(repo, "bfe_config/bfe_conf/conf_https_basic.go")
		if err != nil {
			return "", err
		}
		cm, ok := findValue(fbc, "CurvesMap").(*ast.CompositeLit)
		if !ok {
			return "", fmt.Errorf("bfe_conf.CurvesMap is not a composite literal")
		}
		var confCurves []int64
		for _, e := range cm.Elts {
			kv, ok := e.(*ast.KeyValueExpr)
			if !ok {
				return "", fmt.Errorf("CurvesMap: unexpected element")
			}
			se, ok := kv.Value.(*ast.SelectorExpr)
			if !ok {
				return "", fmt.Errorf("CurvesMap: value is not bfe_tls.<const>")
			}
			v, ok := env[se.Sel.Name]
			if !ok {
				return "", fmt.Errorf("CurvesMap: constant %s unknown", se.Sel.Name)
			}
			confCurves = append(confCurves, v)
		}
		fmt.Fprintf(&b, "/-- curve ids an operator can configure (values of bfe_conf.CurvesMap; GetCurvePreferences rejects other names) -/\ndef configurableCurves : List Nat := %s\n", c41NatList(confCurves))
		// bfe_server/tls_server_rule.go: is the SNI normalised (lower case) for the rule lookup, on both sides of the map?
		_, fsr, err := parseFile(repo, "bfe_server/tls_server_rule.go")
		if err != nil {
			return "", err
		}
		hasLower := func(fd *ast.FuncDecl) bool {
			found := false
			if fd == nil {
				return false
			}
			ast.Inspect(fd, func(nd ast.Node) bool {
				if c, ok := nd.(*ast.CallExpr); ok && c41ExprString(c.Fun) == "strings.ToLower" {
					found = true
				}
				return true
			})
			return found
		}
		gs := findFunc(fsr, "TLSServerRuleMap", "getRuleBySni")
		up := findFunc(fsr, "TLSServerRuleMap", "Update")
		gr := findFunc(fsr, "TLSServerRuleMap", "getRule")
		if gs == nil || up == nil || gr == nil {
			return "", fmt.Errorf("tls_server_rule.go: getRule / getRuleBySni / Update not found")
		}
		// order of the lookups in getRule: vip, then sni, then default
		var order []string
		ast.Inspect(gr, func(nd ast.Node) bool {
			if c, ok := nd.(*ast.CallExpr); ok {
				switch c41ExprString(c.Fun) {
				case "m.getRuleByVip", "m.getRuleBySni", "m.getDefaultRule":
					order = append(order, c41ExprString(c.Fun))
				}
			}
			return true
		})
		if strings.Join(order, ",") != "m.getRuleByVip,m.getRuleBySni,m.getDefaultRule" {
			return "", fmt.Errorf("getRule: lookup order %v not understood", order)
		}
		lk, ld := hasLower(gs), hasLower(up)
		if lk != ld {
			return "", fmt.Errorf("tls_server_rule.go: SNI lower-cased on one side of the rule map only (lookup=%v, load=%v)", lk, ld)
		}
		fmt.Fprintf(&b, "\n/-- TLSServerRuleMap lower-cases the SNI (getRuleBySni) and the configured names (Update) before the map lookup;\n    false = both are used verbatim (case-sensitive lookup) -/\ndef sniRuleLookupNormalised : Bool := %v\n", lk)
		// order of operations in readClientHello: the connection's server name must be set before anything that looks
		// at it through the Conn (ServerRule.Get, rule.NextProtos.Get, MultiCert.Get)
		var setPos, firstUse token.Pos
		ast.Inspect(rch, func(nd ast.Node) bool {
			switch v := nd.(type) {
			case *ast.AssignStmt:
				if len(v.Lhs) == 1 && c41ExprString(v.Lhs[0]) == "c.serverName" && (setPos == 0 || v.Pos() < setPos) {
					setPos = v.Pos()
				}
			case *ast.CallExpr:
				switch c41ExprString(v.Fun) {
				case "config.ServerRule.Get", "rule.NextProtos.Get", "config.MultiCert.Get", "tlsMultiCertificate.Get":
					if firstUse == 0 || v.Pos() < firstUse {
						firstUse = v.Pos()
					}
				}
			}
			return true
		})
		if firstUse == 0 {
			return "", fmt.Errorf("readClientHello: no ServerRule.Get / NextProtos.Get / MultiCert.Get call found")
		}
		fmt.Fprintf(&b, "\n/-- readClientHello assigns `c.serverName` (from the hello's SNI) before the first of ServerRule.Get(c),\n    rule.NextProtos.Get(c), MultiCert.Get(c) — the lookups that read it through the Conn -/\ndef serverNameSetBeforeLookups : Bool := %v\n", setPos != 0 && setPos < firstUse)
		// what a full handshake stores for later resumption: the `vers` field of the sessionState literals in
		// sendSessionTicket (ticket) and serverHandshake (session cache)
		versExprs := []string{}
		for _, fn := range []string{"sendSessionTicket", "serverHandshake"} {
			fd := findFunc(fhs, "serverHandshakeState", fn)
			if fd == nil {
				fd = findFunc(fhs, "Conn", fn)
			}
			if fd == nil {
				return "", fmt.Errorf("%s not found", fn)
			}
			n := 0
			ast.Inspect(fd, func(nd ast.Node) bool {
				cl, ok := nd.(*ast.CompositeLit)
				if !ok || c41ExprString(cl.Type) != "sessionState" {
					return true
				}
				for _, e := range cl.Elts {
					if kv, ok := e.(*ast.KeyValueExpr); ok && c41ExprString(kv.Key) == "vers" {
						versExprs = append(versExprs, c41ExprString(kv.Value))
						n++
					}
				}
				return true
			})
			if n != 1 {
				return "", fmt.Errorf("%s: expected one sessionState literal with a vers field, found %d", fn, n)
			}
		}
		for k, e := range versExprs {
			var v bool
			switch e {
			case "c.vers":
				v = true
			case "hs.clientHello.vers":
				v = false
			default:
				return "", fmt.Errorf("sessionState literal: vers = %s not understood", e)
			}
			name, where := "ticketStoresNegotiatedVersion", "sealed into a ticket by sendSessionTicket"
			if k == 1 {
				name, where = "cacheStoresNegotiatedVersion", "stored in the session cache by serverHandshake"
			}
			fmt.Fprintf(&b, "\n/-- the sessionState %s has vers = %s: true = the NEGOTIATED version `c.vers`,\n    false = the version the client offered -/\ndef %s : Bool := %v\n", where, e, name, v)
		}
		b.WriteString(footer(id))
		return b.String(), nil
	}
}

func init() { register("C41", c41TlsNegoFacts("C41")) }
