// C17: tables the build totality / type-check theorems are stated over:
//   funcProtos      (parser/semant.go)   primitive name -> argument token kinds
//   buildCases      (build.go)           buildPrimitive switch: case name -> uses of node.Args[k] (.Value / .ToBool())
//   hashBucketSize  (primitive.go)       HashMatcherBucketSize
//   timeZones       (bfe_util/time.go)   TimeZoneMap
package main

import (
	"fmt"
	"go/ast"
	"go/token"
	"sort"
	"strings"
)

// c17Bytes renders a Go string as a Lean `List UInt8` literal (kernel-reducible, unlike String.toUTF8).
func c17Bytes(s string) string {
	var parts []string
	for i := 0; i < len(s); i++ {
		parts = append(parts, fmt.Sprint(s[i]))
	}
	return "[" + strings.Join(parts, ", ") + "]"
}

func c17Protos(repo string) ([]string, error) {
	rel := "bfe_basic/condition/parser/semant.go"
	_, f, err := parseFile(repo, rel)
	if err != nil {
		return nil, err
	}
	cl, ok := findValue(f, "funcProtos").(*ast.CompositeLit)
	if !ok {
		return nil, fmt.Errorf("%s: funcProtos is not a composite literal", rel)
	}
	var out []string
	seen := map[string]bool{}
	for _, e := range cl.Elts {
		kv, ok := e.(*ast.KeyValueExpr)
		if !ok {
			return nil, fmt.Errorf("%s: funcProtos element is not key:value", rel)
		}
		name, ok := strLit(kv.Key)
		if !ok || seen[name] {
			return nil, fmt.Errorf("%s: funcProtos key not a unique string literal", rel)
		}
		seen[name] = true
		var kinds []string
		switch v := kv.Value.(type) {
		case *ast.Ident:
			if v.Name != "nil" {
				return nil, fmt.Errorf("%s: funcProtos[%s] unexpected value %s", rel, name, v.Name)
			}
		case *ast.CompositeLit:
			for _, x := range v.Elts {
				id, ok := x.(*ast.Ident)
				if !ok {
					return nil, fmt.Errorf("%s: funcProtos[%s] has a non-identifier kind", rel, name)
				}
				kinds = append(kinds, leanStr(id.Name))
			}
		default:
			return nil, fmt.Errorf("%s: funcProtos[%s] unexpected value", rel, name)
		}
		out = append(out, fmt.Sprintf("(%s, %s, [%s])", leanStr(name), c17Bytes(name), strings.Join(kinds, ", ")))
	}
	sort.Strings(out)
	return out, nil
}

// c17ArgUses collects node.Args[k].Value / node.Args[k].ToBool() uses below n.
func c17ArgUses(n ast.Node, bad *error) []string {
	uses := map[string]bool{}
	ast.Inspect(n, func(x ast.Node) bool {
		ix, ok := x.(*ast.IndexExpr)
		if !ok {
			return true
		}
		sel, ok := ix.X.(*ast.SelectorExpr)
		if !ok || sel.Sel.Name != "Args" {
			return true
		}
		if id, ok := sel.X.(*ast.Ident); !ok || id.Name != "node" {
			return true
		}
		if _, ok := intLit(ix.Index); !ok {
			*bad = fmt.Errorf("node.Args indexed by a non-literal")
		}
		return true
	})
	// second pass with parents: selector over the index expression
	ast.Inspect(n, func(x ast.Node) bool {
		sel, ok := x.(*ast.SelectorExpr)
		if !ok {
			return true
		}
		ix, ok := sel.X.(*ast.IndexExpr)
		if !ok {
			return true
		}
		s2, ok := ix.X.(*ast.SelectorExpr)
		if !ok || s2.Sel.Name != "Args" {
			return true
		}
		k, ok := intLit(ix.Index)
		if !ok {
			return true
		}
		if sel.Sel.Name != "Value" && sel.Sel.Name != "ToBool" {
			*bad = fmt.Errorf("node.Args[%d].%s is not modelled", k, sel.Sel.Name)
		}
		uses[fmt.Sprintf("(%d, %s)", k, leanStr(sel.Sel.Name))] = true
		return true
	})
	var out []string
	for u := range uses {
		out = append(out, u)
	}
	sort.Strings(out)
	return out
}

var c17Ctors = map[string]bool{"NewIpInMatcher": true, "NewIPMatcher": true, "NewHashMatcher": true, "NewHostMatcher": true,
	"NewTimeMatcher": true, "NewPeriodicTimeMatcher": true, "Compile": true}

// c17Validators lists the fallible constructors called in a case with the node.Args indices they receive.
func c17Validators(n ast.Node) []string {
	var out []string
	ast.Inspect(n, func(x ast.Node) bool {
		call, ok := x.(*ast.CallExpr)
		if !ok {
			return true
		}
		name := ""
		switch f := call.Fun.(type) {
		case *ast.Ident:
			name = f.Name
		case *ast.SelectorExpr:
			if id, ok := f.X.(*ast.Ident); ok && id.Name == "regexp" {
				name = f.Sel.Name
			}
		}
		if !c17Ctors[name] {
			return true
		}
		var idx []string
		for _, a := range call.Args {
			if sel, ok := a.(*ast.SelectorExpr); ok && sel.Sel.Name == "Value" {
				if ix, ok := sel.X.(*ast.IndexExpr); ok {
					if k, ok := intLit(ix.Index); ok {
						idx = append(idx, fmt.Sprint(k))
					}
				}
			}
		}
		out = append(out, fmt.Sprintf("(%s, [%s])", leanStr(name), strings.Join(idx, ", ")))
		return true
	})
	return out
}

func c17Cases(repo string) ([]string, error) {
	rel := "bfe_basic/condition/build.go"
	_, f, err := parseFile(repo, rel)
	if err != nil {
		return nil, err
	}
	fd := findFunc(f, "", "buildPrimitive")
	if fd == nil || fd.Body == nil || len(fd.Body.List) != 1 {
		return nil, fmt.Errorf("%s: buildPrimitive is not a single switch", rel)
	}
	sw, ok := fd.Body.List[0].(*ast.SwitchStmt)
	if !ok {
		return nil, fmt.Errorf("%s: buildPrimitive is not a single switch", rel)
	}
	var out []string
	seen := map[string]bool{}
	hasDefault := false
	for _, st := range sw.Body.List {
		cc := st.(*ast.CaseClause)
		if cc.List == nil {
			hasDefault = true
			continue
		}
		var bad error
		uses := c17ArgUses(&ast.BlockStmt{List: cc.Body}, &bad)
		if bad != nil {
			return nil, fmt.Errorf("%s: %v", rel, bad)
		}
		for _, e := range cc.List {
			name, ok := strLit(e)
			if !ok || seen[name] {
				return nil, fmt.Errorf("%s: case label not a unique string literal", rel)
			}
			seen[name] = true
			out = append(out, fmt.Sprintf("(%s, %s, [%s], [%s])", leanStr(name), c17Bytes(name), strings.Join(uses, ", "),
				strings.Join(c17Validators(&ast.BlockStmt{List: cc.Body}), ", ")))
		}
	}
	if !hasDefault {
		return nil, fmt.Errorf("%s: buildPrimitive has no default case", rel)
	}
	sort.Strings(out)
	return out, nil
}

func c17Zones(repo string) ([]string, error) {
	rel := "bfe_util/time.go"
	_, f, err := parseFile(repo, rel)
	if err != nil {
		return nil, err
	}
	cl, ok := findValue(f, "TimeZoneMap").(*ast.CompositeLit)
	if !ok {
		return nil, fmt.Errorf("%s: TimeZoneMap is not a composite literal", rel)
	}
	var out []string
	for _, e := range cl.Elts {
		kv := e.(*ast.KeyValueExpr)
		name, ok := strLit(kv.Key)
		if !ok {
			return nil, fmt.Errorf("%s: TimeZoneMap key", rel)
		}
		var v int64
		switch x := kv.Value.(type) {
		case *ast.BinaryExpr:
			// -12 * 3600
			l := x.X
			neg := false
			if u, ok := l.(*ast.UnaryExpr); ok && u.Op == token.SUB {
				neg = true
				l = u.X
			}
			a, ok1 := intLit(l)
			b, ok2 := intLit(x.Y)
			if !ok1 || !ok2 || x.Op != token.MUL {
				return nil, fmt.Errorf("%s: TimeZoneMap[%s] value", rel, name)
			}
			v = a * b
			if neg {
				v = -v
			}
		default:
			a, ok := intLit(kv.Value)
			if !ok {
				return nil, fmt.Errorf("%s: TimeZoneMap[%s] value", rel, name)
			}
			v = a
		}
		out = append(out, fmt.Sprintf("(%s, %s, (%d : Int))", leanStr(name), c17Bytes(name), v))
	}
	sort.Strings(out)
	return out, nil
}

func init() {
	register("C17", func(repo string) (string, error) {
		protos, err := c17Protos(repo)
		if err != nil {
			return "", err
		}
		cases, err := c17Cases(repo)
		if err != nil {
			return "", err
		}
		zones, err := c17Zones(repo)
		if err != nil {
			return "", err
		}
		_, pf, err := parseFile(repo, "bfe_basic/condition/primitive.go")
		if err != nil {
			return "", err
		}
		bs, ok := intLit(findValue(pf, "HashMatcherBucketSize"))
		if !ok {
			return "", fmt.Errorf("primitive.go: HashMatcherBucketSize is not an integer literal")
		}
		var b strings.Builder
		b.WriteString(header("C17", "bfe_basic/condition/parser/semant.go", "bfe_basic/condition/build.go", "bfe_basic/condition/primitive.go", "bfe_util/time.go"))
		b.WriteString("/-- funcProtos: primitive name -> argument token kinds (sorted by name) -/\n")
		b.WriteString("def funcProtosS : List (String × List UInt8 × List String) := [\n  " + strings.Join(protos, ",\n  ") + "]\n\n")
		b.WriteString("/-- buildPrimitive: case label -> the node.Args[k].Value / .ToBool() uses of that case, and the fallible\n    constructors it calls with the Args indices they receive (sorted by name) -/\n")
		b.WriteString("def buildCasesS : List (String × List UInt8 × List (Nat × String) × List (String × List Nat)) := [\n  " + strings.Join(cases, ",\n  ") + "]\n\n")
		fmt.Fprintf(&b, "def hashBucketSize : Nat := %d\n\n", bs)
		b.WriteString("def timeZonesS : List (String × List UInt8 × Int) := [" + strings.Join(zones, ", ") + "]\n\n")
		b.WriteString("/-- the same tables keyed by the UTF-8 bytes of the name -/\n")
		b.WriteString("def funcProtos : List (List UInt8 × List String) := funcProtosS.map (·.2)\n")
		b.WriteString("def buildCases : List (List UInt8 × List (Nat × String) × List (String × List Nat)) := buildCasesS.map (·.2)\n")
		b.WriteString("def timeZones : List (List UInt8 × Int) := timeZonesS.map (·.2)\n")
		b.WriteString(footer("C17"))
		return b.String(), nil
	})
}
