// C17: tables the build totality / type-check theorems are stated over:
//   funcProtos      (parser/semant.go)   primitive name -> argument token kinds
//   buildCases      (build.go)           buildPrimitive switch: case name -> uses of node.Args[k] (.Value / .ToBool())
//   hashBucketSize  (primitive.go)       HashMatcherBucketSize
//   timeZones       (bfe_util/time.go)   TimeZoneMap
package main

import (
	"fmt"
	"go/ast"
	"go/token"
	"sort"
	"strings"
)

// c17Bytes renders a Go string as a Lean `List UInt8` literal (kernel-reducible, unlike String.toUTF8).
func c17Bytes(s string) string {
	var parts []string
	for i := 0; i < len(s); i++ {
		parts = append(parts, fmt.Sprint(s[i]))
	}
	return "[" + strings.Join(parts, ", ") + "]"
}

func c17Protos(repo string) ([]string, error) {
	rel := "bfe_basic/condition/parser/semant.go"
	_, f, err := parseFile(repo, rel)
	if err != nil {
		return nil, err
	}
	cl, ok := findValue(f, "funcProtos").(*ast.CompositeLit)
	if !ok {
		return nil, fmt.Errorf("%s: funcProtos is not a composite literal", rel)
	}
	var out []string
	seen := map[string]bool{}
	for _, e := range cl.Elts {
		kv, ok := e.(*ast.KeyValueExpr)
		if !ok {
			return nil, fmt.Errorf("%s: funcProtos element is not key:value", rel)
		}
		name, ok := strLit(kv.Key)
		if !ok || seen[name] {
			return nil, fmt.Errorf("%s: funcProtos key not a unique string literal", rel)
		}
		seen[name] = true
		var kinds []string
		switch v := kv.Value.(type) {
		case *ast.Ident:
			if v.Name != "nil" {
				return nil, fmt.Errorf("%s: funcProtos[%s] unexpected value %s", rel, name, v.Name)
			}
		case *ast.CompositeLit:
			for _, x := range v.Elts {
				id, ok := x.(*ast.Ident)
				if !ok {
					return nil, fmt.Errorf("%s: funcProtos[%s] has a non-identifier kind", rel, name)
				}
				kinds = append(kinds, leanStr(id.Name))
			}
		default:
			return nil, fmt.Errorf("%s: funcProtos[%s] unexpected value", rel, name)
		}
		out = append(out, fmt.Sprintf("(%s, %s, [%s])", leanStr(name), c17Bytes(name), strings.Join(kinds, ", ")))
	}
	sort.Strings(out)
	return out, nil
}

// ---- semantic analysis of buildPrimitive -----------------------------------------------------
//
// What an arm of buildPrimitive does is collected by abstract interpretation rather than by its syntactic shape:
// expressions are resolved to "the call node", "node.Args", "node.Args[k]", "node.Args[k].Value",
// "node.Args[k].ToBool()", "node.Fun.Name" through local aliases (x := …), parameters of same-package helper
// functions and closures, which are inlined transitively (bounded depth, cycle-safe).  The arms may be a switch on
// node.Fun.Name (or an alias of it), an if / else-if chain comparing it with literals, or mixtures.

type c17Val struct {
	kind string // "node" "args" "arg" "val" "bool" "fun" "fname" "lit" "closure" ""
	k    int
	lit  *ast.FuncLit
	sc   map[string]c17Val
}

type c17An struct {
	funcs map[string]*ast.FuncDecl // package-level functions of package condition
	uses  map[string]bool
	ctors map[string]bool
	stack map[string]bool
	err   error
}

var c17Ctors = map[string]bool{"NewIpInMatcher": true, "NewIPMatcher": true, "NewHashMatcher": true, "NewHostMatcher": true,
	"NewTimeMatcher": true, "NewPeriodicTimeMatcher": true, "Compile": true, "MustCompile": true}

func (a *c17An) resolve(e ast.Expr, sc map[string]c17Val) c17Val {
	switch x := e.(type) {
	case *ast.ParenExpr:
		return a.resolve(x.X, sc)
	case *ast.Ident:
		return sc[x.Name]
	case *ast.FuncLit:
		return c17Val{kind: "closure", lit: x, sc: sc}
	case *ast.SelectorExpr:
		r := a.resolve(x.X, sc)
		switch {
		case r.kind == "node" && x.Sel.Name == "Args":
			return c17Val{kind: "args"}
		case r.kind == "node" && x.Sel.Name == "Fun":
			return c17Val{kind: "fun"}
		case r.kind == "fun" && x.Sel.Name == "Name":
			return c17Val{kind: "fname"}
		case r.kind == "arg" && x.Sel.Name == "Value":
			a.uses[fmt.Sprintf("(%d, %s)", r.k, leanStr("Value"))] = true
			return c17Val{kind: "val", k: r.k}
		case r.kind == "arg" && x.Sel.Name != "Kind" && x.Sel.Name != "ValuePos" && x.Sel.Name != "ToBool":
			a.err = fmt.Errorf("node.Args[%d].%s is not modelled", r.k, x.Sel.Name)
		}
	case *ast.IndexExpr:
		r := a.resolve(x.X, sc)
		if r.kind == "args" {
			k, ok := intLit(x.Index)
			if !ok {
				a.err = fmt.Errorf("node.Args indexed by a non-literal")
				return c17Val{}
			}
			return c17Val{kind: "arg", k: int(k)}
		}
	case *ast.CallExpr:
		if sel, ok := x.Fun.(*ast.SelectorExpr); ok && len(x.Args) == 0 {
			r := a.resolve(sel.X, sc)
			if r.kind == "arg" {
				if sel.Sel.Name != "ToBool" {
					a.err = fmt.Errorf("node.Args[%d].%s() is not modelled", r.k, sel.Sel.Name)
					return c17Val{}
				}
				a.uses[fmt.Sprintf("(%d, %s)", r.k, leanStr("ToBool"))] = true
				return c17Val{kind: "bool", k: r.k}
			}
		}
	}
	return c17Val{}
}

// call handles one call expression: a fallible constructor is recorded, a same-package helper or a closure is inlined.
func (a *c17An) call(c *ast.CallExpr, sc map[string]c17Val, depth int) {
	var args []c17Val
	for _, e := range c.Args {
		args = append(args, a.resolve(e, sc))
	}
	name := ""
	switch f := c.Fun.(type) {
	case *ast.Ident:
		name = f.Name
		if v, ok := sc[f.Name]; ok && v.kind == "closure" {
			a.inline("closure@"+fmt.Sprint(v.lit.Pos()), v.lit.Type, v.lit.Body, v.sc, args, depth)
			return
		}
	case *ast.SelectorExpr:
		if id, ok := f.X.(*ast.Ident); ok && id.Name == "regexp" {
			name = f.Sel.Name
		}
	case *ast.FuncLit:
		a.inline("closure@"+fmt.Sprint(f.Pos()), f.Type, f.Body, sc, args, depth)
		return
	}
	if c17Ctors[name] {
		var idx []string
		for _, v := range args {
			if v.kind == "val" {
				idx = append(idx, fmt.Sprint(v.k))
			}
		}
		if name == "MustCompile" {
			a.err = fmt.Errorf("regexp.MustCompile on a condition argument (panics instead of returning an error) is not modelled")
		}
		a.ctors[fmt.Sprintf("(%s, [%s])", leanStr(name), strings.Join(idx, ", "))] = true
		return
	}
	if fd, ok := a.funcs[name]; ok && fd.Body != nil {
		if _, isIdent := c.Fun.(*ast.Ident); isIdent {
			a.inline(name, fd.Type, fd.Body, map[string]c17Val{}, args, depth)
		}
	}
}

func (a *c17An) inline(key string, ft *ast.FuncType, body *ast.BlockStmt, outer map[string]c17Val, args []c17Val, depth int) {
	if depth > 6 || a.stack[key] {
		return
	}
	interesting := false
	for _, v := range args {
		if v.kind != "" {
			interesting = true
		}
	}
	if !interesting && !strings.HasPrefix(key, "closure@") {
		return // a helper that receives nothing derived from the call node cannot touch its arguments
	}
	sc := map[string]c17Val{}
	for k, v := range outer {
		sc[k] = v
	}
	i := 0
	if ft.Params != nil {
		for _, fld := range ft.Params.List {
			for _, n := range fld.Names {
				if i < len(args) {
					sc[n.Name] = args[i]
				} else {
					delete(sc, n.Name)
				}
				i++
			}
		}
	}
	a.stack[key] = true
	a.block(body, sc, depth+1)
	delete(a.stack, key)
}

// block walks statements in order, maintaining aliases; every expression is resolved (recording uses) and
// every call handled.
func (a *c17An) block(n ast.Node, sc map[string]c17Val, depth int) {
	ast.Inspect(n, func(x ast.Node) bool {
		switch v := x.(type) {
		case *ast.FuncLit:
			return false // analysed when called
		case *ast.AssignStmt:
			for _, r := range v.Rhs {
				a.block(r, sc, depth)
			}
			if len(v.Lhs) == len(v.Rhs) {
				for i, l := range v.Lhs {
					if id, ok := l.(*ast.Ident); ok {
						if r := a.resolve(v.Rhs[i], sc); r.kind != "" {
							sc[id.Name] = r
						} else {
							delete(sc, id.Name)
						}
					}
				}
			} else {
				for _, l := range v.Lhs {
					if id, ok := l.(*ast.Ident); ok {
						delete(sc, id.Name)
					}
				}
			}
			return false
		case *ast.DeclStmt:
			if gd, ok := v.Decl.(*ast.GenDecl); ok {
				for _, sp := range gd.Specs {
					if vs, ok := sp.(*ast.ValueSpec); ok {
						for i, id := range vs.Names {
							if i < len(vs.Values) {
								a.block(vs.Values[i], sc, depth)
								if r := a.resolve(vs.Values[i], sc); r.kind != "" {
									sc[id.Name] = r
									continue
								}
							}
							delete(sc, id.Name)
						}
					}
				}
			}
			return false
		case *ast.CallExpr:
			a.resolve(v, sc)
			a.call(v, sc, depth)
			return true
		case *ast.SelectorExpr:
			a.resolve(v, sc)
			return true
		case *ast.IndexExpr:
			a.resolve(v, sc)
			return true
		}
		return true
	})
}

// c17Labels returns the string literals an arm condition compares node.Fun.Name with (x == "a" || x == "b").
func (a *c17An) labels(e ast.Expr, sc map[string]c17Val) ([]string, bool) {
	switch x := e.(type) {
	case *ast.ParenExpr:
		return a.labels(x.X, sc)
	case *ast.BinaryExpr:
		if x.Op == token.LOR {
			l, ok1 := a.labels(x.X, sc)
			r, ok2 := a.labels(x.Y, sc)
			return append(l, r...), ok1 && ok2
		}
		if x.Op == token.EQL {
			if s, ok := strLit(x.Y); ok && a.resolve(x.X, sc).kind == "fname" {
				return []string{s}, true
			}
			if s, ok := strLit(x.X); ok && a.resolve(x.Y, sc).kind == "fname" {
				return []string{s}, true
			}
		}
	}
	return nil, false
}

type c17Arm struct {
	labels []string
	body   []ast.Stmt
	sc     map[string]c17Val
}

func c17CopyScope(sc map[string]c17Val) map[string]c17Val {
	out := map[string]c17Val{}
	for k, v := range sc {
		out[k] = v
	}
	return out
}

// arms splits a statement list into the arms selected by node.Fun.Name.
func (a *c17An) arms(stmts []ast.Stmt, sc map[string]c17Val, depth int, out *[]c17Arm, hasDefault *bool) error {
	for _, st := range stmts {
		switch v := st.(type) {
		case *ast.SwitchStmt:
			if v.Init != nil {
				a.block(v.Init, sc, depth)
			}
			if v.Tag != nil && a.resolve(v.Tag, sc).kind == "fname" {
				for _, c := range v.Body.List {
					cc := c.(*ast.CaseClause)
					if cc.List == nil {
						*hasDefault = true
						continue
					}
					var ls []string
					for _, e := range cc.List {
						s, ok := strLit(e)
						if !ok {
							return fmt.Errorf("case label is not a string literal")
						}
						ls = append(ls, s)
					}
					*out = append(*out, c17Arm{ls, cc.Body, c17CopyScope(sc)})
				}
				continue
			}
			if v.Tag == nil { // switch { case name == "a": … }
				all := true
				var tmp []c17Arm
				def := false
				for _, c := range v.Body.List {
					cc := c.(*ast.CaseClause)
					if cc.List == nil {
						def = true
						continue
					}
					var ls []string
					for _, e := range cc.List {
						l, ok := a.labels(e, sc)
						if !ok {
							all = false
						}
						ls = append(ls, l...)
					}
					tmp = append(tmp, c17Arm{ls, cc.Body, c17CopyScope(sc)})
				}
				if all && len(tmp) > 0 {
					*out = append(*out, tmp...)
					*hasDefault = *hasDefault || def
					continue
				}
			}
			return fmt.Errorf("a switch of buildPrimitive is not on node.Fun.Name")
		case *ast.IfStmt:
			cur := v
			for cur != nil {
				if cur.Init != nil {
					a.block(cur.Init, sc, depth)
				}
				ls, ok := a.labels(cur.Cond, sc)
				if !ok {
					return fmt.Errorf("an if of buildPrimitive does not compare node.Fun.Name with literals")
				}
				*out = append(*out, c17Arm{ls, cur.Body.List, c17CopyScope(sc)})
				switch e := cur.Else.(type) {
				case *ast.IfStmt:
					cur = e
				case *ast.BlockStmt:
					if err := a.arms(e.List, sc, depth, out, hasDefault); err != nil {
						return err
					}
					cur = nil
				default:
					cur = nil
				}
			}
		case *ast.ReturnStmt:
			*hasDefault = true // the fall-through result: unsupported primitive
		case *ast.AssignStmt, *ast.DeclStmt:
			a.block(v, sc, depth)
		case *ast.BlockStmt:
			if err := a.arms(v.List, sc, depth, out, hasDefault); err != nil {
				return err
			}
		default:
			return fmt.Errorf("statement of buildPrimitive not understood (%T)", st)
		}
	}
	return nil
}

func c17Cases(repo string) ([]string, error) {
	dir := "bfe_basic/condition"
	funcs := map[string]*ast.FuncDecl{}
	for _, rel := range []string{"build.go", "primitive.go", "composite.go", "condition.go"} {
		_, f, err := parseFile(repo, dir+"/"+rel)
		if err != nil {
			return nil, err
		}
		for _, d := range f.Decls {
			if fd, ok := d.(*ast.FuncDecl); ok && fd.Recv == nil {
				funcs[fd.Name.Name] = fd
			}
		}
	}
	fd := funcs["buildPrimitive"]
	if fd == nil || fd.Body == nil || fd.Type.Params == nil || len(fd.Type.Params.List) != 1 || len(fd.Type.Params.List[0].Names) != 1 {
		return nil, fmt.Errorf("%s: buildPrimitive(node) not found", dir)
	}
	root := map[string]c17Val{fd.Type.Params.List[0].Names[0].Name: {kind: "node"}}
	top := &c17An{funcs: funcs, uses: map[string]bool{}, ctors: map[string]bool{}, stack: map[string]bool{"buildPrimitive": true}}
	var arms []c17Arm
	hasDefault := false
	if err := top.arms(fd.Body.List, root, 0, &arms, &hasDefault); err != nil {
		return nil, fmt.Errorf("%s/build.go: %v", dir, err)
	}
	if top.err != nil {
		return nil, fmt.Errorf("%s/build.go: %v", dir, top.err)
	}
	if !hasDefault {
		return nil, fmt.Errorf("%s/build.go: buildPrimitive has no default result", dir)
	}
	var out []string
	seen := map[string]bool{}
	for _, arm := range arms {
		a := &c17An{funcs: funcs, uses: map[string]bool{}, ctors: map[string]bool{}, stack: map[string]bool{"buildPrimitive": true}}
		a.block(&ast.BlockStmt{List: arm.body}, arm.sc, 0)
		if a.err != nil {
			return nil, fmt.Errorf("%s/build.go: %v", dir, a.err)
		}
		var uses, ctors []string
		for u := range a.uses {
			uses = append(uses, u)
		}
		for c := range a.ctors {
			ctors = append(ctors, c)
		}
		sort.Strings(uses)
		sort.Strings(ctors)
		for _, name := range arm.labels {
			if seen[name] {
				return nil, fmt.Errorf("%s/build.go: primitive %s has two arms", dir, name)
			}
			seen[name] = true
			out = append(out, fmt.Sprintf("(%s, %s, [%s], [%s])", leanStr(name), c17Bytes(name), strings.Join(uses, ", "), strings.Join(ctors, ", ")))
		}
	}
	sort.Strings(out)
	return out, nil
}

func c17Zones(repo string) ([]string, error) {
	rel := "bfe_util/time.go"
	_, f, err := parseFile(repo, rel)
	if err != nil {
		return nil, err
	}
	cl, ok := findValue(f, "TimeZoneMap").(*ast.CompositeLit)
	if !ok {
		return nil, fmt.Errorf("%s: TimeZoneMap is not a composite literal", rel)
	}
	var out []string
	for _, e := range cl.Elts {
		kv := e.(*ast.KeyValueExpr)
		name, ok := strLit(kv.Key)
		if !ok {
			return nil, fmt.Errorf("%s: TimeZoneMap key", rel)
		}
		var v int64
		switch x := kv.Value.(type) {
		case *ast.BinaryExpr:
			// -12 * 3600
			l := x.X
			neg := false
			if u, ok := l.(*ast.UnaryExpr); ok && u.Op == token.SUB {
				neg = true
				l = u.X
			}
			a, ok1 := intLit(l)
			b, ok2 := intLit(x.Y)
			if !ok1 || !ok2 || x.Op != token.MUL {
				return nil, fmt.Errorf("%s: TimeZoneMap[%s] value", rel, name)
			}
			v = a * b
			if neg {
				v = -v
			}
		default:
			a, ok := intLit(kv.Value)
			if !ok {
				return nil, fmt.Errorf("%s: TimeZoneMap[%s] value", rel, name)
			}
			v = a
		}
		out = append(out, fmt.Sprintf("(%s, %s, (%d : Int))", leanStr(name), c17Bytes(name), v))
	}
	sort.Strings(out)
	return out, nil
}

func init() {
	register("C17", func(repo string) (string, error) {
		protos, err := c17Protos(repo)
		if err != nil {
			return "", err
		}
		cases, err := c17Cases(repo)
		if err != nil {
			return "", err
		}
		zones, err := c17Zones(repo)
		if err != nil {
			return "", err
		}
		_, pf, err := parseFile(repo, "bfe_basic/condition/primitive.go")
		if err != nil {
			return "", err
		}
		bs, ok := intLit(findValue(pf, "HashMatcherBucketSize"))
		if !ok {
			return "", fmt.Errorf("primitive.go: HashMatcherBucketSize is not an integer literal")
		}
		var b strings.Builder
		b.WriteString(header("C17", "bfe_basic/condition/parser/semant.go", "bfe_basic/condition/build.go", "bfe_basic/condition/primitive.go", "bfe_util/time.go"))
		b.WriteString("/-- funcProtos: primitive name -> argument token kinds (sorted by name) -/\n")
		b.WriteString("def funcProtosS : List (String × List UInt8 × List String) := [\n  " + strings.Join(protos, ",\n  ") + "]\n\n")
		b.WriteString("/-- buildPrimitive: case label -> the node.Args[k].Value / .ToBool() uses of that case, and the fallible\n    constructors it calls with the Args indices they receive (sorted by name) -/\n")
		b.WriteString("def buildCasesS : List (String × List UInt8 × List (Nat × String) × List (String × List Nat)) := [\n  " + strings.Join(cases, ",\n  ") + "]\n\n")
		fmt.Fprintf(&b, "def hashBucketSize : Nat := %d\n\n", bs)
		b.WriteString("def timeZonesS : List (String × List UInt8 × Int) := [" + strings.Join(zones, ", ") + "]\n\n")
		b.WriteString("/-- the same tables keyed by the UTF-8 bytes of the name -/\n")
		b.WriteString("def funcProtos : List (List UInt8 × List String) := funcProtosS.map (·.2)\n")
		b.WriteString("def buildCases : List (List UInt8 × List (Nat × String) × List (String × List Nat)) := buildCasesS.map (·.2)\n")
		b.WriteString("def timeZones : List (List UInt8 × Int) := timeZonesS.map (·.2)\n")
		b.WriteString(footer("C17"))
		return b.String(), nil
	})
}
