package main

// C37 facts: bfe_http2/server.go
//   const maxQueuedControlFrames = N
//   func (s *Server) maxQueuedControlFrames() int { return maxQueuedControlFrames }
//   serve(): for { select {...}; if sc.queuedControlFrames > sc.srv.maxQueuedControlFrames() { ...; return } }
// The extractor fails if the constant or the accessor no longer has this shape; WHERE the check sits is
// reported as the fact `checkAtLoopTail` (a theorem of Props requires it to be true), so that a moved
// check still lets the correspondence run look for a failing input.

import (
	"fmt"
	"go/ast"
	"go/token"
)

func init() {
	register("C37", func(repo string) (string, error) {
		_, f, err := parseFile(repo, "bfe_http2/server.go")
		if err != nil {
			return "", err
		}
		v := findValue(f, "maxQueuedControlFrames")
		n, ok := intLit(v)
		if !ok || n <= 0 {
			return "", fmt.Errorf("const maxQueuedControlFrames is not a positive integer literal")
		}
		m := findFunc(f, "Server", "maxQueuedControlFrames")
		if m == nil || m.Body == nil {
			return "", fmt.Errorf("method (*Server).maxQueuedControlFrames not found")
		}
		okBody := false
		if len(m.Body.List) == 1 {
			if r, ok := m.Body.List[0].(*ast.ReturnStmt); ok && len(r.Results) == 1 {
				if id, ok := r.Results[0].(*ast.Ident); ok && id.Name == "maxQueuedControlFrames" {
					okBody = true
				}
			}
		}
		if !okBody {
			return "", fmt.Errorf("(*Server).maxQueuedControlFrames is no longer `return maxQueuedControlFrames`")
		}
		sv := findFunc(f, "serverConn", "serve")
		if sv == nil || sv.Body == nil {
			return "", fmt.Errorf("serverConn.serve not found")
		}
		isCheck := func(st ast.Stmt) bool {
			is, ok := st.(*ast.IfStmt)
			if !ok || is.Init != nil || is.Else != nil {
				return false
			}
			be, ok := is.Cond.(*ast.BinaryExpr)
			if !ok || be.Op != token.GTR {
				return false
			}
			l, ok1 := be.X.(*ast.SelectorExpr)
			c, ok2 := be.Y.(*ast.CallExpr)
			if !ok1 || !ok2 || l.Sel.Name != "queuedControlFrames" {
				return false
			}
			fs, ok := c.Fun.(*ast.SelectorExpr)
			if !ok || fs.Sel.Name != "maxQueuedControlFrames" || len(is.Body.List) == 0 {
				return false
			}
			_, ret := is.Body.List[len(is.Body.List)-1].(*ast.ReturnStmt)
			return ret
		}
		// the serve loop: the (only) top-level `for { ... select {...} ...; <check> }` of serve().
		// checkAtLoopTail = the check is the LAST statement of the loop body and directly follows the
		// select that dispatches the events, i.e. it runs at the end of every iteration whatever the
		// event and its outcome were.
		atTail := false
		loops := 0
		for _, st := range sv.Body.List {
			fl, ok := st.(*ast.ForStmt)
			if !ok || fl.Cond != nil {
				continue
			}
			loops++
			n := len(fl.Body.List)
			if n >= 2 && isCheck(fl.Body.List[n-1]) {
				if _, ok := fl.Body.List[n-2].(*ast.SelectStmt); ok {
					atTail = true
				}
			}
		}
		if loops != 1 {
			return "", fmt.Errorf("serve(): expected exactly one top-level `for {}` loop, found %d", loops)
		}
		// how many such checks exist anywhere in the file (informational)
		total := 0
		ast.Inspect(f, func(nd ast.Node) bool {
			if st, ok := nd.(ast.Stmt); ok && isCheck(st) {
				total++
			}
			return true
		})
		out := header("C37", "bfe_http2/server.go")
		out += fmt.Sprintf("/-- `const maxQueuedControlFrames` (server.go); serve() closes when `queuedControlFrames > limit` -/\ndef maxQueuedControlFrames : Nat := %d\n", n)
		out += fmt.Sprintf("\n/-- the `if sc.queuedControlFrames > sc.srv.maxQueuedControlFrames() { ...; return }` is the last statement of\n    serve()'s `for` body, right after the `select`: it runs at the end of EVERY loop iteration -/\ndef checkAtLoopTail : Bool := %v\n\n/-- number of such checks found anywhere in server.go -/\ndef checksFound : Nat := %d\n", atTail, total)
		out += footer("C37")
		return out, nil
	})
}
