package main

// C37 facts from bfe_http2 (semantic, not shape-matching):
//
//   maxQueuedControlFrames : the value of the package constant `maxQueuedControlFrames`
//       (integer constant expression; if the accessor `(*Server).maxQueuedControlFrames` exists it must
//       return that constant or an equal literal).
//   checkAtLoopTail : in serverConn.serve(), in the event loop (the top-level `for {}` that contains the
//       `select`), the statements AFTER the select compare `<x>.queuedControlFrames` with the limit and can
//       leave serve() (`return`).  The comparison is searched through same-package helper calls
//       (transitively, depth <= 4, cycle-safe), in either direction (`>`, `<`, `>=`, `<=`, negated or not,
//       `if over {return}` as well as `if !over {continue}; return`), and "the limit" is resolved through
//       local variables assigned from it (in serve() or in the helper), the accessor call, or the constant.
//       The fact is false when the limit check no longer sits after the select (e.g. when it is moved into
//       the handling of one kind of event): then it does not run at the end of every iteration.
//
// Exact control flow (closing exactly when counter > limit at the end of each iteration) is carried by
// the Lean model + the correspondence run; this fact only ties "the check is in the loop tail" to the source.
// The emitted file contains nothing else, so behaviour-preserving rewrites give the identical file.

import (
	"fmt"
	"go/ast"
	"go/parser"
	"go/token"
	"os"
	"path/filepath"
	"strings"
)

type c37pkg struct {
	funcs map[string][]*ast.FuncDecl // by name (functions and methods)
	files []*ast.File
}

func c37load(repo string) (*c37pkg, error) {
	dir := filepath.Join(repo, "bfe_http2")
	ents, err := os.ReadDir(dir)
	if err != nil {
		return nil, err
	}
	p := &c37pkg{funcs: map[string][]*ast.FuncDecl{}}
	fset := token.NewFileSet()
	for _, e := range ents {
		n := e.Name()
		if e.IsDir() || !strings.HasSuffix(n, ".go") || strings.HasSuffix(n, "_test.go") || strings.HasPrefix(n, "zz_verif_") {
			continue
		}
		f, err := parser.ParseFile(fset, filepath.Join(dir, n), nil, 0)
		if err != nil {
			return nil, err
		}
		p.files = append(p.files, f)
		for _, d := range f.Decls {
			if fd, ok := d.(*ast.FuncDecl); ok && fd.Body != nil {
				p.funcs[fd.Name.Name] = append(p.funcs[fd.Name.Name], fd)
			}
		}
	}
	return p, nil
}

const c37const = "maxQueuedControlFrames"
const c37counter = "queuedControlFrames"

func c37unparen(e ast.Expr) ast.Expr {
	for {
		pe, ok := e.(*ast.ParenExpr)
		if !ok {
			return e
		}
		e = pe.X
	}
}

// isCounter: a selector path ending in .queuedControlFrames (or a bare ident of that name)
func c37isCounter(e ast.Expr) bool {
	switch v := c37unparen(e).(type) {
	case *ast.SelectorExpr:
		return v.Sel.Name == c37counter
	case *ast.Ident:
		return v.Name == c37counter
	case *ast.CallExpr: // int(sc.queuedControlFrames)
		if len(v.Args) == 1 {
			if id, ok := v.Fun.(*ast.Ident); ok && (id.Name == "int" || id.Name == "int64" || id.Name == "int32") {
				return c37isCounter(v.Args[0])
			}
		}
	}
	return false
}

// isLimit: the accessor call, the constant, a conversion of those, or a local known to hold the limit
func c37isLimit(e ast.Expr, env map[string]bool) bool {
	switch v := c37unparen(e).(type) {
	case *ast.Ident:
		return v.Name == c37const || env[v.Name]
	case *ast.CallExpr:
		switch f := v.Fun.(type) {
		case *ast.SelectorExpr:
			if f.Sel.Name == c37const && len(v.Args) == 0 {
				return true
			}
		case *ast.Ident:
			if f.Name == c37const && len(v.Args) == 0 {
				return true
			}
			if len(v.Args) == 1 && (f.Name == "int" || f.Name == "int64" || f.Name == "int32") {
				return c37isLimit(v.Args[0], env)
			}
		}
	}
	return false
}

// locals of a function body that are assigned the limit (x := limitExpr / x = limitExpr / var x = limitExpr)
func c37limitLocals(body *ast.BlockStmt) map[string]bool {
	env := map[string]bool{}
	for round := 0; round < 3; round++ {
		ast.Inspect(body, func(n ast.Node) bool {
			switch s := n.(type) {
			case *ast.AssignStmt:
				if len(s.Lhs) == len(s.Rhs) {
					for i := range s.Lhs {
						if id, ok := s.Lhs[i].(*ast.Ident); ok && c37isLimit(s.Rhs[i], env) {
							env[id.Name] = true
						}
					}
				}
			case *ast.ValueSpec:
				if len(s.Names) == len(s.Values) {
					for i := range s.Names {
						if c37isLimit(s.Values[i], env) {
							env[s.Names[i].Name] = true
						}
					}
				}
			}
			return true
		})
	}
	return env
}

// does node (within a function whose limit-locals are env) compare the counter with the limit,
// directly or through same-package calls?
func (p *c37pkg) comparesLimit(node ast.Node, env map[string]bool, depth int, seen map[*ast.FuncDecl]bool) bool {
	found := false
	ast.Inspect(node, func(n ast.Node) bool {
		if found {
			return false
		}
		switch v := n.(type) {
		case *ast.FuncLit:
			return false
		case *ast.BinaryExpr:
			switch v.Op {
			case token.GTR, token.LSS, token.GEQ, token.LEQ:
				if (c37isCounter(v.X) && c37isLimit(v.Y, env)) || (c37isCounter(v.Y) && c37isLimit(v.X, env)) {
					found = true
					return false
				}
			}
		case *ast.CallExpr:
			if depth <= 0 {
				return true
			}
			name := ""
			switch f := v.Fun.(type) {
			case *ast.SelectorExpr:
				name = f.Sel.Name
			case *ast.Ident:
				name = f.Name
			}
			for _, fd := range p.funcs[name] {
				if seen[fd] {
					continue
				}
				seen[fd] = true
				if p.comparesLimit(fd.Body, c37limitLocals(fd.Body), depth-1, seen) {
					found = true
					return false
				}
			}
		}
		return true
	})
	return found
}

func c37hasReturn(stmts []ast.Stmt) bool {
	found := false
	for _, s := range stmts {
		ast.Inspect(s, func(n ast.Node) bool {
			switch n.(type) {
			case *ast.FuncLit:
				return false
			case *ast.ReturnStmt:
				found = true
			}
			return !found
		})
	}
	return found
}

func init() {
	register("C37", func(repo string) (string, error) {
		p, err := c37load(repo)
		if err != nil {
			return "", err
		}
		// the constant
		var cv ast.Expr
		for _, f := range p.files {
			if v := findValue(f, c37const); v != nil {
				cv = v
			}
		}
		n, ok := intLit(cv)
		if cv == nil || !ok || n <= 0 {
			return "", fmt.Errorf("const %s is not a positive integer constant expression", c37const)
		}
		// the accessor, if it exists, must return the constant (or an equal literal)
		for _, fd := range p.funcs[c37const] {
			if fd.Recv == nil {
				continue
			}
			okBody := false
			ast.Inspect(fd.Body, func(nd ast.Node) bool {
				if r, ok := nd.(*ast.ReturnStmt); ok && len(r.Results) == 1 {
					e := c37unparen(r.Results[0])
					if id, ok := e.(*ast.Ident); ok && id.Name == c37const {
						okBody = true
					} else if v, ok := intLit(e); ok && v == n {
						okBody = true
					} else {
						okBody = false
						return false
					}
				}
				return true
			})
			if !okBody {
				return "", fmt.Errorf("(*Server).%s no longer returns the constant %s", c37const, c37const)
			}
		}
		// serve(): the event loop and what follows its select
		var serve *ast.FuncDecl
		for _, fd := range p.funcs["serve"] {
			if fd.Recv != nil && len(fd.Recv.List) == 1 {
				t := fd.Recv.List[0].Type
				if st, ok := t.(*ast.StarExpr); ok {
					t = st.X
				}
				if id, ok := t.(*ast.Ident); ok && id.Name == "serverConn" {
					serve = fd
				}
			}
		}
		if serve == nil {
			return "", fmt.Errorf("serverConn.serve not found")
		}
		env := c37limitLocals(serve.Body)
		atTail := false
		loops := 0
		var walk func(stmts []ast.Stmt)
		walk = func(stmts []ast.Stmt) {
			for _, st := range stmts {
				switch v := st.(type) {
				case *ast.LabeledStmt:
					walk([]ast.Stmt{v.Stmt})
				case *ast.ForStmt:
					body := v.Body.List
					last := -1
					for i, s := range body {
						if ls, ok := s.(*ast.LabeledStmt); ok {
							s = ls.Stmt
						}
						if _, ok := s.(*ast.SelectStmt); ok {
							last = i
						}
					}
					if last < 0 {
						continue
					}
					loops++
					tail := body[last+1:]
					if len(tail) == 0 {
						continue
					}
					blk := &ast.BlockStmt{List: tail}
					if p.comparesLimit(blk, env, 4, map[*ast.FuncDecl]bool{serve: true}) && c37hasReturn(tail) {
						atTail = true
					}
				}
			}
		}
		walk(serve.Body.List)
		if loops == 0 {
			return "", fmt.Errorf("serve(): no top-level `for` loop with a `select` found")
		}
		out := header("C37", "bfe_http2/*.go")
		out += fmt.Sprintf("/-- `const maxQueuedControlFrames`; serve() closes when `queuedControlFrames > limit` -/\ndef maxQueuedControlFrames : Nat := %d\n", n)
		out += fmt.Sprintf("\n/-- in serve()'s event loop the statements after the `select` compare `queuedControlFrames` with the limit\n    (directly or through helpers) and can return: the limit check sits in the tail of every iteration -/\ndef checkAtLoopTail : Bool := %v\n", atTail)
		out += footer("C37")
		return out, nil
	})
}
