package main

// C37 facts: bfe_http2/server.go
//   const maxQueuedControlFrames = N
//   func (s *Server) maxQueuedControlFrames() int { return maxQueuedControlFrames }
//   serve(): if sc.queuedControlFrames > sc.srv.maxQueuedControlFrames() { ...; return }
// The extractor fails if any of the three no longer has this shape.

import (
	"fmt"
	"go/ast"
	"go/token"
)

func init() {
	register("C37", func(repo string) (string, error) {
		_, f, err := parseFile(repo, "bfe_http2/server.go")
		if err != nil {
			return "", err
		}
		v := findValue(f, "maxQueuedControlFrames")
		n, ok := intLit(v)
		if !ok || n <= 0 {
			return "", fmt.Errorf("const maxQueuedControlFrames is not a positive integer literal")
		}
		m := findFunc(f, "Server", "maxQueuedControlFrames")
		if m == nil || m.Body == nil {
			return "", fmt.Errorf("method (*Server).maxQueuedControlFrames not found")
		}
		okBody := false
		if len(m.Body.List) == 1 {
			if r, ok := m.Body.List[0].(*ast.ReturnStmt); ok && len(r.Results) == 1 {
				if id, ok := r.Results[0].(*ast.Ident); ok && id.Name == "maxQueuedControlFrames" {
					okBody = true
				}
			}
		}
		if !okBody {
			return "", fmt.Errorf("(*Server).maxQueuedControlFrames is no longer `return maxQueuedControlFrames`")
		}
		sv := findFunc(f, "serverConn", "serve")
		if sv == nil {
			return "", fmt.Errorf("serverConn.serve not found")
		}
		found := 0
		ast.Inspect(sv, func(nd ast.Node) bool {
			is, ok := nd.(*ast.IfStmt)
			if !ok {
				return true
			}
			be, ok := is.Cond.(*ast.BinaryExpr)
			if !ok || be.Op != token.GTR {
				return true
			}
			l, ok1 := be.X.(*ast.SelectorExpr)
			c, ok2 := be.Y.(*ast.CallExpr)
			if !ok1 || !ok2 || l.Sel.Name != "queuedControlFrames" {
				return true
			}
			if s, ok := c.Fun.(*ast.SelectorExpr); ok && s.Sel.Name == "maxQueuedControlFrames" {
				// the body must end the serve loop
				if len(is.Body.List) > 0 {
					if _, ok := is.Body.List[len(is.Body.List)-1].(*ast.ReturnStmt); ok {
						found++
					}
				}
			}
			return true
		})
		if found != 1 {
			return "", fmt.Errorf("serve(): expected exactly one `if sc.queuedControlFrames > ...maxQueuedControlFrames() { ...; return }`, found %d", found)
		}
		out := header("C37", "bfe_http2/server.go")
		out += fmt.Sprintf("/-- `const maxQueuedControlFrames` (server.go); serve() closes when `queuedControlFrames > limit` -/\ndef maxQueuedControlFrames : Nat := %d\n", n)
		out += footer("C37")
		return out, nil
	})
}
