package main

// C05: lock discipline of the balancing code, for EVERY function of bfe_balance (bal_table.go), bal_gslb, bal_slb and
// backend that takes a mutex (itself or through a same-package lock helper): is the mutex released at every way out
// (each return statement and the end of the body; a deferred Unlock covers all of them)?  Uses the structural lock
// walker of c15.go (same package), which follows same-package helpers with a uniform lock effect.
//
//	lockExits : List (String × Bool)     ("pkg/file.go:Recv.Func", released at every exit)
//	lockCount : Nat                       number of Lock/RLock call sites seen (non-vacuity / shape check)

import (
	"fmt"
	"path/filepath"
	"sort"
	"strings"
)

func init() {
	register("C05", func(repo string) (string, error) {
		dirs := []string{"bfe_balance", "bfe_balance/bal_gslb", "bfe_balance/bal_slb", "bfe_balance/backend"}
		var lines []string
		locks := 0
		for _, d := range dirs {
			pk, err := c15Load(filepath.Join(repo, d), nil)
			if err != nil {
				return "", err
			}
			nt := pk.netEffects()
			for _, q := range pk.order {
				if nt[q] != 0 {
					continue // a pure lock / unlock helper: judged at its call sites
				}
				fd := pk.funcs[q]
				if fd.Body == nil {
					continue
				}
				w := &lockWalker{p: pk, env: pk.envOf(fd), net: nt}
				h, term := w.walk(fd.Body.List, 0)
				if !term {
					w.exits = append(w.exits, h <= 0 || w.deferred)
				}
				if w.locks == 0 && !w.deferred {
					continue
				}
				locks += w.locks
				all := true
				for _, r := range w.exits {
					all = all && r
				}
				lines = append(lines, fmt.Sprintf("  (%s, %v)", leanStr(d+"/"+pk.file[q]+":"+q), all))
			}
		}
		sort.Strings(lines)
		// shape check: the functions the property is about must still be there and still take their mutex
		for _, must := range []string{"bal_slb/bal_rr.go:BalanceRR.Update", "bal_slb/bal_rr.go:BalanceRR.simpleBalance",
			"bal_slb/bal_rr.go:BalanceRR.smoothBalance", "bal_slb/bal_rr.go:BalanceRR.stickyBalance",
			"bal_slb/bal_rr.go:BalanceRR.leastConnsSimpleBalance", "bal_slb/bal_rr.go:BalanceRR.leastConnsSmoothBalance",
			"bal_slb/bal_rr.go:BalanceRR.checkSlowStart", "bal_slb/bal_rr.go:BalanceRR.SetSlowStart",
			"bal_gslb/bal_gslb.go:BalanceGslb.Balance", "bal_gslb/bal_gslb.go:BalanceGslb.Reload",
			"bal_gslb/bal_gslb.go:BalanceGslb.BackendReload", "bfe_balance/bal_table.go:BalTable.BalTableReload",
			"bfe_balance/bal_table.go:BalTable.Lookup", "backend/bfe_backend.go:BfeBackend.Avail",
			"backend/bfe_backend.go:BfeBackend.UpdateStatus"} {
			found := false
			for _, l := range lines {
				if strings.Contains(l, must+"\"") {
					found = true
				}
			}
			if !found {
				return "", fmt.Errorf("C05: %s no longer takes a mutex (or was renamed)", must)
			}
		}
		var b strings.Builder
		b.WriteString(header("C05", "bfe_balance/bal_table.go", "bfe_balance/bal_gslb/*.go", "bfe_balance/bal_slb/*.go", "bfe_balance/backend/*.go"))
		b.WriteString("/-- every function of the balancing code that takes a mutex (itself or through a lock helper):\n    (dir/file:function, the mutex is released at EVERY exit: each return and the end of the body) -/\n")
		b.WriteString("def lockExits : List (String × Bool) := [\n" + strings.Join(lines, ",\n") + "\n]\n\n")
		fmt.Fprintf(&b, "/-- number of Lock / RLock call sites in those functions -/\ndef lockCount : Nat := %d\n", locks)
		b.WriteString(footer("C05"))
		return b.String(), nil
	})
}
