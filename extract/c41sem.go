package main

// Semantic helpers for the C41 / C44 fact extractor: facts are collected from a function TOGETHER with the same-package
// helpers it calls (callee bodies are walked at the call site, transitively, bounded depth, cycle-safe), expressions are
// recognised by their selector path (`….clientHello.vers`, `….sessionState.vers`, `<conn>.vers`), not by variable names,
// local aliases are resolved through their definitions, and comparisons are normalised (a < b ≡ b > a ≡ !(a >= b)).
// A behaviour-preserving rewrite (helper extraction, renamed locals, hoisted conditions, early returns) must give the
// IDENTICAL generated file.

import (
	"fmt"
	"go/ast"
	"go/parser"
	"go/token"
	"os"
	"path/filepath"
	"sort"
	"strings"
)

type c41Pkg struct {
	funcs map[string][]*ast.FuncDecl // by bare name (functions and methods)
}

// c41LoadPkg parses every non-test, non-hook file of a package directory.
func c41LoadPkg(repo, dir string) (*c41Pkg, error) {
	p := &c41Pkg{funcs: map[string][]*ast.FuncDecl{}}
	ents, err := os.ReadDir(filepath.Join(repo, dir))
	if err != nil {
		return nil, err
	}
	fset := token.NewFileSet()
	for _, e := range ents {
		n := e.Name()
		if e.IsDir() || !strings.HasSuffix(n, ".go") || strings.HasSuffix(n, "_test.go") || strings.HasPrefix(n, "zz_verif_") {
			continue
		}
		f, err := parser.ParseFile(fset, filepath.Join(repo, dir, n), nil, 0)
		if err != nil {
			return nil, err
		}
		for _, d := range f.Decls {
			if fd, ok := d.(*ast.FuncDecl); ok && fd.Body != nil {
				p.funcs[fd.Name.Name] = append(p.funcs[fd.Name.Name], fd)
			}
		}
	}
	return p, nil
}

func (p *c41Pkg) fn(recv, name string) *ast.FuncDecl {
	for _, fd := range p.funcs[name] {
		r := ""
		if fd.Recv != nil && len(fd.Recv.List) == 1 {
			t := fd.Recv.List[0].Type
			if st, ok := t.(*ast.StarExpr); ok {
				t = st.X
			}
			if id, ok := t.(*ast.Ident); ok {
				r = id.Name
			}
		}
		if r == recv {
			return fd
		}
	}
	return nil
}

// callee returns the unique same-package function a call may refer to (nil if none / ambiguous / clearly an interface or
// foreign-package call: exported last path element such as config.ServerRule.Get, pkg.Func).
func (p *c41Pkg) callee(c *ast.CallExpr) *ast.FuncDecl {
	var name string
	switch f := c.Fun.(type) {
	case *ast.Ident:
		name = f.Name
	case *ast.SelectorExpr:
		name = f.Sel.Name
		// receiver path must end in a lower-case element (a local, a receiver, an unexported field)
		last := ""
		switch x := f.X.(type) {
		case *ast.Ident:
			last = x.Name
		case *ast.SelectorExpr:
			last = x.Sel.Name
		case *ast.CallExpr:
			last = "call"
		default:
			return nil
		}
		if last == "" || (last[0] >= 'A' && last[0] <= 'Z') {
			return nil
		}
	default:
		return nil
	}
	if len(p.funcs[name]) != 1 {
		return nil
	}
	return p.funcs[name][0]
}

// walk visits the nodes of root's body in source order; at a call of a same-package function the arguments are visited
// first and then the callee's body (depth-bounded, no recursion into functions already on the stack).
func (p *c41Pkg) walk(root *ast.FuncDecl, visit func(n ast.Node)) { p.walkFrom(root, nil, visit) }

// walkNode is walk started at an arbitrary node (a statement, a block) instead of a function body.
func (p *c41Pkg) walkNode(n ast.Node, visit func(n ast.Node)) { p.walkFrom(nil, n, visit) }

// mentions: does the node — or a same-package helper it calls — contain a node satisfying pred?
func (p *c41Pkg) mentions(n ast.Node, pred func(ast.Node) bool) bool {
	found := false
	p.walkNode(n, func(x ast.Node) {
		if pred(x) {
			found = true
		}
	})
	return found
}

func (p *c41Pkg) walkFrom(root *ast.FuncDecl, start ast.Node, visit func(n ast.Node)) {
	stack := map[*ast.FuncDecl]bool{}
	var rec func(fd *ast.FuncDecl, depth int)
	var inspect func(n ast.Node, depth int)
	inspect = func(n ast.Node, depth int) {
		ast.Inspect(n, func(x ast.Node) bool {
			if x == nil {
				return false
			}
			visit(x)
			if c, ok := x.(*ast.CallExpr); ok {
				inspect(c.Fun, depth)
				for _, a := range c.Args {
					inspect(a, depth)
				}
				if fd := p.callee(c); fd != nil && depth > 0 && !stack[fd] {
					rec(fd, depth-1)
				}
				return false
			}
			if fl, ok := x.(*ast.FuncLit); ok { // closures: walk the body where it is written
				inspect(fl.Body, depth)
				return false
			}
			return true
		})
	}
	rec = func(fd *ast.FuncDecl, depth int) {
		stack[fd] = true
		inspect(fd.Body, depth)
		delete(stack, fd)
	}
	if root != nil {
		rec(root, 5)
	} else {
		inspect(start, 5)
	}
}

// definitions of local names (x := e, x = e, var x = e) seen in a walk, for alias resolution
type c41Defs map[string][]ast.Expr

func (p *c41Pkg) defs(root *ast.FuncDecl) c41Defs {
	d := c41Defs{}
	p.walk(root, func(n ast.Node) {
		switch v := n.(type) {
		case *ast.AssignStmt:
			if len(v.Lhs) == len(v.Rhs) {
				for i, l := range v.Lhs {
					if id, ok := l.(*ast.Ident); ok {
						d[id.Name] = append(d[id.Name], v.Rhs[i])
					}
				}
			}
		case *ast.ValueSpec:
			if len(v.Names) == len(v.Values) {
				for i, id := range v.Names {
					d[id.Name] = append(d[id.Name], v.Values[i])
				}
			}
		}
	})
	return d
}

// resolve replaces a local alias by its (unique) definition, repeatedly
func (d c41Defs) resolve(e ast.Expr) ast.Expr {
	for i := 0; i < 4; i++ {
		if pe, ok := e.(*ast.ParenExpr); ok {
			e = pe.X
			continue
		}
		id, ok := e.(*ast.Ident)
		if !ok || len(d[id.Name]) != 1 {
			return e
		}
		e = d[id.Name][0]
	}
	return e
}

// kinds of version expressions
const (
	c41Other        = iota
	c41HelloVers    // ….clientHello.vers
	c41SessionVers  // ….sessionState.vers / <local of type sessionState>.vers
	c41ConnVers     // c.vers, hs.c.vers
	c41MaxEffective // ….maxVersion()
	c41MaxRawField  // ….MaxVersion
	c41MutualOfSess // value of mutualVersion(<session vers>)
)

func c41Classify(d c41Defs, e ast.Expr) int {
	e = d.resolve(e)
	switch v := e.(type) {
	case *ast.CallExpr:
		s := c41ExprString(v.Fun)
		if s == "maxVersion" || strings.HasSuffix(s, ".maxVersion") {
			return c41MaxEffective
		}
	case *ast.SelectorExpr:
		s := c41ExprString(v)
		switch {
		case strings.HasSuffix(s, "clientHello.vers"):
			return c41HelloVers
		case strings.HasSuffix(s, "sessionState.vers") || strings.HasSuffix(s, "Session.vers") || strings.HasSuffix(s, "session.vers"):
			return c41SessionVers
		case strings.HasSuffix(s, ".MaxVersion"):
			return c41MaxRawField
		case v.Sel.Name == "vers":
			// <x>.vers: the connection's version unless x is (an alias of) the session state or the hello
			x := c41ExprString(d.resolve(v.X))
			switch {
			case strings.Contains(x, "clientHello"):
				return c41HelloVers
			case strings.Contains(x, "sessionState") || strings.Contains(strings.ToLower(x), "session"):
				return c41SessionVers
			}
			return c41ConnVers
		}
	}
	return c41Other
}

// a comparison normalised to (lhs OP rhs) with OP in {<, <=, ==, !=}, negated when under `!` or in an else branch
type c41Cmp struct {
	l, r ast.Expr
	op   token.Token
}

func c41NormCmp(d c41Defs, e ast.Expr, neg bool) (c41Cmp, bool) {
	for {
		if id, ok := e.(*ast.Ident); ok && d != nil && len(d[id.Name]) == 1 {
			e = d[id.Name][0]
			continue
		}
		switch v := e.(type) {
		case *ast.ParenExpr:
			e = v.X
			continue
		case *ast.UnaryExpr:
			if v.Op == token.NOT {
				e, neg = v.X, !neg
				continue
			}
		}
		break
	}
	b, ok := e.(*ast.BinaryExpr)
	if !ok {
		return c41Cmp{}, false
	}
	op := b.Op
	if neg {
		switch op {
		case token.LSS:
			op = token.GEQ
		case token.GEQ:
			op = token.LSS
		case token.GTR:
			op = token.LEQ
		case token.LEQ:
			op = token.GTR
		case token.EQL:
			op = token.NEQ
		case token.NEQ:
			op = token.EQL
		default:
			return c41Cmp{}, false
		}
	}
	l, r := b.X, b.Y
	switch op {
	case token.GTR:
		l, r, op = r, l, token.LSS
	case token.GEQ:
		l, r, op = r, l, token.LEQ
	case token.LSS, token.LEQ, token.EQL, token.NEQ:
	default:
		return c41Cmp{}, false
	}
	return c41Cmp{l, r, op}, true
}

// conjuncts of a condition (a && b && …); under negation the disjuncts of (a || b)
func c41Conjuncts(e ast.Expr, neg bool, out *[]struct {
	e   ast.Expr
	neg bool
}) {
	switch v := e.(type) {
	case *ast.ParenExpr:
		c41Conjuncts(v.X, neg, out)
		return
	case *ast.UnaryExpr:
		if v.Op == token.NOT {
			c41Conjuncts(v.X, !neg, out)
			return
		}
	case *ast.BinaryExpr:
		if (v.Op == token.LAND && !neg) || (v.Op == token.LOR && neg) {
			c41Conjuncts(v.X, neg, out)
			c41Conjuncts(v.Y, neg, out)
			return
		}
	}
	*out = append(*out, struct {
		e   ast.Expr
		neg bool
	}{e, neg})
}

func c41Mentions(n ast.Node, pred func(ast.Node) bool) bool {
	found := false
	ast.Inspect(n, func(x ast.Node) bool {
		if x != nil && pred(x) {
			found = true
		}
		return !found
	})
	return found
}

func c41IsAlertCall(n ast.Node, alert string) bool {
	c, ok := n.(*ast.CallExpr)
	if !ok {
		return false
	}
	s := c41ExprString(c.Fun)
	if !(s == "sendAlert" || strings.HasSuffix(s, ".sendAlert")) || len(c.Args) != 1 {
		return false
	}
	return c41ExprString(c.Args[0]) == alert
}

// c41ScsvBound: which bound the hello's version is compared with where alertInappropriateFallback is sent.
// true = effective maximum (maxVersion()), false = the raw MaxVersion field.
func c41ScsvBound(p *c41Pkg, rch *ast.FuncDecl) (bool, error) {
	d := p.defs(rch)
	var results []bool
	var err error
	mentionsScsv := false
	p.walk(rch, func(n ast.Node) {
		if id, ok := n.(*ast.Ident); ok && id.Name == "TLS_FALLBACK_SCSV" {
			mentionsScsv = true
		}
		is, ok := n.(*ast.IfStmt)
		if !ok {
			return
		}
		inBody := p.mentions(is.Body, func(x ast.Node) bool { return c41IsAlertCall(x, "alertInappropriateFallback") })
		inElse := is.Else != nil && p.mentions(is.Else, func(x ast.Node) bool { return c41IsAlertCall(x, "alertInappropriateFallback") })
		if inBody == inElse {
			return
		}
		// the innermost if that guards the alert decides; an outer if (e.g. "offers SCSV") also contains it: look for the
		// version comparison among this condition's conjuncts and skip conditions that have none
		var cj []struct {
			e   ast.Expr
			neg bool
		}
		c41Conjuncts(is.Cond, inElse, &cj)
		for _, c := range cj {
			cmp, ok := c41NormCmp(d, c.e, c.neg)
			if !ok || cmp.op != token.LSS {
				continue
			}
			if c41Classify(d, cmp.l) != c41HelloVers {
				continue
			}
			switch c41Classify(d, cmp.r) {
			case c41MaxEffective:
				results = append(results, true)
			case c41MaxRawField:
				results = append(results, false)
			default:
				err = fmt.Errorf("readClientHello: fallback test compares the hello's version with %s, not understood", c41ExprString(cmp.r))
			}
		}
	})
	if err != nil {
		return false, err
	}
	if !mentionsScsv {
		return false, fmt.Errorf("readClientHello: TLS_FALLBACK_SCSV is not looked at")
	}
	if len(results) != 1 {
		return false, fmt.Errorf("readClientHello: expected exactly one `clientHello.vers < <bound>` guard of alertInappropriateFallback, found %d", len(results))
	}
	return results[0], nil
}

func c41ReturnsFalse(b *ast.BlockStmt) bool {
	if b == nil || len(b.List) == 0 {
		return false
	}
	rs, ok := b.List[len(b.List)-1].(*ast.ReturnStmt)
	if !ok || len(rs.Results) == 0 {
		return false
	}
	s := c41ExprString(rs.Results[0])
	return s == "false" || s == "nil"
}

// c41ResumeVersionTests: (same-version test present, legacy tests present) in checkForResumption
func c41ResumeVersionTests(p *c41Pkg, cfr *ast.FuncDecl) (same, legacy bool, err error) {
	d := p.defs(cfr)
	oldGt, oldMutual := false, false
	p.walk(cfr, func(n ast.Node) {
		is, ok := n.(*ast.IfStmt)
		if !ok || !c41ReturnsFalse(is.Body) {
			return
		}
		// refusal when ANY disjunct holds: disjuncts of the condition = conjuncts of its negation, negated back
		var dj []struct {
			e   ast.Expr
			neg bool
		}
		c41Conjuncts(is.Cond, true, &dj)
		for _, c := range dj {
			cmp, ok := c41NormCmp(d, c.e, !c.neg)
			if !ok {
				continue
			}
			kl, kr := c41Classify(d, cmp.l), c41Classify(d, cmp.r)
			switch {
			case cmp.op == token.NEQ && ((kl == c41ConnVers && kr == c41SessionVers) || (kl == c41SessionVers && kr == c41ConnVers)):
				same = true
			case cmp.op == token.LSS && kl == c41HelloVers && kr == c41SessionVers: // session.vers > hello.vers
				oldGt = true
			case cmp.op == token.NEQ && (kl == c41SessionVers || kr == c41SessionVers) && is.Init != nil &&
				c41Mentions(is.Init, func(x ast.Node) bool {
					c, ok := x.(*ast.CallExpr)
					return ok && strings.HasSuffix(c41ExprString(c.Fun), "mutualVersion")
				}):
				oldMutual = true
			}
		}
	})
	legacy = oldGt && oldMutual
	if !same && !legacy {
		return false, false, fmt.Errorf("checkForResumption: version checks not understood")
	}
	return same, legacy, nil
}

// c41ServerNameFirst: in readClientHello (helpers inlined) the Conn's serverName is assigned before the first lookup that
// reads it through the Conn (ServerRule.Get, NextProtos.Get, MultiCert.Get).
func c41ServerNameFirst(p *c41Pkg, rch *ast.FuncDecl) (bool, error) {
	d := p.defs(rch)
	idx, set, use := 0, -1, -1
	p.walk(rch, func(n ast.Node) {
		idx++
		switch v := n.(type) {
		case *ast.AssignStmt:
			for _, l := range v.Lhs {
				s := c41ExprString(l)
				if strings.HasSuffix(s, ".serverName") && !strings.Contains(s, "clientHello") && set < 0 {
					set = idx
				}
			}
		case *ast.CallExpr:
			se, ok := v.Fun.(*ast.SelectorExpr)
			if !ok || se.Sel.Name != "Get" {
				return
			}
			x := c41ExprString(d.resolve(se.X))
			if strings.HasSuffix(x, "ServerRule") || strings.HasSuffix(x, "NextProtos") || strings.HasSuffix(x, "MultiCert") ||
				strings.HasSuffix(x, "tlsMultiCertificate") {
				if use < 0 {
					use = idx
				}
			}
		}
	})
	if use < 0 {
		return false, fmt.Errorf("readClientHello: no ServerRule.Get / NextProtos.Get / MultiCert.Get call found")
	}
	return set >= 0 && set < use, nil
}

// c41IssuedVers: what is written into the `vers` field of the sessionState built (directly or in a helper) by fn.
// true = the connection's negotiated version, false = the version the client offered.
func c41IssuedVers(p *c41Pkg, fn *ast.FuncDecl, what string) (bool, error) {
	return c41IssuedVersExcluding(p, fn, what, nil)
}

// … not descending into `skip` (a callee that is examined on its own)
func c41IssuedVersExcluding(p *c41Pkg, fn *ast.FuncDecl, what string, skip *ast.FuncDecl) (bool, error) {
	if skip != nil {
		saved := p.funcs[skip.Name.Name]
		p.funcs[skip.Name.Name] = nil
		defer func() { p.funcs[skip.Name.Name] = saved }()
	}
	d := p.defs(fn)
	var kinds []int
	isState := func(t ast.Expr) bool {
		s := c41ExprString(t)
		return s == "sessionState" || s == "&sessionState" || s == "*sessionState"
	}
	stateVars := map[string]bool{}
	p.walk(fn, func(n ast.Node) {
		switch v := n.(type) {
		case *ast.CompositeLit:
			if v.Type == nil || !isState(v.Type) {
				return
			}
			for i, e := range v.Elts {
				if kv, ok := e.(*ast.KeyValueExpr); ok {
					if c41ExprString(kv.Key) == "vers" {
						kinds = append(kinds, c41Classify(d, kv.Value))
					}
				} else if i == 0 { // positional literal: vers is the first field
					kinds = append(kinds, c41Classify(d, e))
				}
			}
		case *ast.ValueSpec:
			if v.Type != nil && isState(v.Type) {
				for _, id := range v.Names {
					stateVars[id.Name] = true
				}
			}
		case *ast.AssignStmt:
			for i, l := range v.Lhs {
				if id, ok := l.(*ast.Ident); ok && i < len(v.Rhs) {
					r := v.Rhs[i]
					if u, ok := r.(*ast.UnaryExpr); ok && u.Op == token.AND {
						r = u.X
					}
					if cl, ok := r.(*ast.CompositeLit); ok && cl.Type != nil && isState(cl.Type) {
						stateVars[id.Name] = true
					}
					if c, ok := r.(*ast.CallExpr); ok && c41ExprString(c.Fun) == "new" && len(c.Args) == 1 && isState(c.Args[0]) {
						stateVars[id.Name] = true
					}
				}
				if se, ok := l.(*ast.SelectorExpr); ok && se.Sel.Name == "vers" && i < len(v.Rhs) {
					if id, ok := se.X.(*ast.Ident); ok && stateVars[id.Name] {
						kinds = append(kinds, c41Classify(d, v.Rhs[i]))
					}
				}
			}
		}
	})
	if len(kinds) == 0 {
		return false, fmt.Errorf("%s: no sessionState with a vers field is built", what)
	}
	res := -1
	for _, k := range kinds {
		var v int
		switch k {
		case c41ConnVers:
			v = 1
		case c41HelloVers:
			v = 0
		default:
			return false, fmt.Errorf("%s: sessionState.vers is set from something that is neither the connection's nor the hello's version", what)
		}
		if res >= 0 && res != v {
			return false, fmt.Errorf("%s: sessionState.vers is set inconsistently", what)
		}
		res = v
	}
	return res == 1, nil
}

// c41TrueSet: the constants for which a predicate function returns true — switch cases, `x == C` tests guarding
// `return true`, or membership in a package-level slice/map literal; sorted and de-duplicated.
func c41TrueSet(p *c41Pkg, fd *ast.FuncDecl, env map[string]int64, two bool) ([]int64, error) {
	if fd == nil {
		return nil, fmt.Errorf("function not found")
	}
	retTrue := func(b []ast.Stmt) bool {
		if len(b) == 0 {
			return false
		}
		rs, ok := b[len(b)-1].(*ast.ReturnStmt)
		if !ok || len(rs.Results) == 0 {
			return false
		}
		return c41ExprString(rs.Results[len(rs.Results)-1]) == "true"
	}
	set := map[int64]bool{}
	var err error
	var d c41Defs
	p.walk(fd, func(n ast.Node) {
		switch v := n.(type) {
		case *ast.CaseClause:
			if v.List != nil && retTrue(v.Body) {
				for _, e := range v.List {
					if c, ok := c41EvalConst(e, 0, env); ok {
						set[c] = true
					} else {
						err = fmt.Errorf("%s: case constant not understood", fd.Name.Name)
					}
				}
			}
		case *ast.IfStmt:
			if retTrue(v.Body.List) {
				var dj []struct {
					e   ast.Expr
					neg bool
				}
				c41Conjuncts(v.Cond, true, &dj)
				for _, c := range dj {
					if cmp, ok := c41NormCmp(d, c.e, !c.neg); ok && cmp.op == token.EQL {
						if k, ok := c41EvalConst(cmp.r, 0, env); ok {
							set[k] = true
						} else if k, ok := c41EvalConst(cmp.l, 0, env); ok {
							set[k] = true
						}
					}
				}
			}
		}
	})
	if err != nil {
		return nil, err
	}
	if len(set) == 0 {
		return nil, fmt.Errorf("%s: no constant for which it returns true was found", fd.Name.Name)
	}
	var out []int64
	for k := range set {
		out = append(out, k)
	}
	sort.Slice(out, func(i, j int) bool { return out[i] < out[j] })
	_ = two
	return out, nil
}
