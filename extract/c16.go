// C16: the yacc precedence declarations of bfe_basic/condition/parser/cond.y, in source order.
//
// The Lean theorems C16_partial / C16_witness are stated over the table these lines denote
// (a later %left/%right line binds tighter).  The extractor refuses sources whose grammar section is
// not the expression grammar the Lean parser models.
package main

import (
	"fmt"
	"os"
	"path/filepath"
	"strings"
)

const c16Rules = "top: expr expr: LPAREN expr RPAREN | expr LAND expr | expr LOR expr | NOT expr | callExpr | IDENT " +
	"callExpr: IDENT LPAREN paramlist RPAREN | IDENT LPAREN RPAREN paramlist: BASICLIT | paramlist COMMA BASICLIT"

// c16StripActions removes { ... } blocks (nested) and comments.
func c16StripActions(s string) string {
	var b strings.Builder
	depth := 0
	for i := 0; i < len(s); i++ {
		c := s[i]
		switch {
		case c == '{':
			depth++
		case c == '}':
			if depth > 0 {
				depth--
			}
		case depth == 0:
			b.WriteByte(c)
		}
	}
	return b.String()
}

func init() {
	register("C16", func(repo string) (string, error) {
		rel := "bfe_basic/condition/parser/cond.y"
		raw, err := os.ReadFile(filepath.Join(repo, rel))
		if err != nil {
			return "", err
		}
		parts := strings.Split(string(raw), "\n%%")
		if len(parts) != 3 {
			return "", fmt.Errorf("%s: expected declarations %%%% rules %%%% code, got %d sections", rel, len(parts))
		}
		decl, rules := parts[0], parts[1]
		// grammar shape
		if strings.Contains(rules, "%prec") {
			return "", fmt.Errorf("%s: %%prec is not modelled", rel)
		}
		norm := strings.Join(strings.Fields(c16StripActions(rules)), " ")
		if norm != c16Rules {
			return "", fmt.Errorf("%s: grammar rules changed:\n got  %q\n want %q", rel, norm, c16Rules)
		}
		// precedence lines
		var lines []string
		seen := map[string]bool{}
		for _, l := range strings.Split(decl, "\n") {
			f := strings.Fields(l)
			if len(f) == 0 {
				continue
			}
			switch f[0] {
			case "%left", "%right":
				var toks []string
				for _, t := range f[1:] {
					if seen[t] {
						return "", fmt.Errorf("%s: token %s has two precedence declarations", rel, t)
					}
					seen[t] = true
					toks = append(toks, leanStr(t))
				}
				lines = append(lines, fmt.Sprintf("(%s, [%s])", leanStr(f[0][1:]), strings.Join(toks, ", ")))
			case "%nonassoc", "%precedence", "%binary":
				return "", fmt.Errorf("%s: directive %s is not modelled", rel, f[0])
			}
		}
		for _, t := range []string{"LAND", "LOR", "NOT"} {
			if !seen[t] {
				return "", fmt.Errorf("%s: token %s has no precedence declaration", rel, t)
			}
		}
		var b strings.Builder
		b.WriteString(header("C16", rel))
		b.WriteString("/-- precedence declarations of cond.y in source order: (directive, tokens); a later line binds tighter -/\n")
		b.WriteString("def precLines : List (String × List String) := [" + strings.Join(lines, ", ") + "]\n")
		b.WriteString(footer("C16"))
		return b.String(), nil
	})
}
