// C16: the yacc precedence declarations of bfe_basic/condition/parser/cond.y, in source order.
//
// The Lean theorems C16_partial / C16_witness are stated over the table these lines denote
// (a later %left/%right line binds tighter).  The extractor refuses sources whose grammar section is
// not the expression grammar the Lean parser models.
package main

import (
	"fmt"
	"os"
	"path/filepath"
	"sort"
	"strings"
)

// the grammar the Lean parser models: nonterminal -> alternatives (start symbol first)
var c16Want = map[string][]string{
	"top":       {"expr"},
	"expr":      {"LPAREN expr RPAREN", "expr LAND expr", "expr LOR expr", "NOT expr", "callExpr", "IDENT"},
	"callExpr":  {"IDENT LPAREN paramlist RPAREN", "IDENT LPAREN RPAREN"},
	"paramlist": {"BASICLIT", "paramlist COMMA BASICLIT"},
}

// c16StripActions removes { ... } blocks (nested; quotes inside actions respected) and /* */, // comments.
func c16StripActions(s string) string {
	var b strings.Builder
	depth := 0
	for i := 0; i < len(s); i++ {
		c := s[i]
		switch {
		case c == '/' && i+1 < len(s) && s[i+1] == '/':
			for i < len(s) && s[i] != '\n' {
				i++
			}
			b.WriteByte('\n')
		case c == '/' && i+1 < len(s) && s[i+1] == '*':
			i += 2
			for i+1 < len(s) && !(s[i] == '*' && s[i+1] == '/') {
				i++
			}
			i++
			b.WriteByte(' ')
		case depth > 0 && (c == '"' || c == '\'' || c == '`'):
			q := c
			i++
			for i < len(s) && s[i] != q {
				if s[i] == '\\' && q != '`' {
					i++
				}
				i++
			}
		case c == '{':
			depth++
		case c == '}':
			if depth > 0 {
				depth--
			}
		case depth == 0:
			b.WriteByte(c)
		}
	}
	return b.String()
}

// c16ParseRules parses the (action-free) rule section into nonterminal -> alternatives; start = first rule.
func c16ParseRules(src string) (map[string][]string, string, error) {
	src = strings.NewReplacer(":", " : ", "|", " | ", ";", " ; ").Replace(src)
	toks := strings.Fields(src)
	rules := map[string][]string{}
	start, cur := "", ""
	var alt []string
	flush := func() {
		if cur != "" {
			rules[cur] = append(rules[cur], strings.Join(alt, " "))
		}
		alt = nil
	}
	for i := 0; i < len(toks); i++ {
		t := toks[i]
		switch {
		case i+1 < len(toks) && toks[i+1] == ":":
			flush()
			cur = t
			if start == "" {
				start = t
			}
			i++
		case t == "|":
			flush()
		case t == ";":
			flush()
			cur = ""
		case cur == "":
			return nil, "", fmt.Errorf("token %q outside a rule", t)
		default:
			alt = append(alt, t)
		}
	}
	flush()
	return rules, start, nil
}

// c16SameGrammar: equal up to the order of alternatives / rules and the names of the nonterminals.
func c16SameGrammar(got map[string][]string, start string) bool {
	if len(got) != len(c16Want) {
		return false
	}
	var gn, wn []string
	for k := range got {
		if k != start {
			gn = append(gn, k)
		}
	}
	for k := range c16Want {
		if k != "top" {
			wn = append(wn, k)
		}
	}
	sort.Strings(gn)
	sort.Strings(wn)
	canon := func(alts []string, ren map[string]string) string {
		var out []string
		for _, a := range alts {
			f := strings.Fields(a)
			for i, t := range f {
				if r, ok := ren[t]; ok {
					f[i] = r
				}
			}
			out = append(out, strings.Join(f, " "))
		}
		sort.Strings(out)
		return strings.Join(out, " | ")
	}
	var try func(k int, ren map[string]string, used map[string]bool) bool
	try = func(k int, ren map[string]string, used map[string]bool) bool {
		if k == len(gn) {
			for g, w := range ren {
				if canon(got[g], ren) != canon(c16Want[w], nil) {
					return false
				}
			}
			return true
		}
		for _, w := range wn {
			if !used[w] {
				used[w] = true
				ren[gn[k]] = w
				if try(k+1, ren, used) {
					return true
				}
				delete(ren, gn[k])
				used[w] = false
			}
		}
		return false
	}
	return try(0, map[string]string{start: "top"}, map[string]bool{})
}

func init() {
	register("C16", func(repo string) (string, error) {
		rel := "bfe_basic/condition/parser/cond.y"
		raw, err := os.ReadFile(filepath.Join(repo, rel))
		if err != nil {
			return "", err
		}
		parts := strings.Split(string(raw), "\n%%")
		if len(parts) != 3 {
			return "", fmt.Errorf("%s: expected declarations %%%% rules %%%% code, got %d sections", rel, len(parts))
		}
		decl, rules := parts[0], parts[1]
		// grammar shape
		if strings.Contains(rules, "%prec") {
			return "", fmt.Errorf("%s: %%prec is not modelled", rel)
		}
		got, start, err := c16ParseRules(c16StripActions(rules))
		if err != nil {
			return "", fmt.Errorf("%s: %v", rel, err)
		}
		if !c16SameGrammar(got, start) {
			return "", fmt.Errorf("%s: grammar rules changed (not the modelled expression grammar up to renaming / reordering): %v", rel, got)
		}
		// precedence lines
		var lines []string
		seen := map[string]bool{}
		for _, l := range strings.Split(decl, "\n") {
			for _, cm := range []string{"//", "/*"} {
				if k := strings.Index(l, cm); k >= 0 {
					l = l[:k]
				}
			}
			f := strings.Fields(l)
			if len(f) == 0 {
				continue
			}
			switch f[0] {
			case "%left", "%right":
				// canonical fact: only the operator tokens of the modelled grammar, lines without one are dropped
				var toks []string
				for _, t := range f[1:] {
					if seen[t] {
						return "", fmt.Errorf("%s: token %s has two precedence declarations", rel, t)
					}
					seen[t] = true
					if t == "LAND" || t == "LOR" || t == "NOT" {
						toks = append(toks, leanStr(t))
					}
				}
				if len(toks) > 0 {
					lines = append(lines, fmt.Sprintf("(%s, [%s])", leanStr(f[0][1:]), strings.Join(toks, ", ")))
				}
			case "%nonassoc", "%precedence", "%binary":
				return "", fmt.Errorf("%s: directive %s is not modelled", rel, f[0])
			}
		}
		for _, t := range []string{"LAND", "LOR", "NOT"} {
			if !seen[t] {
				return "", fmt.Errorf("%s: token %s has no precedence declaration", rel, t)
			}
		}
		var b strings.Builder
		b.WriteString(header("C16", rel))
		b.WriteString("/-- precedence declarations of cond.y in source order: (directive, tokens); a later line binds tighter -/\n")
		b.WriteString("def precLines : List (String × List String) := [" + strings.Join(lines, ", ") + "]\n")
		b.WriteString(footer("C16"))
		return b.String(), nil
	})
}
