module bfeverif/extract

go 1.13
