package main

// C48 facts: how the server reacts to the verdict of the filter chain at every callback point, and the control-flow
// skeleton those reactions are embedded in.  The extractor is meant to be SEMANTIC: equivalent code must give the
// identical Generated file.
//
// A callback point is any place in package bfe_server (all non-test files) of one of the shapes
//
//	X = <..>.CallBacks.GetHandlerList(bfe_module.HandleP)  ;  if X != nil { BODY }        (X any local name, = or :=)
//	if X := <..>.CallBacks.GetHandlerList(bfe_module.HandleP); X != nil { BODY }
//
// BODY = a call X.FilterYyy(..) whose verdict is (optionally) stored in a local and then dispatched by a `switch` (tag
// = that local or the call itself, also with an init statement) or an `if` / `else if` chain of `v == V`, `V == v`,
// `a || b` comparisons with bfe_module.BfeHandlerV constants; `case A, B:` is split into one arm per verdict.
// The statements of an arm are reduced to tokens
//
//	action=closeDirectly | action=closeAfterReply | action=keepAlive   (assignment of such a constant to a local, or
//	                      `return [.., ]<const>[, ..]`)
//	return | goto:<label> | redirect (a call of Redirect) | isRedirect (a local whose name contains "redirect" set to true)
//
// calls of same-package helper functions are inlined (depth <= 3, cycle safe; a trailing `return` of the helper is the
// helper's own); assignments to `.BfeStatusCode`, `.HttpResponse`, `.Trans.Backend` and `log.` calls are bookkeeping and
// dropped; anything else becomes `unknown:<text>` (the Lean theorem C48_reactions_understood then fails).
// An arm that falls off its block when nothing but a bare `return` follows in the function gets the token `return`.
// Output is sorted by (callback point value, verdict value).
//
// Skeleton: per function of interest the source-order sequence of callback points, labels and relevant calls, with
// same-package helpers inlined; and a handful of guards recognised by their STRUCTURE (operands of && / || / == in
// any order, local names irrelevant).
//
// The body of the five HandlerList.FilterXxx loops is NOT fingerprinted any more (every harmless rewrite of a loop
// changed it): that part of the tie is carried by the `fl` correspondence cases, which run the real loops.

import (
	"fmt"
	"go/ast"
	"go/parser"
	"go/printer"
	"go/token"
	"os"
	"path/filepath"
	"sort"
	"strings"
)

func c48Str(fset *token.FileSet, n ast.Node) string {
	var b strings.Builder
	printer.Fprint(&b, fset, n)
	return strings.Join(strings.Fields(b.String()), " ")
}

type c48Pkg struct {
	fset   *token.FileSet
	funcs  map[string]*ast.FuncDecl // by name (methods too; package-level names are unique enough here)
	qfuncs map[string]*ast.FuncDecl // "Recv.Name" for methods
	order  []*ast.FuncDecl          // deterministic: file name, then position
	files  []*ast.File
}

func c48LoadPkg(repo, dir string) (*c48Pkg, error) {
	p := &c48Pkg{fset: token.NewFileSet(), funcs: map[string]*ast.FuncDecl{}, qfuncs: map[string]*ast.FuncDecl{}}
	ents, err := os.ReadDir(filepath.Join(repo, dir))
	if err != nil {
		return nil, err
	}
	var names []string
	for _, e := range ents {
		n := e.Name()
		if e.IsDir() || !strings.HasSuffix(n, ".go") || strings.HasSuffix(n, "_test.go") || strings.HasPrefix(n, "zz_verif") {
			continue
		}
		names = append(names, n)
	}
	sort.Strings(names)
	for _, n := range names {
		f, err := parser.ParseFile(p.fset, filepath.Join(repo, dir, n), nil, 0)
		if err != nil {
			return nil, err
		}
		p.files = append(p.files, f)
		for _, d := range f.Decls {
			if fd, ok := d.(*ast.FuncDecl); ok && fd.Body != nil {
				p.order = append(p.order, fd)
				if fd.Recv != nil && len(fd.Recv.List) == 1 {
					t := fd.Recv.List[0].Type
					if st, ok := t.(*ast.StarExpr); ok {
						t = st.X
					}
					if id, ok := t.(*ast.Ident); ok {
						p.qfuncs[id.Name+"."+fd.Name.Name] = fd
					}
				}
				if _, dup := p.funcs[fd.Name.Name]; !dup {
					p.funcs[fd.Name.Name] = fd
				}
			}
		}
	}
	return p, nil
}

func c48CallName(c *ast.CallExpr) string {
	switch f := c.Fun.(type) {
	case *ast.SelectorExpr:
		return f.Sel.Name
	case *ast.Ident:
		return f.Name
	}
	return ""
}

// callee returns the same-package function a call refers to (plain identifier, or method call on a local value).
func (p *c48Pkg) callee(c *ast.CallExpr) *ast.FuncDecl {
	switch f := c.Fun.(type) {
	case *ast.Ident:
		return p.funcs[f.Name]
	case *ast.SelectorExpr:
		if x, ok := f.X.(*ast.Ident); ok && x.Obj != nil { // a local variable / receiver, not a package name
			if fd := p.funcs[f.Sel.Name]; fd != nil && fd.Recv != nil {
				return fd
			}
		}
	}
	return nil
}

// c48IotaConsts returns name -> value for the const block `first = iota; ...`.
func c48IotaConsts(files []*ast.File, first string) map[string]int {
	for _, f := range files {
		for _, d := range f.Decls {
			gd, ok := d.(*ast.GenDecl)
			if !ok || gd.Tok != token.CONST {
				continue
			}
			out := map[string]int{}
			okBlock := false
			for i, s := range gd.Specs {
				vs := s.(*ast.ValueSpec)
				if len(vs.Names) != 1 {
					okBlock = false
					break
				}
				if i == 0 {
					if vs.Names[0].Name != first || len(vs.Values) != 1 {
						break
					}
					if id, ok := vs.Values[0].(*ast.Ident); !ok || id.Name != "iota" {
						break
					}
					okBlock = true
				} else if len(vs.Values) != 0 {
					okBlock = false
					break
				}
				out[vs.Names[0].Name] = i
			}
			if okBlock {
				return out
			}
		}
	}
	return nil
}

var c48Actions = map[string]bool{"keepAlive": true, "closeAfterReply": true, "closeDirectly": true}

func c48SelPath(e ast.Expr) string {
	switch v := e.(type) {
	case *ast.Ident:
		return v.Name
	case *ast.SelectorExpr:
		return c48SelPath(v.X) + "." + v.Sel.Name
	}
	return "?"
}

func (p *c48Pkg) tokens(stmts []ast.Stmt, depth int, seen map[string]bool) []string {
	var toks []string
	for _, st := range stmts {
		switch s := st.(type) {
		case *ast.EmptyStmt:
		case *ast.ReturnStmt:
			for _, r := range s.Results {
				if id, ok := r.(*ast.Ident); ok && c48Actions[id.Name] {
					toks = append(toks, "action="+id.Name)
				}
			}
			toks = append(toks, "return")
		case *ast.BranchStmt:
			if s.Tok == token.GOTO && s.Label != nil {
				toks = append(toks, "goto:"+s.Label.Name)
			} else {
				toks = append(toks, "unknown:"+c48Str(p.fset, s))
			}
		case *ast.AssignStmt:
			if len(s.Lhs) == 1 && len(s.Rhs) == 1 {
				path := c48SelPath(s.Lhs[0])
				if id, ok := s.Rhs[0].(*ast.Ident); ok {
					if _, isLocal := s.Lhs[0].(*ast.Ident); isLocal && c48Actions[id.Name] {
						toks = append(toks, "action="+id.Name)
						continue
					}
					if _, isLocal := s.Lhs[0].(*ast.Ident); isLocal && id.Name == "true" && strings.Contains(strings.ToLower(path), "redirect") {
						toks = append(toks, "isRedirect")
						continue
					}
				}
				if strings.HasSuffix(path, ".BfeStatusCode") || strings.HasSuffix(path, ".HttpResponse") || strings.HasSuffix(path, ".Trans.Backend") {
					continue // bookkeeping: access-log status, response pointer for later hooks, backend connection counter (C07)
				}
			}
			toks = append(toks, "unknown:"+c48Str(p.fset, s))
		case *ast.ExprStmt:
			call, ok := s.X.(*ast.CallExpr)
			if !ok {
				toks = append(toks, "unknown:"+c48Str(p.fset, s))
				continue
			}
			name := c48CallName(call)
			if strings.HasPrefix(c48SelPath(call.Fun), "log.") {
				continue
			}
			if name == "Redirect" {
				toks = append(toks, "redirect")
				continue
			}
			if fd := p.callee(call); fd != nil && depth < 3 && !seen[fd.Name.Name] {
				seen[fd.Name.Name] = true
				in := p.tokens(fd.Body.List, depth+1, seen)
				delete(seen, fd.Name.Name)
				if n := len(in); n > 0 && in[n-1] == "return" {
					in = in[:n-1]
				}
				for _, t := range in {
					if t == "return" || strings.HasPrefix(t, "goto:") {
						t = "unknown:control flow inside helper " + fd.Name.Name
					}
					toks = append(toks, t)
				}
				continue
			}
			toks = append(toks, "unknown:"+c48Str(p.fset, s))
		default:
			toks = append(toks, "unknown:"+c48Str(p.fset, st))
		}
	}
	return toks
}

type c48Arm struct {
	verdict string
	toks    []string
}

type c48Point struct {
	extraGuard    []string
	point, method string
	looked        bool
	arms          []c48Arm
}

func c48VerdictName(e ast.Expr) (string, bool) {
	if pe, ok := e.(*ast.ParenExpr); ok {
		return c48VerdictName(pe.X)
	}
	if se, ok := e.(*ast.SelectorExpr); ok {
		if x, ok := se.X.(*ast.Ident); ok && x.Name == "bfe_module" && strings.HasPrefix(se.Sel.Name, "BfeHandler") {
			return se.Sel.Name, true
		}
	}
	return "", false
}

func c48IsNil(e ast.Expr) bool { id, ok := e.(*ast.Ident); return ok && id.Name == "nil" }

// c48Guard: e is a conjunction one operand of which is `name != nil`; the other operands (text) are returned: a guard
// that does more than the nil test makes the callback point conditional (fact pointGuards, theorem fails) but the
// arms are still extracted, so that the correspondence run can look for a failing input.
func (p *c48Pkg) guard(e ast.Expr, name string) (bool, []string) {
	found := false
	var extra []string
	for _, o := range c48Operands(e, token.LAND) {
		if c48NotNil(c48Unparen(o), name) {
			found = true
		} else {
			extra = append(extra, c48Str(p.fset, o))
		}
	}
	return found, extra
}

// c48NotNil: e is `name != nil` or `nil != name`.
func c48NotNil(e ast.Expr, name string) bool {
	be, ok := e.(*ast.BinaryExpr)
	if !ok || be.Op != token.NEQ {
		return false
	}
	isName := func(x ast.Expr) bool { id, ok := x.(*ast.Ident); return ok && id.Name == name }
	return (isName(be.X) && c48IsNil(be.Y)) || (isName(be.Y) && c48IsNil(be.X))
}

// handlerListAssign: `X = <..>.GetHandlerList(bfe_module.HandleP)`.
func c48HandlerListAssign(st ast.Stmt) (name, point string, ok bool) {
	as, isAs := st.(*ast.AssignStmt)
	if !isAs || len(as.Lhs) != 1 || len(as.Rhs) != 1 {
		return
	}
	id, isID := as.Lhs[0].(*ast.Ident)
	call, isCall := as.Rhs[0].(*ast.CallExpr)
	if !isID || !isCall || c48CallName(call) != "GetHandlerList" || len(call.Args) != 1 {
		return
	}
	arg := c48SelPath(call.Args[0])
	if !strings.HasPrefix(arg, "bfe_module.Handle") {
		return
	}
	return id.Name, strings.TrimPrefix(arg, "bfe_module.Handle"), true
}

// filterCall finds `hl.FilterXxx(...)` directly in e (not inside nested function literals).
func c48FilterCall(e ast.Node, hl string) *ast.CallExpr {
	var found *ast.CallExpr
	if e == nil {
		return nil
	}
	ast.Inspect(e, func(n ast.Node) bool {
		if found != nil {
			return false
		}
		if _, ok := n.(*ast.FuncLit); ok {
			return false
		}
		if c, ok := n.(*ast.CallExpr); ok {
			if se, ok := c.Fun.(*ast.SelectorExpr); ok && strings.HasPrefix(se.Sel.Name, "Filter") {
				if x, ok := se.X.(*ast.Ident); ok && x.Name == hl {
					found = c
					return false
				}
			}
		}
		return true
	})
	return found
}

// c48Cond: the verdicts an `if` condition selects; isV recognises the verdict expression.
func c48Cond(e ast.Expr, isV func(ast.Expr) bool) ([]string, bool) {
	switch v := e.(type) {
	case *ast.ParenExpr:
		return c48Cond(v.X, isV)
	case *ast.BinaryExpr:
		switch v.Op {
		case token.LOR:
			a, ok1 := c48Cond(v.X, isV)
			b, ok2 := c48Cond(v.Y, isV)
			return append(a, b...), ok1 && ok2
		case token.EQL:
			if n, ok := c48VerdictName(v.Y); ok && isV(v.X) {
				return []string{n}, true
			}
			if n, ok := c48VerdictName(v.X); ok && isV(v.Y) {
				return []string{n}, true
			}
		}
	}
	return nil, false
}

func (p *c48Pkg) dispatch(st ast.Stmt, isV func(ast.Expr) bool, where string) ([]c48Arm, error) {
	var arms []c48Arm
	switch s := st.(type) {
	case *ast.SwitchStmt:
		if s.Tag == nil || !isV(s.Tag) {
			return nil, fmt.Errorf("%s: switch tag is not the verdict", where)
		}
		for _, c := range s.Body.List {
			cc := c.(*ast.CaseClause)
			if cc.List == nil {
				if len(cc.Body) != 0 {
					return nil, fmt.Errorf("%s: non-empty `default:` in the verdict switch (not modelled)", where)
				}
				continue
			}
			toks := p.tokens(cc.Body, 0, map[string]bool{})
			for _, e := range cc.List {
				n, ok := c48VerdictName(e)
				if !ok {
					return nil, fmt.Errorf("%s: case %s is not a bfe_module.BfeHandlerXxx", where, c48Str(p.fset, e))
				}
				arms = append(arms, c48Arm{n, toks})
			}
		}
	case *ast.IfStmt:
		names, ok := c48Cond(s.Cond, isV)
		if !ok {
			return nil, fmt.Errorf("%s: `if %s` is not a comparison of the verdict with verdict constants", where, c48Str(p.fset, s.Cond))
		}
		toks := p.tokens(s.Body.List, 0, map[string]bool{})
		for _, n := range names {
			arms = append(arms, c48Arm{n, toks})
		}
		switch e := s.Else.(type) {
		case nil:
		case *ast.IfStmt:
			if e.Init != nil {
				return nil, fmt.Errorf("%s: else-if with init statement", where)
			}
			more, err := p.dispatch(e, isV, where)
			if err != nil {
				return nil, err
			}
			arms = append(arms, more...)
		case *ast.BlockStmt:
			if len(e.List) != 0 {
				return nil, fmt.Errorf("%s: non-empty final else in the verdict dispatch (not modelled)", where)
			}
		}
	default:
		return nil, fmt.Errorf("%s: verdict dispatch is neither switch nor if: %s", where, c48Str(p.fset, st))
	}
	return arms, nil
}

// pointBody analyses the body of `if hl != nil { ... }`.
func (p *c48Pkg) pointBody(hl, point, fn string, body []ast.Stmt) (c48Point, error) {
	pt := c48Point{point: point}
	where := fn + "/" + point
	if len(body) == 0 {
		return pt, fmt.Errorf("%s: empty callback block", where)
	}
	verdictVar := ""
	isV := func(e ast.Expr) bool {
		if pe, ok := e.(*ast.ParenExpr); ok {
			e = pe.X
		}
		if id, ok := e.(*ast.Ident); ok {
			return verdictVar != "" && id.Name == verdictVar
		}
		if c, ok := e.(*ast.CallExpr); ok {
			return c48FilterCall(c, hl) == c
		}
		return false
	}
	noteCall := func(c *ast.CallExpr) { pt.method = c.Fun.(*ast.SelectorExpr).Sel.Name }
	takeAssign := func(st ast.Stmt) bool {
		switch s := st.(type) {
		case *ast.AssignStmt:
			if len(s.Rhs) == 1 {
				if c, ok := s.Rhs[0].(*ast.CallExpr); ok && c48FilterCall(c, hl) == c {
					if id, ok := s.Lhs[0].(*ast.Ident); ok {
						verdictVar = id.Name
					}
					noteCall(c)
					return true
				}
			}
		case *ast.ExprStmt:
			if c, ok := s.X.(*ast.CallExpr); ok && c48FilterCall(c, hl) == c {
				noteCall(c)
				return true
			}
		}
		return false
	}
	rest := body
	if takeAssign(rest[0]) {
		rest = rest[1:]
	}
	// bookkeeping between the call and the dispatch
	for len(rest) > 0 {
		if as, ok := rest[0].(*ast.AssignStmt); ok && len(as.Lhs) == 1 && strings.HasSuffix(c48SelPath(as.Lhs[0]), ".HttpResponse") {
			rest = rest[1:]
			continue
		}
		break
	}
	if len(rest) == 0 {
		if pt.method == "" {
			return pt, fmt.Errorf("%s: no Filter call in the callback block", where)
		}
		pt.looked = verdictVar != ""
		return pt, nil
	}
	if len(rest) != 1 {
		return pt, fmt.Errorf("%s: more than one statement after the Filter call", where)
	}
	// init statements / call inside the dispatch statement itself
	switch s := rest[0].(type) {
	case *ast.SwitchStmt:
		if s.Init != nil && !takeAssign(s.Init) {
			return pt, fmt.Errorf("%s: unexpected switch init", where)
		}
		if pt.method == "" {
			if c := c48FilterCall(s.Tag, hl); c != nil {
				noteCall(c)
			}
		}
	case *ast.IfStmt:
		if s.Init != nil && !takeAssign(s.Init) {
			return pt, fmt.Errorf("%s: unexpected if init", where)
		}
		if pt.method == "" {
			if c := c48FilterCall(s.Cond, hl); c != nil {
				noteCall(c)
			}
		}
	}
	if pt.method == "" {
		return pt, fmt.Errorf("%s: no Filter call in the callback block", where)
	}
	arms, err := p.dispatch(rest[0], isV, where)
	if err != nil {
		return pt, err
	}
	// the effects of an arm (everything before its terminator) are independent of each other: canonical order
	rank := func(t string) int {
		switch {
		case strings.HasPrefix(t, "action="):
			return 0
		case t == "redirect":
			return 1
		case t == "isRedirect":
			return 2
		}
		return 3
	}
	for k := range arms {
		t := append([]string{}, arms[k].toks...)
		n := len(t)
		for i, x := range t {
			if x == "return" || strings.HasPrefix(x, "goto:") {
				n = i
				break
			}
		}
		sort.SliceStable(t[:n], func(i, j int) bool { return rank(t[i]) < rank(t[j]) })
		arms[k].toks = t
	}
	pt.looked = true
	pt.arms = arms
	return pt, nil
}

func c48OnlyBareReturn(stmts []ast.Stmt) bool {
	if len(stmts) == 0 {
		return true
	}
	if len(stmts) == 1 {
		if r, ok := stmts[0].(*ast.ReturnStmt); ok && len(r.Results) == 0 {
			return true
		}
	}
	return false
}

// scan walks a statement list; tail = what follows this list in the enclosing function (nil if unknown / more code).
func (p *c48Pkg) scan(fn string, list []ast.Stmt, top bool, out *[]c48Point) error {
	for i, st := range list {
		var hl, point string
		var body []ast.Stmt
		var after []ast.Stmt
		var extra []string
		found := false
		if n, pt, ok := c48HandlerListAssign(st); ok && i+1 < len(list) {
			if ifs, ok := list[i+1].(*ast.IfStmt); ok && ifs.Init == nil && ifs.Else == nil {
				if g, ex := p.guard(ifs.Cond, n); g {
					hl, point, body, after, found, extra = n, pt, ifs.Body.List, list[i+2:], true, ex
				}
			}
			if !found {
				return fmt.Errorf("%s: `if %s != nil {` does not follow GetHandlerList(Handle%s)", fn, n, pt)
			}
		} else if ifs, ok := st.(*ast.IfStmt); ok && ifs.Init != nil {
			if n, pt, ok := c48HandlerListAssign(ifs.Init); ok {
				g, ex := p.guard(ifs.Cond, n)
				if ifs.Else != nil || !g {
					return fmt.Errorf("%s: unexpected guard around GetHandlerList(Handle%s)", fn, pt)
				}
				hl, point, body, after, found, extra = n, pt, ifs.Body.List, list[i+1:], true, ex
			}
		}
		if found {
			pt, err := p.pointBody(hl, point, fn, body)
			if err != nil {
				return err
			}
			pt.extraGuard = extra
			// an arm that falls off the block when only a bare `return` follows in the function returns
			if top && c48OnlyBareReturn(after) {
				for k := range pt.arms {
					t := pt.arms[k].toks
					if n := len(t); n == 0 || !(t[n-1] == "return" || strings.HasPrefix(t[n-1], "goto:")) {
						pt.arms[k].toks = append(append([]string{}, t...), "return")
					}
				}
			}
			*out = append(*out, pt)
			continue
		}
		// nested blocks (loops, if bodies, case clauses, function literals)
		var err error
		ast.Inspect(st, func(n ast.Node) bool {
			if err != nil {
				return false
			}
			switch b := n.(type) {
			case *ast.BlockStmt:
				err = p.scan(fn, b.List, false, out)
				return false
			case *ast.CaseClause:
				err = p.scan(fn, b.Body, false, out)
				return false
			case *ast.CommClause:
				err = p.scan(fn, b.Body, false, out)
				return false
			}
			return true
		})
		if err != nil {
			return err
		}
	}
	return nil
}

func c48List(xs []string) string {
	var q []string
	for _, x := range xs {
		q = append(q, leanStr(x))
	}
	return "[" + strings.Join(q, ", ") + "]"
}

// events lists, in source order, the callback points, labels and calls of interest in fn, with same-package helpers
// (and function literals, e.g. deferred closures) inlined.
func (p *c48Pkg) events(fn *ast.FuncDecl, calls map[string]bool, depth int, seen map[string]bool) []string {
	var out []string
	ast.Inspect(fn.Body, func(n ast.Node) bool {
		switch v := n.(type) {
		case *ast.LabeledStmt:
			if depth == 0 {
				out = append(out, "label:"+v.Label.Name)
			}
		case *ast.CallExpr:
			name := c48CallName(v)
			if name == "GetHandlerList" && len(v.Args) == 1 {
				out = append(out, "point:"+strings.TrimPrefix(c48SelPath(v.Args[0]), "bfe_module.Handle"))
			} else if calls[name] {
				out = append(out, "call:"+name)
			} else if fd := p.callee(v); fd != nil && depth < 3 && !seen[fd.Name.Name] && fd != fn {
				// arguments first (source order), then the callee's body
				for _, a := range v.Args {
					ast.Inspect(a, func(m ast.Node) bool {
						if c, ok := m.(*ast.CallExpr); ok && calls[c48CallName(c)] {
							out = append(out, "call:"+c48CallName(c))
						}
						return true
					})
				}
				seen[fd.Name.Name] = true
				out = append(out, p.events(fd, calls, depth+1, seen)...)
				delete(seen, fd.Name.Name)
				return false
			}
		}
		return true
	})
	return out
}

// ---- structural guards

func c48Operands(e ast.Expr, op token.Token) []ast.Expr {
	if pe, ok := e.(*ast.ParenExpr); ok {
		return c48Operands(pe.X, op)
	}
	if be, ok := e.(*ast.BinaryExpr); ok && be.Op == op {
		return append(c48Operands(be.X, op), c48Operands(be.Y, op)...)
	}
	return []ast.Expr{e}
}

func c48Unparen(e ast.Expr) ast.Expr {
	for {
		pe, ok := e.(*ast.ParenExpr)
		if !ok {
			return e
		}
		e = pe.X
	}
}

// atom kinds: "not" (!x), "nil==" , "nil!=", "==C" (compare with named constant C), "sel:.f" (selector ending .f), "other"
func c48Atom(e ast.Expr) string {
	e = c48Unparen(e)
	switch v := e.(type) {
	case *ast.UnaryExpr:
		if v.Op == token.NOT {
			return "not"
		}
	case *ast.BinaryExpr:
		if v.Op == token.EQL || v.Op == token.NEQ {
			op := "=="
			if v.Op == token.NEQ {
				op = "!="
			}
			if c48IsNil(v.X) || c48IsNil(v.Y) {
				return "nil" + op
			}
			for _, s := range []ast.Expr{v.X, v.Y} {
				if id, ok := c48Unparen(s).(*ast.Ident); ok && c48Actions[id.Name] {
					return op + id.Name
				}
			}
		}
	case *ast.SelectorExpr:
		return "sel:." + v.Sel.Name
	}
	return "other"
}

func c48AtomSet(e ast.Expr, op token.Token) string {
	var as []string
	for _, o := range c48Operands(e, op) {
		as = append(as, c48Atom(o))
	}
	sort.Strings(as)
	return strings.Join(as, ",")
}

func c48HasCall(n ast.Node, name string) bool {
	found := false
	if n == nil {
		return false
	}
	ast.Inspect(n, func(m ast.Node) bool {
		if c, ok := m.(*ast.CallExpr); ok && c48CallName(c) == name {
			found = true
		}
		return !found
	})
	return found
}

func c48HasBranch(n ast.Node, tok token.Token, label string) bool {
	found := false
	ast.Inspect(n, func(m ast.Node) bool {
		if b, ok := m.(*ast.BranchStmt); ok && b.Tok == tok && (label == "" || (b.Label != nil && b.Label.Name == label)) {
			found = true
		}
		return !found
	})
	return found
}

func c48AnyIf(fn *ast.FuncDecl, pred func(*ast.IfStmt) bool) bool {
	found := false
	ast.Inspect(fn.Body, func(n ast.Node) bool {
		if ifs, ok := n.(*ast.IfStmt); ok && pred(ifs) {
			found = true
		}
		return !found
	})
	return found
}

func init() {
	register("C48", func(repo string) (string, error) {
		srv, err := c48LoadPkg(repo, "bfe_server")
		if err != nil {
			return "", err
		}
		mod, err := c48LoadPkg(repo, "bfe_module")
		if err != nil {
			return "", err
		}
		verdicts := c48IotaConsts(mod.files, "BfeHandlerFinish")
		cps := c48IotaConsts(mod.files, "HandleAccept")
		actions := c48IotaConsts(srv.files, "keepAlive")
		if verdicts == nil || cps == nil || actions == nil {
			return "", fmt.Errorf("verdict / callback point / action const blocks are no longer `X = iota` lists")
		}

		var points []c48Point
		for _, fd := range srv.order {
			if err := srv.scan(fd.Name.Name, fd.Body.List, true, &points); err != nil {
				return "", err
			}
		}
		if len(points) == 0 {
			return "", fmt.Errorf("no callback points found")
		}
		for _, p := range points {
			if _, ok := cps["Handle"+p.point]; !ok {
				return "", fmt.Errorf("callback point Handle%s is not in the const block", p.point)
			}
			for _, a := range p.arms {
				if _, ok := verdicts[a.verdict]; !ok {
					return "", fmt.Errorf("verdict %s is not in the const block", a.verdict)
				}
			}
		}
		sort.SliceStable(points, func(i, j int) bool { return cps["Handle"+points[i].point] < cps["Handle"+points[j].point] })
		for k := range points {
			arms := points[k].arms
			sort.SliceStable(arms, func(i, j int) bool { return verdicts[arms[i].verdict] < verdicts[arms[j].verdict] })
		}

		var b strings.Builder
		b.WriteString(header("C48", "bfe_server/*.go", "bfe_module/bfe_handler_list.go", "bfe_module/bfe_callback.go"))
		b.WriteString("/-- callback points found in bfe_server, by point value: (point, HandlerList method, verdict inspected?) -/\n")
		b.WriteString("def points : List (String × String × Bool) := [\n")
		for i, p := range points {
			sep := ","
			if i == len(points)-1 {
				sep = ""
			}
			fmt.Fprintf(&b, "  (%s, %s, %v)%s\n", leanStr(p.point), leanStr(p.method), p.looked, sep)
		}
		b.WriteString("]\n\n/-- per point and verdict the arm of the verdict dispatch: (point, verdict, statements as tokens) -/\n")
		b.WriteString("def arms : List (String × String × List String) := [\n")
		var rows, trows []string
		for _, p := range points {
			for _, a := range p.arms {
				rows = append(rows, fmt.Sprintf("  (%s, %s, %s)", leanStr(p.point), leanStr(a.verdict), c48List(a.toks)))
				var ts []string
				for _, t := range a.toks {
					switch {
					case strings.HasPrefix(t, "action="):
						ts = append(ts, fmt.Sprintf(".setAction %d", actions[strings.TrimPrefix(t, "action=")]))
					case t == "return":
						ts = append(ts, ".ret")
					case t == "goto:send_response":
						ts = append(ts, ".gotoSend")
					case t == "goto:response_got":
						ts = append(ts, ".gotoGot")
					case t == "redirect":
						ts = append(ts, ".redirect")
					case t == "isRedirect":
						ts = append(ts, ".isRedirect")
					default:
						ts = append(ts, ".unknown")
					}
				}
				trows = append(trows, fmt.Sprintf("  (%d, [%d], [%s])", cps["Handle"+p.point], verdicts[a.verdict], strings.Join(ts, ", ")))
			}
		}
		b.WriteString(strings.Join(rows, ",\n") + "\n]\n\n")
		b.WriteString("/-- one statement of an arm -/\ninductive Tok where\n  | setAction (a : Nat) | ret | gotoSend | gotoGot | redirect | isRedirect | unknown\n  deriving DecidableEq, Repr\n\n")
		b.WriteString("/-- `arms` with the iota values of bfe_module/bfe_callback.go, bfe_handler_list.go, http_conn.go: (point, verdicts of the arm, statements) -/\n")
		b.WriteString("def armsT : List (Nat × List Nat × List Tok) := [\n" + strings.Join(trows, ",\n") + "\n]\n\n")
		b.WriteString("/-- `points` in structured form: (point, verdict inspected?) by point value -/\ndef pointsT : List (Nat × Bool) := [")
		for i, p := range points {
			if i > 0 {
				b.WriteString(", ")
			}
			fmt.Fprintf(&b, "(%d, %v)", cps["Handle"+p.point], p.looked)
		}
		b.WriteString("]\n\n/-- callback points whose block is guarded by more than `hl != nil`: (point, extra conditions) — must be empty -/\ndef pointGuards : List (String × List String) := [")
		first := true
		for _, p := range points {
			if len(p.extraGuard) > 0 {
				if !first {
					b.WriteString(", ")
				}
				first = false
				fmt.Fprintf(&b, "(%s, %s)", leanStr(p.point), c48List(p.extraGuard))
			}
		}
		b.WriteString("]\n\n")
		cl := func(m map[string]int, prefix string) string {
			xs := make([]string, len(m))
			for k, v := range m {
				if v < len(xs) {
					xs[v] = fmt.Sprintf("(%s, %d)", leanStr(strings.TrimPrefix(k, prefix)), v)
				}
			}
			return "[" + strings.Join(xs, ", ") + "]"
		}
		fmt.Fprintf(&b, "/-- `const ( BfeHandlerFinish = iota ... )` -/\ndef verdicts : List (String × Nat) := %s\n\n", cl(verdicts, ""))
		fmt.Fprintf(&b, "/-- `const ( HandleAccept = iota ... )` -/\ndef callbackPoints : List (String × Nat) := %s\n\n", cl(cps, "Handle"))
		fmt.Fprintf(&b, "/-- `const ( keepAlive = iota ... )` of http_conn.go -/\ndef actions : List (String × Nat) := %s\n\n", cl(actions, ""))

		// ---- the control-flow skeleton the arms are embedded in
		type evSpec struct {
			fn    string
			calls []string
		}
		specs := []evSpec{
			{"conn.serve", []string{"finish", "Handshake", "readRequest", "serveRequest"}},
			{"conn.serveRequest", []string{"ServeHTTP", "prepareForCloseConn", "finishRequest", "FinishReq"}},
			{"conn.finish", nil},
			{"ReverseProxy.ServeHTTP", []string{"findProduct", "findCluster", "clusterInvoke", "sendResponse"}},
			{"ReverseProxy.clusterInvoke", []string{"Balance", "RoundTrip"}},
			{"ReverseProxy.FinishReq", nil},
		}
		var evRows []string
		var order []string
		for _, sp := range specs {
			fd := srv.qfuncs[sp.fn]
			if fd == nil {
				return "", fmt.Errorf("function %s not found in bfe_server", sp.fn)
			}
			cm := map[string]bool{}
			for _, c := range sp.calls {
				cm[c] = true
			}
			ev := srv.events(fd, cm, 0, map[string]bool{fd.Name.Name: true})
			if sp.fn == "ReverseProxy.ServeHTTP" {
				for _, e := range ev {
					if strings.HasPrefix(e, "point:") {
						order = append(order, strings.TrimPrefix(e, "point:"))
					}
				}
			}
			evRows = append(evRows, fmt.Sprintf("  (%s, %s)", leanStr(sp.fn), c48List(ev)))
		}
		fmt.Fprintf(&b, "/-- order of the callback points inside ReverseProxy.ServeHTTP -/\ndef serveHTTPOrder : List String := %s\n\n", c48List(order))
		b.WriteString("/-- per function, in source order: callback points, labels, and the calls the skeleton of the model relies on\n    (same-package helpers and function literals inlined) -/\n")
		b.WriteString("def events : List (String × List String) := [\n" + strings.Join(evRows, ",\n") + "\n]\n\n")

		sh, sr, sv := srv.qfuncs["ReverseProxy.ServeHTTP"], srv.qfuncs["conn.serveRequest"], srv.qfuncs["conn.serve"]
		keepAliveConj := false
		ast.Inspect(sr.Body, func(n ast.Node) bool {
			var rhs []ast.Expr
			switch s := n.(type) {
			case *ast.AssignStmt:
				rhs = s.Rhs
			case *ast.ReturnStmt:
				rhs = s.Results
			}
			for _, e := range rhs {
				if c48AtomSet(e, token.LAND) == "==keepAlive,==keepAlive" {
					keepAliveConj = true
				}
			}
			return true
		})
		threeFromCluster := false
		ast.Inspect(sh.Body, func(n ast.Node) bool {
			if as, ok := n.(*ast.AssignStmt); ok && len(as.Lhs) == 3 && len(as.Rhs) == 1 {
				if c, ok := as.Rhs[0].(*ast.CallExpr); ok && c48CallName(c) == "clusterInvoke" {
					threeFromCluster = true
				}
			}
			return true
		})
		guards := []struct {
			name string
			ok   bool
		}{
			{"send_response writes res only under `!<redirect flag> && res != nil`", c48AnyIf(sh, func(i *ast.IfStmt) bool {
				return c48AtomSet(i.Cond, token.LAND) == "nil!=,not" && c48HasCall(i.Body, "sendResponse")
			})},
			{"after clusterInvoke: `err != nil || res == nil` -> internal error response, goto response_got", c48AnyIf(sh, func(i *ast.IfStmt) bool {
				return c48AtomSet(i.Cond, token.LOR) == "nil!=,nil==" && c48HasCall(i.Body, "CreateInternalSrvErrResp") && c48HasBranch(i.Body, token.GOTO, "response_got")
			})},
			{"serveRequest: closeDirectly -> prepareForCloseConn, otherwise finishRequest", c48AnyIf(sr, func(i *ast.IfStmt) bool {
				a := c48Atom(i.Cond)
				if i.Else == nil {
					return false
				}
				return (a == "==closeDirectly" && c48HasCall(i.Body, "prepareForCloseConn") && c48HasCall(i.Else, "finishRequest")) ||
					(a == "!=closeDirectly" && c48HasCall(i.Body, "finishRequest") && c48HasCall(i.Else, "prepareForCloseConn"))
			})},
			{"serveRequest: keep-alive iff both ServeHTTP's and FinishReq's action are keepAlive", keepAliveConj},
			{"serve: `!isKeepAlive || w.closeAfterReply` -> break", c48AnyIf(sv, func(i *ast.IfStmt) bool {
				return c48AtomSet(i.Cond, token.LOR) == "not,sel:.closeAfterReply" && c48HasBranch(i.Body, token.BREAK, "")
			})},
			{"ServeHTTP takes (res, action, err) from clusterInvoke", threeFromCluster},
		}
		b.WriteString("/-- guards of the skeleton, recognised structurally in the current source -/\ndef guards : List (String × Bool) := [\n")
		for i, g := range guards {
			sep := ","
			if i == len(guards)-1 {
				sep = ""
			}
			fmt.Fprintf(&b, "  (%s, %v)%s\n", leanStr(g.name), g.ok, sep)
		}
		b.WriteString("]\n")
		b.WriteString(footer("C48"))
		return b.String(), nil
	})
}
