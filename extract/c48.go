package main

// C48 facts: how the server reacts to the verdict of the filter chain at every callback point.
//
// In bfe_server/reverseproxy.go and bfe_server/http_conn.go every callback point has the shape
//
//	hl = <srv>.CallBacks.GetHandlerList(bfe_module.HandleXxx)      (or `hl := ...`)
//	if hl != nil {
//	    [retVal[, res] =] hl.FilterYyy(...)
//	    [basicReq.HttpResponse = res]
//	    switch retVal { case bfe_module.BfeHandlerV: <stmts> ... }   |   if retVal == bfe_module.BfeHandlerV { <stmts> }   |   nothing
//	}
//
// For each point the extractor emits: the enclosing function, the Filter method, whether the verdict is
// looked at at all, and per `case` the verdict names and the statements reduced to tokens:
//
//	action=closeDirectly | action=closeAfterReply | action=keepAlive | return | goto:<label> | redirect | isRedirect
//	(assignments to basicReq.BfeStatusCode, basicReq.HttpResponse and request.Trans.Backend are bookkeeping for the
//	 access log / connection counters and are dropped: tokens `status`, `backendnil` are NOT emitted)
//	unknown:<text>  for anything else  -> the Lean theorem C48_reactions_understood fails
//
// plus the iota values of the verdict / callback-point / action constants, the order of the callback points inside
// ServeHTTP, and whether the five HandlerList.Filter* loops still have the body the model mirrors.

import (
	"fmt"
	"go/ast"
	"go/printer"
	"go/token"
	"strings"
)

func c48Str(fset *token.FileSet, n ast.Node) string {
	var b strings.Builder
	printer.Fprint(&b, fset, n)
	return strings.Join(strings.Fields(b.String()), " ")
}

type c48Point struct {
	point, fn, method string
	looked            bool
	cases             [][2][]string // verdict names, tokens
}

// iotaConsts returns name -> value for a const block that starts with `X = iota` and contains name first.
func c48IotaConsts(f *ast.File, first string) map[string]int {
	for _, d := range f.Decls {
		gd, ok := d.(*ast.GenDecl)
		if !ok || gd.Tok != token.CONST {
			continue
		}
		out := map[string]int{}
		okBlock := false
		for i, s := range gd.Specs {
			vs := s.(*ast.ValueSpec)
			if len(vs.Names) != 1 {
				okBlock = false
				break
			}
			if i == 0 {
				if vs.Names[0].Name != first || len(vs.Values) != 1 {
					break
				}
				if id, ok := vs.Values[0].(*ast.Ident); !ok || id.Name != "iota" {
					break
				}
				okBlock = true
			} else if len(vs.Values) != 0 {
				okBlock = false
				break
			}
			out[vs.Names[0].Name] = i
		}
		if okBlock {
			return out
		}
	}
	return nil
}

func c48Tokens(fset *token.FileSet, stmts []ast.Stmt) []string {
	var toks []string
	for _, st := range stmts {
		s := c48Str(fset, st)
		switch {
		case s == "return":
			toks = append(toks, "return")
		case strings.HasPrefix(s, "goto "):
			toks = append(toks, "goto:"+strings.TrimPrefix(s, "goto "))
		case s == "action = closeDirectly" || s == "action = closeAfterReply" || s == "action = keepAlive":
			toks = append(toks, "action="+strings.TrimPrefix(s, "action = "))
		case s == "isRedirect = true":
			toks = append(toks, "isRedirect")
		case s == "Redirect(rw, req, basicReq.Redirect.Url, basicReq.Redirect.Code, basicReq.Redirect.Header)":
			toks = append(toks, "redirect")
		case s == "basicReq.BfeStatusCode = bfe_http.StatusInternalServerError" ||
			s == "basicReq.BfeStatusCode = basicReq.Redirect.Code" ||
			s == "request.Trans.Backend = nil":
			// bookkeeping only (access log status / backend connection counter, see C07)
		default:
			toks = append(toks, "unknown:"+s)
		}
	}
	return toks
}

func c48VerdictName(e ast.Expr) (string, bool) {
	if se, ok := e.(*ast.SelectorExpr); ok {
		if x, ok := se.X.(*ast.Ident); ok && x.Name == "bfe_module" && strings.HasPrefix(se.Sel.Name, "BfeHandler") {
			return se.Sel.Name, true
		}
	}
	return "", false
}

// c48Scan walks one statement list.
func c48Scan(fset *token.FileSet, fn string, list []ast.Stmt, out *[]c48Point) error {
	for i, st := range list {
		// recurse into nested blocks first
		var err error
		ast.Inspect(st, func(n ast.Node) bool {
			if err != nil {
				return false
			}
			if b, ok := n.(*ast.BlockStmt); ok && n != st {
				err = c48Scan(fset, fn, b.List, out)
				return false
			}
			if cc, ok := n.(*ast.CaseClause); ok {
				err = c48Scan(fset, fn, cc.Body, out)
				return false
			}
			return true
		})
		if err != nil {
			return err
		}
		as, ok := st.(*ast.AssignStmt)
		if !ok || len(as.Lhs) != 1 || len(as.Rhs) != 1 {
			continue
		}
		if id, ok := as.Lhs[0].(*ast.Ident); !ok || id.Name != "hl" {
			continue
		}
		call, ok := as.Rhs[0].(*ast.CallExpr)
		if !ok || len(call.Args) != 1 || !strings.HasSuffix(c48Str(fset, call.Fun), "CallBacks.GetHandlerList") {
			continue
		}
		arg := c48Str(fset, call.Args[0])
		if !strings.HasPrefix(arg, "bfe_module.Handle") {
			return fmt.Errorf("%s: GetHandlerList argument %q is not a bfe_module.HandleXxx constant", fn, arg)
		}
		p := c48Point{point: strings.TrimPrefix(arg, "bfe_module.Handle"), fn: fn}
		if i+1 >= len(list) {
			return fmt.Errorf("%s: nothing follows GetHandlerList(%s)", fn, arg)
		}
		ifs, ok := list[i+1].(*ast.IfStmt)
		if !ok || c48Str(fset, ifs.Cond) != "hl != nil" || ifs.Else != nil || ifs.Init != nil {
			return fmt.Errorf("%s: `if hl != nil {` does not follow GetHandlerList(%s)", fn, arg)
		}
		body := ifs.Body.List
		if len(body) == 0 {
			return fmt.Errorf("%s: empty `if hl != nil` after %s", fn, arg)
		}
		// first statement: the Filter call
		var fcall *ast.CallExpr
		var lhs string
		switch s := body[0].(type) {
		case *ast.AssignStmt:
			if len(s.Rhs) == 1 {
				fcall, _ = s.Rhs[0].(*ast.CallExpr)
			}
			var l []string
			for _, e := range s.Lhs {
				l = append(l, c48Str(fset, e))
			}
			lhs = strings.Join(l, ",")
		case *ast.ExprStmt:
			fcall, _ = s.X.(*ast.CallExpr)
		}
		if fcall == nil {
			return fmt.Errorf("%s: first statement after %s is not a Filter call", fn, arg)
		}
		m := c48Str(fset, fcall.Fun)
		if !strings.HasPrefix(m, "hl.Filter") {
			return fmt.Errorf("%s: %s is not hl.FilterXxx", fn, m)
		}
		p.method = strings.TrimPrefix(m, "hl.")
		if lhs != "" && lhs != "retVal" && lhs != "retVal,res" {
			return fmt.Errorf("%s: unexpected left-hand side %q of %s", fn, lhs, m)
		}
		rest := body[1:]
		if len(rest) > 0 && c48Str(fset, rest[0]) == "basicReq.HttpResponse = res" {
			rest = rest[1:]
		}
		switch {
		case len(rest) == 0:
			p.looked = false
			if lhs != "" {
				p.looked = true // assigned but never inspected here
			}
		case len(rest) == 1:
			p.looked = true
			if lhs == "" {
				return fmt.Errorf("%s: verdict of %s inspected but never assigned", fn, m)
			}
			switch s := rest[0].(type) {
			case *ast.SwitchStmt:
				if s.Init != nil || c48Str(fset, s.Tag) != "retVal" {
					return fmt.Errorf("%s: switch after %s is not `switch retVal`", fn, m)
				}
				for _, c := range s.Body.List {
					cc := c.(*ast.CaseClause)
					if cc.List == nil {
						return fmt.Errorf("%s: `default:` in the verdict switch of %s (not modelled)", fn, arg)
					}
					var names []string
					for _, e := range cc.List {
						n, ok := c48VerdictName(e)
						if !ok {
							return fmt.Errorf("%s: case %s is not a bfe_module.BfeHandlerXxx", fn, c48Str(fset, e))
						}
						names = append(names, n)
					}
					p.cases = append(p.cases, [2][]string{names, c48Tokens(fset, cc.Body)})
				}
			case *ast.IfStmt:
				be, ok := s.Cond.(*ast.BinaryExpr)
				if !ok || be.Op != token.EQL || c48Str(fset, be.X) != "retVal" || s.Else != nil || s.Init != nil {
					return fmt.Errorf("%s: `if` after %s is not `if retVal == V`", fn, m)
				}
				n, ok := c48VerdictName(be.Y)
				if !ok {
					return fmt.Errorf("%s: `if retVal == %s` does not compare with a verdict constant", fn, c48Str(fset, be.Y))
				}
				p.cases = append(p.cases, [2][]string{{n}, c48Tokens(fset, s.Body.List)})
			default:
				return fmt.Errorf("%s: statement after %s is neither switch nor if: %s", fn, m, c48Str(fset, rest[0]))
			}
		default:
			return fmt.Errorf("%s: more than one statement follows %s inside `if hl != nil`", fn, m)
		}
		*out = append(*out, p)
	}
	return nil
}

func c48List(xs []string) string {
	var q []string
	for _, x := range xs {
		q = append(q, leanStr(x))
	}
	return "[" + strings.Join(q, ", ") + "]"
}

// the body every HandlerList.FilterXxx loop is expected to have (I = interface type, CALL = the call)
const c48LoopTemplate = `for e := hl.handlers.Front(); e != nil; e = e.Next() { switch filter := e.Value.(type) { case IFACE: ASSIGN = CALL if retVal != BfeHandlerGoOn { break LOOP } default: log.Logger.Error("%v (%T) is not a IFACE\n", e.Value, e.Value) break LOOP } }`

// c48Events lists, in source order, the callback points (GetHandlerList), labels and calls to the named functions
// that occur in fn's body (function literals such as deferred closures included).
func c48Events(fset *token.FileSet, fn *ast.FuncDecl, calls map[string]bool) []string {
	var out []string
	ast.Inspect(fn.Body, func(n ast.Node) bool {
		switch v := n.(type) {
		case *ast.LabeledStmt:
			out = append(out, "label:"+v.Label.Name)
		case *ast.CallExpr:
			name := ""
			switch f := v.Fun.(type) {
			case *ast.SelectorExpr:
				name = f.Sel.Name
			case *ast.Ident:
				name = f.Name
			}
			if name == "GetHandlerList" && len(v.Args) == 1 {
				out = append(out, "point:"+strings.TrimPrefix(c48Str(fset, v.Args[0]), "bfe_module.Handle"))
			} else if calls[name] {
				out = append(out, "call:"+name)
			}
		}
		return true
	})
	return out
}

// c48IfWith reports whether fn contains an `if <cond>` (exact text) whose body (or else branch, when inElse) contains all
// the given call names / statement texts.
func c48IfWith(fset *token.FileSet, fn *ast.FuncDecl, cond string, inElse bool, needles ...string) bool {
	found := false
	ast.Inspect(fn.Body, func(n ast.Node) bool {
		ifs, ok := n.(*ast.IfStmt)
		if !ok || c48Str(fset, ifs.Cond) != cond {
			return true
		}
		var blk ast.Node = ifs.Body
		if inElse {
			if ifs.Else == nil {
				return true
			}
			blk = ifs.Else
		}
		txt := c48Str(fset, blk)
		all := true
		for _, nd := range needles {
			if !strings.Contains(txt, nd) {
				all = false
			}
		}
		if all {
			found = true
		}
		return true
	})
	return found
}

func init() {
	register("C48", func(repo string) (string, error) {
		var points []c48Point
		for _, rel := range []string{"bfe_server/http_conn.go", "bfe_server/reverseproxy.go"} {
			fset, f, err := parseFile(repo, rel)
			if err != nil {
				return "", err
			}
			for _, d := range f.Decls {
				fd, ok := d.(*ast.FuncDecl)
				if !ok || fd.Body == nil {
					continue
				}
				if err := c48Scan(fset, fd.Name.Name, fd.Body.List, &points); err != nil {
					return "", err
				}
			}
		}
		if len(points) == 0 {
			return "", fmt.Errorf("no callback points found")
		}
		// labels of ServeHTTP in order, interleaved with points: the order of callback points in ServeHTTP
		var order []string
		for _, p := range points {
			if p.fn == "ServeHTTP" {
				order = append(order, p.point)
			}
		}

		// constants
		_, hf, err := parseFile(repo, "bfe_module/bfe_handler_list.go")
		if err != nil {
			return "", err
		}
		verdicts := c48IotaConsts(hf, "BfeHandlerFinish")
		_, cf, err := parseFile(repo, "bfe_module/bfe_callback.go")
		if err != nil {
			return "", err
		}
		cps := c48IotaConsts(cf, "HandleAccept")
		_, hc, err := parseFile(repo, "bfe_server/http_conn.go")
		if err != nil {
			return "", err
		}
		actions := c48IotaConsts(hc, "keepAlive")
		if verdicts == nil || cps == nil || actions == nil {
			return "", fmt.Errorf("verdict / callback point / action const blocks are no longer `X = iota` lists")
		}

		// Filter loops
		fsetH, hf2, err := parseFile(repo, "bfe_module/bfe_handler_list.go")
		if err != nil {
			return "", err
		}
		type lp struct{ name, iface, assign, call string }
		loops := []lp{
			{"FilterAccept", "AcceptFilter", "retVal", "filter.FilterAccept(session)"},
			{"FilterRequest", "RequestFilter", "retVal, res", "filter.FilterRequest(req)"},
			{"FilterForward", "ForwardFilter", "retVal", "filter.FilterForward(req)"},
			{"FilterResponse", "ResponseFilter", "retVal", "filter.FilterResponse(req, res)"},
			{"FilterFinish", "FinishFilter", "retVal", "filter.FilterFinish(session)"},
		}
		var loopFacts []string
		for _, l := range loops {
			fd := findFunc(hf2, "HandlerList", l.name)
			if fd == nil || fd.Body == nil {
				return "", fmt.Errorf("HandlerList.%s not found", l.name)
			}
			ok := false
			// body: [var res ...;] retVal := BfeHandlerGoOn; LOOP: for ...; return retVal[, res]
			var stmts []string
			for _, st := range fd.Body.List {
				stmts = append(stmts, c48Str(fsetH, st))
			}
			want := strings.NewReplacer("IFACE", l.iface, "ASSIGN", l.assign, "CALL", l.call).Replace(c48LoopTemplate)
			want = strings.Join(strings.Fields(want), " ")
			var exp []string
			if l.name == "FilterRequest" {
				exp = []string{"var res *bfe_http.Response", "retVal := BfeHandlerGoOn", "LOOP: " + want, "return retVal, res"}
			} else {
				exp = []string{"retVal := BfeHandlerGoOn", "LOOP: " + want, "return retVal"}
			}
			if len(stmts) == len(exp) {
				ok = true
				for i := range exp {
					if stmts[i] != exp[i] {
						ok = false
					}
				}
			}
			loopFacts = append(loopFacts, fmt.Sprintf("(%s, %v)", leanStr(l.name), ok))
		}

		var b strings.Builder
		b.WriteString(header("C48", "bfe_server/reverseproxy.go", "bfe_server/http_conn.go", "bfe_module/bfe_handler_list.go", "bfe_module/bfe_callback.go"))
		b.WriteString("/-- callback points found in bfe_server: (point, enclosing function, HandlerList method, verdict inspected?) -/\n")
		b.WriteString("def points : List (String × String × String × Bool) := [\n")
		for i, p := range points {
			sep := ","
			if i == len(points)-1 {
				sep = ""
			}
			fmt.Fprintf(&b, "  (%s, %s, %s, %v)%s\n", leanStr(p.point), leanStr(p.fn), leanStr(p.method), p.looked, sep)
		}
		b.WriteString("]\n\n/-- per point the arms of the verdict `switch` / `if`: (point, verdict names of the arm, statements as tokens) -/\n")
		b.WriteString("def arms : List (String × List String × List String) := [\n")
		var rows []string
		for _, p := range points {
			for _, c := range p.cases {
				rows = append(rows, fmt.Sprintf("  (%s, %s, %s)", leanStr(p.point), c48List(c[0]), c48List(c[1])))
			}
		}
		b.WriteString(strings.Join(rows, ",\n") + "\n]\n\n")
		// the same table in structured form (no strings: the theorems evaluate it in the kernel)
		b.WriteString("/-- one statement of an arm -/\ninductive Tok where\n  | setAction (a : Nat) | ret | gotoSend | gotoGot | redirect | isRedirect | unknown\n  deriving DecidableEq, Repr\n\n")
		b.WriteString("/-- `arms` with the iota values of bfe_module/bfe_callback.go, bfe_handler_list.go, http_conn.go: (point, verdicts of the arm, statements) -/\n")
		b.WriteString("def armsT : List (Nat × List Nat × List Tok) := [\n")
		var trows []string
		for _, p := range points {
			pv, ok := cps["Handle"+p.point]
			if !ok {
				return "", fmt.Errorf("callback point Handle%s is not in the const block", p.point)
			}
			for _, c := range p.cases {
				var vs, ts []string
				for _, n := range c[0] {
					v, ok := verdicts[n]
					if !ok {
						return "", fmt.Errorf("verdict %s is not in the const block", n)
					}
					vs = append(vs, fmt.Sprint(v))
				}
				for _, t := range c[1] {
					switch {
					case strings.HasPrefix(t, "action="):
						a, ok := actions[strings.TrimPrefix(t, "action=")]
						if !ok {
							return "", fmt.Errorf("action %s is not in the const block", t)
						}
						ts = append(ts, fmt.Sprintf(".setAction %d", a))
					case t == "return":
						ts = append(ts, ".ret")
					case t == "goto:send_response":
						ts = append(ts, ".gotoSend")
					case t == "goto:response_got":
						ts = append(ts, ".gotoGot")
					case t == "redirect":
						ts = append(ts, ".redirect")
					case t == "isRedirect":
						ts = append(ts, ".isRedirect")
					default:
						ts = append(ts, ".unknown")
					}
				}
				trows = append(trows, fmt.Sprintf("  (%d, [%s], [%s])", pv, strings.Join(vs, ", "), strings.Join(ts, ", ")))
			}
		}
		b.WriteString(strings.Join(trows, ",\n") + "\n]\n\n")
		b.WriteString("/-- `points` in structured form: (point, verdict inspected?) in source order -/\ndef pointsT : List (Nat × Bool) := [")
		for i, p := range points {
			if i > 0 {
				b.WriteString(", ")
			}
			fmt.Fprintf(&b, "(%d, %v)", cps["Handle"+p.point], p.looked)
		}
		b.WriteString("]\n\n")
		fmt.Fprintf(&b, "/-- order of the callback points inside ReverseProxy.ServeHTTP -/\ndef serveHTTPOrder : List String := %s\n\n", c48List(order))
		cl := func(m map[string]int, prefix string) string {
			xs := make([]string, len(m))
			for k, v := range m {
				if v < len(xs) {
					xs[v] = fmt.Sprintf("(%s, %d)", leanStr(strings.TrimPrefix(k, prefix)), v)
				}
			}
			return "[" + strings.Join(xs, ", ") + "]"
		}
		fmt.Fprintf(&b, "/-- `const ( BfeHandlerFinish = iota ... )` -/\ndef verdicts : List (String × Nat) := %s\n\n", cl(verdicts, ""))
		fmt.Fprintf(&b, "/-- `const ( HandleAccept = iota ... )` -/\ndef callbackPoints : List (String × Nat) := %s\n\n", cl(cps, "Handle"))
		fmt.Fprintf(&b, "/-- `const ( keepAlive = iota ... )` of http_conn.go -/\ndef actions : List (String × Nat) := %s\n\n", cl(actions, ""))
		fmt.Fprintf(&b, "/-- HandlerList.FilterXxx still is `retVal := GoOn; for each element: right type -> call, stop unless GoOn; wrong type -> stop; return retVal` -/\ndef filterLoopAsModelled : List (String × Bool) := [%s]\n", strings.Join(loopFacts, ", "))
		// ---- the control-flow skeleton the arms are embedded in
		type evSpec struct {
			file, recv, fn string
			calls          []string
		}
		specs := []evSpec{
			{"bfe_server/http_conn.go", "conn", "serve", []string{"finish", "close", "Handshake", "readRequest", "serveRequest"}},
			{"bfe_server/http_conn.go", "conn", "serveRequest", []string{"ServeHTTP", "prepareForCloseConn", "finishRequest", "FinishReq"}},
			{"bfe_server/http_conn.go", "conn", "finish", nil},
			{"bfe_server/reverseproxy.go", "ReverseProxy", "ServeHTTP", []string{"findProduct", "findCluster", "clusterInvoke", "sendResponse"}},
			{"bfe_server/reverseproxy.go", "ReverseProxy", "clusterInvoke", []string{"Balance", "RoundTrip"}},
			{"bfe_server/reverseproxy.go", "ReverseProxy", "FinishReq", nil},
		}
		var evRows []string
		fdecl := map[string]*ast.FuncDecl{}
		fsets := map[string]*token.FileSet{}
		for _, sp := range specs {
			fs, f, err := parseFile(repo, sp.file)
			if err != nil {
				return "", err
			}
			fd := findFunc(f, sp.recv, sp.fn)
			if fd == nil || fd.Body == nil {
				return "", fmt.Errorf("(%s).%s not found", sp.recv, sp.fn)
			}
			fdecl[sp.fn], fsets[sp.fn] = fd, fs
			cm := map[string]bool{}
			for _, c := range sp.calls {
				cm[c] = true
			}
			evRows = append(evRows, fmt.Sprintf("  (%s, %s)", leanStr(sp.fn), c48List(c48Events(fs, fd, cm))))
		}
		b.WriteString("\n/-- per function, in source order: callback points, labels, and the calls the skeleton of the model relies on -/\n")
		b.WriteString("def events : List (String × List String) := [\n" + strings.Join(evRows, ",\n") + "\n]\n\n")
		sh, sr, sv := fdecl["ServeHTTP"], fdecl["serveRequest"], fdecl["serve"]
		guards := []struct {
			name string
			ok   bool
		}{
			{"send_response writes res iff `!isRedirect && res != nil`", c48IfWith(fsets["ServeHTTP"], sh, "!isRedirect && res != nil", false, "p.sendResponse(rw, res,")},
			{"after clusterInvoke: `err != nil || res == nil` -> internal error response, goto response_got", c48IfWith(fsets["ServeHTTP"], sh, "err != nil || res == nil", false, "res = bfe_basic.CreateInternalSrvErrResp(basicReq)", "goto response_got")},
			{"serveRequest: `ret1 == closeDirectly` -> prepareForCloseConn", c48IfWith(fsets["serveRequest"], sr, "ret1 == closeDirectly", false, "res.prepareForCloseConn()")},
			{"serveRequest: otherwise finishRequest", c48IfWith(fsets["serveRequest"], sr, "ret1 == closeDirectly", true, "res.finishRequest()")},
			{"serveRequest: isKeepAlive = (ret1 == keepAlive) && (ret2 == keepAlive)", strings.Contains(c48Str(fsets["serveRequest"], sr.Body), "isKeepAlive = (ret1 == keepAlive) && (ret2 == keepAlive)")},
			{"serve: `!isKeepAlive || w.closeAfterReply` -> break", c48IfWith(fsets["serve"], sv, "!isKeepAlive || w.closeAfterReply", false, "break")},
			{"clusterInvoke returns (res, action, err) and ServeHTTP assigns `res, action, err = p.clusterInvoke(`", strings.Contains(c48Str(fsets["ServeHTTP"], sh.Body), "res, action, err = p.clusterInvoke(srv, cluster, basicReq, rw)")},
		}
		b.WriteString("/-- guards of the skeleton, checked textually against the current source -/\ndef guards : List (String × Bool) := [\n")
		for i, g := range guards {
			sep := ","
			if i == len(guards)-1 {
				sep = ""
			}
			fmt.Fprintf(&b, "  (%s, %v)%s\n", leanStr(g.name), g.ok, sep)
		}
		b.WriteString("]\n")
		b.WriteString(footer("C48"))
		return b.String(), nil
	})
}
