package main

// C08 facts: bfe_server/reverseproxy.go, func (p *ReverseProxy) clusterInvoke
//   for i := 0; i < N; i++ { ... }                              -> loopLimit
//   switch err.(type) { case T1, T2: ...; allowRetry = <e> ...}  -> retrySwitch: per arm the type names and the
//       right-hand side of the (single) assignment to allowRetry: "true", "check" (= checkAllowRetry(cluster.RetryLevel(), outreq)),
//       or "none" (no assignment: allowRetry keeps its initial value false)
//   allowRetry := false before the switch
// bfe_config/bfe_cluster_conf/cluster_conf: RetryConnect = 0, RetryGet = 1
// and checkAllowRetry's body: `if retryLevel == cluster_conf.RetryGet { if outreq.Method == "GET" && checkRequestWithoutBody(outreq) { return true } } return false`
// The extractor fails if the functions / loop / switch are gone; a changed arm or a changed checkAllowRetry body is
// reported as a fact ("unknown" mode, checkAllowRetryAsModelled = false) so that the theorem C08_switch_as_modelled
// fails while the correspondence run can still search for a failing input.

import (
	"fmt"
	"go/ast"
	"go/printer"
	"go/token"
	"os"
	"path/filepath"
	"strings"
)

func c08ExprString(fset *token.FileSet, e ast.Node) string {
	var b strings.Builder
	printer.Fprint(&b, fset, e)
	return strings.Join(strings.Fields(b.String()), " ")
}

func init() {
	register("C08", func(repo string) (string, error) {
		fset, f, err := parseFile(repo, "bfe_server/reverseproxy.go")
		if err != nil {
			return "", err
		}
		fn := findFunc(f, "ReverseProxy", "clusterInvoke")
		if fn == nil || fn.Body == nil {
			return "", fmt.Errorf("(*ReverseProxy).clusterInvoke not found")
		}
		// the retry loop
		var loop *ast.ForStmt
		for _, st := range fn.Body.List {
			if fs, ok := st.(*ast.ForStmt); ok {
				if loop != nil {
					return "", fmt.Errorf("clusterInvoke has more than one top-level for loop")
				}
				loop = fs
			}
		}
		if loop == nil {
			return "", fmt.Errorf("retry loop not found")
		}
		limit := int64(-1)
		if be, ok := loop.Cond.(*ast.BinaryExpr); ok && be.Op == token.LSS {
			if n, ok := intLit(be.Y); ok {
				limit = n
			}
		}
		if limit <= 0 || c08ExprString(fset, loop.Init) != "i := 0" || c08ExprString(fset, loop.Post) != "i++" {
			return "", fmt.Errorf("retry loop is no longer `for i := 0; i < N; i++`")
		}
		// the type switch and the initialisation of allowRetry just before it
		var sw *ast.TypeSwitchStmt
		initFalse := false
		for i, st := range loop.Body.List {
			if ts, ok := st.(*ast.TypeSwitchStmt); ok {
				if sw != nil {
					return "", fmt.Errorf("more than one type switch in the retry loop")
				}
				sw = ts
				if i > 0 && c08ExprString(fset, loop.Body.List[i-1]) == "allowRetry := false" {
					initFalse = true
				}
			}
		}
		if sw == nil || c08ExprString(fset, sw.Assign) != "err.(type)" {
			return "", fmt.Errorf("`switch err.(type)` not found in the retry loop")
		}
		if !initFalse {
			return "", fmt.Errorf("`allowRetry := false` no longer precedes the type switch")
		}
		var arms []string
		for _, c := range sw.Body.List {
			cc := c.(*ast.CaseClause)
			var types []string
			for _, t := range cc.List {
				types = append(types, leanStr(c08ExprString(fset, t)))
			}
			mode := "none"
			n := 0
			for _, st := range cc.Body {
				ast.Inspect(st, func(nd ast.Node) bool {
					as, ok := nd.(*ast.AssignStmt)
					if !ok || len(as.Lhs) != 1 || len(as.Rhs) != 1 {
						return true
					}
					if id, ok := as.Lhs[0].(*ast.Ident); ok && id.Name == "allowRetry" {
						n++
						switch c08ExprString(fset, as.Rhs[0]) {
						case "true":
							mode = "true"
						case "checkAllowRetry(cluster.RetryLevel(), outreq)":
							mode = "check"
						default:
							mode = "unknown"
						}
					}
					return true
				})
			}
			if n > 1 {
				mode = "unknown"
			}
			arms = append(arms, fmt.Sprintf("  ([%s], %s)", strings.Join(types, ", "), leanStr(mode)))
		}
		// checkAllowRetry
		ca := findFunc(f, "", "checkAllowRetry")
		want := `{ if retryLevel == cluster_conf.RetryGet { if outreq.Method == "GET" && checkRequestWithoutBody(outreq) { return true } } return false }`
		if ca == nil || ca.Body == nil {
			return "", fmt.Errorf("checkAllowRetry not found")
		}
		bodyOK := c08ExprString(fset, ca.Body) == strings.Join(strings.Fields(want), " ")
		// RetryConnect / RetryGet
		_, cf, err := parseFile(repo, "bfe_config/bfe_cluster_conf/cluster_conf/cluster_conf_load.go")
		if err != nil {
			return "", err
		}
		rc, ok1 := intLit(findValue(cf, "RetryConnect"))
		rg, ok2 := intLit(findValue(cf, "RetryGet"))
		if !ok1 || !ok2 {
			return "", fmt.Errorf("RetryConnect / RetryGet are not integer literals")
		}
		var b strings.Builder
		b.WriteString(header("C08", "bfe_server/reverseproxy.go", "bfe_config/bfe_cluster_conf/cluster_conf/cluster_conf_load.go"))
		fmt.Fprintf(&b, "/-- `for i := 0; i < loopLimit; i++` of clusterInvoke -/\ndef loopLimit : Nat := %d\n\n", limit)
		fmt.Fprintf(&b, "def retryConnect : Nat := %d\ndef retryGet : Nat := %d\n\n", rc, rg)
		b.WriteString("/-- arms of `switch err.(type)` in clusterInvoke: (case types, what is assigned to allowRetry):\n    \"true\" | \"check\" = checkAllowRetry(cluster.RetryLevel(), outreq) | \"none\" = stays false -/\n")
		b.WriteString("def retrySwitch : List (List String × String) := [\n" + strings.Join(arms, ",\n") + "\n]\n")
		extra, err := c08Outside(repo)
		if err != nil {
			return "", err
		}
		b.WriteString(extra)
		fmt.Fprintf(&b, "\n/-- checkAllowRetry's body is still `if retryLevel == cluster_conf.RetryGet { if outreq.Method == \"GET\" && checkRequestWithoutBody(outreq) { return true } } return false` -/\ndef checkAllowRetryAsModelled : Bool := %v\n", bodyOK)
		b.WriteString(footer("C08"))
		return b.String(), nil
	})
}

// c08Outside extracts the facts about code AROUND clusterInvoke that could also resend a request:
//   - ReverseProxy.ServeHTTP calls clusterInvoke once, not inside a loop, and every label a `goto` can reach lies after it
//   - the three RoundTrippers bfe creates (bfe_http.Transport, bfe_fcgi.Transport, bfe_http2.Transport wrapper) call
//     their single send primitive once and not in a loop; the h2c wrapper builds the x/net request without GetBody
//   - the pinned golang.org/x/net version (whose http2.Transport has its own retry, modelled in C08/Model.lean)
func c08Outside(repo string) (string, error) {
	var b strings.Builder
	count := func(rel, recv, fn, sel string) (calls int, inLoop bool, loops int, lit map[string]bool, err error) {
		fset, f, e := parseFile(repo, rel)
		if e != nil {
			return 0, false, 0, nil, e
		}
		d := findFunc(f, recv, fn)
		if d == nil || d.Body == nil {
			return 0, false, 0, nil, fmt.Errorf("%s: func %s.%s not found", rel, recv, fn)
		}
		lit = map[string]bool{}
		var walk func(n ast.Node, depth int)
		walk = func(n ast.Node, depth int) {
			ast.Inspect(n, func(nd ast.Node) bool {
				switch v := nd.(type) {
				case *ast.ForStmt:
					loops++
					walk(v.Body, depth+1)
					return false
				case *ast.RangeStmt:
					loops++
					walk(v.Body, depth+1)
					return false
				case *ast.FuncLit:
					return false
				case *ast.CallExpr:
					if c08ExprString(fset, v.Fun) == sel {
						calls++
						if depth > 0 {
							inLoop = true
						}
					}
				case *ast.CompositeLit:
					if c08ExprString(fset, v.Type) == "http.Request" {
						for _, el := range v.Elts {
							if kv, ok := el.(*ast.KeyValueExpr); ok {
								lit[c08ExprString(fset, kv.Key)] = true
							}
						}
					}
				}
				return true
			})
		}
		walk(d.Body, 0)
		return
	}
	// ServeHTTP
	fset, f, err := parseFile(repo, "bfe_server/reverseproxy.go")
	if err != nil {
		return "", err
	}
	sh := findFunc(f, "ReverseProxy", "ServeHTTP")
	if sh == nil {
		return "", fmt.Errorf("(*ReverseProxy).ServeHTTP not found")
	}
	calls, inLoop, _, _, err := count("bfe_server/reverseproxy.go", "ReverseProxy", "ServeHTTP", "p.clusterInvoke")
	if err != nil {
		return "", err
	}
	var callPos token.Pos
	labelBefore := false
	ast.Inspect(sh, func(nd ast.Node) bool {
		if c, ok := nd.(*ast.CallExpr); ok && c08ExprString(fset, c.Fun) == "p.clusterInvoke" {
			callPos = c.Pos()
		}
		return true
	})
	ast.Inspect(sh, func(nd ast.Node) bool {
		if l, ok := nd.(*ast.LabeledStmt); ok && l.Pos() < callPos {
			labelBefore = true
		}
		return true
	})
	fmt.Fprintf(&b, "/-- ReverseProxy.ServeHTTP: number of calls of p.clusterInvoke / one of them inside a for loop / a label (goto target) before the call -/\n")
	fmt.Fprintf(&b, "def serveHTTPInvokeCalls : Nat := %d\ndef serveHTTPInvokeInLoop : Bool := %v\ndef serveHTTPLabelBeforeInvoke : Bool := %v\n\n", calls, inLoop, labelBefore)
	// transports
	c1, l1, _, _, err := count("bfe_http/transport.go", "Transport", "RoundTrip", "pconn.roundTrip")
	if err != nil {
		return "", err
	}
	g1, gl1, _, _, _ := count("bfe_http/transport.go", "Transport", "RoundTrip", "t.getConn")
	fmt.Fprintf(&b, "/-- bfe_http.Transport.RoundTrip: calls of pconn.roundTrip and t.getConn, any of them in a loop -/\n")
	fmt.Fprintf(&b, "def httpRoundTripSends : Nat := %d\ndef httpRoundTripDials : Nat := %d\ndef httpRoundTripInLoop : Bool := %v\n\n", c1, g1, l1 || gl1)
	c2, l2, _, _, err := count("bfe_fcgi/transport.go", "Transport", "RoundTrip", "client.Do")
	if err != nil {
		return "", err
	}
	fmt.Fprintf(&b, "/-- bfe_fcgi.Transport.RoundTrip: calls of client.Do, in a loop -/\ndef fcgiRoundTripSends : Nat := %d\ndef fcgiRoundTripInLoop : Bool := %v\n\n", c2, l2)
	c3, l3, _, lit, err := count("bfe_http2/transport.go", "Transport", "RoundTrip", "t.T.RoundTrip")
	if err != nil {
		return "", err
	}
	fmt.Fprintf(&b, "/-- bfe_http2.Transport.RoundTrip (h2c backends): calls of the x/net transport, in a loop, and whether the request it\n    builds carries Body / GetBody -/\n")
	fmt.Fprintf(&b, "def h2cRoundTripSends : Nat := %d\ndef h2cRoundTripInLoop : Bool := %v\ndef h2cSetsBody : Bool := %v\ndef h2cSetsGetBody : Bool := %v\n\n", c3, l3, lit["Body"], lit["GetBody"])
	// x/net version
	gm, err := os.ReadFile(filepath.Join(repo, "go.mod"))
	if err != nil {
		return "", err
	}
	ver := ""
	for _, line := range strings.Split(string(gm), "\n") {
		fs := strings.Fields(line)
		if len(fs) >= 2 && fs[0] == "golang.org/x/net" {
			ver = fs[1]
		}
	}
	if ver == "" {
		return "", fmt.Errorf("golang.org/x/net not required in go.mod")
	}
	fmt.Fprintf(&b, "/-- version of golang.org/x/net in go.mod (its http2.Transport retry rule is transcribed in C08/Model.lean) -/\ndef xnetVersion : String := %s\n", leanStr(ver))
	return b.String(), nil
}
