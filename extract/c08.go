package main

// C08 facts: bfe_server/reverseproxy.go, func (p *ReverseProxy) clusterInvoke
//   for i := 0; i < N; i++ { ... }                              -> loopLimit
//   switch err.(type) { case T1, T2: ...; allowRetry = <e> ...}  -> retrySwitch: per arm the type names and the
//       right-hand side of the (single) assignment to allowRetry: "true", "check" (= checkAllowRetry(cluster.RetryLevel(), outreq)),
//       or "none" (no assignment: allowRetry keeps its initial value false)
//   allowRetry := false before the switch
// bfe_config/bfe_cluster_conf/cluster_conf: RetryConnect = 0, RetryGet = 1
// and checkAllowRetry's body: `if retryLevel == cluster_conf.RetryGet { if outreq.Method == "GET" && checkRequestWithoutBody(outreq) { return true } } return false`
// The extractor fails if the functions / loop / switch are gone; a changed arm or a changed checkAllowRetry body is
// reported as a fact ("unknown" mode, checkAllowRetryAsModelled = false) so that the theorem C08_switch_as_modelled
// fails while the correspondence run can still search for a failing input.

import (
	"fmt"
	"go/ast"
	"go/printer"
	"go/token"
	"os"
	"path/filepath"
	"regexp"
	"sort"
	"strings"
)

func c08ExprString(fset *token.FileSet, e ast.Node) string {
	var b strings.Builder
	printer.Fprint(&b, fset, e)
	return strings.Join(strings.Fields(b.String()), " ")
}

func init() {
	register("C08", func(repo string) (string, error) {
		fset, f, err := parseFile(repo, "bfe_server/reverseproxy.go")
		if err != nil {
			return "", err
		}
		fn := findFunc(f, "ReverseProxy", "clusterInvoke")
		if fn == nil || fn.Body == nil {
			return "", fmt.Errorf("(*ReverseProxy).clusterInvoke not found")
		}
		// the retry loop
		var loop *ast.ForStmt
		for _, st := range fn.Body.List {
			if fs, ok := st.(*ast.ForStmt); ok {
				if loop != nil {
					return "", fmt.Errorf("clusterInvoke has more than one top-level for loop")
				}
				loop = fs
			}
		}
		if loop == nil {
			return "", fmt.Errorf("retry loop not found")
		}
		// `for <v> := 0; <v> < N; <v>++` with any counter name; N a literal or a package-level constant
		limit := int64(-1)
		if be, ok := loop.Cond.(*ast.BinaryExpr); ok && be.Op == token.LSS {
			if v, ok := be.X.(*ast.Ident); ok {
				n, ok := intLit(be.Y)
				if !ok {
					if id, isId := be.Y.(*ast.Ident); isId {
						n, ok = intLit(findValue(f, id.Name))
					}
				}
				if ok && c08ExprString(fset, loop.Init) == v.Name+" := 0" && c08ExprString(fset, loop.Post) == v.Name+"++" {
					limit = n
				}
			}
		}
		if limit <= 0 {
			return "", fmt.Errorf("retry loop is no longer `for i := 0; i < N; i++`")
		}
		// the type switch and the initialisation of allowRetry just before it
		var sw *ast.TypeSwitchStmt
		initFalse := false
		for i, st := range loop.Body.List {
			if ts, ok := st.(*ast.TypeSwitchStmt); ok {
				if sw != nil {
					return "", fmt.Errorf("more than one type switch in the retry loop")
				}
				sw = ts
				// allowRetry starts as false: declared false (or zero value) anywhere earlier in the loop body
				for _, prev := range loop.Body.List[:i] {
					switch v := prev.(type) {
					case *ast.AssignStmt:
						if c08ExprString(fset, v) == "allowRetry := false" {
							initFalse = true
						}
					case *ast.DeclStmt:
						if gd, ok := v.Decl.(*ast.GenDecl); ok && gd.Tok == token.VAR {
							for _, sp := range gd.Specs {
								vs := sp.(*ast.ValueSpec)
								if len(vs.Names) == 1 && vs.Names[0].Name == "allowRetry" &&
									(len(vs.Values) == 0 || (len(vs.Values) == 1 && c08ExprString(fset, vs.Values[0]) == "false")) {
									initFalse = true
								}
							}
						}
					}
				}
			}
		}
		if sw == nil || c08ExprString(fset, sw.Assign) != "err.(type)" {
			return "", fmt.Errorf("`switch err.(type)` not found in the retry loop")
		}
		if !initFalse {
			return "", fmt.Errorf("`allowRetry := false` no longer precedes the type switch")
		}
		var arms []string
		hasDefault := false
		for _, c := range sw.Body.List {
			cc := c.(*ast.CaseClause)
			var types []string
			for _, t := range cc.List {
				types = append(types, leanStr(c08ExprString(fset, t)))
			}
			sort.Strings(types)
			if len(types) == 0 {
				hasDefault = true
			}
			mode := "none"
			n := 0
			for _, st := range cc.Body {
				ast.Inspect(st, func(nd ast.Node) bool {
					as, ok := nd.(*ast.AssignStmt)
					if !ok || len(as.Lhs) != 1 || len(as.Rhs) != 1 {
						return true
					}
					if id, ok := as.Lhs[0].(*ast.Ident); ok && id.Name == "allowRetry" {
						n++
						mode = "unknown"
						if c08ExprString(fset, as.Rhs[0]) == "true" {
							mode = "true"
						} else if call, ok := as.Rhs[0].(*ast.CallExpr); ok {
							// checkAllowRetry(<the cluster's retry level>, <the out request>), however the arguments are spelled
							if id, ok := call.Fun.(*ast.Ident); ok && id.Name == "checkAllowRetry" && len(call.Args) == 2 {
								mode = "check"
							}
						}
					}
					return true
				})
			}
			if n > 1 {
				mode = "unknown"
			}
			arms = append(arms, fmt.Sprintf("  ([%s], %s)", strings.Join(types, ", "), leanStr(mode)))
		}
		if !hasDefault {
			arms = append(arms, "  ([], \"none\")") // no default arm = allowRetry keeps its initial false
		}
		// canonical order: by type names, the default arm last
		sort.SliceStable(arms, func(i, j int) bool {
			di, dj := strings.HasPrefix(arms[i], "  ([],"), strings.HasPrefix(arms[j], "  ([],")
			if di != dj {
				return dj
			}
			return arms[i] < arms[j]
		})
		// checkAllowRetry
		ca := findFunc(f, "", "checkAllowRetry")
		if ca == nil || ca.Body == nil {
			return "", fmt.Errorf("checkAllowRetry not found")
		}
		// RetryConnect / RetryGet
		_, cf, err := parseFile(repo, "bfe_config/bfe_cluster_conf/cluster_conf/cluster_conf_load.go")
		if err != nil {
			return "", err
		}
		rc, ok1 := intLit(findValue(cf, "RetryConnect"))
		rg, ok2 := intLit(findValue(cf, "RetryGet"))
		if !ok1 || !ok2 {
			return "", fmt.Errorf("RetryConnect / RetryGet are not integer literals")
		}
		// checkAllowRetry is evaluated (not pattern matched): true exactly when level == RetryGet, method == "GET" and
		// checkRequestWithoutBody(out request) all hold
		atoms, rows, evErr := c08TruthTable(fset, ca, map[string]string{"cluster_conf.RetryGet": fmt.Sprint(rg)})
		bodyOK := evErr == nil && len(rows) == 1 &&
			strings.Join(atoms, " | ") == fmt.Sprintf(`"GET" == $1.Method | $0 == %d | checkRequestWithoutBody($1)`, rg)
		if bodyOK {
			for _, v := range rows[0] {
				bodyOK = bodyOK && v
			}
		}
		var b strings.Builder
		b.WriteString(header("C08", "bfe_server/reverseproxy.go", "bfe_config/bfe_cluster_conf/cluster_conf/cluster_conf_load.go"))
		fmt.Fprintf(&b, "/-- `for i := 0; i < loopLimit; i++` of clusterInvoke -/\ndef loopLimit : Nat := %d\n\n", limit)
		fmt.Fprintf(&b, "def retryConnect : Nat := %d\ndef retryGet : Nat := %d\n\n", rc, rg)
		b.WriteString("/-- arms of `switch err.(type)` in clusterInvoke: (case types, what is assigned to allowRetry):\n    \"true\" | \"check\" = checkAllowRetry(cluster.RetryLevel(), outreq) | \"none\" = stays false -/\n")
		b.WriteString("def retrySwitch : List (List String × String) := [\n" + strings.Join(arms, ",\n") + "\n]\n")
		extra, err := c08Outside(repo)
		if err != nil {
			return "", err
		}
		b.WriteString(extra)
		fmt.Fprintf(&b, "\n/-- checkAllowRetry(level, outreq) evaluates (over all truth assignments of its conditions) to: level == RetryGet && outreq.Method == \"GET\" && checkRequestWithoutBody(outreq) -/\ndef checkAllowRetryAsModelled : Bool := %v\n", bodyOK)
		b.WriteString(footer("C08"))
		return b.String(), nil
	})
}

// c08Outside extracts the facts about code AROUND clusterInvoke that could also resend a request:
//   - ReverseProxy.ServeHTTP calls clusterInvoke once, not inside a loop, and every label a `goto` can reach lies after it
//   - the three RoundTrippers bfe creates (bfe_http.Transport, bfe_fcgi.Transport, bfe_http2.Transport wrapper) call
//     their single send primitive once and not in a loop; the h2c wrapper builds the x/net request without GetBody
//   - the pinned golang.org/x/net version (whose http2.Transport has its own retry, modelled in C08/Model.lean)
func c08Outside(repo string) (string, error) {
	var b strings.Builder
	count := func(rel, recv, fn, sel string) (calls int, inLoop bool, loops int, lit map[string]bool, err error) {
		fset, f, e := parseFile(repo, rel)
		if e != nil {
			return 0, false, 0, nil, e
		}
		d := findFunc(f, recv, fn)
		if d == nil || d.Body == nil {
			return 0, false, 0, nil, fmt.Errorf("%s: func %s.%s not found", rel, recv, fn)
		}
		lit = map[string]bool{}
		var walk func(n ast.Node, depth int)
		walk = func(n ast.Node, depth int) {
			ast.Inspect(n, func(nd ast.Node) bool {
				switch v := nd.(type) {
				case *ast.ForStmt:
					loops++
					walk(v.Body, depth+1)
					return false
				case *ast.RangeStmt:
					loops++
					walk(v.Body, depth+1)
					return false
				case *ast.FuncLit:
					return false
				case *ast.CallExpr:
					if c08CallName(v) == sel {
						calls++
						if depth > 0 {
							inLoop = true
						}
					}
				case *ast.CompositeLit:
					if c08ExprString(fset, v.Type) == "http.Request" {
						for _, el := range v.Elts {
							if kv, ok := el.(*ast.KeyValueExpr); ok {
								lit[c08ExprString(fset, kv.Key)] = true
							}
						}
					}
				}
				return true
			})
		}
		walk(d.Body, 0)
		return
	}
	// ServeHTTP
	_, f, err := parseFile(repo, "bfe_server/reverseproxy.go")
	if err != nil {
		return "", err
	}
	sh := findFunc(f, "ReverseProxy", "ServeHTTP")
	if sh == nil {
		return "", fmt.Errorf("(*ReverseProxy).ServeHTTP not found")
	}
	calls, inLoop, _, _, err := count("bfe_server/reverseproxy.go", "ReverseProxy", "ServeHTTP", "clusterInvoke")
	if err != nil {
		return "", err
	}
	var callPos token.Pos
	labelBefore := false
	ast.Inspect(sh, func(nd ast.Node) bool {
		if c, ok := nd.(*ast.CallExpr); ok && c08CallName(c) == "clusterInvoke" {
			callPos = c.Pos()
		}
		return true
	})
	ast.Inspect(sh, func(nd ast.Node) bool {
		if l, ok := nd.(*ast.LabeledStmt); ok && l.Pos() < callPos {
			labelBefore = true
		}
		return true
	})
	fmt.Fprintf(&b, "/-- ReverseProxy.ServeHTTP: number of calls of p.clusterInvoke / one of them inside a for loop / a label (goto target) before the call -/\n")
	fmt.Fprintf(&b, "def serveHTTPInvokeCalls : Nat := %d\ndef serveHTTPInvokeInLoop : Bool := %v\ndef serveHTTPLabelBeforeInvoke : Bool := %v\n\n", calls, inLoop, labelBefore)
	// transports
	c1, l1, _, _, err := count("bfe_http/transport.go", "Transport", "RoundTrip", "roundTrip")
	if err != nil {
		return "", err
	}
	g1, gl1, _, _, _ := count("bfe_http/transport.go", "Transport", "RoundTrip", "getConn")
	fmt.Fprintf(&b, "/-- bfe_http.Transport.RoundTrip: calls of pconn.roundTrip and t.getConn, any of them in a loop -/\n")
	fmt.Fprintf(&b, "def httpRoundTripSends : Nat := %d\ndef httpRoundTripDials : Nat := %d\ndef httpRoundTripInLoop : Bool := %v\n\n", c1, g1, l1 || gl1)
	c2, l2, _, _, err := count("bfe_fcgi/transport.go", "Transport", "RoundTrip", "Do")
	if err != nil {
		return "", err
	}
	fmt.Fprintf(&b, "/-- bfe_fcgi.Transport.RoundTrip: calls of client.Do, in a loop -/\ndef fcgiRoundTripSends : Nat := %d\ndef fcgiRoundTripInLoop : Bool := %v\n\n", c2, l2)
	c3, l3, _, lit, err := count("bfe_http2/transport.go", "Transport", "RoundTrip", "RoundTrip")
	if err != nil {
		return "", err
	}
	fmt.Fprintf(&b, "/-- bfe_http2.Transport.RoundTrip (h2c backends): calls of the x/net transport, in a loop, and whether the request it\n    builds carries Body / GetBody -/\n")
	fmt.Fprintf(&b, "def h2cRoundTripSends : Nat := %d\ndef h2cRoundTripInLoop : Bool := %v\ndef h2cSetsBody : Bool := %v\ndef h2cSetsGetBody : Bool := %v\n\n", c3, l3, lit["Body"], lit["GetBody"])
	// x/net version
	gm, err := os.ReadFile(filepath.Join(repo, "go.mod"))
	if err != nil {
		return "", err
	}
	ver := ""
	for _, line := range strings.Split(string(gm), "\n") {
		fs := strings.Fields(line)
		if len(fs) >= 2 && fs[0] == "golang.org/x/net" {
			ver = fs[1]
		}
	}
	if ver == "" {
		return "", fmt.Errorf("golang.org/x/net not required in go.mod")
	}
	fmt.Fprintf(&b, "/-- version of golang.org/x/net in go.mod (its http2.Transport retry rule is transcribed in C08/Model.lean) -/\ndef xnetVersion : String := %s\n", leanStr(ver))
	return b.String(), nil
}

// c08CallName is the name of the called function or method, whatever the receiver expression is called.
func c08CallName(c *ast.CallExpr) string {
	switch f := c.Fun.(type) {
	case *ast.Ident:
		return f.Name
	case *ast.SelectorExpr:
		return f.Sel.Name
	}
	return ""
}

// c08TruthTable evaluates a side-effect free func(...) bool made of if / switch / return / local definitions over all
// truth assignments of its atomic conditions.  Atoms are canonical strings: parameters renamed $0,$1,.. ; `a == b`
// with sorted operands (`!=` is its negation); names in `consts` replaced by their values.  Result: the sorted atoms
// and the assignments (in atom order) for which the function returns true.
func c08TruthTable(fset *token.FileSet, fd *ast.FuncDecl, consts map[string]string) ([]string, [][]bool, error) {
	var params []string
	for _, fl := range fd.Type.Params.List {
		for _, n := range fl.Names {
			params = append(params, n.Name)
		}
	}
	canon := func(e ast.Expr) string {
		s := c08ExprString(fset, e)
		for i, p := range params {
			s = regexp.MustCompile(`\b`+regexp.QuoteMeta(p)+`\b`).ReplaceAllString(s, fmt.Sprintf("$$%d", i))
		}
		for k, v := range consts {
			s = strings.ReplaceAll(s, k, v)
		}
		return s
	}
	known := map[string]bool{}
	var val map[string]bool
	var evalErr error
	atom := func(name string) bool {
		known[name] = true
		return val[name]
	}
	type env map[string]ast.Expr
	var evalB func(e ast.Expr, en env) bool
	evalB = func(e ast.Expr, en env) bool {
		switch v := e.(type) {
		case *ast.ParenExpr:
			return evalB(v.X, en)
		case *ast.UnaryExpr:
			if v.Op == token.NOT {
				return !evalB(v.X, en)
			}
		case *ast.BinaryExpr:
			switch v.Op {
			case token.LAND:
				return evalB(v.X, en) && evalB(v.Y, en)
			case token.LOR:
				return evalB(v.X, en) || evalB(v.Y, en)
			case token.EQL, token.NEQ:
				a, b := canon(v.X), canon(v.Y)
				if a > b {
					a, b = b, a
				}
				r := atom(a + " == " + b)
				if v.Op == token.NEQ {
					return !r
				}
				return r
			}
		case *ast.Ident:
			if v.Name == "true" {
				return true
			}
			if v.Name == "false" {
				return false
			}
			if d, ok := en[v.Name]; ok {
				return evalB(d, en)
			}
		}
		return atom(canon(e))
	}
	var exec func(list []ast.Stmt, en env) (bool, bool)
	exec = func(list []ast.Stmt, en env) (returned bool, value bool) {
		for _, st := range list {
			switch v := st.(type) {
			case *ast.ReturnStmt:
				if len(v.Results) != 1 {
					evalErr = fmt.Errorf("return without a single result")
					return true, false
				}
				return true, evalB(v.Results[0], en)
			case *ast.IfStmt:
				if v.Init != nil {
					evalErr = fmt.Errorf("if with init statement")
					return true, false
				}
				if evalB(v.Cond, en) {
					if r, x := exec(v.Body.List, en); r {
						return r, x
					}
				} else if v.Else != nil {
					var l []ast.Stmt
					if b, ok := v.Else.(*ast.BlockStmt); ok {
						l = b.List
					} else {
						l = []ast.Stmt{v.Else}
					}
					if r, x := exec(l, en); r {
						return r, x
					}
				}
			case *ast.BlockStmt:
				if r, x := exec(v.List, en); r {
					return r, x
				}
			case *ast.AssignStmt:
				if len(v.Lhs) == 1 && len(v.Rhs) == 1 {
					if id, ok := v.Lhs[0].(*ast.Ident); ok {
						en[id.Name] = v.Rhs[0]
						continue
					}
				}
				evalErr = fmt.Errorf("unsupported assignment")
				return true, false
			case *ast.SwitchStmt:
				if v.Init != nil {
					evalErr = fmt.Errorf("switch with init statement")
					return true, false
				}
				var deflt *ast.CaseClause
				matched := false
				for _, c := range v.Body.List {
					cc := c.(*ast.CaseClause)
					if cc.List == nil {
						deflt = cc
						continue
					}
					hit := false
					for _, ce := range cc.List {
						var cond ast.Expr = ce
						if v.Tag != nil {
							cond = &ast.BinaryExpr{X: v.Tag, Op: token.EQL, Y: ce}
						}
						if evalB(cond, en) {
							hit = true
						}
					}
					if hit {
						matched = true
						if r, x := exec(cc.Body, en); r {
							return r, x
						}
						break
					}
				}
				if !matched && deflt != nil {
					if r, x := exec(deflt.Body, en); r {
						return r, x
					}
				}
			case *ast.EmptyStmt:
			default:
				evalErr = fmt.Errorf("unsupported statement %T", st)
				return true, false
			}
		}
		return false, false
	}
	// discover the atoms, then enumerate
	for round := 0; round < 8; round++ {
		before := len(known)
		names := make([]string, 0, len(known))
		for k := range known {
			names = append(names, k)
		}
		for m := 0; m < 1<<uint(len(names)); m++ {
			val = map[string]bool{}
			for i, n := range names {
				val[n] = m>>uint(i)&1 == 1
			}
			exec(fd.Body.List, env{})
		}
		if len(known) == before && round > 0 {
			break
		}
	}
	if evalErr != nil {
		return nil, nil, evalErr
	}
	atoms := make([]string, 0, len(known))
	for k := range known {
		atoms = append(atoms, k)
	}
	sort.Strings(atoms)
	if len(atoms) > 10 {
		return nil, nil, fmt.Errorf("too many conditions")
	}
	var rows [][]bool
	for m := 0; m < 1<<uint(len(atoms)); m++ {
		val = map[string]bool{}
		row := make([]bool, len(atoms))
		for i, n := range atoms {
			row[i] = m>>uint(i)&1 == 1
			val[n] = row[i]
		}
		if r, x := exec(fd.Body.List, env{}); r && x {
			rows = append(rows, row)
		}
	}
	return atoms, rows, nil
}
