package main

// C08 facts: bfe_server/reverseproxy.go, func (p *ReverseProxy) clusterInvoke
//   for i := 0; i < N; i++ { ... }                              -> loopLimit
//   switch err.(type) { case T1, T2: ...; allowRetry = <e> ...}  -> retrySwitch: per arm the type names and the
//       right-hand side of the (single) assignment to allowRetry: "true", "check" (= checkAllowRetry(cluster.RetryLevel(), outreq)),
//       or "none" (no assignment: allowRetry keeps its initial value false)
//   allowRetry := false before the switch
// bfe_config/bfe_cluster_conf/cluster_conf: RetryConnect = 0, RetryGet = 1
// and checkAllowRetry's body: `if retryLevel == cluster_conf.RetryGet { if outreq.Method == "GET" && checkRequestWithoutBody(outreq) { return true } } return false`
// The extractor fails if the functions / loop / switch are gone; a changed arm or a changed checkAllowRetry body is
// reported as a fact ("unknown" mode, checkAllowRetryAsModelled = false) so that the theorem C08_switch_as_modelled
// fails while the correspondence run can still search for a failing input.

import (
	"fmt"
	"go/ast"
	"go/printer"
	"go/token"
	"strings"
)

func c08ExprString(fset *token.FileSet, e ast.Node) string {
	var b strings.Builder
	printer.Fprint(&b, fset, e)
	return strings.Join(strings.Fields(b.String()), " ")
}

func init() {
	register("C08", func(repo string) (string, error) {
		fset, f, err := parseFile(repo, "bfe_server/reverseproxy.go")
		if err != nil {
			return "", err
		}
		fn := findFunc(f, "ReverseProxy", "clusterInvoke")
		if fn == nil || fn.Body == nil {
			return "", fmt.Errorf("(*ReverseProxy).clusterInvoke not found")
		}
		// the retry loop
		var loop *ast.ForStmt
		for _, st := range fn.Body.List {
			if fs, ok := st.(*ast.ForStmt); ok {
				if loop != nil {
					return "", fmt.Errorf("clusterInvoke has more than one top-level for loop")
				}
				loop = fs
			}
		}
		if loop == nil {
			return "", fmt.Errorf("retry loop not found")
		}
		limit := int64(-1)
		if be, ok := loop.Cond.(*ast.BinaryExpr); ok && be.Op == token.LSS {
			if n, ok := intLit(be.Y); ok {
				limit = n
			}
		}
		if limit <= 0 || c08ExprString(fset, loop.Init) != "i := 0" || c08ExprString(fset, loop.Post) != "i++" {
			return "", fmt.Errorf("retry loop is no longer `for i := 0; i < N; i++`")
		}
		// the type switch and the initialisation of allowRetry just before it
		var sw *ast.TypeSwitchStmt
		initFalse := false
		for i, st := range loop.Body.List {
			if ts, ok := st.(*ast.TypeSwitchStmt); ok {
				if sw != nil {
					return "", fmt.Errorf("more than one type switch in the retry loop")
				}
				sw = ts
				if i > 0 && c08ExprString(fset, loop.Body.List[i-1]) == "allowRetry := false" {
					initFalse = true
				}
			}
		}
		if sw == nil || c08ExprString(fset, sw.Assign) != "err.(type)" {
			return "", fmt.Errorf("`switch err.(type)` not found in the retry loop")
		}
		if !initFalse {
			return "", fmt.Errorf("`allowRetry := false` no longer precedes the type switch")
		}
		var arms []string
		for _, c := range sw.Body.List {
			cc := c.(*ast.CaseClause)
			var types []string
			for _, t := range cc.List {
				types = append(types, leanStr(c08ExprString(fset, t)))
			}
			mode := "none"
			n := 0
			for _, st := range cc.Body {
				ast.Inspect(st, func(nd ast.Node) bool {
					as, ok := nd.(*ast.AssignStmt)
					if !ok || len(as.Lhs) != 1 || len(as.Rhs) != 1 {
						return true
					}
					if id, ok := as.Lhs[0].(*ast.Ident); ok && id.Name == "allowRetry" {
						n++
						switch c08ExprString(fset, as.Rhs[0]) {
						case "true":
							mode = "true"
						case "checkAllowRetry(cluster.RetryLevel(), outreq)":
							mode = "check"
						default:
							mode = "unknown"
						}
					}
					return true
				})
			}
			if n > 1 {
				mode = "unknown"
			}
			arms = append(arms, fmt.Sprintf("  ([%s], %s)", strings.Join(types, ", "), leanStr(mode)))
		}
		// checkAllowRetry
		ca := findFunc(f, "", "checkAllowRetry")
		want := `{ if retryLevel == cluster_conf.RetryGet { if outreq.Method == "GET" && checkRequestWithoutBody(outreq) { return true } } return false }`
		if ca == nil || ca.Body == nil {
			return "", fmt.Errorf("checkAllowRetry not found")
		}
		bodyOK := c08ExprString(fset, ca.Body) == strings.Join(strings.Fields(want), " ")
		// RetryConnect / RetryGet
		_, cf, err := parseFile(repo, "bfe_config/bfe_cluster_conf/cluster_conf/cluster_conf_load.go")
		if err != nil {
			return "", err
		}
		rc, ok1 := intLit(findValue(cf, "RetryConnect"))
		rg, ok2 := intLit(findValue(cf, "RetryGet"))
		if !ok1 || !ok2 {
			return "", fmt.Errorf("RetryConnect / RetryGet are not integer literals")
		}
		var b strings.Builder
		b.WriteString(header("C08", "bfe_server/reverseproxy.go", "bfe_config/bfe_cluster_conf/cluster_conf/cluster_conf_load.go"))
		fmt.Fprintf(&b, "/-- `for i := 0; i < loopLimit; i++` of clusterInvoke -/\ndef loopLimit : Nat := %d\n\n", limit)
		fmt.Fprintf(&b, "def retryConnect : Nat := %d\ndef retryGet : Nat := %d\n\n", rc, rg)
		b.WriteString("/-- arms of `switch err.(type)` in clusterInvoke: (case types, what is assigned to allowRetry):\n    \"true\" | \"check\" = checkAllowRetry(cluster.RetryLevel(), outreq) | \"none\" = stays false -/\n")
		b.WriteString("def retrySwitch : List (List String × String) := [\n" + strings.Join(arms, ",\n") + "\n]\n")
		fmt.Fprintf(&b, "\n/-- checkAllowRetry's body is still `if retryLevel == cluster_conf.RetryGet { if outreq.Method == \"GET\" && checkRequestWithoutBody(outreq) { return true } } return false` -/\ndef checkAllowRetryAsModelled : Bool := %v\n", bodyOK)
		b.WriteString(footer("C08"))
		return b.String(), nil
	})
}
