package main

// C35 facts: every `panic(...)` call of bfe_http2/server.go, flow.go, writesched.go, write.go with its enclosing function and the first
// string literal of its argument ("<expr>" if there is none).  The Lean side must classify every site
// (modelled as an `internalPanic` transition, or outside the model with a stated reason), so a new or
// changed panic site re-opens the obligation.

import (
	"fmt"
	"go/ast"
	"go/token"
	"strings"
)

func init() {
	register("C35", func(repo string) (string, error) {
		type site struct{ fn, msg string }
		var sites []site
		for _, file := range []string{"server.go", "flow.go", "writesched.go", "write.go"} {
			_, f, err := parseFile(repo, "bfe_http2/"+file)
			if err != nil {
				return "", err
			}
			for _, d := range f.Decls {
				fd, ok := d.(*ast.FuncDecl)
				if !ok || fd.Body == nil {
					continue
				}
				ast.Inspect(fd.Body, func(n ast.Node) bool {
					ce, ok := n.(*ast.CallExpr)
					if !ok {
						return true
					}
					id, ok := ce.Fun.(*ast.Ident)
					if !ok || id.Name != "panic" || len(ce.Args) != 1 {
						return true
					}
					msg := "<expr>"
					ast.Inspect(ce.Args[0], func(m ast.Node) bool {
						if bl, ok := m.(*ast.BasicLit); ok && bl.Kind == token.STRING && msg == "<expr>" {
							if s, ok := strLit(bl); ok {
								msg = s
							}
						}
						return true
					})
					sites = append(sites, site{fd.Name.Name, msg})
					return true
				})
			}
		}
		if len(sites) < 5 {
			return "", fmt.Errorf("only %d panic sites found in server.go: shape changed", len(sites))
		}
		var b strings.Builder
		b.WriteString(header("C35", "bfe_http2/server.go", "flow.go", "writesched.go", "write.go"))
		b.WriteString("/-- (enclosing function, first string literal of the argument) of every `panic(...)` in server.go, flow.go, writesched.go, write.go, in source order -/\n")
		b.WriteString("def panicSites : List (String × String) := [\n")
		for i, s := range sites {
			sep := ","
			if i == len(sites)-1 {
				sep = ""
			}
			fmt.Fprintf(&b, "  (%s, %s)%s\n", leanStr(s.fn), leanStr(s.msg), sep)
		}
		b.WriteString("]\n")
		// the connection-specific request header names checkValidHTTP2Request rejects (answered by the 400 handler)
		_, sf, err := parseFile(repo, "bfe_http2/server.go")
		if err != nil {
			return "", err
		}
		cl, ok := findValue(sf, "connHeaders").(*ast.CompositeLit)
		if !ok {
			return "", fmt.Errorf("connHeaders is not a composite literal")
		}
		b.WriteString("\n/-- `connHeaders` of server.go: request header names that checkValidHTTP2Request rejects -/\ndef connHeaders : List String := [")
		for i, e := range cl.Elts {
			n, ok := strLit(e)
			if !ok {
				return "", fmt.Errorf("connHeaders: non-literal element")
			}
			if i > 0 {
				b.WriteString(", ")
			}
			b.WriteString(leanStr(n))
		}
		b.WriteString("]\n")
		b.WriteString(footer("C35"))
		return b.String(), nil
	})
}
