package main

// C07 facts: which functions of package bfe_server touch the connection counters / request.Trans.Backend at all,
// and how FinishReq releases the backend:
//   connSites : for every non-test, non-verif file of bfe_server, the (function, kind) pairs where kind is
//       "inc"  a call  x.IncConnNum()          "dec"  a call  x.DecConnNum()
//       "set"  a call  x.SetRequestTransport() "clear" an assignment  x.Trans.Backend = nil
//   finishReqDecDeferredFirst : FinishReq's DecConnNum sits in a `defer func() {...}()` that is registered BEFORE the
//       HandleRequestFinish callback block (so every way out of that block - the early return on a Finish
//       verdict, a panicking filter - still releases the backend)
// Callback points whose verdicts are consulted outside clusterInvoke / FinishReq (HandleBeforeLocation,
// HandleFoundProduct, HandleAfterLocation, HandleReadResponse in ServeHTTP) therefore cannot change a counter:
// ServeHTTP has no site.

import (
	"fmt"
	"go/ast"
	"os"
	"path/filepath"
	"sort"
	"strings"
)

func init() {
	register("C07", func(repo string) (string, error) {
		dir := filepath.Join(repo, "bfe_server")
		ents, err := os.ReadDir(dir)
		if err != nil {
			return "", err
		}
		var sites []string
		deferredFirst := false
		sawFinish := false
		for _, e := range ents {
			n := e.Name()
			if !strings.HasSuffix(n, ".go") || strings.HasSuffix(n, "_test.go") || strings.HasPrefix(n, "zz_verif") {
				continue
			}
			fset, f, err := parseFile(repo, filepath.Join("bfe_server", n))
			if err != nil {
				return "", err
			}
			for _, d := range f.Decls {
				fd, ok := d.(*ast.FuncDecl)
				if !ok || fd.Body == nil {
					continue
				}
				add := func(kind string) { sites = append(sites, fmt.Sprintf("(%s, %s)", leanStr(fd.Name.Name), leanStr(kind))) }
				ast.Inspect(fd.Body, func(nd ast.Node) bool {
					switch v := nd.(type) {
					case *ast.CallExpr:
						if s, ok := v.Fun.(*ast.SelectorExpr); ok {
							switch s.Sel.Name {
							case "IncConnNum":
								add("inc")
							case "DecConnNum":
								add("dec")
							case "SetRequestTransport":
								add("set")
							}
						}
					case *ast.AssignStmt:
						for _, l := range v.Lhs {
							if strings.HasSuffix(c08ExprString(fset, l), ".Trans.Backend") {
								if len(v.Rhs) == 1 && c08ExprString(fset, v.Rhs[0]) == "nil" {
									add("clear")
								} else {
									add("assign")
								}
							}
						}
					}
					return true
				})
				if fd.Name.Name == "FinishReq" {
					sawFinish = true
					// position of the defer that decrements vs. the first use of HandleRequestFinish
					deferIdx, cbIdx := -1, -1
					for i, st := range fd.Body.List {
						txt := c08ExprString(fset, st)
						if ds, ok := st.(*ast.DeferStmt); ok && strings.Contains(c08ExprString(fset, ds), "DecConnNum()") && deferIdx < 0 {
							deferIdx = i
						}
						if strings.Contains(txt, "HandleRequestFinish") && cbIdx < 0 {
							cbIdx = i
						}
					}
					deferredFirst = deferIdx >= 0 && cbIdx >= 0 && deferIdx < cbIdx
				}
			}
		}
		if !sawFinish {
			return "", fmt.Errorf("bfe_server.FinishReq not found")
		}
		sort.Strings(sites)
		var b strings.Builder
		b.WriteString(header("C07", "bfe_server/*.go"))
		b.WriteString("/-- (function, kind) for every IncConnNum / DecConnNum / SetRequestTransport call and every assignment to\n    x.Trans.Backend in package bfe_server (sorted) -/\n")
		b.WriteString("def connSites : List (String × String) := [\n  " + strings.Join(sites, ",\n  ") + "\n]\n\n")
		fmt.Fprintf(&b, "/-- FinishReq registers its deferred DecConnNum before the HandleRequestFinish callback block -/\ndef finishReqDecDeferredFirst : Bool := %v\n", deferredFirst)
		b.WriteString(footer("C07"))
		return b.String(), nil
	})
}
