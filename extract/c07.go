package main

// C07 facts (semantic, not syntactic): WHERE package bfe_server touches the connection counters / request.Trans.Backend
// and HOW FinishReq releases the backend.  Same-package helper functions, methods and local closures are followed
// transitively (by name, cycle-safe), `defer f(x)` is treated like `defer func() { f(x) }()`, so that helper
// extraction, renamed locals, if/switch restructuring and reordered statements give the IDENTICAL Generated file.
//
//   invokeKinds  : the set of site kinds reachable from clusterInvoke   (expected: clear dec inc set)
//   finishKinds  : the set of site kinds reachable from FinishReq       (expected: dec)
//       kinds: "inc" x.IncConnNum()  "dec" x.DecConnNum()  "set" x.SetRequestTransport(..)
//              "clear" x.Trans.Backend = nil   "assign" x.Trans.Backend = <other>
//   counterSitesConfined : every function that contains a site directly is clusterInvoke, FinishReq, or a helper all
//       of whose callers (transitively) are - i.e. nothing else in the package (ServeHTTP and the callback points
//       it consults, conn.serve, the protocol handlers) can change a counter
//   finishReqDecDeferredFirst : a top-level `defer` of FinishReq reaches a DecConnNum and is registered before the
//       first statement that can leave the function or run the HandleRequestFinish filters (a `return` or a call of
//       FilterResponse), so every way out of the callback block still releases the backend

import (
	"fmt"
	"go/ast"
	"os"
	"path/filepath"
	"sort"
	"strings"
)

type c07Func struct {
	name   string
	decl   *ast.FuncDecl
	direct map[string]bool // site kinds directly in the body (closures included)
	calls  map[string]bool // names of same-package functions / methods / local closures called
	locals map[string]*ast.FuncLit
}

func c07Sites(n ast.Node, direct map[string]bool, calls map[string]bool, exprStr func(ast.Node) string) {
	ast.Inspect(n, func(nd ast.Node) bool {
		switch v := nd.(type) {
		case *ast.CallExpr:
			switch f := v.Fun.(type) {
			case *ast.SelectorExpr:
				switch f.Sel.Name {
				case "IncConnNum":
					direct["inc"] = true
				case "DecConnNum":
					direct["dec"] = true
				case "SetRequestTransport":
					direct["set"] = true
				default:
					calls[f.Sel.Name] = true
				}
			case *ast.Ident:
				calls[f.Name] = true
			}
		case *ast.AssignStmt:
			for _, l := range v.Lhs {
				if strings.HasSuffix(exprStr(l), ".Trans.Backend") {
					if len(v.Rhs) == 1 && exprStr(v.Rhs[0]) == "nil" {
						direct["clear"] = true
					} else {
						direct["assign"] = true
					}
				}
			}
		}
		return true
	})
}

func init() {
	register("C07", func(repo string) (string, error) {
		dir := filepath.Join(repo, "bfe_server")
		ents, err := os.ReadDir(dir)
		if err != nil {
			return "", err
		}
		funcs := map[string][]*c07Func{}
		var all []*c07Func
		for _, e := range ents {
			n := e.Name()
			if !strings.HasSuffix(n, ".go") || strings.HasSuffix(n, "_test.go") || strings.HasPrefix(n, "zz_verif") {
				continue
			}
			fset, f, err := parseFile(repo, filepath.Join("bfe_server", n))
			if err != nil {
				return "", err
			}
			es := func(x ast.Node) string { return c08ExprString(fset, x) }
			for _, d := range f.Decls {
				fd, ok := d.(*ast.FuncDecl)
				if !ok || fd.Body == nil {
					continue
				}
				cf := &c07Func{name: fd.Name.Name, decl: fd, direct: map[string]bool{}, calls: map[string]bool{}, locals: map[string]*ast.FuncLit{}}
				c07Sites(fd.Body, cf.direct, cf.calls, es)
				funcs[cf.name] = append(funcs[cf.name], cf)
				all = append(all, cf)
			}
		}
		// kinds reachable from a function (same-package calls followed by name; closures are part of the body)
		var reach func(name string, seen map[string]bool, out map[string]bool)
		reach = func(name string, seen map[string]bool, out map[string]bool) {
			if seen[name] {
				return
			}
			seen[name] = true
			for _, cf := range funcs[name] {
				for k := range cf.direct {
					out[k] = true
				}
				for c := range cf.calls {
					if _, ok := funcs[c]; ok {
						reach(c, seen, out)
					}
				}
			}
		}
		kindsOf := func(name string) ([]string, error) {
			if len(funcs[name]) == 0 {
				return nil, fmt.Errorf("bfe_server.%s not found", name)
			}
			out := map[string]bool{}
			reach(name, map[string]bool{}, out)
			var l []string
			for k := range out {
				l = append(l, leanStr(k))
			}
			sort.Strings(l)
			return l, nil
		}
		inv, err := kindsOf("clusterInvoke")
		if err != nil {
			return "", err
		}
		fin, err := kindsOf("FinishReq")
		if err != nil {
			return "", err
		}
		// confinement
		callers := map[string]map[string]bool{}
		for _, cf := range all {
			for c := range cf.calls {
				if _, ok := funcs[c]; ok && c != cf.name {
					if callers[c] == nil {
						callers[c] = map[string]bool{}
					}
					callers[c][cf.name] = true
				}
			}
		}
		okSet := map[string]bool{"clusterInvoke": true, "FinishReq": true}
		for changed := true; changed; {
			changed = false
			for name := range funcs {
				if okSet[name] || len(callers[name]) == 0 {
					continue
				}
				good := true
				for c := range callers[name] {
					if !okSet[c] {
						good = false
					}
				}
				if good {
					okSet[name] = true
					changed = true
				}
			}
		}
		confined := true
		for _, cf := range all {
			if len(cf.direct) > 0 && !okSet[cf.name] {
				confined = false
			}
		}
		// FinishReq: deferred decrement registered first
		deferredFirst := false
		for _, cf := range funcs["FinishReq"] {
			locals := map[string]*ast.FuncLit{}
			deferIdx, leaveIdx := -1, -1
			reachesDec := func(call *ast.CallExpr) bool {
				d, c := map[string]bool{}, map[string]bool{}
				es := func(x ast.Node) string { return "" }
				switch f := call.Fun.(type) {
				case *ast.FuncLit:
					c07Sites(f.Body, d, c, es)
				case *ast.Ident:
					if lit, ok := locals[f.Name]; ok {
						c07Sites(lit.Body, d, c, es)
					} else {
						c[f.Name] = true
					}
				case *ast.SelectorExpr:
					if f.Sel.Name == "DecConnNum" {
						return true
					}
					c[f.Sel.Name] = true
				}
				out := map[string]bool{}
				for k := range d {
					out[k] = true
				}
				for name := range c {
					if _, ok := funcs[name]; ok {
						reach(name, map[string]bool{}, out)
					}
				}
				return out["dec"]
			}
			for i, st := range cf.decl.Body.List {
				if as, ok := st.(*ast.AssignStmt); ok && len(as.Lhs) == 1 && len(as.Rhs) == 1 {
					if id, ok := as.Lhs[0].(*ast.Ident); ok {
						if lit, ok := as.Rhs[0].(*ast.FuncLit); ok {
							locals[id.Name] = lit
							continue
						}
					}
				}
				if ds, ok := st.(*ast.DeferStmt); ok {
					if deferIdx < 0 && reachesDec(ds.Call) {
						deferIdx = i
					}
					continue
				}
				if leaveIdx < 0 {
					leaves := false
					ast.Inspect(st, func(nd ast.Node) bool {
						switch v := nd.(type) {
						case *ast.FuncLit:
							return false
						case *ast.ReturnStmt:
							leaves = true
						case *ast.CallExpr:
							if s, ok := v.Fun.(*ast.SelectorExpr); ok && s.Sel.Name == "FilterResponse" {
								leaves = true
							}
						}
						return true
					})
					if leaves {
						leaveIdx = i
					}
				}
			}
			deferredFirst = deferIdx >= 0 && (leaveIdx < 0 || deferIdx < leaveIdx)
		}
		var b strings.Builder
		b.WriteString(header("C07", "bfe_server/*.go"))
		fmt.Fprintf(&b, "/-- kinds of counter / Trans.Backend sites reachable from clusterInvoke (helpers followed), sorted set -/\ndef invokeKinds : List String := [%s]\n\n", strings.Join(inv, ", "))
		fmt.Fprintf(&b, "/-- the same for FinishReq -/\ndef finishKinds : List String := [%s]\n\n", strings.Join(fin, ", "))
		fmt.Fprintf(&b, "/-- every function with a site is clusterInvoke, FinishReq or a helper only they (transitively) call -/\ndef counterSitesConfined : Bool := %v\n\n", confined)
		fmt.Fprintf(&b, "/-- FinishReq registers a defer reaching DecConnNum before anything that can return or run the filters -/\ndef finishReqDecDeferredFirst : Bool := %v\n", deferredFirst)
		b.WriteString(footer("C07"))
		return b.String(), nil
	})
}
