package main

// C26 facts: bfe_basic.HopHeaders (order matters: it is the loop order of hopByHopHeaderRemove) and the
// write exclusion table of Request.write (shared helper in c25.go).

import (
	"fmt"
	"go/ast"
)

func init() {
	register("C26", func(repo string) (string, error) {
		_, f, err := parseFile(repo, "bfe_basic/common.go")
		if err != nil {
			return "", err
		}
		cl, ok := findValue(f, "HopHeaders").(*ast.CompositeLit)
		if !ok {
			return "", fmt.Errorf("bfe_basic.HopHeaders is not a composite literal")
		}
		var hop []string
		for _, e := range cl.Elts {
			s, ok := strLit(e)
			if !ok {
				return "", fmt.Errorf("bfe_basic.HopHeaders: non-literal element")
			}
			hop = append(hop, s)
		}
		// hopByHopHeaderRemove must still range over bfe_basic.HopHeaders
		_, g, err := parseFile(repo, "bfe_server/reverseproxy.go")
		if err != nil {
			return "", err
		}
		fd := findFunc(g, "", "hopByHopHeaderRemove")
		if fd == nil {
			return "", fmt.Errorf("hopByHopHeaderRemove not found")
		}
		// shape the model describes (after fix C26-connection-tokens):
		//   hopHeaders := bfe_basic.HopHeaders[...]  + append(… CanonicalHeaderKey(token of req.Header["Connection"]))
		//   for _, h := range hopHeaders { hvs := outreq.Header[h]; if len(hvs) == 0 {continue}; Te special case; Del }
		usesTable, readsConnection, rangesLocal, usesGet := false, false, false, false
		ast.Inspect(fd, func(n ast.Node) bool {
			switch v := n.(type) {
			case *ast.SelectorExpr:
				if v.Sel.Name == "HopHeaders" {
					usesTable = true
				}
				if v.Sel.Name == "Get" {
					usesGet = true
				}
			case *ast.IndexExpr:
				if s, ok := strLit(v.Index); ok && s == "Connection" {
					readsConnection = true
				}
			case *ast.RangeStmt:
				if id, ok := v.X.(*ast.Ident); ok && id.Name == "hopHeaders" {
					rangesLocal = true
				}
			}
			return true
		})
		if !usesTable || !readsConnection || !rangesLocal || usesGet {
			return "", fmt.Errorf("hopByHopHeaderRemove does not have the shape the C26 model describes (HopHeaders=%v Header[\"Connection\"]=%v range hopHeaders=%v Header.Get=%v)",
				usesTable, readsConnection, rangesLocal, usesGet)
		}
		excl, err := c25ExcludeTable(repo)
		if err != nil {
			return "", err
		}
		return header("C26", "bfe_basic/common.go", "bfe_http/request.go") +
			leanBytesList("hopHeaders", "bfe_basic.HopHeaders in source order", hop) + "\n" +
			leanBytesList("reqWriteExclude", "keys of reqWriteExcludeHeader mapped to true", excl) +
			footer("C26"), nil
	})
}
