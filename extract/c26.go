package main

// C26 facts: bfe_basic.HopHeaders (order matters: it is the loop order of hopByHopHeaderRemove) and the
// write exclusion table of Request.write (shared helper in c25.go).

import (
	"fmt"
	"go/ast"
)

// c26Facts reads HopHeaders, hopByHopProtected and the write exclusion table and checks the shape of hopByHopHeaderRemove.
func c26Facts(repo string) (hop, prot, excl []string, err error) {
	fail := func(e error) ([]string, []string, []string, error) { return nil, nil, nil, e }
	{
		_, f, err := parseFile(repo, "bfe_basic/common.go")
		if err != nil {
			return fail(err)
		}
		cl, ok := findValue(f, "HopHeaders").(*ast.CompositeLit)
		if !ok {
			return fail(fmt.Errorf("bfe_basic.HopHeaders is not a composite literal"))
		}
		var hop []string
		for _, e := range cl.Elts {
			s, ok := strLit(e)
			if !ok {
				return fail(fmt.Errorf("bfe_basic.HopHeaders: non-literal element"))
			}
			hop = append(hop, s)
		}
		// hopByHopHeaderRemove must still range over bfe_basic.HopHeaders
		_, g, err := parseFile(repo, "bfe_server/reverseproxy.go")
		if err != nil {
			return fail(err)
		}
		fd := findFunc(g, "", "hopByHopHeaderRemove")
		if fd == nil {
			return fail(fmt.Errorf("hopByHopHeaderRemove not found"))
		}
		// shape the model describes (after fix C26-connection-tokens):
		//   hopHeaders := bfe_basic.HopHeaders[...]  + append(… CanonicalHeaderKey(token of req.Header["Connection"]))
		//   for _, h := range hopHeaders { hvs := outreq.Header[h]; if len(hvs) == 0 {continue}; Te special case; Del }
		usesTable, readsConnection, rangesLocal, usesGet := false, false, false, false
		ast.Inspect(fd, func(n ast.Node) bool {
			switch v := n.(type) {
			case *ast.SelectorExpr:
				if v.Sel.Name == "HopHeaders" {
					usesTable = true
				}
				if v.Sel.Name == "Get" {
					usesGet = true
				}
			case *ast.IndexExpr:
				if s, ok := strLit(v.Index); ok && s == "Connection" {
					readsConnection = true
				}
			case *ast.RangeStmt:
				if id, ok := v.X.(*ast.Ident); ok && id.Name == "hopHeaders" {
					rangesLocal = true
				}
			}
			return true
		})
		if !usesTable || !readsConnection || !rangesLocal || usesGet {
			return fail(fmt.Errorf("hopByHopHeaderRemove does not have the shape the C26 model describes (HopHeaders=%v Header[\"Connection\"]=%v range hopHeaders=%v Header.Get=%v)",
				usesTable, readsConnection, rangesLocal, usesGet))
		}
		// names a Connection token cannot remove: var hopByHopProtected = map[string]bool{ bfe_basic.HeaderX: true, ... }
		pcl, ok := findValue(g, "hopByHopProtected").(*ast.CompositeLit)
		if !ok {
			return fail(fmt.Errorf("bfe_server.hopByHopProtected is not a composite literal"))
		}
		var prot []string
		for _, e := range pcl.Elts {
			kv, ok := e.(*ast.KeyValueExpr)
			if !ok {
				return fail(fmt.Errorf("hopByHopProtected: unexpected element"))
			}
			val, ok := kv.Value.(*ast.Ident)
			if !ok || val.Name != "true" {
				return fail(fmt.Errorf("hopByHopProtected: value is not the literal true"))
			}
			name := ""
			switch k := kv.Key.(type) {
			case *ast.SelectorExpr:
				if c, ok := strLit(findValue(f, k.Sel.Name)); ok {
					name = c
				}
			case *ast.BasicLit:
				name, _ = strLit(k)
			}
			if name == "" {
				return fail(fmt.Errorf("hopByHopProtected: key is neither a string literal nor a bfe_basic string constant"))
			}
			prot = append(prot, name)
		}
		usesProt := false
		ast.Inspect(fd, func(n ast.Node) bool {
			if ix, ok := n.(*ast.IndexExpr); ok {
				if id, ok := ix.X.(*ast.Ident); ok && id.Name == "hopByHopProtected" {
					usesProt = true
				}
			}
			return true
		})
		if !usesProt {
			return fail(fmt.Errorf("hopByHopHeaderRemove does not consult hopByHopProtected"))
		}
		excl, err := c25ExcludeTable(repo)
		if err != nil {
			return fail(err)
		}
		return hop, prot, excl, nil
	}
}

func init() {
	register("C26", func(repo string) (string, error) {
		hop, prot, excl, err := c26Facts(repo)
		if err != nil {
			return "", err
		}
		return header("C26", "bfe_basic/common.go", "bfe_server/reverseproxy.go", "bfe_http/request.go") +
			leanBytesList("hopHeaders", "bfe_basic.HopHeaders in source order", hop) + "\n" +
			leanBytesList("hopProtected", "keys of bfe_server.hopByHopProtected (headers BFE sets itself; Connection tokens cannot remove them)", prot) + "\n" +
			leanBytesList("reqWriteExclude", "keys of reqWriteExcludeHeader mapped to true", excl) +
			footer("C26"), nil
	})
	// C29 composes the C26 model of hopByHopHeaderRemove: its own copy of the two tables lets C29's Props assert
	// that Generated/C26.lean is not stale (theorem C29_tables_current)
	register("C29", func(repo string) (string, error) {
		hop, prot, _, err := c26Facts(repo)
		if err != nil {
			return "", err
		}
		return header("C29", "bfe_basic/common.go", "bfe_server/reverseproxy.go") +
			leanBytesList("hopHeaders", "bfe_basic.HopHeaders in source order", hop) + "\n" +
			leanBytesList("hopProtected", "keys of bfe_server.hopByHopProtected", prot) +
			footer("C29"), nil
	})
}
