package main

// C26 / C29 facts: bfe_basic.HopHeaders (sorted: deletions of distinct keys commute), bfe_server.hopByHopProtected (sorted), and for C26 the write
// exclusion table of Request.write (c25.go).  Use sites are searched in everything reachable from hopByHopHeaderRemove.

import (
	"fmt"
	"go/ast"
	"sort"
)

// c26Facts reads the tables and checks that hopByHopHeaderRemove (with the same-package helpers it calls) still has the
// ingredients the model describes: it uses HopHeaders, reads Header["Connection"], consults hopByHopProtected and does not
// fall back to Header.Get (first value only).
func c26Facts(repo string) (hop, prot, excl []string, err error) {
	basic, err := pkgFiles(repo, "bfe_basic")
	if err != nil {
		return nil, nil, nil, err
	}
	server, err := pkgFiles(repo, "bfe_server")
	if err != nil {
		return nil, nil, nil, err
	}
	imported := map[string][]*ast.File{"bfe_basic": basic}
	cl, ok := pkgValue(basic, "HopHeaders").(*ast.CompositeLit)
	if !ok {
		return nil, nil, nil, fmt.Errorf("bfe_basic.HopHeaders is not a composite literal")
	}
	for _, e := range cl.Elts {
		s, ok := strConst(e, basic, nil)
		if !ok {
			return nil, nil, nil, fmt.Errorf("bfe_basic.HopHeaders: element is neither a string literal nor a constant")
		}
		hop = append(hop, s)
	}
	// the result of the loop does not depend on the order of the names (deletions of distinct keys commute): emit sorted
	sort.Strings(hop)
	pv := pkgValue(server, "hopByHopProtected")
	if pv == nil {
		return nil, nil, nil, fmt.Errorf("bfe_server.hopByHopProtected not found")
	}
	if prot, err = boolSet("hopByHopProtected", pv, server, imported); err != nil {
		return nil, nil, nil, err
	}
	roots := pkgFuncs(server, "hopByHopHeaderRemove")
	if len(roots) == 0 {
		return nil, nil, nil, fmt.Errorf("bfe_server.hopByHopHeaderRemove not found")
	}
	fds := reachable(server, roots)
	usesTable, readsConnection, usesProt, usesGet := false, false, mentions(fds, "hopByHopProtected"), false
	for _, fd := range fds {
		ast.Inspect(fd.Body, func(n ast.Node) bool {
			switch v := n.(type) {
			case *ast.SelectorExpr:
				if v.Sel.Name == "HopHeaders" {
					usesTable = true
				}
			case *ast.CallExpr:
				// X.Header.Get(...): the pre-fix test on the first value only
				if se, ok := v.Fun.(*ast.SelectorExpr); ok && se.Sel.Name == "Get" {
					if inner, ok := se.X.(*ast.SelectorExpr); ok && inner.Sel.Name == "Header" {
						usesGet = true
					}
				}
			case *ast.IndexExpr:
				if s, ok := strConst(v.Index, server, imported); ok && s == "Connection" {
					readsConnection = true
				}
			}
			return true
		})
	}
	if !usesTable || !readsConnection || !usesProt || usesGet {
		return nil, nil, nil, fmt.Errorf("hopByHopHeaderRemove (with the helpers it calls) does not have the ingredients the C26 model describes (HopHeaders=%v Header[\"Connection\"]=%v hopByHopProtected=%v Header.Get=%v)",
			usesTable, readsConnection, usesProt, usesGet)
	}
	if excl, err = c25ExcludeTable(repo); err != nil {
		return nil, nil, nil, err
	}
	return hop, prot, excl, nil
}

func init() {
	register("C26", func(repo string) (string, error) {
		hop, prot, excl, err := c26Facts(repo)
		if err != nil {
			return "", err
		}
		return header("C26", "bfe_basic/common.go", "bfe_server/reverseproxy.go", "bfe_http/request.go") +
			leanBytesList("hopHeaders", "bfe_basic.HopHeaders, sorted", hop) + "\n" +
			leanBytesList("hopProtected", "keys of bfe_server.hopByHopProtected, sorted (headers BFE sets itself; Connection tokens cannot remove them)", prot) + "\n" +
			leanBytesList("reqWriteExclude", "keys of reqWriteExcludeHeader mapped to true", excl) +
			footer("C26"), nil
	})
	// C29 composes the C26 model of hopByHopHeaderRemove, instantiated with its OWN copy of the two tables, so a C29
	// check never depends on the state of Generated/C26.lean
	register("C29", func(repo string) (string, error) {
		hop, prot, _, err := c26Facts(repo)
		if err != nil {
			return "", err
		}
		return header("C29", "bfe_basic/common.go", "bfe_server/reverseproxy.go") +
			leanBytesList("hopHeaders", "bfe_basic.HopHeaders, sorted", hop) + "\n" +
			leanBytesList("hopProtected", "keys of bfe_server.hopByHopProtected, sorted", prot) +
			footer("C29"), nil
	})
}
