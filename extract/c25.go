package main

// C25 / C26 / C29 facts:
//   bfe_http     var reqWriteExcludeHeader = map[string]bool{ "K": true, ... }
//   bfe_basic    var HopHeaders = []string{ ... }                                   (C26, C29)
//   bfe_server   var hopByHopProtected = map[string]bool{ bfe_basic.HeaderX: true } (C26, C29)
// rendered as lists of byte lists so that Lean can `decide` over them.
//
// The extractors are SEMANTIC rather than syntactic: declarations are looked up in the whole package (any file), use sites
// are searched in everything REACHABLE from the function the model describes (same-package functions, methods and closures
// are followed transitively), table keys may be literals or named constants, map-valued tables are emitted sorted.

import (
	"fmt"
	"go/ast"
	"go/parser"
	"go/token"
	"os"
	"path/filepath"
	"sort"
	"strings"
)

func leanBytes(s string) string {
	parts := make([]string, len(s))
	for i := 0; i < len(s); i++ {
		parts[i] = fmt.Sprintf("%d", s[i])
	}
	return "[" + strings.Join(parts, ", ") + "]"
}

func leanBytesList(name, doc string, xs []string) string {
	var b strings.Builder
	fmt.Fprintf(&b, "/-- %s -/\ndef %s : List (List UInt8) := [\n", doc, name)
	for i, x := range xs {
		sep := ","
		if i == len(xs)-1 {
			sep = ""
		}
		fmt.Fprintf(&b, "  %s%s  -- %s\n", leanBytes(x), sep, leanStr(x))
	}
	b.WriteString("]\n")
	return b.String()
}

// pkgFiles parses every non-test Go file of repo/dir that is built without the `verif` tag.
func pkgFiles(repo, dir string) ([]*ast.File, error) {
	ents, err := os.ReadDir(filepath.Join(repo, dir))
	if err != nil {
		return nil, err
	}
	var out []*ast.File
	fset := token.NewFileSet()
	for _, e := range ents {
		n := e.Name()
		if e.IsDir() || !strings.HasSuffix(n, ".go") || strings.HasSuffix(n, "_test.go") || strings.HasPrefix(n, "zz_verif_") {
			continue
		}
		f, err := parser.ParseFile(fset, filepath.Join(repo, dir, n), nil, 0)
		if err != nil {
			return nil, err
		}
		out = append(out, f)
	}
	return out, nil
}

func pkgValue(files []*ast.File, name string) ast.Expr {
	for _, f := range files {
		if v := findValue(f, name); v != nil {
			return v
		}
	}
	return nil
}

// pkgFuncs returns every function or method of the package named name (recv "" = any receiver or none).
func pkgFuncs(files []*ast.File, name string) []*ast.FuncDecl {
	var out []*ast.FuncDecl
	for _, f := range files {
		for _, d := range f.Decls {
			if fd, ok := d.(*ast.FuncDecl); ok && fd.Name.Name == name && fd.Body != nil {
				out = append(out, fd)
			}
		}
	}
	return out
}

// reachable returns root and every same-package function/method it can call (by name; transitively, cycle-safe).
func reachable(files []*ast.File, roots []*ast.FuncDecl) []*ast.FuncDecl {
	seen := map[*ast.FuncDecl]bool{}
	var out []*ast.FuncDecl
	var visit func(fd *ast.FuncDecl, depth int)
	visit = func(fd *ast.FuncDecl, depth int) {
		if seen[fd] || depth > 6 {
			return
		}
		seen[fd] = true
		out = append(out, fd)
		ast.Inspect(fd.Body, func(n ast.Node) bool {
			c, ok := n.(*ast.CallExpr)
			if !ok {
				return true
			}
			name := ""
			switch f := c.Fun.(type) {
			case *ast.Ident:
				name = f.Name
			case *ast.SelectorExpr:
				name = f.Sel.Name
			}
			if name != "" {
				for _, callee := range pkgFuncs(files, name) {
					visit(callee, depth+1)
				}
			}
			return true
		})
	}
	for _, r := range roots {
		visit(r, 0)
	}
	return out
}

// strConst evaluates a string literal, a named string constant of the package, or pkgname.Const of one of the given
// imported packages.
func strConst(e ast.Expr, files []*ast.File, imported map[string][]*ast.File) (string, bool) {
	switch v := e.(type) {
	case *ast.BasicLit:
		return strLit(v)
	case *ast.ParenExpr:
		return strConst(v.X, files, imported)
	case *ast.Ident:
		if d := pkgValue(files, v.Name); d != nil && d != e {
			return strConst(d, files, imported)
		}
	case *ast.SelectorExpr:
		if id, ok := v.X.(*ast.Ident); ok {
			if fs, ok := imported[id.Name]; ok {
				if d := pkgValue(fs, v.Sel.Name); d != nil {
					return strConst(d, fs, nil)
				}
			}
		}
	}
	return "", false
}

// boolSet reads a `map[string]bool{k: true, ...}` table (keys literal or constant) and returns the keys mapped to true, sorted.
func boolSet(name string, e ast.Expr, files []*ast.File, imported map[string][]*ast.File) ([]string, error) {
	cl, ok := e.(*ast.CompositeLit)
	if !ok {
		return nil, fmt.Errorf("%s is not a composite literal", name)
	}
	var keys []string
	for _, el := range cl.Elts {
		kv, ok := el.(*ast.KeyValueExpr)
		if !ok {
			return nil, fmt.Errorf("%s: unexpected element", name)
		}
		k, ok := strConst(kv.Key, files, imported)
		if !ok {
			return nil, fmt.Errorf("%s: key is neither a string literal nor a string constant", name)
		}
		id, ok := kv.Value.(*ast.Ident)
		if !ok || (id.Name != "true" && id.Name != "false") {
			return nil, fmt.Errorf("%s[%q]: value is not a bool literal", name, k)
		}
		if id.Name == "true" {
			keys = append(keys, k)
		}
	}
	sort.Strings(keys)
	out := keys[:0]
	for i, k := range keys {
		if i == 0 || k != keys[i-1] {
			out = append(out, k)
		}
	}
	return out, nil
}

// mentions reports whether any of the functions refers to identifier name.
func mentions(fds []*ast.FuncDecl, name string) bool {
	found := false
	for _, fd := range fds {
		ast.Inspect(fd.Body, func(n ast.Node) bool {
			if id, ok := n.(*ast.Ident); ok && id.Name == name {
				found = true
			}
			return !found
		})
	}
	return found
}

// exclusion table of Request.write: keys mapped to true, sorted; it must still be used by what (*Request).write reaches.
func c25ExcludeTable(repo string) ([]string, error) {
	files, err := pkgFiles(repo, "bfe_http")
	if err != nil {
		return nil, err
	}
	v := pkgValue(files, "reqWriteExcludeHeader")
	if v == nil {
		return nil, fmt.Errorf("bfe_http.reqWriteExcludeHeader not found")
	}
	keys, err := boolSet("reqWriteExcludeHeader", v, files, nil)
	if err != nil {
		return nil, err
	}
	var roots []*ast.FuncDecl
	for _, fd := range pkgFuncs(files, "write") {
		if fd.Recv != nil && len(fd.Recv.List) == 1 {
			t := fd.Recv.List[0].Type
			if st, ok := t.(*ast.StarExpr); ok {
				t = st.X
			}
			if id, ok := t.(*ast.Ident); ok && id.Name == "Request" {
				roots = append(roots, fd)
			}
		}
	}
	if len(roots) == 0 {
		return nil, fmt.Errorf("(*Request).write not found")
	}
	if !mentions(reachable(files, roots), "reqWriteExcludeHeader") {
		return nil, fmt.Errorf("nothing reachable from (*Request).write uses reqWriteExcludeHeader any more")
	}
	return keys, nil
}

func init() {
	register("C25", func(repo string) (string, error) {
		keys, err := c25ExcludeTable(repo)
		if err != nil {
			return "", err
		}
		return header("C25", "bfe_http/request.go") +
			leanBytesList("reqWriteExclude", "keys of reqWriteExcludeHeader mapped to true (exact, case-sensitive map lookup)", keys) +
			footer("C25"), nil
	})
}
