package main

// C25 / C26 facts:
//   bfe_http/request.go   var reqWriteExcludeHeader = map[string]bool{ "K": true, ... }
//   bfe_basic/common.go   var HopHeaders = []string{ ... }                     (C26 only)
// rendered as lists of byte lists so that Lean can `decide` over them.

import (
	"fmt"
	"go/ast"
	"sort"
	"strings"
)

func leanBytes(s string) string {
	parts := make([]string, len(s))
	for i := 0; i < len(s); i++ {
		parts[i] = fmt.Sprintf("%d", s[i])
	}
	return "[" + strings.Join(parts, ", ") + "]"
}

func leanBytesList(name, doc string, xs []string) string {
	var b strings.Builder
	fmt.Fprintf(&b, "/-- %s -/\ndef %s : List (List UInt8) := [\n", doc, name)
	for i, x := range xs {
		sep := ","
		if i == len(xs)-1 {
			sep = ""
		}
		fmt.Fprintf(&b, "  %s%s  -- %s\n", leanBytes(x), sep, leanStr(x))
	}
	b.WriteString("]\n")
	return b.String()
}

// exclusion table of Request.write: keys mapped to the literal `true`, sorted.
func c25ExcludeTable(repo string) ([]string, error) {
	_, f, err := parseFile(repo, "bfe_http/request.go")
	if err != nil {
		return nil, err
	}
	v := findValue(f, "reqWriteExcludeHeader")
	cl, ok := v.(*ast.CompositeLit)
	if !ok {
		return nil, fmt.Errorf("reqWriteExcludeHeader is not a composite literal")
	}
	if mt, ok := cl.Type.(*ast.MapType); !ok || fmt.Sprint(mt.Key) != "string" || fmt.Sprint(mt.Value) != "bool" {
		return nil, fmt.Errorf("reqWriteExcludeHeader is not a map[string]bool literal")
	}
	var keys []string
	for _, e := range cl.Elts {
		kv, ok := e.(*ast.KeyValueExpr)
		if !ok {
			return nil, fmt.Errorf("reqWriteExcludeHeader: unexpected element")
		}
		k, ok := strLit(kv.Key)
		if !ok {
			return nil, fmt.Errorf("reqWriteExcludeHeader: non-literal key")
		}
		id, ok := kv.Value.(*ast.Ident)
		if !ok || (id.Name != "true" && id.Name != "false") {
			return nil, fmt.Errorf("reqWriteExcludeHeader[%q]: value is not a bool literal", k)
		}
		if id.Name == "true" {
			keys = append(keys, k)
		}
	}
	sort.Strings(keys)
	// the use site must still be `req.Header.WriteSubset(w, reqWriteExcludeHeader)`
	fd := findFunc(f, "Request", "write")
	if fd == nil {
		return nil, fmt.Errorf("(*Request).write not found")
	}
	found := false
	ast.Inspect(fd, func(n ast.Node) bool {
		if c, ok := n.(*ast.CallExpr); ok {
			if se, ok := c.Fun.(*ast.SelectorExpr); ok && se.Sel.Name == "WriteSubset" && len(c.Args) == 2 {
				if id, ok := c.Args[1].(*ast.Ident); ok && id.Name == "reqWriteExcludeHeader" {
					found = true
				}
			}
		}
		return true
	})
	if !found {
		return nil, fmt.Errorf("(*Request).write no longer calls Header.WriteSubset(w, reqWriteExcludeHeader)")
	}
	return keys, nil
}

func init() {
	register("C25", func(repo string) (string, error) {
		keys, err := c25ExcludeTable(repo)
		if err != nil {
			return "", err
		}
		return header("C25", "bfe_http/request.go") +
			leanBytesList("reqWriteExclude", "keys of reqWriteExcludeHeader mapped to true (exact, case-sensitive map lookup)", keys) +
			footer("C25"), nil
	})
}
