package main

// C30 / C31: HPACK static table, Huffman code table (code, length), the EOS code used by
// AppendHuffmanString and initialHeaderTableSize, re-read from bfe_http2/hpack on every run.

import (
	"fmt"
	"go/ast"
	"strings"
)

func init() {
	register("C30", func(repo string) (string, error) { return hpackFacts("C30", repo) })
}

func natList(b []byte) string {
	parts := make([]string, len(b))
	for i, c := range b {
		parts[i] = fmt.Sprint(int(c))
	}
	return "[" + strings.Join(parts, ", ") + "]"
}

func hpackFacts(id, repo string) (string, error) {
	const tablesGo = "bfe_http2/hpack/tables.go"
	const huffGo = "bfe_http2/hpack/huffman.go"
	const encGo = "bfe_http2/hpack/encode.go"
	_, tf, err := parseFile(repo, tablesGo)
	if err != nil {
		return "", err
	}
	_, hf, err := parseFile(repo, huffGo)
	if err != nil {
		return "", err
	}
	_, ef, err := parseFile(repo, encGo)
	if err != nil {
		return "", err
	}
	var b strings.Builder
	b.WriteString(header(id, tablesGo, huffGo, encGo))

	// ---- static table: [...]HeaderField{ pair("n","v"), ... }
	st, ok := findValue(tf, "staticTable").(*ast.CompositeLit)
	if !ok {
		return "", fmt.Errorf("staticTable is not a composite literal")
	}
	b.WriteString("/-- `staticTable` of tables.go, entry i (0-based) has HPACK index i+1; strings as byte lists. -/\n")
	b.WriteString("def staticTable : List (List Nat × List Nat) := [\n")
	for i, e := range st.Elts {
		ce, ok := e.(*ast.CallExpr)
		if !ok || len(ce.Args) != 2 {
			return "", fmt.Errorf("staticTable entry %d is not pair(name, value)", i)
		}
		if fn, ok := ce.Fun.(*ast.Ident); !ok || fn.Name != "pair" {
			return "", fmt.Errorf("staticTable entry %d is not a pair(..) call", i)
		}
		n, ok1 := strLit(ce.Args[0])
		v, ok2 := strLit(ce.Args[1])
		if !ok1 || !ok2 {
			return "", fmt.Errorf("staticTable entry %d: non-literal strings", i)
		}
		sep := ","
		if i == len(st.Elts)-1 {
			sep = ""
		}
		fmt.Fprintf(&b, "  (%s, %s)%s -- %d %s\n", natList([]byte(n)), natList([]byte(v)), sep, i+1, strings.ReplaceAll(leanStr(n+": "+v), "-/", "- /"))
	}
	b.WriteString("]\n\n")
	// the body of pair must be HeaderField{Name: name, Value: value}
	pf := findFunc(tf, "", "pair")
	if pf == nil || len(pf.Body.List) != 1 {
		return "", fmt.Errorf("func pair has an unexpected shape")
	}

	// ---- Huffman codes
	ints := func(f *ast.File, name string) ([]int64, error) {
		cl, ok := findValue(f, name).(*ast.CompositeLit)
		if !ok {
			return nil, fmt.Errorf("%s is not a composite literal", name)
		}
		var out []int64
		for i, e := range cl.Elts {
			v, ok := intLit(e)
			if !ok {
				return nil, fmt.Errorf("%s[%d] is not an integer literal", name, i)
			}
			out = append(out, v)
		}
		return out, nil
	}
	codes, err := ints(tf, "huffmanCodes")
	if err != nil {
		return "", err
	}
	lens, err := ints(tf, "huffmanCodeLen")
	if err != nil {
		return "", err
	}
	if len(codes) != len(lens) {
		return "", fmt.Errorf("huffmanCodes has %d entries, huffmanCodeLen %d", len(codes), len(lens))
	}
	b.WriteString("/-- `(huffmanCodes[i], huffmanCodeLen[i])` of tables.go for i = 0 … -/\n")
	b.WriteString("def huffCodes : List (Nat × Nat) := [\n")
	for i := range codes {
		sep := ","
		if i == len(codes)-1 {
			sep = ""
		}
		fmt.Fprintf(&b, "  (0x%x, %d)%s\n", codes[i], lens[i], sep)
	}
	b.WriteString("]\n\n")

	// ---- EOS as used by AppendHuffmanString:  code := uint32(0x3fffffff) ; nbits := uint8(30)
	af := findFunc(hf, "", "AppendHuffmanString")
	if af == nil {
		return "", fmt.Errorf("AppendHuffmanString not found")
	}
	var eosCode, eosLen int64 = -1, -1
	ast.Inspect(af.Body, func(n ast.Node) bool {
		as, ok := n.(*ast.AssignStmt)
		if !ok || len(as.Lhs) != 1 || len(as.Rhs) != 1 {
			return true
		}
		id, ok := as.Lhs[0].(*ast.Ident)
		if !ok {
			return true
		}
		ce, ok := as.Rhs[0].(*ast.CallExpr)
		if !ok || len(ce.Args) != 1 {
			return true
		}
		v, ok := intLit(ce.Args[0])
		if !ok {
			return true
		}
		switch id.Name {
		case "code":
			eosCode = v
		case "nbits":
			eosLen = v
		}
		return true
	})
	if eosCode < 0 || eosLen < 0 {
		return "", fmt.Errorf("EOS code/nbits constants not found in AppendHuffmanString")
	}
	fmt.Fprintf(&b, "/-- the EOS code AppendHuffmanString pads with -/\ndef eosCode : Nat × Nat := (0x%x, %d)\n\n", eosCode, eosLen)

	// ---- initialHeaderTableSize
	v, ok := intLit(findValue(ef, "initialHeaderTableSize"))
	if !ok {
		return "", fmt.Errorf("initialHeaderTableSize is not an integer constant")
	}
	fmt.Fprintf(&b, "def initialHeaderTableSize : Nat := %d\n", v)
	b.WriteString(footer(id))
	return b.String(), nil
}
