package main

// C38 facts:
//   bfe_http2/http2.go   var HopHeaders = map[string]bool{ "K": true, ... }   (filter used by cloneHeader / declareTrailer)
//   bfe_http2/server.go  var connHeaders = []string{ ... }                    (RFC 7540 8.1.2.2 list the server itself rejects in requests)
// rendered as lists of byte lists (Nat) so that Lean can `decide` over them.

import (
	"fmt"
	"go/ast"
	"sort"
	"strings"
)

func c38Bytes(s string) string {
	parts := make([]string, len(s))
	for i := 0; i < len(s); i++ {
		parts[i] = fmt.Sprintf("%d", s[i])
	}
	return "[" + strings.Join(parts, ", ") + "]"
}

func c38List(name, doc string, xs []string) string {
	var b strings.Builder
	fmt.Fprintf(&b, "/-- %s -/\ndef %s : List (List Nat) := [\n", doc, name)
	for i, x := range xs {
		sep := ","
		if i == len(xs)-1 {
			sep = ""
		}
		fmt.Fprintf(&b, "  %s%s  -- %s\n", c38Bytes(x), sep, leanStr(x))
	}
	b.WriteString("]\n")
	return b.String()
}

func init() {
	register("C38", func(repo string) (string, error) {
		_, f, err := parseFile(repo, "bfe_http2/http2.go")
		if err != nil {
			return "", err
		}
		cl, ok := findValue(f, "HopHeaders").(*ast.CompositeLit)
		if !ok {
			return "", fmt.Errorf("HopHeaders is not a composite literal")
		}
		if mt, ok := cl.Type.(*ast.MapType); !ok || fmt.Sprint(mt.Key) != "string" || fmt.Sprint(mt.Value) != "bool" {
			return "", fmt.Errorf("HopHeaders is not a map[string]bool literal")
		}
		var hop []string
		for _, e := range cl.Elts {
			kv, ok := e.(*ast.KeyValueExpr)
			if !ok {
				return "", fmt.Errorf("HopHeaders: unexpected element")
			}
			k, ok := strLit(kv.Key)
			if !ok {
				return "", fmt.Errorf("HopHeaders: non-literal key")
			}
			if id, ok := kv.Value.(*ast.Ident); !ok || id.Name != "true" {
				return "", fmt.Errorf("HopHeaders[%q] is not the literal true", k)
			}
			hop = append(hop, k)
		}
		sort.Strings(hop)

		_, g, err := parseFile(repo, "bfe_http2/server.go")
		if err != nil {
			return "", err
		}
		cl2, ok := findValue(g, "connHeaders").(*ast.CompositeLit)
		if !ok {
			return "", fmt.Errorf("connHeaders is not a composite literal")
		}
		var conn []string
		for _, e := range cl2.Elts {
			s, ok := strLit(e)
			if !ok {
				return "", fmt.Errorf("connHeaders: non-literal element")
			}
			conn = append(conn, s)
		}
		return header("C38", "bfe_http2/http2.go", "bfe_http2/server.go") +
			c38List("hopHeaders", "keys of `HopHeaders` (canonical MIME form), sorted", hop) + "\n" +
			c38List("connHeaders", "`connHeaders`: the connection-specific request header names of RFC 7540 section 8.1.2.2", conn) +
			footer("C38"), nil
	})
}
