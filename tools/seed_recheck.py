#!/usr/bin/env python3
"""seed_recheck.py [names...] — re-run ./check against every kept seeded change (scratch copy of /repo + patch) and
record the CURRENT result in seeded/<name>/meta.json under check_result_now (the result at seeding time stays in check_result)."""
import os, sys, json, subprocess, shutil, re, time
V = os.path.dirname(os.path.dirname(os.path.abspath(__file__)))
names = sys.argv[1:] or sorted(os.listdir(os.path.join(V, 'seeded')))
for n in names:
    d = os.path.join(V, 'seeded', n)
    mp = os.path.join(d, 'meta.json')
    if not os.path.exists(mp):
        continue
    m = json.load(open(mp))
    pid = m.get('breaks_property', m.get('property'))
    D = '/var/tmp/bfe-recheck-%s-%d' % (n, os.getpid())
    try:
        subprocess.run(['rsync', '-a', '--exclude', '.git', '/repo/', D + '/'], check=True)
        r = subprocess.run('patch -p1 -s < ' + os.path.join(d, 'patch.diff'), cwd=D, shell=True)
        if r.returncode != 0:
            m['check_result_now'] = {'error': 'patch no longer applies to /repo HEAD'}
        else:
            t0 = time.time()
            p = subprocess.run(['./check', pid], cwd=V, env=dict(os.environ, VERIF_REPO=D), stdout=subprocess.PIPE, stderr=subprocess.STDOUT, text=True)
            out = p.stdout
            res = {'caught': p.returncode == 1 and ('VIOLATION property=%s' % pid) in out, 'wall_s': round(time.time() - t0, 1),
                   'no_failing_input_found': 'no-failing-input-found' in out}
            mm = re.search(r'replay=(\S+)', out)
            if mm and os.path.exists(mm.group(1)):
                rp = json.load(open(mm.group(1)))
                res['replay'] = {k: str(v)[:300] for k, v in rp.items() if k in ('kind', 'op', 'impl', 'model', 'verdict', 'count')}
                os.unlink(mm.group(1))
            m['check_result_now'] = res
        json.dump(m, open(mp, 'w'), indent=1)
        print(n, m['check_result_now'].get('caught'), (m['check_result_now'].get('replay') or {}).get('verdict'), flush=True)
    finally:
        shutil.rmtree(D, ignore_errors=True)
