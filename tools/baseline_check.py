#!/usr/bin/env python3
"""baseline_check.py [repo]  — run the repository's test suite with the verif guard OFF (the BASELINE command) and
report every stable_pass test of /root/.vp/BASELINE.json that does not pass."""
import sys, os, json, subprocess
repo = sys.argv[1] if len(sys.argv) > 1 else '/repo'
env = dict(os.environ, GOFLAGS='-mod=mod', GOPROXY='off', GOSUMDB='off', GOTOOLCHAIN='local')
p = subprocess.Popen(['go', 'test', '-mod=mod', '-json', '-vet=off', '-count=1', '-timeout', '25m', './...'], cwd=repo, env=env,
                     stdout=subprocess.PIPE, stderr=subprocess.DEVNULL, text=True, errors='replace')
res = {}
for line in p.stdout:
    try:
        e = json.loads(line)
    except Exception:
        continue
    if e.get('Test') and e.get('Action') in ('pass', 'fail', 'skip'):
        res[e['Package'] + '::' + e['Test']] = e['Action']
p.wait()
stable = json.load(open('/root/.vp/BASELINE.json'))['stable_pass']
bad = [t for t in stable if res.get(t) != 'pass']
print('stable tests: %d, passing now: %d' % (len(stable), len(stable) - len(bad)))
for t in bad:
    print('NOT PASSING:', t, res.get(t))
sys.exit(1 if bad else 0)
