#!/bin/sh
# usage: tools/seed_prepare.sh C23 [tag]  -> creates /tmp/seed/C23[-tag]/wt (git worktree of /repo HEAD without verif hook files)
#        and /tmp/seed/C23[-tag]/property.json (the property text only)
ID=$1; TAG=${2:+-$2}; D=/tmp/seed/$ID$TAG
mkdir -p "$D" && rm -rf "$D/wt"
git -C /repo worktree prune
git -C /repo worktree add -q --detach "$D/wt" HEAD || exit 1
(cd "$D/wt" && find . -name 'zz_verif_*.go' -delete && git -c user.name=s -c user.email=s@x commit -qam "drop verif hooks" )
jq "select(.id==\"$ID\")" /verif/properties.jsonl > "$D/property.json"
cp /verif/docs/SEED_PROMPT.md "$D/TASK.md"
echo "$D"
