#!/bin/sh
# usage: tools/refactor_prepare.sh <name> C01 C02 ...  -> /tmp/seed/<name>/{wt,properties.json,TASK.md} for a harmless-rewrite agent
N=$1; shift; D=/tmp/seed/$N
mkdir -p "$D" && rm -rf "$D/wt"
git -C /repo worktree prune
git -C /repo worktree add -q --detach "$D/wt" HEAD || exit 1
(cd "$D/wt" && find . -name 'zz_verif_*.go' -delete && git -c user.name=s -c user.email=s@x commit -qam "drop verif hooks")
: > "$D/properties.json"
for ID in "$@"; do jq -c "select(.id==\"$ID\")" /verif/properties.jsonl >> "$D/properties.json"; done
cp /verif/docs/REFACTOR_PROMPT.md "$D/TASK.md"
echo "$D"
