#!/usr/bin/env python3
"""Rebuild /verif/KNOWN_FINDINGS.txt from findings/Cxx.txt (one file per property, written by hand)."""
import os, re
V = os.path.join(os.path.dirname(os.path.abspath(__file__)), '..')
out = ['# Known findings of /verif (committed; never written at run time; rebuilt from findings/*.txt by tools/merge_findings.py).',
       '#   known: property=<id> class=<classifier emitted by the Lean spec oracle> :: <what fails>',
       '#   fixed: property=<id> <commit in /repo> <what failed>          (suppresses nothing)']
for f in sorted(os.listdir(os.path.join(V, 'findings'))):
    if re.fullmatch(r'C\d\d\.txt', f):
        for line in open(os.path.join(V, 'findings', f)):
            line = line.rstrip('\n')
            if line.startswith('known: ') or line.startswith('fixed: '):
                out.append(line)
open(os.path.join(V, 'KNOWN_FINDINGS.txt'), 'w').write('\n'.join(out) + '\n')
print(len(out) - 3, 'entries')
