#!/usr/bin/env python3
"""seed_prepare_n.py <ID> <tag>: like seed_prepare.sh, plus ALREADY_TRIED.txt listing the changes kept so far for this property
(seeded/<ID>*/meta.json summaries) and the known deviations (findings/<ID>.txt known: lines), so that the new seeder tries something else."""
import sys, os, json, glob, subprocess, re
V = os.path.dirname(os.path.dirname(os.path.abspath(__file__)))
pid, tag = sys.argv[1], sys.argv[2]
d = subprocess.run([os.path.join(V, 'tools', 'seed_prepare.sh'), pid, tag], stdout=subprocess.PIPE, text=True, check=True).stdout.strip().splitlines()[-1]
out = []
for s in sorted(glob.glob(os.path.join(V, 'seeded', pid + '*'))):
    m = json.load(open(os.path.join(s, 'meta.json')))
    out.append('== A breaking change another engineer already produced for this property (yours must be a different kind of change in a different place):\n'
               + m.get('summary', '')[:900] + '\n')
fp = os.path.join(V, 'findings', pid + '.txt')
kn = [re.sub(r'^known: property=\S+ class=\S+ :: ', '', l.strip())[:500] for l in open(fp) if l.startswith('known:')] if os.path.exists(fp) else []
if kn:
    out.append('== Ways in which the code as it stands ALREADY deviates from the statement (known; your change must not rely on any of these):\n' + '\n'.join('- ' + k for k in kn) + '\n')
open(os.path.join(d, 'ALREADY_TRIED.txt'), 'w').write('\n'.join(out))
print(d)
