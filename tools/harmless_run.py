#!/usr/bin/env python3
"""harmless_run.py [--collect] [names...]
Behaviour-preserving rewrites of bfe written by independent sub-agents (docs/REFACTOR_PROMPT.md) are kept under
/verif/harmless/<ID>-rN/{patch.diff,meta.json}.  For each: scratch copy of /repo + patch, `go build ./...`, ./check <ID> against
the copy; the expected result is exit 0 and no VIOLATION line (a VIOLATION is a FALSE ALARM of the machinery to be repaired).
--collect first copies new <ID>-rN.diff files + notes from /tmp/seed/R*/ into /verif/harmless/."""
import os, sys, json, subprocess, shutil, re, glob, time
V = os.path.dirname(os.path.dirname(os.path.abspath(__file__)))
H = os.path.join(V, 'harmless')
ENV = dict(os.environ, GOFLAGS='-mod=mod', GOPROXY='off', GOSUMDB='off', GOTOOLCHAIN='local')
args = sys.argv[1:]
if '--collect' in args:
    args.remove('--collect')
    for d in sorted(glob.glob('/tmp/seed/R*')):
        notes = {}
        try:
            notes = json.load(open(os.path.join(d, 'notes.json')))
        except Exception:
            pass
        for p in sorted(glob.glob(os.path.join(d, 'C??-r?.diff'))):
            n = os.path.basename(p)[:-5]
            o = os.path.join(H, n)
            if os.path.exists(o) or os.path.getsize(p) == 0:
                continue
            os.makedirs(o)
            shutil.copy(p, os.path.join(o, 'patch.diff'))
            json.dump({'property': n[:3], 'what': notes.get(n, '')}, open(os.path.join(o, 'meta.json'), 'w'), indent=1)
            print('collected', n)
names = args or sorted(os.listdir(H))
for n in names:
    d = os.path.join(H, n)
    mp = os.path.join(d, 'meta.json')
    if not os.path.exists(mp):
        continue
    m = json.load(open(mp))
    if not args and 'result' in m and m['result'].get('head') == subprocess.run(['git', '-C', V, 'rev-parse', 'HEAD'], stdout=subprocess.PIPE, text=True).stdout.strip():
        continue
    pid = m['property']
    D = '/var/tmp/bfe-harmless-%s-%d' % (n, os.getpid())
    try:
        subprocess.run(['rsync', '-a', '--exclude', '.git', '/repo/', D + '/'], check=True)
        r = subprocess.run('patch -p1 -s < ' + os.path.join(d, 'patch.diff'), cwd=D, shell=True, stdout=subprocess.PIPE, stderr=subprocess.STDOUT, text=True)
        if r.returncode != 0:
            res = {'error': 'patch does not apply: ' + r.stdout[-200:]}
        else:
            b = subprocess.run(['go', 'vet', '-tags', 'verif', '.'], cwd=D, env=ENV, stdout=subprocess.PIPE, stderr=subprocess.STDOUT, text=True) if os.environ.get('HARMLESS_BUILD') else subprocess.CompletedProcess([], 0)
            t0 = time.time()
            p = subprocess.run(['./check', pid], cwd=V, env=dict(os.environ, VERIF_REPO=D), stdout=subprocess.PIPE, stderr=subprocess.STDOUT, text=True)
            res = {'build_rc': b.returncode, 'check_rc': p.returncode, 'alarm': p.returncode != 0 or 'VIOLATION' in p.stdout,
                   'wall_s': round(time.time() - t0, 1), 'tail': p.stdout[-700:] if (p.returncode != 0 or 'VIOLATION' in p.stdout) else ''}
            mm = re.search(r'replay=(\S+)', p.stdout)
            if mm and os.path.exists(mm.group(1)):
                res['replay'] = open(mm.group(1)).read()[:1500]
                os.unlink(mm.group(1))
        res['head'] = subprocess.run(['git', '-C', V, 'rev-parse', 'HEAD'], stdout=subprocess.PIPE, text=True).stdout.strip()
        m['result'] = res
        json.dump(m, open(mp, 'w'), indent=1)
        print(n, 'ALARM' if res.get('alarm') else res.get('error', 'quiet'), res.get('tail', '')[-300:].replace('\n', ' | '), flush=True)
    finally:
        shutil.rmtree(D, ignore_errors=True)
