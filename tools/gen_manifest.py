#!/usr/bin/env python3
"""Regenerate /verif/MANIFEST.json from checks/Cxx.json (one per claimed property) and checks/not_applicable.json."""
import json, os, re, subprocess
V = os.path.join(os.path.dirname(os.path.abspath(__file__)), '..')
props = [json.loads(l) for l in open(os.path.join(V, 'properties.jsonl'))]
ids = [p['id'] for p in props]
na_path = os.path.join(V, 'checks', 'not_applicable.json')
na_reasons = json.load(open(na_path)) if os.path.exists(na_path) else {}
checks, na = [], []
claimed = set(open(os.path.join(V, 'checks', 'claimed.txt')).read().split())
for pid in ids:
    cp = os.path.join(V, 'checks', pid + '.json')
    ready = os.path.exists(cp) and os.path.exists(os.path.join(V, 'lean', 'BfeVerif', pid, 'Props.lean')) \
        and os.path.exists(os.path.join(V, 'harness', 'cmd', pid.lower(), 'main.go'))
    if not ready or pid not in claimed:
        na.append({'property_id': pid, 'reason': na_reasons.get(pid, 'model, theorems and correspondence harness for this property are not built yet (see DESIGN.md section 1 for the planned model); not claimed until they run green on the unchanged tree')})
        continue
    c = json.load(open(cp))
    checks.append({
        'property_id': pid,
        'quick_cmd': './check %s --tier quick' % pid,
        'thorough_cmd': './check %s --tier thorough' % pid,
        'evidence_file': '/verif/evidence/%s.json' % pid,
        'replay_cmd_template': './check %s --replay {path}' % pid,
        'engine': 'lean4+correspondence',
        'level_claimed': {
            'category': 'proof',
            'text': c.get('level_text', 'Lean 4 theorems about a hand-written model of the anchored code, tied to the current source by a differential correspondence run and an executable spec oracle evaluated on the implementation outputs'),
            'design_ref': c.get('design_ref', 'DESIGN.md section 1, ' + pid),
        },
        'level_note': c.get('level_note', '; '.join(c.get('assumptions', [])) or 'trusted: Lean kernel, the hand model, the Go harness'),
        'technique': c.get('technique', 'Lean 4 proof over executable model + differential correspondence with the Go implementation'),
    })
hooks = subprocess.run(['git', '-C', '/repo', 'log', '--format=%h %s'], stdout=subprocess.PIPE, text=True).stdout.split('\n')
hook_commits = [l.split(' ')[0] for l in hooks if 'verif hook' in l]
m = {
    'version': 1,
    'setup_cmd': 'cd /verif && ./setup.sh',
    'hooks': {
        'guard': 'verif',
        'enable': 'go build -tags verif (the harness module /verif/harness replaces github.com/bfenetworks/bfe by /repo); hook files are new files named zz_verif_*.go with //go:build verif',
        'baseline_off_cmd': 'cd /repo && go test -mod=mod -vet=off -count=1 -timeout 25m ./...',
        'source_commits': hook_commits,
        'add_only': True,
    },
    'engines': [{
        'name': 'lean4+correspondence', 'path': '/verif/check',
        'serves_properties': [c['property_id'] for c in checks],
        'kind_free_text': 'Lean 4.33 theorems (lake project /verif/lean, one directory per property: Model, Proofs, Props, Driver) + Go harness driving the real code in-process (/verif/harness/cmd/<id>) + line-protocol diff against the compiled Lean model and spec oracle',
    }],
    'checks': checks,
    'not_applicable': na,
    'notes': 'fix: commits and known findings are listed in /verif/KNOWN_FINDINGS.txt; see DESIGN.md',
}
json.dump(m, open(os.path.join(V, 'MANIFEST.json'), 'w'), indent=1)
print('claimed', len(checks), 'not_applicable', len(na))
