#!/usr/bin/env python3
"""seed_verify.py <seed-dir> [--keep] [--tier quick|thorough] [--name NAME]

Confirms an independently written breaking change (patch.diff + demo + meta.json in <seed-dir>) against a
scratch copy of /repo's working tree, then runs the property's check against the patched copy:
  1. demo passes on the unpatched copy          2. patch applies, `go build ./...` succeeds
  3. demo FAILS on the patched copy             4. existing tests of every touched package pass (demo removed)
  5. ./check <ID> with VERIF_REPO=<patched copy>  -> caught (VIOLATION) or missed
With --keep (and 1-4 confirmed) the change is stored as /verif/seeded/<NAME>/ (patch.diff, demo, meta.json).
The scratch copy is always removed.  Never touches /repo.
"""
import sys, os, json, subprocess, shutil, re, time

V = os.path.dirname(os.path.dirname(os.path.abspath(__file__)))
ENV = dict(os.environ, GOFLAGS='-mod=mod', GOPROXY='off', GOSUMDB='off', GOTOOLCHAIN='local')


def run(cmd, cwd=None, timeout=1200, env=ENV):
    try:
        p = subprocess.run(cmd, cwd=cwd, env=env, stdout=subprocess.PIPE, stderr=subprocess.STDOUT, text=True,
                           timeout=timeout, shell=isinstance(cmd, str), errors='replace')
        return p.returncode, p.stdout
    except subprocess.TimeoutExpired as e:
        return 124, 'TIMEOUT ' + str(e.stdout or '')[-500:]


def main():
    a = sys.argv[1:]
    sd = os.path.abspath(a[0])
    keep = '--keep' in a
    tier = a[a.index('--tier') + 1] if '--tier' in a else 'quick'
    meta = json.load(open(os.path.join(sd, 'meta.json')))
    pid = meta['property']
    name = a[a.index('--name') + 1] if '--name' in a else pid
    patch = os.path.join(sd, 'patch.diff')
    demo_src = None
    for c in (meta.get('demo_file', ''), 'demo_test.go'):
        for base in (sd, os.path.join(sd, 'wt', meta.get('demo_pkg', ''))):
            if c and os.path.exists(os.path.join(base, c)):
                demo_src = demo_src or os.path.join(base, c)
    D = '/var/tmp/bfe-seed-%s-%d' % (name, os.getpid())
    rep = {'property': pid, 'seed_dir': sd, 'ran': []}
    try:
        run(['rsync', '-a', '--exclude', '.git', '/repo/', D + '/'])
        pkg = meta.get('demo_pkg', '').strip('./')
        demo_prog = os.path.isdir(os.path.join(sd, 'demo'))
        if demo_src:
            dst = os.path.join(D, pkg, meta.get('demo_file') or 'zz_seed_demo_test.go')
            shutil.copy(demo_src, dst)
            demo_cmd = ['go', 'test', '-vet=off', '-count=1', '-run', meta.get('demo_run', '.'), './' + pkg + '/']
        elif demo_prog:
            shutil.copytree(os.path.join(sd, 'demo'), os.path.join(D, 'zz_seed_demo'))
            demo_cmd = ['go', 'run', './zz_seed_demo']
        else:
            print('NO DEMO FOUND'); rep['error'] = 'no demo'; return finish(rep, D, False, sd, name, keep)
        rc0, o0 = run(demo_cmd, cwd=D, timeout=600)
        rep['ran'].append({'cmd': ' '.join(demo_cmd) + '  (unpatched)', 'rc': rc0, 'tail': o0[-400:]})
        base_rc = {}
        for p0 in sorted(set(os.path.dirname(m) for m in re.findall(r'^\+\+\+ b/(\S+\.go)', open(patch).read(), re.M))):
            if not p0.startswith('bfe_tls'):
                # baseline of the package's own tests without the demo file
                tmpd = None
                if demo_src and os.path.dirname(dst) == os.path.join(D, p0):
                    tmpd = dst + '.off'; os.rename(dst, tmpd)
                base_rc[p0] = run(['go', 'test', '-vet=off', '-count=1', './' + p0 + '/'], cwd=D, timeout=900)[0]
                if tmpd:
                    os.rename(tmpd, dst)
        rc, o = run('patch -p1 -s < ' + patch, cwd=D)
        rep['ran'].append({'cmd': 'patch -p1 < patch.diff', 'rc': rc, 'tail': o[-300:]})
        if rc != 0:
            rep['error'] = 'patch does not apply'; return finish(rep, D, False, sd, name, keep)
        rcb, ob = run(['go', 'build', './...'], cwd=D, timeout=900)
        rep['ran'].append({'cmd': 'go build ./...', 'rc': rcb, 'tail': ob[-300:]})
        rc1, o1 = run(demo_cmd, cwd=D, timeout=600)
        rep['ran'].append({'cmd': ' '.join(demo_cmd) + '  (patched)', 'rc': rc1, 'tail': o1[-600:]})
        # existing tests of touched packages, demo removed
        if demo_src:
            os.unlink(dst)
        elif demo_prog:
            shutil.rmtree(os.path.join(D, 'zz_seed_demo'))
        pk = sorted(set(os.path.dirname(m) for m in re.findall(r'^\+\+\+ b/(\S+\.go)', open(patch).read(), re.M)))
        tests_ok = True
        for p in pk:
            if p.startswith('bfe_tls'):
                stable = [l.split('::')[1] for l in json.load(open('/root/.vp/BASELINE.json'))['stable_pass'] if l.startswith('github.com/bfenetworks/bfe/' + p + '::')]
                cmd = ['go', 'test', '-vet=off', '-count=1', '-run', '^(' + '|'.join(stable) + ')$', './' + p + '/']
            else:
                cmd = ['go', 'test', '-vet=off', '-count=1', './' + p + '/']
            rct, ot = run(cmd, cwd=D, timeout=900)
            fails = re.findall(r'^--- FAIL: (\S+)', ot, re.M)
            stable = set(l.split('::')[1] for l in json.load(open('/root/.vp/BASELINE.json'))['stable_pass'] if l.startswith('github.com/bfenetworks/bfe/' + p + '::'))
            bad = [f for f in fails if f in stable]
            if rct != 0 and (bad or not fails) and base_rc.get(p, 0) == 0:
                tests_ok = False
            rep['ran'].append({'cmd': ' '.join(cmd)[:200], 'rc': rct, 'stable_tests_failing': bad, 'unpatched_rc': base_rc.get(p), 'tail': ot[-300:]})
        confirmed = rc0 == 0 and rcb == 0 and rc1 != 0 and tests_ok
        rep['confirmed'] = confirmed
        rep['why_not'] = None if confirmed else 'demo_unpatched_rc=%d build_rc=%d demo_patched_rc=%d tests_ok=%s' % (rc0, rcb, rc1, tests_ok)
        # the check
        t0 = time.time()
        rcc, oc = run(['./check', pid, '--tier', tier], cwd=V, env=dict(os.environ, VERIF_REPO=D), timeout=3600)
        rep['check'] = {'cmd': 'VERIF_REPO=<patched copy> ./check %s --tier %s' % (pid, tier), 'rc': rcc,
                        'out': oc[-1500:], 'wall_s': round(time.time() - t0, 1)}
        rep['caught'] = rcc == 1 and 'VIOLATION property=%s' % pid in oc
        m = re.search(r'replay=(\S+)', oc)
        if m and os.path.exists(m.group(1)):
            rp = json.load(open(m.group(1)))
            rep['replay'] = {k: (str(v)[:300]) for k, v in rp.items() if k in ('kind', 'op', 'impl', 'model', 'verdict', 'count')}
            if rp.get('kind') == 'unproved':
                rep['replay']['broken'] = [b.get('what') for b in rp.get('broken', [])]
            os.unlink(m.group(1))
        return finish(rep, D, confirmed, sd, name, keep, meta, patch, demo_src)
    finally:
        shutil.rmtree(D, ignore_errors=True)


def finish(rep, D, confirmed, sd, name, keep, meta=None, patch=None, demo_src=None):
    print(json.dumps({k: rep.get(k) for k in ('property', 'confirmed', 'why_not', 'caught', 'replay', 'error')}, indent=1))
    if rep.get('check'):
        print(rep['check']['out'][-600:])
    if keep and confirmed:
        out = os.path.join(V, 'seeded', name)
        os.makedirs(out, exist_ok=True)
        shutil.copy(patch, os.path.join(out, 'patch.diff'))
        if demo_src:
            shutil.copy(demo_src, os.path.join(out, os.path.basename(demo_src) if demo_src.endswith('_test.go') else 'demo_test.go'))
        elif os.path.isdir(os.path.join(sd, 'demo')):
            shutil.copytree(os.path.join(sd, 'demo'), os.path.join(out, 'demo'), dirs_exist_ok=True)
        m = dict(meta)
        m['breaks_property'] = rep['property']
        m['confirmed_by_integrator'] = rep['ran']
        m['check_result'] = {'caught': rep.get('caught'), 'replay': rep.get('replay'), 'cmd': rep['check']['cmd'], 'wall_s': rep['check']['wall_s']}
        json.dump(m, open(os.path.join(out, 'meta.json'), 'w'), indent=1)
        print('stored in', out)
    return 0


if __name__ == '__main__':
    main()
