#!/bin/sh
# Re-extract the fact files from /repo (run after /repo's HEAD changed and the checks are green) and store them
# as the committed baseline used when extraction fails on a changed tree.
cd "$(dirname "$0")/.." || exit 1
export GOFLAGS=-mod=mod GOPROXY=off GOSUMDB=off GOTOOLCHAIN=local
(cd extract && go build -o ../build/bin/extract .) || exit 1
for id in $(./build/bin/extract list); do ./build/bin/extract $id /repo > extract/baseline/$id.lean || echo "FAILED $id"; done
ls extract/baseline | wc -l
