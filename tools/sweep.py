#!/usr/bin/env python3
"""sweep.py [--tier quick|thorough] [--seeds 1,2,3] [--par N] [ids...] — run ./check for every claimed property on /repo,
several seeds, N at a time; print one line per run (rc, wall, summary) and a final list of everything that was not green."""
import sys, os, subprocess, time, concurrent.futures as cf
V = os.path.dirname(os.path.dirname(os.path.abspath(__file__)))
a = sys.argv[1:]
def opt(n, d):
    if n in a:
        i = a.index(n); v = a[i + 1]; del a[i:i + 2]; return v
    return d
tier = opt('--tier', 'quick'); seeds = opt('--seeds', '1').split(','); par = int(opt('--par', '4'))
ids = a or open(os.path.join(V, 'checks', 'claimed.txt')).read().split()
def run(job):
    pid, seed = job
    t0 = time.time()
    p = subprocess.run(['./check', pid, '--tier', tier], cwd=V, env=dict(os.environ, VERIF_SEED=seed), stdout=subprocess.PIPE, stderr=subprocess.STDOUT, text=True)
    last = [l for l in p.stdout.splitlines() if l.startswith(pid + ' tier=')]
    viol = [l for l in p.stdout.splitlines() if l.startswith('VIOLATION')]
    return pid, seed, p.returncode, round(time.time() - t0, 1), (last[-1] if last else p.stdout[-300:]), viol
bad = []
with cf.ThreadPoolExecutor(par) as ex:
    for pid, seed, rc, wall, line, viol in ex.map(run, [(p, s) for s in seeds for p in ids]):
        print('%s seed=%s rc=%d wall=%.0fs %s' % (pid, seed, rc, wall, line[:230]), flush=True)
        if rc != 0 or viol:
            bad.append((pid, seed, rc, viol))
print('NOT GREEN:', bad if bad else 'none')
sys.exit(1 if bad else 0)
