#!/bin/sh
# usage: tools/try_patch.sh <patch.diff> <ID> [quick|thorough]
# Applies a patch to a scratch copy of /repo's working tree (outside /repo and /verif), runs the check
# against it with VERIF_REPO, removes the copy.  Exit code = the check's.
[ $# -ge 2 ] || { echo "usage: $0 patch.diff ID [tier]"; exit 2; }
P=$(readlink -f "$1"); ID=$2; TIER=${3:-quick}
D=/var/tmp/bfe-try-$$
trap 'rm -rf "$D"' EXIT
rsync -a --exclude .git /repo/ "$D/" || exit 2
(cd "$D" && patch -p1 -s < "$P") || { echo "patch does not apply"; exit 2; }
cd "$(dirname "$0")/.." && VERIF_REPO="$D" ./check "$ID" --tier "$TIER"
