#!/usr/bin/env python3
"""commit_hunks.py <file-in-/repo> <grep-regex> <commit message>
Stage and commit only those hunks of `git diff <file>` whose text matches the regex (other hunks stay uncommitted)."""
import sys, re, subprocess
f, rx, msg = sys.argv[1], sys.argv[2], sys.argv[3]
d = subprocess.run(['git', '-C', '/repo', 'diff', '-U3', '--', f], stdout=subprocess.PIPE, text=True).stdout
parts = re.split(r'(?m)^(?=@@ )', d)
head, hunks = parts[0], parts[1:]
sel = [h for h in hunks if re.search(rx, h)]
if not sel:
    sys.exit('no hunk matches')
patch = head + ''.join(sel)
p = subprocess.run(['git', '-C', '/repo', 'apply', '--cached', '--recount', '-'], input=patch, text=True)
if p.returncode:
    sys.exit('apply failed')
if msg == '-':
    print('staged'); sys.exit(0)
subprocess.run(['git', '-C', '/repo', 'commit', '-q', '-m', msg], check=True)
print(subprocess.run(['git', '-C', '/repo', 'log', '--oneline', '-1'], stdout=subprocess.PIPE, text=True).stdout)
