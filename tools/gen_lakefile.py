#!/usr/bin/env python3
"""Regenerate /verif/lean/lakefile.toml: one core-only driver exe per property directory that has Main.lean."""
import os, re, sys
root = sys.argv[1] if len(sys.argv) > 1 else os.path.join(os.path.dirname(os.path.abspath(__file__)), '..', 'lean')
out = ['name = "BfeVerif"', 'version = "0.1.0"', 'defaultTargets = ["BfeVerif"]', '',
       '[[lean_lib]]', 'name = "BfeVerif"', 'globs = ["BfeVerif.+"]', '']
for d in sorted(os.listdir(os.path.join(root, 'BfeVerif'))):
    if re.fullmatch(r'C\d\d', d) and os.path.exists(os.path.join(root, 'BfeVerif', d, 'Main.lean')):
        out += ['[[lean_exe]]', f'name = "drv_{d.lower()}"', f'root = "BfeVerif.{d}.Main"', '']
open(os.path.join(root, 'lakefile.toml'), 'w').write('\n'.join(out))
