/-
  Line protocol shared by all per-property drivers (core-only: no Mathlib, so the
  drivers link as `lean_exe`).

  The Go harness prints, per case, one line   `<op>\t<impl result>`.
  The check pipes those lines into the property's driver, which answers one line
      `<model result>\t<verdict>\t<tags>`
  * model result : what the Lean model computes for `<op>` (compared with `<impl result>`)
  * verdict      : the executable *spec oracle* applied to the implementation's result:
                   `ok` | `skip` | `FAIL:<class>`   (class = decidable classifier of the failure)
  * tags         : comma separated branch / kind tags; `nt` marks a non-trivial case
-/
namespace BfeVerif.Proto

def hexDigit (n : Nat) : Char :=
  if n < 10 then Char.ofNat (48 + n) else Char.ofNat (87 + n)

def hexOfByte (b : UInt8) : String :=
  String.singleton (hexDigit (b.toNat / 16)) ++ String.singleton (hexDigit (b.toNat % 16))

def hexOfBytes (bs : List UInt8) : String :=
  bs.foldl (fun acc b => acc ++ hexOfByte b) ""

def hexVal (c : Char) : Option Nat :=
  if '0' ≤ c ∧ c ≤ '9' then some (c.toNat - 48)
  else if 'a' ≤ c ∧ c ≤ 'f' then some (c.toNat - 87)
  else if 'A' ≤ c ∧ c ≤ 'F' then some (c.toNat - 55)
  else none

def bytesOfHexAux : List Char → List UInt8 → Option (List UInt8)
  | [], acc => some acc.reverse
  | [_], _ => none
  | a :: b :: rest, acc =>
    match hexVal a, hexVal b with
    | some x, some y => bytesOfHexAux rest (UInt8.ofNat (x * 16 + y) :: acc)
    | _, _ => none

/-- `"-"` encodes the empty byte string (so that fields are never empty). -/
def bytesOfHex (s : String) : Option (List UInt8) :=
  if s == "-" then some [] else bytesOfHexAux s.toList []

def hexField (bs : List UInt8) : String :=
  if bs.isEmpty then "-" else hexOfBytes bs

def fields (line : String) : List String :=
  (line.splitOn "\t").map fun s => s

def stripNl (s : String) : String :=
  let s := if s.endsWith "\n" then (s.dropEnd 1).toString else s
  if s.endsWith "\r" then (s.dropEnd 1).toString else s

/-- Answer of a driver for one case. -/
structure Ans where
  model : String
  verdict : String := "ok"
  tags : List String := []

def Ans.render (a : Ans) : String :=
  a.model ++ "\t" ++ a.verdict ++ "\t" ++ ",".intercalate a.tags

partial def loop (h : IO.FS.Stream) (out : IO.FS.Stream) (f : String → String → Ans) : IO Unit := do
  let line ← h.getLine
  if line.isEmpty then
    out.flush
    return ()
  let l := stripNl line
  let (op, impl) :=
    match l.splitOn "\t" with
    | [] => ("", "")
    | [a] => (a, "")
    | a :: b :: _ => (a, b)
  out.putStrLn (f op impl).render
  loop h out f

/-- Standard `main` of a driver: `f op implResult`. -/
def driverMain (f : String → String → Ans) : IO Unit := do
  let i ← IO.getStdin
  let o ← IO.getStdout
  loop i o f

def natField (s : String) : Option Nat := s.toNat?

def intField (s : String) : Option Int := s.toInt?

end BfeVerif.Proto
