import BfeVerif.C22.Driver
def main : IO Unit := BfeVerif.Proto.driverMain BfeVerif.C22.run
