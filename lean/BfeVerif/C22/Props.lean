import BfeVerif.C22.Proofs
/-!
  C22 — buffered I/O preserves the byte stream and counts it exactly.  Property theorems only.

  Reader: `ops.foldl Reader.apply (Reader.new cap src)` is the state after an arbitrary sequence of
  Read / ReadByte / UnreadByte / ReadRune / UnreadRune / Peek / ReadSlice / ReadBytes / ReadLine / WriteTo calls over an arbitrary
  scripted underlying reader `src` (any chunking, errors anywhere, (0,nil) reads).  The ghost field
  `consumed` is the list of bytes handed out and not un-read.
  Writer: likewise for Write / WriteString / WriteByte / WriteRune / Flush / ReadFrom over an arbitrary scripted
  underlying writer (short writes, errors); ghost `accepted` = bytes the Writer reported as taken,
  `out` = bytes the underlying writer received.

  These are theorems about the model of the REPAIRED code (fixes/C22-bufio-counters.md); the inputs
  on which the unrepaired code broke them are the last `example`s and corpus/C22/witness.ops.
-/
namespace BfeVerif.C22

/-- every reachable Reader state satisfies the invariant -/
theorem C22_reader_inv (cap : Nat) (src : Script) (ops : List ROp) :
    RInv (srcBytes src) (ops.foldl Reader.apply (Reader.new cap src)) :=
  inv_ops _ ops (inv_new cap src)

/-- **stream preservation**: after any operation sequence, what was handed out, followed by what is
    buffered, followed by what the underlying reader still holds, is the underlying stream —
    nothing lost, duplicated or reordered, whatever the chunking. -/
theorem C22_stream (cap : Nat) (src : Script) (ops : List ROp) :
    let b := ops.foldl Reader.apply (Reader.new cap src)
    b.consumed ++ b.cur ++ srcBytes b.src = srcBytes src :=
  (C22_reader_inv cap src ops).stream

/-- **counter exactness (read side)**: `TotalRead` equals the number of bytes consumed so far,
    after any operation sequence. -/
theorem C22_count_read (cap : Nat) (src : Script) (ops : List ROp) :
    let b := ops.foldl Reader.apply (Reader.new cap src)
    b.total = b.consumed.length :=
  (C22_reader_inv cap src ops).cnt

/-- the buffer indices stay inside the buffer (`r ≤ w ≤ len(buf)`) -/
theorem C22_indices_in_range (cap : Nat) (src : Script) (ops : List ROp) :
    let b := ops.foldl Reader.apply (Reader.new cap src)
    b.pre.length + b.cur.length ≤ b.cap :=
  (C22_reader_inv cap src ops).capOk

/-! Each method hands out exactly the bytes by which `consumed` grows, i.e. (with `C22_stream`) the
    next bytes of the underlying stream.  `h : RInv S b` holds for every reachable `b`. -/

theorem C22_read_out {S : Bytes} (b : Reader) (n : Nat) (h : RInv S b) :
    (b.read n).1.consumed = b.consumed ++ (b.read n).2.1 := (inv_read b n h).2

theorem C22_readByte_out {S : Bytes} (b : Reader) (h : RInv S b) :
    b.readByte.1.consumed = b.consumed ++ b.readByte.2.1.toList := (inv_readByteLoop _ _ (inv_noRune h)).2

theorem C22_readSlice_out {S : Bytes} (b : Reader) (d : UInt8) (h : RInv S b) :
    (b.readSlice d).1.consumed = b.consumed ++ (b.readSlice d).2.1 := (inv_readSlice b d h).2.1

theorem C22_readBytes_out {S : Bytes} (b : Reader) (d : UInt8) (h : RInv S b) :
    (b.readBytes d).1.consumed = b.consumed ++ (b.readBytes d).2.1 := (inv_readBytes b d h).2

/-- ReadRune consumes exactly `size` further bytes of the stream (1 ≤ size ≤ 4 for a non-empty result) -/
theorem C22_readRune_out {S : Bytes} (b : Reader) (h : RInv S b) :
    b.readRune.1.consumed.length = b.consumed.length + b.readRune.2.2.1 ∧
      b.consumed <+: b.readRune.1.consumed := (inv_readRune b h).2

/-- UnreadRune either fails with ErrInvalidUnreadRune and changes nothing, or moves exactly the
    `lastRuneSize` last consumed bytes back and takes exactly that many off TotalRead -/
theorem C22_unreadRune_out {S : Bytes} (b : Reader) (h : RInv S b) :
    (b.unreadRune.2 ≠ 0 → b.unreadRune.1 = b ∧ b.unreadRune.2 = 8) ∧
    (b.unreadRune.2 = 0 → ∃ k, b.lastRune = some k ∧ 1 ≤ k ∧ k ≤ b.consumed.length ∧
        b.unreadRune.1.consumed = b.consumed.take (b.consumed.length - k) ∧
        b.unreadRune.1.total + k = b.total ∧ b.unreadRune.1.cur.length = b.cur.length + k) := by
  unfold Reader.unreadRune
  cases hlr : b.lastRune with
  | none => exact ⟨fun _ => ⟨rfl, rfl⟩, fun h0 => by simp at h0⟩
  | some k =>
    simp only
    by_cases hpe : b.pre.isEmpty = true
    · rw [if_pos hpe]; exact ⟨fun _ => ⟨rfl, rfl⟩, fun h0 => by simp at h0⟩
    · rw [if_neg hpe]
      refine ⟨fun h0 => absurd rfl h0, fun _ => ?_⟩
      have hpne : b.pre ≠ [] := by simpa using hpe
      rcases h.rune k hlr with h0 | ⟨hk1, hk2, t, ht⟩
      · exact absurd h0 hpne
      · have hclen : b.consumed.length = t.length + b.pre.length := by rw [← ht]; simp
        have hcnt := h.cnt
        refine ⟨k, rfl, hk1, by omega, rfl, ?_, ?_⟩
        · simp only
          have : b.total ≥ k := by omega
          simp only [this, if_true]; omega
        · simp only [List.length_append, List.length_drop]; omega

/-- Peek consumes nothing and shows a prefix of what will be read next -/
theorem C22_peek_out {S : Bytes} (b : Reader) (n : Nat) (h : RInv S b) :
    (b.peek n).1.consumed = b.consumed ∧ (b.peek n).2.1 <+: (b.peek n).1.cur :=
  (inv_peek b n h).2

/-- WriteTo hands exactly the bytes the sink took, in order -/
theorem C22_writeTo_out {S : Bytes} (b : Reader) (ws : WScript) (h : RInv S b) :
    (b.writeTo ws).1.consumed = b.consumed ++ (b.writeTo ws).2.2.2 := (inv_writeTo b ws h).2

/-- a successful UnreadByte moves exactly the last consumed byte back; a failing one changes nothing -/
theorem C22_unreadByte_out (b : Reader) :
    (b.unreadByte.2 = 0 → b.unreadByte.1.consumed = b.consumed.dropLast ∧
        b.unreadByte.1.cur.length = b.cur.length + 1) ∧
    (b.unreadByte.2 ≠ 0 → b.unreadByte.1 = { b with lastRune := none }) := by
  unfold Reader.unreadByte
  split
  · rename_i hc _; simp [hc]
  · cases hy : b.pre.getLast? <;> simp

/-- ReadLine consumes the returned line plus the end-of-line bytes it dropped (nothing, "\n" or "\r\n");
    with `isPrefix` nothing is dropped (a trailing '\r' is put back, and un-counted) -/
theorem C22_readLine_out {S : Bytes} (b : Reader) (h : RInv S b) (hnp : b.readLine.2.2.2 ≠ 98) :
    ∃ eol, (eol = [] ∨ eol = [10] ∨ eol = [13, 10]) ∧ (b.readLine.2.2.1 = true → eol = []) ∧
      b.readLine.1.consumed = b.consumed ++ b.readLine.2.1 ++ eol := by
  have hp := inv_readSlice b 10 h
  unfold Reader.readLine at hnp ⊢
  generalize b.readSlice 10 = r at hp hnp
  obtain ⟨b1, line, e⟩ := r
  obtain ⟨h1, h2, h3⟩ := hp
  simp only at h1 h2 h3 hnp ⊢
  split
  · rename_i he3
    split
    · rename_i hcr
      have hne : line ≠ [] := by intro h0; simp [h0] at hcr
      cases hy : b1.pre.getLast? with
      | none => simp [he3, hcr, hy] at hnp
      | some y =>
        refine ⟨[], Or.inl rfl, fun _ => rfl, ?_⟩
        simp only [List.append_nil]
        rw [h2, List.dropLast_append_of_ne_nil hne]
    · exact ⟨[], Or.inl rfl, fun _ => rfl, by simpa using h2⟩
  · split
    · rename_i hl
      have : line = [] := by simpa using hl
      exact ⟨[], Or.inl rfl, fun _ => rfl, by simp [h2, this]⟩
    · unfold stripEol
      split
      · rename_i hnl
        simp only
        split
        · rename_i hcr
          refine ⟨[13, 10], Or.inr (Or.inr rfl), by simp, ?_⟩
          rw [h2, List.append_assoc]
          congr 1
          have a1 := dropLast_append_last hnl
          have a2 := dropLast_append_last hcr
          rw [← a1]
          conv => lhs; rw [← a2]
          simp
        · refine ⟨[10], Or.inr (Or.inl rfl), by simp, ?_⟩
          rw [h2, List.append_assoc, dropLast_append_last hnl]
      · exact ⟨[], Or.inl rfl, fun _ => rfl, by simpa using h2⟩

/-! ### the delegation branch of WriteTo (underlying reader is an io.WriterTo)

  Full statement (what C22 demands): the Reader invariant `RInv` is preserved, as for every other method.
  The code as it is does NOT satisfy it: it adds the delegated byte count to TotalRead but leaves
  `lastByte`, `lastRuneSize`, `r`, `w` untouched, so a following UnreadByte / UnreadRune gives back bytes that
  are not the last ones consumed (finding `deleg-stale-unread`, witness below).  What does hold: -/

/-- stream preservation and counter exactness survive the delegated WriteTo (for sinks that honour the
    io.Writer contract "short write ⇒ error", on which this branch relies in the standard library too) -/
theorem C22_writeTo_delegated_partial {S : Bytes} (b : Reader) (ws : WScript) (h : RInv S b)
    (hc : (wsWrite ws b.cur).2.1 = 0 → b.cur.length ≤ (wsWrite ws b.cur).1) :
    (b.writeToWT ws).1.consumed ++ (b.writeToWT ws).1.cur ++ srcBytes (b.writeToWT ws).1.src = S ∧
      (b.writeToWT ws).1.total = (b.writeToWT ws).1.consumed.length ∧
      (b.writeToWT ws).1.consumed = b.consumed ++ (b.writeToWT ws).2.2.2 :=
  writeToWT_partial b ws h hc

/-- witness: "ab" then "c"; ReadByte a, delegated WriteTo hands b and c to the sink, UnreadByte succeeds
    and the next ReadByte returns 'b' although the last byte consumed was 'c': the invariant clause that
    ties `lastByte` to the consumed stream is broken by the delegation branch -/
theorem C22_witness_delegated_unread :
    let b0 := Reader.new 16 [([0x61, 0x62], 0), ([0x63], 0)]
    let b1 := (b0.readByte.1.writeToWT []).1
    b1.consumed = [0x61, 0x62, 0x63] ∧ b1.unreadByte.2 = 0 ∧ b1.unreadByte.1.readByte.2.1 = some 0x62 ∧
      ¬ RInv [0x61, 0x62, 0x63] b1 := by
  refine ⟨by decide, by decide, by decide, ?_⟩
  intro h
  have := h.last (by decide) 0x62 (by decide)
  revert this; decide

/-- **Reset**: after `Reset(r)` the Reader satisfies the invariant for the new source with an empty history
    and `TotalRead = 0`, so every theorem above applies afresh to the new stream -/
theorem C22_reader_reset {S : Bytes} (b : Reader) (src : Script) (h : RInv S b) :
    RInv (srcBytes src) (b.reset src) ∧ (b.reset src).total = 0 ∧ (b.reset src).consumed = [] := by
  refine ⟨⟨by simp [Reader.reset], rfl, ?_, h.capPos, by simp [Reader.reset], by simp [Reader.reset],
    by simp [Reader.reset]⟩, rfl, rfl⟩
  simp [Reader.reset]

/-! ### loop fuel: the bounded loops of the model never run out of fuel

  For every fuel at least as large as the one the model supplies the loop result is the same, and the
  Peek loop ends in a state satisfying its own exit condition; so the `99`/truncation branch of the
  fuel-indexed definitions is never what a method returns. -/

theorem C22_fuel_peek (b : Reader) (n : Nat) (hn : n ≤ b.cap) :
    (∀ f, b.fuel ≤ f → Reader.peekLoop f b n = Reader.peekLoop b.fuel b n) ∧
    ¬ ((Reader.peekLoop b.fuel b n).cur.length < n ∧ (Reader.peekLoop b.fuel b n).err = 0) := by
  have hm := mu_le_fuel b
  refine ⟨stable_of_step (fun f => Reader.peekLoop f b n) b.fuel ?_, peekLoop_exit _ b n hn (by omega)⟩
  intro f hf; exact peekLoop_stable f b n hn (by omega)

theorem C22_fuel_readByte (b : Reader) (hcap : 0 < b.cap) :
    ∀ f, b.fuel ≤ f → Reader.readByteLoop f { b with lastRune := none } = b.readByte := by
  have hm := mu_le_fuel { b with lastRune := none }
  have hfu : Reader.fuel { b with lastRune := none } = b.fuel := rfl
  refine stable_of_step (fun f => Reader.readByteLoop f { b with lastRune := none }) b.fuel ?_
  intro f hf; exact readByteLoop_stable f _ hcap (by omega)

theorem C22_fuel_readSlice (b : Reader) (d : UInt8) :
    ∀ f, b.fuel ≤ f → Reader.readSliceLoop f b d = Reader.readSliceLoop b.fuel b d := by
  have hm := mu_le_fuel b
  refine stable_of_step (fun f => Reader.readSliceLoop f b d) b.fuel ?_
  intro f hf; exact readSliceLoop_stable f b d (by omega)

/-! ### Writer -/

theorem C22_writer_inv (cap : Nat) (ws : WScript) (ops : List WOp) :
    WInv (ops.foldl Writer.apply (Writer.new cap ws)) :=
  winv_ops _ ops (winv_new cap ws)

/-- **stream preservation (write side)**: what the underlying writer received followed by what is
    still buffered is exactly the sequence of bytes the Writer reported as taken — through short
    writes, errors and partial flushes. -/
theorem C22_writer_stream (cap : Nat) (ws : WScript) (ops : List WOp) :
    let b := ops.foldl Writer.apply (Writer.new cap ws)
    b.out ++ b.buf = b.accepted :=
  (C22_writer_inv cap ws ops).stream

/-- **counter exactness (write side)**: `TotalWrite` equals the number of bytes taken so far. -/
theorem C22_count_write (cap : Nat) (ws : WScript) (ops : List WOp) :
    let b := ops.foldl Writer.apply (Writer.new cap ws)
    b.total = b.accepted.length :=
  (C22_writer_inv cap ws ops).cnt

/-- **Reset** (write side): unflushed data is dropped by design; history and counter restart at zero -/
theorem C22_writer_reset (b : Writer) (ws : WScript) :
    WInv (b.reset ws) ∧ (b.reset ws).total = 0 ∧ (b.reset ws).buf = [] := ⟨⟨rfl, rfl⟩, rfl, rfl⟩

/-- WriteRune keeps both Writer invariants (it is WriteByte, or an append of the UTF-8 encoding after an
    optional flush, or WriteString of the encoding for a tiny buffer) -/
theorem C22_writeRune_inv (b : Writer) (r : Nat) (h : WInv b) : WInv (b.writeRune r).1 :=
  winv_writeRune b r h

/-- the delegation branch of `Writer.ReadFrom` (underlying writer is an io.ReaderFrom, nothing buffered)
    keeps both Writer invariants -/
theorem C22_readFrom_delegated (b : Writer) (src : Script) (h : WInv b) : WInv (b.readFromRF src).1 :=
  winv_readFromRF b src h

/-- `Write`/`WriteString` returning `n` took exactly the first `n` bytes offered -/
theorem C22_write_takes_prefix (direct : Bool) (b : Writer) (p : Bytes) (h : WInv b) :
    (Writer.write direct b p).1.accepted = b.accepted ++ p.take (Writer.write direct b p).2.1 :=
  (winv_write direct b p h).2

/-- after a Flush that reports no error nothing is left in the buffer: the sink has everything -/
theorem C22_flush_complete (b : Writer) (h : WInv b) (hok : b.flush.2 = 0) :
    b.flush.1.out = b.flush.1.accepted := by
  have hs := (winv_flush b h).1.stream
  have hb : b.flush.1.buf = [] := by
    by_cases he : b.err ≠ 0
    · unfold Writer.flush at hok; rw [if_pos he] at hok; exact absurd hok he
    · by_cases hbe : b.buf.isEmpty = true
      · unfold Writer.flush; rw [if_neg he, if_pos hbe]; simpa using hbe
      · unfold Writer.flush at hok ⊢
        rw [if_neg he, if_neg hbe] at hok ⊢
        simp only at hok ⊢
        generalize (if (wsWrite b.ws b.buf).1 < b.buf.length ∧ (wsWrite b.ws b.buf).2.1 = 0 then 6
          else (wsWrite b.ws b.buf).2.1) = e' at hok ⊢
        by_cases h3 : e' ≠ 0
        · rw [if_pos h3] at hok; exact absurd hok h3
        · rw [if_neg h3]
  rw [hb, List.append_nil] at hs; exact hs

/-! ### non-vacuity, and the inputs on which the unrepaired code failed -/

/-- an 11-byte line delivered byte by byte: TotalRead is 11 (the unrepaired ReadSlice left it at 1) -/
example :
    ((Reader.new 16 [([104], 0), ([101], 0), ([108], 0), ([108], 0), ([111], 0), ([32], 0), ([119], 0),
        ([111], 0), ([114], 0), ([108], 0), ([10], 0)]).readSlice 10).1.total = 11 := by decide

/-- "\r\n" straddling a full 16-byte buffer: 15 bytes consumed, TotalRead 15 (was 16), '\r' buffered -/
example :
    let r := (Reader.new 16 [([97, 97, 97, 97, 97, 97, 97, 97, 97, 97, 97, 97, 97, 97, 97, 13, 10, 98], 1)]).readLine
    r.1.total = 15 ∧ r.2.2.1 = true ∧ r.1.cur = [13] ∧ r.2.1.length = 15 := by decide

/-- UnreadByte after ReadSlice gives back the '\n' (the unrepaired code resurrected the 'a') -/
example :
    ([ROp.rb, .rs 10, .ub].foldl Reader.apply (Reader.new 16 [([97, 98, 10], 0)])).cur = [10] := by decide

/-- Writer.ReadFrom that stops on a flush error still counts the 2 bytes it took (was 0) -/
example : ((Writer.new 2 [(1, 7)]).readFrom [([1, 2], 0), ([3], 0)]).1.total = 2 := by decide

/-- a mixed sequence reaching refill, direct read, unread and peek -/
example :
    let b := [ROp.rb, .pk 16, .rd 20, .ub, .rl, .rd 16].foldl Reader.apply
      (Reader.new 16 [([1, 2, 3], 0), ([4, 5, 6, 7, 8, 9, 10, 11, 12, 13, 14, 15, 16, 17, 18, 19, 20], 0), ([21], 1)])
    b.total = b.consumed.length ∧ b.consumed ≠ [] := by decide

/-- "é" (c3 a9) split over two underlying reads: ReadRune gives U+00E9 size 2, TotalRead 2; UnreadRune takes
    both bytes back (TotalRead 0); a second UnreadRune is refused -/
example :
    let b0 := Reader.new 16 [([0xc3], 0), ([0xa9, 0x41], 0)]
    let r1 := b0.readRune
    let r2 := r1.1.unreadRune
    (r1.2.1, r1.2.2.1, r1.1.total) = (0xE9, 2, 2) ∧ (r2.2, r2.1.total, r2.1.cur) = (0, 0, [0xc3, 0xa9, 0x41]) ∧
      r2.1.unreadRune.2 = 8 := by decide

/-- an invalid lead byte is consumed alone as U+FFFD; UnreadRune after a ReadByte is refused -/
example :
    let b0 := Reader.new 16 [([0xff, 0x41], 1)]
    (b0.readRune.2.1, b0.readRune.2.2.1) = (0xFFFD, 1) ∧ b0.readRune.1.readByte.1.unreadRune.2 = 8 := by decide

end BfeVerif.C22
