import BfeVerif.Common.Proto
import BfeVerif.C22.Model
/-!
  C22 driver.

  Reader case:  `R;cap=<n>;src=<hex>.<e>/<hex>.<e>/…|none;ops=<op>,<op>,…`
     ops: rd:<n> Read(len n) | rb ReadByte | ub UnreadByte | pk:<n> Peek | rs:<hexbyte> ReadSlice | rl ReadLine | rB:<hexbyte> ReadBytes
          | wt:<k>.<e>/…|none  WriteTo(scripted sink)
     per-op result: `<res>|t<TotalRead>|p<pos>|r<r>w<w>` joined by `,` where
          pos = (bytes the scripted source has handed out) - Buffered()      (independent of the counter)
          res: rd/rb/pk/rs `<hex>.<e>` ; ub `<e>` ; rl `<hex>.<isPrefix>.<e>` ; wt `<n>.<e>.<hex the sink got>`
  Writer case:  `W;cap=<n>;ws=<k>.<e>/…|none;ops=<op>,…`
     ops: w:<hex> Write | s:<hex> WriteString | wb:<hexbyte> WriteByte | fl Flush | rf:<src script> ReadFrom
     per-op result: `<res>|t<TotalWrite>|b<Buffered>|o<bytes the sink got so far>` ; then `;out=<hex>`
          res: w/s/rf `<n>.<e>` ; wb/fl `<e>`
-/
namespace BfeVerif.C22
open BfeVerif.Proto

def parseScript (s : String) : Option Script :=
  if s == "none" then some [] else
  (s.splitOn "/").mapM fun it =>
    match it.splitOn "." with
    | [hx, e] => do
      let d ← bytesOfHex hx
      let en ← e.toNat?
      pure (d, en)
    | _ => none

def parseWScript (s : String) : Option WScript :=
  if s == "none" then some [] else
  (s.splitOn "/").mapM fun it =>
    match it.splitOn "." with
    | [k, e] => do
      let kn ← k.toNat?
      let en ← e.toNat?
      pure (kn, en)
    | _ => none

def parseROp (s : String) : Option ROp :=
  match s.splitOn ":" with
  | ["rd", n] => n.toNat?.map ROp.rd
  | ["rb"] => some .rb
  | ["ub"] => some .ub
  | ["pk", n] => n.toNat?.map ROp.pk
  | ["rs", hx] => match bytesOfHex hx with
    | some [d] => some (.rs d)
    | _ => none
  | ["rl"] => some .rl
  | ["rB", hx] => match bytesOfHex hx with
    | some [d] => some (.rbs d)
    | _ => none
  | ["wt", ws] => (parseWScript ws).map ROp.wt
  | ["rr"] => some .rr
  | ["ur"] => some .ur
  | ["rS", hx] => match bytesOfHex hx with     -- ReadString = ReadBytes + string conversion
    | some [d] => some (.rbs d)
    | _ => none
  | _ => none

def parseWOp (s : String) : Option WOp :=
  match s.splitOn ":" with
  | ["w", hx] => (bytesOfHex hx).map WOp.w
  | ["s", hx] => (bytesOfHex hx).map WOp.s
  | ["wb", hx] => match bytesOfHex hx with
    | some [c] => some (.wb c)
    | _ => none
  | ["fl"] => some .fl
  | ["rf", sc] => (parseScript sc).map WOp.rf
  | ["wr", r] => r.toNat?.map WOp.wr
  | _ => none

def kv (key s : String) : Option String :=
  match s.splitOn "=" with
  | [k, v] => if k == key then some v else none
  | _ => none

/-! ### model side -/

def rstate (total0 : Nat) (b : Reader) : String :=
  let given := total0 - (srcBytes b.src).length
  "|t" ++ toString b.total ++ "|p" ++ toString (given - b.cur.length) ++
  "|r" ++ toString b.pre.length ++ "w" ++ toString (b.pre.length + b.cur.length)

def runROp (b : Reader) : ROp → Reader × String
  | .rd n => let (b', d, e) := b.read n; (b', hexField d ++ "." ++ toString e)
  | .rb =>
    let (b', c, e) := b.readByte
    (b', (match c with | some x => hexField [x] | none => "-") ++ "." ++ toString e)
  | .ub => let (b', e) := b.unreadByte; (b', toString e)
  | .pk n => let (b', d, e) := b.peek n; (b', hexField d ++ "." ++ toString e)
  | .rs dl => let (b', d, e) := b.readSlice dl; (b', hexField d ++ "." ++ toString e)
  | .rl =>
    let (b', d, pf, e) := b.readLine
    (b', hexField d ++ "." ++ (if pf then "1" else "0") ++ "." ++ toString e)
  | .wt ws =>
    let (b', n, e, o) := b.writeTo ws
    (b', toString n ++ "." ++ toString e ++ "." ++ hexField o)
  | .rbs dl => let (b', d, e) := b.readBytes dl; (b', hexField d ++ "." ++ toString e)
  | .rr => let (b', r, sz, e) := b.readRune; (b', toString r ++ "." ++ toString sz ++ "." ++ toString e)
  | .ur => let (b', e) := b.unreadRune; (b', toString e)

/-- driver-level op: a model op, or `rst:<script>` = `Reset(newSource)` -/
inductive DROp | op (o : ROp) | rst (src : Script) | nr (size : Nat) | pkn

def parseDROp (s : String) : Option DROp :=
  match s.splitOn ":" with
  | ["rst", sc] => (parseScript sc).map DROp.rst
  | ["nr", n] => n.toNat?.map DROp.nr          -- NewReaderSize(b, n): same Reader or a new one?
  | ["pkn"] => some .pkn                        -- Peek(-1)
  | _ => (parseROp s).map DROp.op

/-- `deleg` = the scripted source is an io.WriterTo, so `wt` takes the delegation branch -/
def runROps (deleg : Bool) (total0 : Nat) : Reader → List DROp → List String → List String
  | _, [], acc => acc.reverse
  | b, .op op :: ops, acc =>
    let (b', s) :=
      match deleg, op with
      | true, .wt ws =>
        let (b', n, e, o) := b.writeToWT ws
        (b', toString n ++ "." ++ toString e ++ "." ++ hexField o)
      | _, _ => runROp b op
    runROps deleg total0 b' ops ((s ++ rstate total0 b') :: acc)
  | b, .rst src :: ops, acc =>
    let b' := b.reset src
    let t0 := (srcBytes src).length
    runROps deleg t0 b' ops (("rst" ++ rstate t0 b') :: acc)
  | b, .nr size :: ops, acc =>
    runROps deleg total0 b ops (((if b.newReaderSizeSame size then "same" else "new") ++ rstate total0 b) :: acc)
  | b, .pkn :: ops, acc => runROps deleg total0 b ops (("-.5" ++ rstate total0 b) :: acc)

def wstate (b : Writer) : String :=
  "|t" ++ toString b.total ++ "|b" ++ toString b.buf.length ++ "|o" ++ toString b.out.length ++
  "|a" ++ toString b.available

def runWOp (b : Writer) : WOp → Writer × String
  | .w p => let (b', n, e) := Writer.write true b p; (b', toString n ++ "." ++ toString e)
  | .s p => let (b', n, e) := Writer.write false b p; (b', toString n ++ "." ++ toString e)
  | .wb c => let (b', e) := b.writeByte c; (b', toString e)
  | .fl => let (b', e) := b.flush; (b', toString e)
  | .rf src => let (b', n, e) := b.readFrom src; (b', toString n ++ "." ++ toString e)
  | .wr r => let (b', n, e) := b.writeRune r; (b', toString n ++ "." ++ toString e)

inductive DWOp | op (o : WOp) | rst (ws : WScript) | nw (size : Nat)

def parseDWOp (s : String) : Option DWOp :=
  match s.splitOn ":" with
  | ["rst", sc] => (parseWScript sc).map DWOp.rst
  | ["nw", n] => n.toNat?.map DWOp.nw
  | _ => (parseWOp s).map DWOp.op

/-- `deleg` = the scripted sink is an io.ReaderFrom -/
def runWOps (deleg : Bool) : Writer → List DWOp → List String → Writer × List String
  | b, [], acc => (b, acc.reverse)
  | b, .op op :: ops, acc =>
    let (b', s) :=
      match deleg, op with
      | true, .rf src => let (b', n, e) := b.readFromRF src; (b', toString n ++ "." ++ toString e)
      | _, _ => runWOp b op
    runWOps deleg b' ops ((s ++ wstate b') :: acc)
  | b, .rst ws :: ops, acc =>
    let b' := b.reset ws
    runWOps deleg b' ops (("rst" ++ wstate b') :: acc)
  | b, .nw size :: ops, acc =>
    runWOps deleg b ops (((if b.newWriterSizeSame size then "same" else "new") ++ wstate b) :: acc)

/-! ### spec oracles on the implementation's result string -/

def natAfter (pfx : String) (s : String) : Option Nat :=
  if s.startsWith pfx then (s.drop pfx.length).toString.toNat? else none

/-- split `<res>|t..|p..|…` -/
def splitRes (s : String) : String × List String :=
  match s.splitOn "|" with
  | r :: rest => (r, rest)
  | [] => ("", [])

def slice (l : Bytes) (a b : Nat) : Bytes := (l.drop a).take (b - a)

def ropName : ROp → String
  | .rd _ => "rd" | .rb => "rb" | .ub => "ub" | .pk _ => "pk" | .rs _ => "rs" | .rl => "rl" | .wt _ => "wt" | .rbs _ => "rB" | .rr => "rr" | .ur => "ur"

def checkROp (S : Bytes) (p0 : Nat) (op : ROp) (res : String) : Option String × Nat :=
  let (r, st) := splitRes res
  match st with
  | [ts, ps, _] =>
    match natAfter "t" ts, natAfter "p" ps with
    | some t, some p1 =>
      let f := r.splitOn "."
      let dataOk : Bool :=
        match op, f with
        | .rd _, [hx, _] => (bytesOfHex hx == some (slice S p0 p1)) && decide (p0 ≤ p1)
        | .rb, [hx, _] => (bytesOfHex hx == some (slice S p0 p1)) && decide (p0 ≤ p1)
        | .rs _, [hx, _] => (bytesOfHex hx == some (slice S p0 p1)) && decide (p0 ≤ p1)
        | .rbs _, [hx, _] => (bytesOfHex hx == some (slice S p0 p1)) && decide (p0 ≤ p1)
        | .pk _, [hx, _] =>
          match bytesOfHex hx with
          | some d => decide (p1 = p0) && (d == slice S p0 (p0 + d.length))
          | none => false
        | .ub, [e] => if e == "0" then decide (p1 + 1 = p0) else decide (p1 = p0)
        | .rl, [hx, pf, _] =>
          match bytesOfHex hx with
          | some d =>
            let got := slice S p0 p1
            decide (p0 ≤ p1) &&
            (got == d || (pf == "0" && (got == d ++ [10] || got == d ++ [13, 10])))
          | none => false
        | .wt _, [_, _, hx] => (bytesOfHex hx == some (slice S p0 p1)) && decide (p0 ≤ p1)
        | .rr, [rs, szs, e] =>
          match rs.toNat?, szs.toNat? with
          | some r, some sz =>
            if e == "0" then
              decide (p1 = p0 + sz) && decide (1 ≤ sz) &&
                (encodeRune r == slice S p0 p1 || (r == 0xFFFD && sz == 1))
            else decide (p1 = p0) && sz == 0
          | _, _ => false
        | .ur, [e] => if e == "0" then decide (p1 < p0) && decide (p0 ≤ p1 + 4) else decide (p1 = p0) && e == "8"
        | _, _ => false
      if !dataOk then (some ("stream-" ++ ropName op), p1)
      else if t ≠ p1 then (some ("count-" ++ ropName op), p1)
      else (none, p1)
    | _, _ => (some "bad-token", p0)
  | _ => (some "bad-token", p0)

def oracleR : Bytes → Nat → List DROp → List String → Option String
  | _, _, [], [] => none
  | S, p0, .op op :: ops, r :: rs =>
    match checkROp S p0 op r with
    | (some c, _) => some c
    | (none, p1) => oracleR S p1 ops rs
  | _, _, .rst src :: ops, r :: rs =>
    -- after Reset: nothing consumed, counter 0, new stream
    if r.startsWith "rst|t0|p0|" then oracleR (srcBytes src) 0 ops rs else some "count-rst"
  | S, p0, .nr size :: ops, r :: rs =>
    -- documented: "If the argument io.Reader is already a Reader with large enough size, it returns the
    -- underlying Reader"; nothing is consumed.  (buffer size = r/w upper bound is not visible here, so the
    -- same/new answer itself is judged by the correspondence; the oracle checks position and counter)
    let want := "|t" ++ toString p0 ++ "|p" ++ toString p0 ++ "|"
    if ((r.splitOn want).length > 1) && (r.startsWith "same" || r.startsWith "new") && size ≥ 0
    then oracleR S p0 ops rs else some "newreader-moved"
  | S, p0, .pkn :: ops, r :: rs =>
    let want := "-.5|t" ++ toString p0 ++ "|p" ++ toString p0 ++ "|"
    if r.startsWith want then oracleR S p0 ops rs else some "peek-negative"
  | _, _, _, _ => some "token-count"

def wopName : WOp → String
  | .w _ => "w" | .s _ => "s" | .wb _ => "wb" | .fl => "fl" | .rf _ => "rf" | .wr _ => "wr"

def checkWOp (A : Bytes) (op : WOp) (res : String) : Option String × Bytes :=
  let (r, st) := splitRes res
  match st with
  | [ts, bs, os, _] =>
    match natAfter "t" ts, natAfter "b" bs, natAfter "o" os with
    | some t, some bf, some o =>
      let f := r.splitOn "."
      let A' : Option Bytes :=
        match op, f with
        | .w p, [n, _] => n.toNat?.bind fun k => if k ≤ p.length then some (A ++ p.take k) else none
        | .s p, [n, _] => n.toNat?.bind fun k => if k ≤ p.length then some (A ++ p.take k) else none
        | .wb c, [e] => some (if e == "0" then A ++ [c] else A)
        | .fl, [_] => some A
        | .wr r, [n, _] => n.toNat?.bind fun k =>
            if k ≤ (encodeRune r).length then some (A ++ (encodeRune r).take k) else none
        | .rf src, [n, _] => n.toNat?.bind fun k =>
            if k ≤ (srcBytes src).length then some (A ++ (srcBytes src).take k) else none
        | _, _ => none
      match A' with
      | none => (some ("stream-" ++ wopName op), A)
      | some A' =>
        if o + bf ≠ A'.length then (some ("stream-" ++ wopName op), A')
        else if (match op, f with | .fl, [e] => e == "0" && bf ≠ 0 | _, _ => false) then (some "flush-left", A')
        else if t ≠ A'.length then (some ("count-" ++ wopName op), A')
        else (none, A')
    | _, _, _ => (some "bad-token", A)
  | _ => (some "bad-token", A)

def oracleW : Bytes → List DWOp → List String → Option String × Bytes
  | A, [], [] => (none, A)
  | A, .op op :: ops, r :: rs =>
    match checkWOp A op r with
    | (some c, A') => (some c, A')
    | (none, A') => oracleW A' ops rs
  | A, .rst _ :: ops, r :: rs =>
    if r.startsWith "rst|t0|b0|o0|" then oracleW [] ops rs else (some "count-rst", A)
  | A, .nw _ :: ops, r :: rs =>
    if (r.startsWith ("same|t" ++ toString A.length ++ "|")) || (r.startsWith ("new|t" ++ toString A.length ++ "|"))
    then oracleW A ops rs else (some "newwriter-moved", A)
  | A, _, _ => (some "token-count", A)

def isPrefixB : Bytes → Bytes → Bool
  | [], _ => true
  | _ :: _, [] => false
  | x :: xs, y :: ys => x == y && isPrefixB xs ys

/-- length of an HTTP header block: position just after the first empty line (LF or CRLF line ends) -/
def headerEnd : Bytes → Nat → Nat → Option Nat
  | _, _, 0 => none
  | 10 :: 10 :: _, i, _ => some (i + 2)
  | 10 :: 13 :: 10 :: _, i, _ => some (i + 3)
  | _ :: rest, i, f + 1 => headerEnd rest (i + 1) f
  | [], _, _ => none

def run (op impl : String) : Ans :=
  match op.splitOn ";" with
  | [kind, capS, srcS, opsS] =>
    if kind == "R" || kind == "RW" then
    let deleg := kind == "RW"
    match (kv "cap" capS).bind String.toNat?, (kv "src" srcS).bind parseScript,
          (kv "ops" opsS).bind (fun s => (s.splitOn ",").mapM parseDROp) with
    | some cap, some src, some ops =>
      let S := srcBytes src
      let b := Reader.new cap src
      let model := ",".intercalate (runROps deleg S.length b ops [])
      -- known finding: on the delegation branch WriteTo leaves lastByte / r / w untouched, so an
      -- UnreadByte / UnreadRune after it re-inserts bytes that are not the last ones consumed
      let unreadAfterWt : Bool :=
        deleg && ((ops.dropWhile fun o => match o with | .op (.wt _) => false | _ => true).any fun o =>
          match o with | .op .ub => true | .op .ur => true | _ => false)
      let verdict :=
        if impl.startsWith "PANIC" || impl.startsWith "HANG" then "FAIL:crash"
        else if (impl.splitOn "ALIAS").length > 1 then "FAIL:aliasing"
        else match oracleR S 0 ops (impl.splitOn ",") with
          | none => "ok"
          | some c => if unreadAfterWt && c.startsWith "stream" then "FAIL:deleg-stale-unread" else "FAIL:" ++ c
      let tags := (ops.map fun o => match o with
          | .op x => ropName x | .rst _ => "rst" | .nr _ => "nr" | .pkn => "pkn").eraseDups ++
        (if ops.length ≥ 3 then ["nt"] else []) ++ [if deleg then "reader-writerto" else "reader"]
      { model := model, verdict := verdict, tags := tags }
    | _, _, _ => { model := "bad-op", verdict := "skip" }
    else if kind == "W" || kind == "WF" then
    let wsS := srcS
    let deleg := kind == "WF"
    match (kv "cap" capS).bind String.toNat?, (kv "ws" wsS).bind parseWScript,
          (kv "ops" opsS).bind (fun s => (s.splitOn ",").mapM parseDWOp) with
    | some cap, some ws, some ops =>
      let b := Writer.new cap ws
      let (b', rs) := runWOps deleg b ops []
      let model := ",".intercalate rs ++ ";out=" ++ hexField b'.out
      let verdict :=
        if impl.startsWith "PANIC" || impl.startsWith "HANG" then "FAIL:crash"
        else match impl.splitOn ";out=" with
          | [body, outHx] =>
            match oracleW [] ops (body.splitOn ",") with
            | (some c, _) => "FAIL:" ++ c
            | (none, A) =>
              match bytesOfHex outHx with
              | some o => if isPrefixB o A then "ok" else "FAIL:stream-out"
              | none => "FAIL:bad-token"
          | _ => "FAIL:bad-token"
      let tags := (ops.map fun o => match o with
          | .op x => wopName x | .rst _ => "rst" | .nw _ => "nw").eraseDups ++
        (if ops.length ≥ 3 then ["nt"] else []) ++ [if deleg then "writer-readerfrom" else "writer"]
      { model := model, verdict := verdict, tags := tags }
    | _, _, _ => { model := "bad-op", verdict := "skip" }
    else { model := "bad-op", verdict := "skip" }
  | ["H", capS, srcS] =>
    -- real path: bfe_http.ReadRequest over the chunked source; HeaderSize is a TotalRead delta
    match (kv "cap" capS).bind String.toNat?, (kv "src" srcS).bind parseScript with
    | some _, some src =>
      let S := srcBytes src
      match headerEnd S 0 S.length with
      | none => { model := "err", verdict := "skip", tags := ["http-bad"] }
      | some L =>
        let model := "ok." ++ toString L ++ "|t" ++ toString L ++ "|p" ++ toString L
        let verdict :=
          match impl.splitOn "|" with
          | [a, t, p] =>
            if a.startsWith "ok." then
              let h := (a.drop 3).toString
              if ("p" ++ h) != p then "FAIL:header-size-vs-consumed"
              else if ("t" ++ h) != t then "FAIL:count-header"
              else if h != toString L then "FAIL:header-size"
              else "ok"
            else "FAIL:http-rejected"
          | _ => if impl == "err" then "FAIL:http-rejected" else "FAIL:bad-token"
        { model := model, verdict := verdict, tags := ["http", "nt"] }
    | _, _ => { model := "bad-op", verdict := "skip" }
  | _ => { model := "bad-op", verdict := "skip" }

end BfeVerif.C22
