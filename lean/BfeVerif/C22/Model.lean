/-
  C22 — model of `bfe_bufio` Reader / Writer (Go 1.2-era bufio plus TotalRead / TotalWrite counters),
  AFTER the repairs of fixes/C22-*.md (ReadSlice refill count, ReadLine CR put-back count,
  ReadSlice/writeBuf remember the last byte, Writer.ReadFrom count on flush error).  Core-only.

  Reader{buf, r, w, err, lastByte, lastRuneSize, TotalRead}:  only `buf[0:r]` (reachable again through
  UnreadByte / ReadLine's `b.r--`) and `buf[r:w]` are ever observable, so the model keeps
  `pre = buf[0:r]`, `cur = buf[r:w]`, `cap = len(buf)`;  `r = pre.length`, `w = r + cur.length`.
  ReadRune/UnreadRune/WriteRune are modelled with an executable mirror of utf8.FullRune/DecodeRune/EncodeRune.

  The underlying io.Reader is a script: a list of `(chunk, err)`; one `Read(p)` returns the head chunk
  (or its first `len(p)` bytes, keeping the rest) and the error code that comes with its last byte;
  an exhausted script returns `(0, io.EOF)`.
  The underlying io.Writer is a script `(k, err)` per call: accepts `min k len(p)` bytes and returns
  `err`; an exhausted script accepts everything.

  Error codes: 0 nil, 1 io.EOF, 2 source error, 3 ErrBufferFull, 4 ErrInvalidUnreadByte,
  6 io.ErrShortWrite, 7 sink error, 8 ErrInvalidUnreadRune, 98 panic, 99 fuel (unreachable).
-/
namespace BfeVerif.C22

abbrev Bytes := List UInt8
abbrev Script := List (Bytes × Nat)
abbrev WScript := List (Nat × Nat)

def srcRead (src : Script) (room : Nat) : Bytes × Nat × Script :=
  match src with
  | [] => ([], 1, [])
  | (d, e) :: rest =>
    if d.length ≤ room then (d, e, rest) else (d.take room, 0, (d.drop room, e) :: rest)

def srcBytes : Script → Bytes
  | [] => []
  | (d, _) :: rest => d ++ srcBytes rest

def srcMeasure : Script → Nat
  | [] => 0
  | (d, _) :: rest => d.length + 1 + srcMeasure rest

def wsWrite (ws : WScript) (p : Bytes) : Nat × Nat × WScript :=
  match ws with
  | [] => (p.length, 0, [])
  | (k, e) :: rest => (min k p.length, e, rest)

def indexOf (delim : UInt8) : Bytes → Option Nat
  | [] => none
  | x :: xs => if x = delim then some 0 else (indexOf delim xs).map (· + 1)

structure Reader where
  cap : Nat
  pre : Bytes
  cur : Bytes
  err : Nat
  lastByte : Option UInt8
  lastRune : Option Nat := none   -- lastRuneSize (`none` = -1)
  total : Nat
  src : Script
  consumed : Bytes      -- ghost: bytes handed out and not un-read
deriving Repr, DecidableEq

def Reader.new (cap : Nat) (src : Script) : Reader :=
  { cap := if cap < 16 then 16 else cap, pre := [], cur := [], err := 0, lastByte := none, total := 0,
    src := src, consumed := [] }

/-- `Reset(r)`: keeps the buffer, forgets everything else, counter back to 0 -/
def Reader.reset (b : Reader) (src : Script) : Reader :=
  { cap := b.cap, pre := [], cur := [], err := 0, lastByte := none, lastRune := none, total := 0, src := src,
    consumed := [] }

def Reader.fuel (b : Reader) : Nat := srcMeasure b.src + 2

/-- `fill`: slide, one `rd.Read(buf[w:])`, remember a non-nil error -/
def Reader.fill (b : Reader) : Reader :=
  let (d, e, src') := srcRead b.src (b.cap - b.cur.length)
  { b with pre := [], cur := b.cur ++ d, err := if e ≠ 0 then e else b.err, src := src' }

/-- `readErr` -/
def Reader.clearErr (b : Reader) : Reader := { b with err := 0 }

/-- advance `r` by `k`, add `cnt` to TotalRead (the caller says what the code adds), remember the
    last byte handed out (Read/ReadByte do that in place; ReadSlice/writeBuf since the repair) -/
def Reader.consume (b : Reader) (k cnt : Nat) : Reader :=
  let out := b.cur.take k
  { b with pre := b.pre ++ out, cur := b.cur.drop k, total := b.total + cnt,
           consumed := b.consumed ++ out,
           lastByte := if out.isEmpty then b.lastByte else out.getLast?,
           lastRune := if out.isEmpty then b.lastRune else none }

def Reader.peekLoop : Nat → Reader → Nat → Reader
  | 0, b, _ => b
  | f + 1, b, n => if b.cur.length < n ∧ b.err = 0 then peekLoop f b.fill n else b

/-- `Peek(n)`, n ≥ 0 -/
def Reader.peek (b : Reader) (n : Nat) : Reader × Bytes × Nat :=
  if n > b.cap then (b, [], 3) else
  let b := Reader.peekLoop b.fuel b n
  let m := min b.cur.length n
  if m < n then (b.clearErr, b.cur.take m, if b.err = 0 then 3 else b.err)
  else (b, b.cur.take m, 0)

def Reader.copyOut (b : Reader) (n : Nat) : Reader × Bytes × Nat :=
  let k := min n b.cur.length
  (b.consume k k, b.cur.take k, 0)

/-- `Read(p)` with `len(p) = n` -/
def Reader.read (b : Reader) (n : Nat) : Reader × Bytes × Nat :=
  if n = 0 then (b.clearErr, [], b.err)
  else if b.cur.isEmpty then
    if b.err ≠ 0 then (b.clearErr, [], b.err)
    else if n ≥ b.cap then
      -- large read, empty buffer: read directly into p
      let (d, e, src') := srcRead b.src n
      ({ b with src := src', err := 0, total := b.total + d.length, consumed := b.consumed ++ d,
                lastByte := if d.isEmpty then b.lastByte else d.getLast?,
                lastRune := if d.isEmpty then b.lastRune else none }, d, e)
    else
      let b := b.fill
      if b.cur.isEmpty then (b.clearErr, [], b.err) else b.copyOut n
  else b.copyOut n

def Reader.readByteLoop : Nat → Reader → Reader × Option UInt8 × Nat
  | 0, b => (b, none, 99)
  | f + 1, b =>
    match b.cur with
    | c :: _ => (b.consume 1 1, some c, 0)
    | [] => if b.err ≠ 0 then (b.clearErr, none, b.err) else readByteLoop f b.fill

def Reader.readByte (b : Reader) : Reader × Option UInt8 × Nat :=
  Reader.readByteLoop b.fuel { b with lastRune := none }      -- `b.lastRuneSize = -1` comes first

/-- `UnreadByte` -/
def Reader.unreadByte (b : Reader) : Reader × Nat :=
  match b.cur, b.lastByte with
  | [], some x =>
    ({ b with pre := [], cur := [x], lastByte := none, lastRune := none, total := b.total - 1,
              consumed := b.consumed.dropLast }, 0)
  | _, _ =>
    match b.pre.getLast? with
    | none => ({ b with lastRune := none }, 4)
    | some y =>
      ({ b with pre := b.pre.dropLast, cur := y :: b.cur, lastByte := none, lastRune := none,
                total := b.total - 1, consumed := b.consumed.dropLast }, 0)

/-! #### runes.  `fullRune` / `decodeRune` mirror Go's `utf8.FullRune` / `utf8.DecodeRune` (table `first`,
    `acceptRanges`); the theorems use only `1 ≤ size ≤ len` of `decodeRune`. -/

/-- (size, lo, hi of the second byte) for a lead byte; size 0 = ASCII, size 1 = invalid lead byte -/
def utf8First (c : UInt8) : Nat × Nat × Nat :=
  let x := c.toNat
  if x < 0x80 then (0, 0, 0)
  else if x < 0xC2 then (1, 0, 0)
  else if x < 0xE0 then (2, 0x80, 0xBF)
  else if x = 0xE0 then (3, 0xA0, 0xBF)
  else if x = 0xED then (3, 0x80, 0x9F)
  else if x < 0xF0 then (3, 0x80, 0xBF)
  else if x = 0xF0 then (4, 0x90, 0xBF)
  else if x < 0xF4 then (4, 0x80, 0xBF)
  else if x = 0xF4 then (4, 0x80, 0x8F)
  else (1, 0, 0)

def isCont (c : UInt8) : Bool := 0x80 ≤ c.toNat && c.toNat ≤ 0xBF

def fullRune (p : Bytes) : Bool :=
  match p with
  | [] => false
  | c :: rest =>
    let (sz, lo, hi) := utf8First c
    if p.length ≥ sz then true
    else match rest with
      | [] => false
      | b1 :: rest2 =>
        if b1.toNat < lo || hi < b1.toNat then true
        else match rest2 with
          | [] => false
          | b2 :: _ => !isCont b2

/-- (rune, size) -/
def decodeRune (p : Bytes) : Nat × Nat :=
  match p with
  | [] => (0xFFFD, 0)
  | c :: rest =>
    let (sz, lo, hi) := utf8First c
    if sz = 0 then (c.toNat, 1)
    else if sz = 1 then (0xFFFD, 1)
    else if p.length < sz then (0xFFFD, 1)
    else match rest with
      | [] => (0xFFFD, 1)
      | b1 :: rest2 =>
        if b1.toNat < lo || hi < b1.toNat then (0xFFFD, 1)
        else if sz = 2 then ((c.toNat % 32) * 64 + b1.toNat % 64, 2)
        else match rest2 with
          | [] => (0xFFFD, 1)
          | b2 :: rest3 =>
            if !isCont b2 then (0xFFFD, 1)
            else if sz = 3 then ((c.toNat % 16) * 4096 + (b1.toNat % 64) * 64 + b2.toNat % 64, 3)
            else match rest3 with
              | [] => (0xFFFD, 1)
              | b3 :: _ =>
                if !isCont b3 then (0xFFFD, 1)
                else ((c.toNat % 8) * 262144 + (b1.toNat % 64) * 4096 + (b2.toNat % 64) * 64 + b3.toNat % 64, 4)

def Reader.readRuneLoop : Nat → Reader → Reader
  | 0, b => b
  | f + 1, b => if b.cur.length < 4 ∧ fullRune b.cur = false ∧ b.err = 0 then readRuneLoop f b.fill else b

/-- `ReadRune`: (reader, rune, size, err) -/
def Reader.readRune (b : Reader) : Reader × Nat × Nat × Nat :=
  let b := Reader.readRuneLoop b.fuel b
  match b.cur with
  | [] => ({ b.clearErr with lastRune := none }, 0, 0, b.err)
  | c :: _ =>
    let rs := if c.toNat < 0x80 then (c.toNat, 1) else decodeRune b.cur
    ({ b.consume rs.2 rs.2 with lastRune := some rs.2 }, rs.1, rs.2, 0)

/-- `UnreadRune` (error code 8 = ErrInvalidUnreadRune) -/
def Reader.unreadRune (b : Reader) : Reader × Nat :=
  match b.lastRune with
  | none => (b, 8)
  | some k =>
    if b.pre.isEmpty then (b, 8)
    else
      ({ b with pre := b.pre.take (b.pre.length - k), cur := b.pre.drop (b.pre.length - k) ++ b.cur,
                total := if b.total ≥ k then b.total - k else b.total,
                lastByte := none, lastRune := none,
                consumed := b.consumed.take (b.consumed.length - k) }, 0)

def Reader.readSliceLoop : Nat → Reader → UInt8 → Reader × Bytes × Nat
  | 0, b, _ => (b, [], 99)
  | f + 1, b, delim =>
    if b.err ≠ 0 then
      ((b.consume b.cur.length b.cur.length).clearErr, b.cur, b.err)
    else
      let n := b.cur.length
      let b := b.fill
      match indexOf delim (b.cur.drop n) with
      | some i => (b.consume (n + i + 1) (n + i + 1), b.cur.take (n + i + 1), 0)   -- repaired: was `i + 1`
      | none =>
        if b.cur.length ≥ b.cap then (b.consume b.cur.length b.cap, b.cur, 3)
        else readSliceLoop f b delim

/-- `ReadSlice(delim)` -/
def Reader.readSlice (b : Reader) (delim : UInt8) : Reader × Bytes × Nat :=
  match indexOf delim b.cur with
  | some i => (b.consume (i + 1) (i + 1), b.cur.take (i + 1), 0)
  | none => Reader.readSliceLoop b.fuel b delim

def Reader.readBytesLoop : Nat → Reader → UInt8 → Bytes → Reader × Bytes × Nat
  | 0, b, _, acc => (b, acc, 99)
  | f + 1, b, delim, acc =>
    let (b', frag, e) := b.readSlice delim
    if e = 0 then (b', acc ++ frag, 0)
    else if e ≠ 3 then (b', acc ++ frag, e)
    else readBytesLoop f b' delim (acc ++ frag)       -- ErrBufferFull: keep a copy, go on

/-- `ReadBytes(delim)` (and `ReadString`, which only converts the result) -/
def Reader.readBytes (b : Reader) (delim : UInt8) : Reader × Bytes × Nat :=
  Reader.readBytesLoop (b.cur.length + srcMeasure b.src + 2) b delim []

def stripEol (line : Bytes) : Bytes :=
  if line.getLast? = some 10 then
    let l1 := line.dropLast
    if l1.getLast? = some 13 then l1.dropLast else l1
  else line

/-- `ReadLine`: (reader, line, isPrefix, err) -/
def Reader.readLine (b : Reader) : Reader × Bytes × Bool × Nat :=
  let (b, line, e) := b.readSlice 10
  if e = 3 then
    if line.getLast? = some 13 then
      match b.pre.getLast? with
      | none => (b, [], false, 98)          -- "tried to rewind past start of buffer"
      | some y =>
        -- b.r--  (repaired: TotalRead-- as well)
        ({ b with pre := b.pre.dropLast, cur := y :: b.cur, total := b.total - 1,
                  consumed := b.consumed.dropLast }, line.dropLast, true, 0)
    else (b, line, true, 0)
  else if line.isEmpty then (b, [], false, e)
  else (b, stripEol line, false, 0)

/-- `writeBuf`: (reader, n, err, script', bytes the sink took) -/
def Reader.writeBuf (b : Reader) (ws : WScript) : Reader × Nat × Nat × WScript × Bytes :=
  let (n, e, ws') := wsWrite ws b.cur
  (b.consume n n, n, e, ws', b.cur.take n)

def Reader.writeToLoop : Nat → Reader → WScript → Nat → Bytes → Reader × Nat × Nat × Bytes
  | 0, b, _, n, out => (b, n, 99, out)
  | f + 1, b, ws, n, out =>
    let b := b.fill
    if b.cur.isEmpty then
      let b := if b.err = 1 then b.clearErr else b
      (b.clearErr, n, b.err, out)
    else
      let (b, m, e, ws, o) := b.writeBuf ws
      if e ≠ 0 then (b, n + m, e, out ++ o) else writeToLoop f b ws (n + m) (out ++ o)

/-- `WriteTo(w)` for an underlying reader that is not an io.WriterTo: (reader, n, err, sink bytes) -/
def Reader.writeTo (b : Reader) (ws : WScript) : Reader × Nat × Nat × Bytes :=
  let (b, n, e, ws, o) := b.writeBuf ws
  if e ≠ 0 then (b, n, e, o)
  else Reader.writeToLoop (b.fuel + ws.length) b ws n o

/-! #### delegation: the underlying reader is itself an `io.WriterTo`

  The scripted source then writes its remaining chunks to `w` one `Write` per chunk; it stops at a sink
  error, at a short write (`io.ErrShortWrite`, keeping the unwritten rest), at its own error, or at EOF. -/

/-- (m, err, source', sink script', bytes the sink took) -/
def srcWriteTo : Script → WScript → Nat × Nat × Script × WScript × Bytes
  | [], ws => (0, 0, [], ws, [])
  | (d, e) :: rest, ws =>
    let (k, we, ws') := wsWrite ws d
    if we ≠ 0 then (k, we, (d.drop k, e) :: rest, ws', d.take k)
    else if k < d.length then (k, 6, (d.drop k, e) :: rest, ws', d.take k)
    else if e = 1 then (k, 0, rest, ws', d)
    else if e ≠ 0 then (k, e, rest, ws', d)
    else
      let (m, err, s', w', o) := srcWriteTo rest ws'
      (k + m, err, s', w', d ++ o)

/-- `WriteTo(w)` when `b.rd` is an io.WriterTo: flush the buffer, then let the source write the rest.
    (As in the standard library this relies on the io.Writer contract: a short write comes with an error;
    otherwise the unwritten buffered bytes would be overtaken.) -/
def Reader.writeToWT (b : Reader) (ws : WScript) : Reader × Nat × Nat × Bytes :=
  let (b, n, e, ws, o) := b.writeBuf ws
  if e ≠ 0 then (b, n, e, o)
  else
    let (m, err, src', _, o2) := srcWriteTo b.src ws
    ({ b with src := src', total := b.total + m, consumed := b.consumed ++ o2 }, n + m, err, o ++ o2)

/-- `NewReaderSize(b, size)` on an existing Reader: the same Reader iff its buffer is large enough -/
def Reader.newReaderSizeSame (b : Reader) (size : Nat) : Bool := decide (b.cap ≥ size)

/-! ### Writer -/

structure Writer where
  cap : Nat
  buf : Bytes          -- buf[0:n]
  err : Nat
  total : Nat
  ws : WScript
  out : Bytes          -- what the underlying writer received
  accepted : Bytes     -- ghost: bytes the Writer reported as taken
deriving Repr, DecidableEq

def Writer.new (cap : Nat) (ws : WScript) : Writer :=
  { cap := if cap = 0 then 4096 else cap, buf := [], err := 0, total := 0, ws := ws, out := [], accepted := [] }

/-- `Reset(w)`: drops unflushed data, clears the error and the counter, switches to the new sink -/
def Writer.reset (b : Writer) (ws : WScript) : Writer :=
  { cap := b.cap, buf := [], err := 0, total := 0, ws := ws, out := [], accepted := [] }

def Writer.available (b : Writer) : Nat := b.cap - b.buf.length

/-- `flush` -/
def Writer.flush (b : Writer) : Writer × Nat :=
  if b.err ≠ 0 then (b, b.err)
  else if b.buf.isEmpty then (b, 0)
  else
    let (n, e, ws') := wsWrite b.ws b.buf
    let e := if n < b.buf.length ∧ e = 0 then 6 else e
    let b1 := { b with ws := ws', out := b.out ++ b.buf.take n }
    if e ≠ 0 then ({ b1 with buf := b.buf.drop n, err := e }, e)
    else ({ b1 with buf := [] }, 0)

/-- loop of `Write`; `direct` says whether the large-write shortcut exists (Write yes, WriteString no).
    returns (writer, nn, remaining p) -/
def Writer.writeLoop (direct : Bool) : Nat → Writer → Bytes → Nat → Writer × Nat × Bytes
  | 0, b, p, nn => (b, nn, p)
  | f + 1, b, p, nn =>
    if p.length > b.available ∧ b.err = 0 then
      if direct ∧ b.buf.isEmpty then
        let (n, e, ws') := wsWrite b.ws p
        writeLoop direct f { b with ws := ws', err := e, out := b.out ++ p.take n, accepted := b.accepted ++ p.take n }
          (p.drop n) (nn + n)
      else
        let n := min p.length b.available
        let b1 := { b with buf := b.buf ++ p.take n, accepted := b.accepted ++ p.take n }
        writeLoop direct f b1.flush.1 (p.drop n) (nn + n)
    else (b, nn, p)

/-- `Write(p)` / `WriteString(s)` -/
def Writer.write (direct : Bool) (b : Writer) (p : Bytes) : Writer × Nat × Nat :=
  let (b, nn, p) := Writer.writeLoop direct (b.ws.length + p.length + 3) b p 0
  if b.err ≠ 0 then ({ b with total := b.total + nn }, nn, b.err)
  else
    ({ b with buf := b.buf ++ p, accepted := b.accepted ++ p, total := b.total + nn + p.length }, nn + p.length, 0)

/-- `WriteByte(c)` -/
def Writer.writeByte (b : Writer) (c : UInt8) : Writer × Nat :=
  if b.err ≠ 0 then (b, b.err)
  else
    let (b1, fe) := if b.available = 0 then b.flush else (b, 0)
    if fe ≠ 0 then (b1, b1.err)
    else ({ b1 with buf := b1.buf ++ [c], accepted := b1.accepted ++ [c], total := b1.total + 1 }, 0)

/-- `utf8.EncodeRune` / `string(r)` for a non-negative rune -/
def encodeRune (r : Nat) : Bytes :=
  if r < 0x80 then [UInt8.ofNat r]
  else if r < 0x800 then [UInt8.ofNat (0xC0 + r / 64), UInt8.ofNat (0x80 + r % 64)]
  else if (0xD800 ≤ r ∧ r ≤ 0xDFFF) ∨ r > 0x10FFFF then [0xEF, 0xBF, 0xBD]
  else if r < 0x10000 then
    [UInt8.ofNat (0xE0 + r / 4096), UInt8.ofNat (0x80 + (r / 64) % 64), UInt8.ofNat (0x80 + r % 64)]
  else
    [UInt8.ofNat (0xF0 + r / 262144), UInt8.ofNat (0x80 + (r / 4096) % 64), UInt8.ofNat (0x80 + (r / 64) % 64),
      UInt8.ofNat (0x80 + r % 64)]

def Writer.appendRune (b : Writer) (enc : Bytes) : Writer × Nat × Nat :=
  ({ b with buf := b.buf ++ enc, accepted := b.accepted ++ enc, total := b.total + enc.length }, enc.length, 0)

/-- `WriteRune(r)`: (writer, size, err) -/
def Writer.writeRune (b : Writer) (r : Nat) : Writer × Nat × Nat :=
  if r < 0x80 then
    let (b', e) := b.writeByte (UInt8.ofNat r)
    if e ≠ 0 then (b', 0, e) else (b', 1, 0)
  else if b.err ≠ 0 then (b, 0, b.err)
  else if b.available < 4 then
    let b1 := b.flush.1
    if b1.err ≠ 0 then (b1, 0, b1.err)
    else if b1.available < 4 then Writer.write false b1 (encodeRune r)   -- "buffer is silly small"
    else b1.appendRune (encodeRune r)
  else b.appendRune (encodeRune r)

/-- loop of `ReadFrom`: (writer, n, err, source') ; `early = true` marks the return on a flush error -/
def Writer.readFromLoop : Nat → Writer → Script → Nat → Writer × Nat × Nat × Script × Bool
  | 0, b, src, n => (b, n, 99, src, false)
  | f + 1, b, src, n =>
    let (b, fe) := if b.available = 0 then b.flush else (b, 0)
    if fe ≠ 0 then (b, n, fe, src, true)
    else
      let (d, e, src') := srcRead src b.available
      if d.isEmpty then (b, n, e, src', false)
      else
        let b := { b with buf := b.buf ++ d, accepted := b.accepted ++ d }
        if e ≠ 0 then (b, n + d.length, e, src', false) else readFromLoop f b src' (n + d.length)

/-- an underlying writer that is an io.ReaderFrom: reads `r` in 8-byte pieces until EOF (→ nil) or an
    error, and takes everything: (n, err, bytes) -/
def sinkReadFromLoop : Nat → Script → Nat → Bytes → Nat × Nat × Bytes
  | 0, _, n, out => (n, 99, out)
  | f + 1, src, n, out =>
    let (d, e, src') := srcRead src 8
    if e = 1 then (n + d.length, 0, out ++ d)
    else if e ≠ 0 then (n + d.length, e, out ++ d)
    else sinkReadFromLoop f src' (n + d.length) (out ++ d)

/-- `NewWriterSize(b, size)` on an existing Writer -/
def Writer.newWriterSizeSame (b : Writer) (size : Nat) : Bool := decide (b.cap ≥ size)

/-- `ReadFrom(r)` for an underlying writer that is not an io.ReaderFrom -/
def Writer.readFrom (b : Writer) (src : Script) : Writer × Nat × Nat :=
  let (b, n, e, _, early) := Writer.readFromLoop (srcMeasure src + 2) b src 0
  if early then ({ b with total := b.total + n }, n, e)      -- repaired: the early return did not count
  else
    let (b, e) :=
      if e = 1 then (if b.available = 0 then b.flush else (b, 0)) else (b, e)
    ({ b with total := b.total + n }, n, e)

/-- `ReadFrom(r)` when `b.wr` is an io.ReaderFrom: delegated iff nothing is buffered -/
def Writer.readFromRF (b : Writer) (src : Script) : Writer × Nat × Nat :=
  if b.buf.isEmpty then
    let (n, e, o) := sinkReadFromLoop (srcMeasure src + 2) src 0 []
    ({ b with out := b.out ++ o, accepted := b.accepted ++ o, total := b.total + n }, n, e)
  else b.readFrom src

/-! ### operation sequences -/

inductive ROp
  | rd (n : Nat) | rb | ub | pk (n : Nat) | rs (d : UInt8) | rl | wt (ws : WScript) | rbs (d : UInt8)
  | rr | ur
deriving Repr

def Reader.apply (b : Reader) : ROp → Reader
  | .rd n => (b.read n).1
  | .rb => b.readByte.1
  | .ub => b.unreadByte.1
  | .pk n => (b.peek n).1
  | .rs d => (b.readSlice d).1
  | .rl => b.readLine.1
  | .wt ws => (b.writeTo ws).1
  | .rbs d => (b.readBytes d).1
  | .rr => b.readRune.1
  | .ur => b.unreadRune.1

inductive WOp
  | w (p : Bytes) | s (p : Bytes) | wb (c : UInt8) | fl | rf (src : Script) | wr (r : Nat)
deriving Repr

def Writer.apply (b : Writer) : WOp → Writer
  | .w p => (Writer.write true b p).1
  | .s p => (Writer.write false b p).1
  | .wb c => (b.writeByte c).1
  | .fl => b.flush.1
  | .rf src => (b.readFrom src).1
  | .wr r => (b.writeRune r).1

end BfeVerif.C22
