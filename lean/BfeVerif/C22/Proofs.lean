import BfeVerif.C22.Model
/-! C22 helper lemmas: the Reader / Writer invariants and their preservation by every method. -/
namespace BfeVerif.C22

/-! ### scripted source -/

theorem srcRead_bytes (src : Script) (room : Nat) :
    (srcRead src room).1 ++ srcBytes (srcRead src room).2.2 = srcBytes src := by
  unfold srcRead
  split
  · simp [srcBytes]
  · split
    · simp [srcBytes]
    · simp [srcBytes, ← List.append_assoc, List.take_append_drop]

theorem srcRead_len (src : Script) (room : Nat) : (srcRead src room).1.length ≤ room := by
  unfold srcRead
  split
  · simp
  · split
    · assumption
    · simp; omega

theorem indexOf_lt (d : UInt8) (l : Bytes) (i : Nat) (h : indexOf d l = some i) : i < l.length := by
  induction l generalizing i with
  | nil => simp [indexOf] at h
  | cons x xs ih =>
    unfold indexOf at h
    split at h
    · simp at h; subst h; simp
    · cases hx : indexOf d xs with
      | none => simp [hx] at h
      | some j => simp [hx] at h; subst h; have := ih j hx; simp; omega

/-! ### list facts -/

theorem getLast?_append_ne (l o : Bytes) (h : o ≠ []) : (l ++ o).getLast? = o.getLast? := by
  rw [List.getLast?_append]
  cases ho : o.getLast? with
  | none => simp at ho; exact absurd ho h
  | some x => simp

theorem getLast?_suffix {pre l : Bytes} {y : UInt8} (hs : pre <:+ l) (hy : pre.getLast? = some y) :
    l.getLast? = some y := by
  obtain ⟨t, rfl⟩ := hs
  have hne : pre ≠ [] := by intro h; simp [h] at hy
  rw [getLast?_append_ne _ _ hne]; exact hy

theorem dropLast_suffix {pre l : Bytes} (hs : pre <:+ l) (hne : pre ≠ []) : pre.dropLast <:+ l.dropLast := by
  obtain ⟨t, rfl⟩ := hs
  rw [List.dropLast_append_of_ne_nil hne]
  exact List.suffix_append _ _

theorem dropLast_append_last : ∀ {l : Bytes} {y : UInt8}, l.getLast? = some y → l.dropLast ++ [y] = l
  | [], _, h => by simp at h
  | [a], y, h => by simp at h; simp [h]
  | a :: b :: t, y, h => by
    have : (b :: t).getLast? = some y := by simpa [List.getLast?_cons_cons] using h
    simp [List.dropLast, dropLast_append_last this]

theorem length_dropLast_of_last {l : Bytes} {y : UInt8} (h : l.getLast? = some y) :
    l.dropLast.length = l.length - 1 := by simp

/-! ### Reader invariant -/

structure RInv (S : Bytes) (b : Reader) : Prop where
  stream : b.consumed ++ b.cur ++ srcBytes b.src = S
  cnt : b.total = b.consumed.length
  capOk : b.pre.length + b.cur.length ≤ b.cap
  capPos : 0 < b.cap
  last : b.cur = [] → ∀ x, b.lastByte = some x → b.consumed.getLast? = some x
  pre : (b.cur = [] ∧ b.lastByte.isSome) ∨ b.pre <:+ b.consumed
  rune : ∀ k, b.lastRune = some k → b.pre = [] ∨ (1 ≤ k ∧ k ≤ b.pre.length ∧ b.pre <:+ b.consumed)

theorem inv_new (cap : Nat) (src : Script) : RInv (srcBytes src) (Reader.new cap src) := by
  refine ⟨by simp [Reader.new], by simp [Reader.new], ?_, ?_, by simp [Reader.new], by simp [Reader.new],
    by simp [Reader.new]⟩
  · simp [Reader.new]
  · simp only [Reader.new]; split <;> omega

theorem inv_fill {S : Bytes} {b : Reader} (h : RInv S b) : RInv S b.fill := by
  obtain ⟨h1, h2, h3, h4, h5, h6, h7⟩ := h
  have hb := srcRead_bytes b.src (b.cap - b.cur.length)
  have hl := srcRead_len b.src (b.cap - b.cur.length)
  unfold Reader.fill
  refine ⟨?_, h2, ?_, h4, ?_, ?_, fun _ _ => Or.inl rfl⟩
  · simp only
    rw [← h1, ← hb]; simp [List.append_assoc]
  · simp only [List.length_nil, List.length_append]; omega
  · simp only
    intro hc x hx
    have : b.cur = [] := by
      cases hcur : b.cur with
      | nil => rfl
      | cons a t => rw [hcur] at hc; simp at hc
    exact h5 this x hx
  · right; simp

theorem fill_consumed (b : Reader) : b.fill.consumed = b.consumed := by
  unfold Reader.fill; rfl
theorem fill_cap (b : Reader) : b.fill.cap = b.cap := by
  unfold Reader.fill; rfl

theorem inv_clearErr {S : Bytes} {b : Reader} (h : RInv S b) : RInv S b.clearErr := by
  obtain ⟨h1, h2, h3, h4, h5, h6, h7⟩ := h
  exact ⟨h1, h2, h3, h4, h5, h6, h7⟩

theorem inv_noRune {S : Bytes} {b : Reader} (h : RInv S b) : RInv S { b with lastRune := none } := by
  obtain ⟨h1, h2, h3, h4, h5, h6, h7⟩ := h
  exact ⟨h1, h2, h3, h4, h5, h6, by simp⟩

theorem inv_consume {S : Bytes} {b : Reader} (h : RInv S b) (k cnt : Nat)
    (hc : cnt = (b.cur.take k).length) : RInv S (b.consume k cnt) := by
  obtain ⟨h1, h2, h3, h4, h5, h6, h7⟩ := h
  unfold Reader.consume
  refine ⟨?_, ?_, ?_, h4, ?_, ?_, ?_⟩
  rotate_left 5
  · simp only
    intro k' hk'
    by_cases ho : (List.take k b.cur).isEmpty
    · simp only [ho, if_true] at hk'
      have ht : List.take k b.cur = [] := by simpa using ho
      rw [ht]; simpa using h7 k' hk'
    · simp [ho] at hk'
  · simp only
    rw [← h1]; simp only [List.append_assoc]
    rw [← List.append_assoc (List.take k b.cur), List.take_append_drop]
  · simp only [List.length_append]; omega
  · simp only [List.length_append, List.length_take, List.length_drop]; omega
  · simp only
    intro hd x hx
    by_cases ho : (List.take k b.cur).isEmpty
    · simp only [ho, if_true] at hx
      have ht : List.take k b.cur = [] := by simpa using ho
      have hcur : b.cur = [] := by
        have := List.take_append_drop k b.cur
        rw [ht, hd] at this; simpa using this.symm
      rw [ht, List.append_nil]
      exact h5 hcur x hx
    · simp only [ho] at hx
      have hne : List.take k b.cur ≠ [] := by simpa using ho
      rw [getLast?_append_ne _ _ hne]; exact hx
  · simp only
    by_cases ho : List.take k b.cur = []
    · rw [ho]; simp only [List.append_nil, List.isEmpty_nil, if_true]
      rcases h6 with ⟨hc0, hl⟩ | hs
      · left
        refine ⟨?_, hl⟩
        rw [hc0]; simp
      · right; exact hs
    · right
      rcases h6 with ⟨hc0, _⟩ | hs
      · rw [hc0] at ho; simp at ho
      · obtain ⟨t, ht⟩ := hs
        exact ⟨t, by rw [← ht]; simp [List.append_assoc]⟩

theorem consume_consumed (b : Reader) (k cnt : Nat) :
    (b.consume k cnt).consumed = b.consumed ++ b.cur.take k := rfl

/-- after handing out at least one byte, `buf[0:r]` is a suffix of what was consumed -/
theorem consume_pre {S : Bytes} {b : Reader} (h : RInv S b) (k cnt : Nat) (hne : b.cur.take k ≠ []) :
    (b.consume k cnt).pre <:+ (b.consume k cnt).consumed := by
  unfold Reader.consume
  simp only
  rcases h.pre with ⟨hc0, _⟩ | hs
  · rw [hc0] at hne; simp at hne
  · obtain ⟨t, ht⟩ := hs
    exact ⟨t, by rw [← ht]; simp [List.append_assoc]⟩

/-- un-reading one byte through `b.r--` (UnreadByte's second branch, ReadLine's CR put-back) -/
theorem inv_unstep {S : Bytes} {b : Reader} (h : RInv S b) (hs : b.pre <:+ b.consumed) (y : UInt8)
    (hy : b.pre.getLast? = some y) (lb : Option UInt8) :
    RInv S { b with pre := b.pre.dropLast, cur := y :: b.cur, lastByte := lb, lastRune := none,
                    total := b.total - 1, consumed := b.consumed.dropLast } := by
  obtain ⟨h1, h2, h3, h4, h5, h6, h7⟩ := h
  have hcl := getLast?_suffix hs hy
  have hne : b.pre ≠ [] := by intro h; simp [h] at hy
  have hpl : 0 < b.pre.length := List.length_pos_iff.mpr hne
  refine ⟨?_, ?_, ?_, h4, ?_, ?_, by simp⟩
  · simp only
    rw [← h1]
    conv => rhs; rw [← dropLast_append_last hcl]
    simp [List.append_assoc]
  · simp only [List.length_dropLast]; omega
  · simp only [List.length_dropLast, List.length_cons]; omega
  · simp
  · right; exact dropLast_suffix hs hne

theorem inv_unreadByte {S : Bytes} {b : Reader} (h : RInv S b) : RInv S b.unreadByte.1 := by
  unfold Reader.unreadByte
  split
  · rename_i x hc hl
    obtain ⟨h1, h2, h3, h4, h5, h6, h7⟩ := h
    have hcl := h5 hc x hl
    refine ⟨?_, ?_, ?_, h4, by simp, by right; simp, by simp⟩
    · simp only
      rw [← h1, hc]
      conv => rhs; rw [← dropLast_append_last hcl]
      simp [List.append_assoc]
    · simp only [List.length_dropLast]; omega
    · simp; omega
  · rename_i hno
    cases hy : b.pre.getLast? with
    | none => exact inv_noRune h
    | some y =>
      simp only
      have hs : b.pre <:+ b.consumed := by
        rcases h.pre with ⟨hc0, hl⟩ | hs
        · obtain ⟨x, hx⟩ := Option.isSome_iff_exists.mp hl
          exact absurd hx (by intro hx; exact hno x hc0 hx)
        · exact hs
      exact inv_unstep h hs y hy none

/-- direct (unbuffered) large read -/
theorem inv_direct {S : Bytes} {b : Reader} (h : RInv S b) (hc : b.cur = []) (n : Nat) :
    RInv S { b with src := (srcRead b.src n).2.2, err := 0, total := b.total + (srcRead b.src n).1.length,
                    consumed := b.consumed ++ (srcRead b.src n).1,
                    lastByte := if (srcRead b.src n).1.isEmpty then b.lastByte else (srcRead b.src n).1.getLast?,
                    lastRune := if (srcRead b.src n).1.isEmpty then b.lastRune else none } := by
  obtain ⟨h1, h2, h3, h4, h5, h6, h7⟩ := h
  have hb := srcRead_bytes b.src n
  refine ⟨?_, ?_, h3, h4, ?_, ?_, ?_⟩
  rotate_left 4
  · simp only
    intro k' hk'
    by_cases ho : (srcRead b.src n).1.isEmpty
    · simp only [ho, if_true] at hk'
      have ht : (srcRead b.src n).1 = [] := by simpa using ho
      rw [ht]; simpa using h7 k' hk'
    · simp [ho] at hk'
  · simp only
    rw [← h1, ← hb, hc]; simp [List.append_assoc]
  · simp only [List.length_append]; omega
  · simp only
    intro _ x hx
    by_cases ho : (srcRead b.src n).1.isEmpty
    · simp only [ho, if_true] at hx
      have ht : (srcRead b.src n).1 = [] := by simpa using ho
      rw [ht, List.append_nil]; exact h5 hc x hx
    · simp only [ho] at hx
      have hne : (srcRead b.src n).1 ≠ [] := by simpa using ho
      rw [getLast?_append_ne _ _ hne]; exact hx
  · simp only
    by_cases ho : (srcRead b.src n).1 = []
    · rw [ho]; simp only [List.append_nil, List.isEmpty_nil, if_true]; exact h6
    · left
      refine ⟨hc, ?_⟩
      have : (srcRead b.src n).1.isEmpty = false := by simpa using ho
      simp only [this]
      cases hl : (srcRead b.src n).1.getLast? with
      | none => simp at hl; exact absurd hl ho
      | some _ => simp

/-! ### per-method preservation -/

theorem inv_peekLoop {S : Bytes} (f : Nat) (b : Reader) (n : Nat) (h : RInv S b) :
    RInv S (Reader.peekLoop f b n) ∧ (Reader.peekLoop f b n).consumed = b.consumed := by
  induction f generalizing b with
  | zero => exact ⟨h, rfl⟩
  | succ f ih =>
    unfold Reader.peekLoop
    split
    · have := ih b.fill (inv_fill h)
      exact ⟨this.1, by rw [this.2, fill_consumed]⟩
    · exact ⟨h, rfl⟩

theorem inv_peek {S : Bytes} (b : Reader) (n : Nat) (h : RInv S b) :
    RInv S (b.peek n).1 ∧ (b.peek n).1.consumed = b.consumed ∧ (b.peek n).2.1 <+: (b.peek n).1.cur := by
  unfold Reader.peek
  split
  · exact ⟨h, rfl, by simp⟩
  · have := inv_peekLoop b.fuel b n h
    simp only
    split
    · exact ⟨inv_clearErr this.1, this.2, List.take_prefix _ _⟩
    · exact ⟨this.1, this.2, List.take_prefix _ _⟩

theorem inv_copyOut {S : Bytes} (b : Reader) (n : Nat) (h : RInv S b) :
    RInv S (b.copyOut n).1 ∧ (b.copyOut n).1.consumed = b.consumed ++ (b.copyOut n).2.1 := by
  unfold Reader.copyOut
  exact ⟨inv_consume h _ _ (by simp), rfl⟩

theorem inv_read {S : Bytes} (b : Reader) (n : Nat) (h : RInv S b) :
    RInv S (b.read n).1 ∧ (b.read n).1.consumed = b.consumed ++ (b.read n).2.1 := by
  unfold Reader.read
  split
  · exact ⟨inv_clearErr h, by simp [Reader.clearErr]⟩
  · split
    · rename_i hc
      have hc' : b.cur = [] := by simpa using hc
      split
      · exact ⟨inv_clearErr h, by simp [Reader.clearErr]⟩
      · split
        · exact ⟨inv_direct h hc' n, rfl⟩
        · simp only
          split
          · exact ⟨inv_clearErr (inv_fill h), by simp [Reader.clearErr, fill_consumed]⟩
          · have := inv_copyOut b.fill n (inv_fill h)
            exact ⟨this.1, by rw [this.2, fill_consumed]⟩
    · exact inv_copyOut b n h

theorem inv_readByteLoop {S : Bytes} (f : Nat) (b : Reader) (h : RInv S b) :
    RInv S (Reader.readByteLoop f b).1 ∧
      (Reader.readByteLoop f b).1.consumed = b.consumed ++ (Reader.readByteLoop f b).2.1.toList := by
  induction f generalizing b with
  | zero => exact ⟨h, by simp [Reader.readByteLoop]⟩
  | succ f ih =>
    unfold Reader.readByteLoop
    split
    · rename_i c t hc
      exact ⟨inv_consume h 1 1 (by simp [hc]), by simp [consume_consumed, hc]⟩
    · split
      · exact ⟨inv_clearErr h, by simp [Reader.clearErr]⟩
      · have := ih b.fill (inv_fill h)
        exact ⟨this.1, by rw [this.2, fill_consumed]⟩

/-- ReadSlice post-condition: invariant, the line is exactly what was consumed, and after a non-empty
    line `buf[0:r]` is a suffix of the consumed stream (what ReadLine's `b.r--` relies on) -/
def SlicePost (S : Bytes) (b : Reader) (r : Reader × Bytes × Nat) : Prop :=
  RInv S r.1 ∧ r.1.consumed = b.consumed ++ r.2.1 ∧
    (r.2.1 ≠ [] → r.1.pre <:+ r.1.consumed ∧ r.1.lastRune = none)

theorem slicePost_consume {S : Bytes} {b0 b : Reader} (h : RInv S b) (hb : b.consumed = b0.consumed)
    (k cnt e : Nat) (hc : cnt = (b.cur.take k).length) :
    SlicePost S b0 (b.consume k cnt, b.cur.take k, e) :=
  ⟨inv_consume h k cnt hc, by rw [consume_consumed, hb], fun hne => ⟨consume_pre h k cnt hne, by
    have : (List.take k b.cur).isEmpty = false := by simpa using hne
    simp [Reader.consume, this]⟩⟩

theorem inv_readSliceLoop {S : Bytes} (f : Nat) (b0 b : Reader) (d : UInt8) (h : RInv S b)
    (hb : b.consumed = b0.consumed) : SlicePost S b0 (Reader.readSliceLoop f b d) := by
  induction f generalizing b with
  | zero => exact ⟨h, by simp [Reader.readSliceLoop, hb], by simp [Reader.readSliceLoop]⟩
  | succ f ih =>
    unfold Reader.readSliceLoop
    split
    · have := slicePost_consume (b0 := b0) h hb b.cur.length b.cur.length b.err (by simp)
      simp only [List.take_length] at this
      exact ⟨inv_clearErr this.1, this.2.1, this.2.2⟩
    · simp only
      have hf := inv_fill h
      have hfb : b.fill.consumed = b0.consumed := by rw [fill_consumed, hb]
      split
      · rename_i i hi
        have hlt := indexOf_lt _ _ _ hi
        simp only [List.length_drop] at hlt
        exact slicePost_consume hf hfb _ _ 0 (by simp; omega)
      · split
        · rename_i hfull
          have hcap := hf.capOk
          have := slicePost_consume (b0 := b0) hf hfb b.fill.cur.length b.fill.cap 3 (by simp; omega)
          simpa only [List.take_length] using this
        · exact ih b.fill hf hfb

theorem inv_readSlice {S : Bytes} (b : Reader) (d : UInt8) (h : RInv S b) :
    SlicePost S b (b.readSlice d) := by
  unfold Reader.readSlice
  split
  · rename_i i hi
    have hlt := indexOf_lt _ _ _ hi
    exact slicePost_consume h rfl _ _ 0 (by simp; omega)
  · exact inv_readSliceLoop _ b b d h rfl

theorem inv_readBytesLoop {S : Bytes} (f : Nat) (b0 b : Reader) (d : UInt8) (acc : Bytes) (h : RInv S b)
    (hb : b.consumed = b0.consumed ++ acc) :
    RInv S (Reader.readBytesLoop f b d acc).1 ∧
      (Reader.readBytesLoop f b d acc).1.consumed = b0.consumed ++ (Reader.readBytesLoop f b d acc).2.1 := by
  induction f generalizing b acc with
  | zero => exact ⟨h, hb⟩
  | succ f ih =>
    unfold Reader.readBytesLoop
    have hp := inv_readSlice b d h
    generalize b.readSlice d = r at hp
    obtain ⟨b1, frag, e⟩ := r
    obtain ⟨h1, h2, _⟩ := hp
    simp only at h1 h2 ⊢
    have hb1 : b1.consumed = b0.consumed ++ (acc ++ frag) := by rw [h2, hb, List.append_assoc]
    split
    · exact ⟨h1, hb1⟩
    · split
      · exact ⟨h1, hb1⟩
      · exact ih b1 (acc ++ frag) h1 hb1

theorem inv_readBytes {S : Bytes} (b : Reader) (d : UInt8) (h : RInv S b) :
    RInv S (b.readBytes d).1 ∧ (b.readBytes d).1.consumed = b.consumed ++ (b.readBytes d).2.1 :=
  inv_readBytesLoop _ b b d [] h (by simp)

theorem inv_readLine {S : Bytes} (b : Reader) (h : RInv S b) : RInv S b.readLine.1 := by
  have hp := inv_readSlice b 10 h
  unfold Reader.readLine
  generalize b.readSlice 10 = r at hp
  obtain ⟨b1, line, e⟩ := r
  obtain ⟨h1, h2, h3⟩ := hp
  simp only at h1 h2 h3 ⊢
  split
  · split
    · rename_i hcr
      have hne : line ≠ [] := by intro h0; simp [h0] at hcr
      cases hy : b1.pre.getLast? with
      | none => exact h1
      | some y =>
        have hr := (h3 hne).2
        have := inv_unstep h1 (h3 hne).1 y hy b1.lastByte
        simp only
        cases b1
        simp only at hr
        subst hr
        exact this
    · exact h1
  · split <;> exact h1

/-! #### runes -/

theorem decodeRune_size (p : Bytes) (h : p ≠ []) :
    1 ≤ (decodeRune p).2 ∧ (decodeRune p).2 ≤ p.length := by
  unfold decodeRune
  cases p with
  | nil => exact absurd rfl h
  | cons c rest =>
    simp only
    generalize utf8First c = t
    obtain ⟨sz, lo, hi⟩ := t
    simp only
    repeat' split
    all_goals (simp_all <;> omega)

theorem inv_readRuneLoop {S : Bytes} (f : Nat) (b : Reader) (h : RInv S b) :
    RInv S (Reader.readRuneLoop f b) ∧ (Reader.readRuneLoop f b).consumed = b.consumed := by
  induction f generalizing b with
  | zero => exact ⟨h, rfl⟩
  | succ f ih =>
    unfold Reader.readRuneLoop
    split
    · have := ih b.fill (inv_fill h)
      exact ⟨this.1, by rw [this.2, fill_consumed]⟩
    · exact ⟨h, rfl⟩

/-- ReadRune: invariant, and the bytes consumed are exactly `size` bytes -/
theorem inv_readRune {S : Bytes} (b : Reader) (h : RInv S b) :
    RInv S b.readRune.1 ∧ b.readRune.1.consumed.length = b.consumed.length + b.readRune.2.2.1 ∧
      b.consumed <+: b.readRune.1.consumed := by
  have hl := inv_readRuneLoop b.fuel b h
  unfold Reader.readRune
  generalize Reader.readRuneLoop b.fuel b = b1 at hl
  obtain ⟨h1, h2⟩ := hl
  simp only
  cases hc : b1.cur with
  | nil =>
    simp only
    exact ⟨inv_noRune (inv_clearErr h1), by simp [Reader.clearErr, h2], by simp [Reader.clearErr, h2]⟩
  | cons c t =>
    simp only
    -- the size is between 1 and the number of buffered bytes
    have hsz : 1 ≤ (if c.toNat < 0x80 then (c.toNat, 1) else decodeRune (c :: t)).2 ∧
        (if c.toNat < 0x80 then (c.toNat, 1) else decodeRune (c :: t)).2 ≤ (c :: t).length := by
      split
      · simp
      · exact decodeRune_size (c :: t) (by simp)
    generalize (if c.toNat < 0x80 then (c.toNat, 1) else decodeRune (c :: t)) = rs at hsz
    obtain ⟨hs1, hs2⟩ := hsz
    have htake : (b1.cur.take rs.2).length = rs.2 := by
      rw [hc, List.length_take]; omega
    have hne : b1.cur.take rs.2 ≠ [] := by
      intro h0; rw [h0] at htake; simp at htake; omega
    have hinv := inv_consume h1 rs.2 rs.2 htake.symm
    have hpre := consume_pre h1 rs.2 rs.2 hne
    obtain ⟨g1, g2, g3, g4, g5, g6, g7⟩ := hinv
    refine ⟨⟨g1, g2, g3, g4, g5, g6, ?_⟩, ?_, ?_⟩
    · intro k hk
      simp only [Option.some.injEq] at hk
      subst hk
      right
      refine ⟨hs1, ?_, hpre⟩
      simp only [Reader.consume, List.length_append]
      omega
    · simp only [Reader.consume, List.length_append, h2]; omega
    · simp only [Reader.consume, h2]; exact List.prefix_append _ _

/-- UnreadRune: moves exactly the last `lastRuneSize` consumed bytes back (or fails and changes nothing) -/
theorem inv_unreadRune {S : Bytes} (b : Reader) (h : RInv S b) : RInv S b.unreadRune.1 := by
  unfold Reader.unreadRune
  cases hlr : b.lastRune with
  | none => exact h
  | some k =>
    simp only
    split
    · exact h
    · rename_i hpe
      have hpne : b.pre ≠ [] := by simpa using hpe
      obtain ⟨h1, h2, h3, h4, h5, h6, h7⟩ := h
      rcases h7 k hlr with h0 | ⟨hk1, hk2, hsuf⟩
      · exact absurd h0 hpne
      · obtain ⟨t, ht⟩ := hsuf
        have hclen : b.consumed.length = t.length + b.pre.length := by rw [← ht]; simp
        have htake : b.consumed.take (b.consumed.length - k) = t ++ b.pre.take (b.pre.length - k) := by
          rw [← ht, List.take_append]
          have : (t ++ b.pre).length - k - t.length = b.pre.length - k := by simp; omega
          rw [this, List.take_of_length_le (by simp; omega)]
        have hsplit : b.pre.take (b.pre.length - k) ++ b.pre.drop (b.pre.length - k) = b.pre :=
          List.take_append_drop _ _
        refine ⟨?_, ?_, ?_, h4, ?_, ?_, by simp⟩
        · simp only
          rw [htake, ← h1, ← ht]
          simp only [List.append_assoc]
          rw [← List.append_assoc (List.take _ b.pre), hsplit]
        · simp only
          have : b.total ≥ k := by omega
          simp only [this, if_true, List.length_take]; omega
        · simp only [List.length_take, List.length_append, List.length_drop]; omega
        · simp only
          intro hc
          have : (b.pre.drop (b.pre.length - k)).length = 0 := by
            have := congrArg List.length hc; simp at this; omega
          simp at this; omega
        · right
          simp only
          rw [htake]; exact List.suffix_append _ _

theorem inv_writeBuf {S : Bytes} (b : Reader) (ws : WScript) (h : RInv S b) :
    RInv S (b.writeBuf ws).1 ∧ (b.writeBuf ws).1.consumed = b.consumed ++ (b.writeBuf ws).2.2.2.2 := by
  unfold Reader.writeBuf
  simp only
  refine ⟨inv_consume h _ _ ?_, rfl⟩
  unfold wsWrite
  split <;> simp

theorem inv_writeToLoop {S : Bytes} (f : Nat) (b0 b : Reader) (ws : WScript) (n : Nat) (out : Bytes)
    (h : RInv S b) (hb : b.consumed = b0.consumed ++ out) :
    RInv S (Reader.writeToLoop f b ws n out).1 ∧
      (Reader.writeToLoop f b ws n out).1.consumed = b0.consumed ++ (Reader.writeToLoop f b ws n out).2.2.2 := by
  induction f generalizing b ws n out with
  | zero => exact ⟨h, hb⟩
  | succ f ih =>
    unfold Reader.writeToLoop
    simp only
    have hf := inv_fill h
    split
    · refine ⟨inv_clearErr ?_, ?_⟩
      · split
        · exact inv_clearErr hf
        · exact hf
      · split <;> simp [Reader.clearErr, fill_consumed, hb]
    · have hw := inv_writeBuf b.fill ws hf
      generalize b.fill.writeBuf ws = r at hw
      obtain ⟨b2, m, e, ws2, o⟩ := r
      simp only at hw ⊢
      have hb2 : b2.consumed = b0.consumed ++ (out ++ o) := by
        rw [hw.2, fill_consumed, hb, List.append_assoc]
      split
      · exact ⟨hw.1, hb2⟩
      · exact ih b2 ws2 (n + m) (out ++ o) hw.1 hb2

theorem inv_writeTo {S : Bytes} (b : Reader) (ws : WScript) (h : RInv S b) :
    RInv S (b.writeTo ws).1 ∧ (b.writeTo ws).1.consumed = b.consumed ++ (b.writeTo ws).2.2.2 := by
  unfold Reader.writeTo
  have hw := inv_writeBuf b ws h
  generalize b.writeBuf ws = r at hw
  obtain ⟨b2, m, e, ws2, o⟩ := r
  simp only at hw ⊢
  split
  · exact hw
  · exact inv_writeToLoop _ b b2 ws2 m o hw.1 hw.2

/-! #### delegated WriteTo -/

theorem wsWrite_le0 (ws : WScript) (p : Bytes) : (wsWrite ws p).1 ≤ p.length := by
  unfold wsWrite; split <;> simp <;> omega

theorem srcWriteTo_spec (src : Script) (ws : WScript) :
    (srcWriteTo src ws).2.2.2.2 ++ srcBytes (srcWriteTo src ws).2.2.1 = srcBytes src ∧
      (srcWriteTo src ws).2.2.2.2.length = (srcWriteTo src ws).1 := by
  induction src generalizing ws with
  | nil => simp [srcWriteTo, srcBytes]
  | cons hd rest ih =>
    obtain ⟨d, e⟩ := hd
    unfold srcWriteTo
    have hk := wsWrite_le0 ws d
    generalize wsWrite ws d = x at hk
    obtain ⟨k, we, ws'⟩ := x
    simp only at hk ⊢
    split
    · simp [srcBytes, ← List.append_assoc]; omega
    · split
      · simp [srcBytes, ← List.append_assoc]; omega
      · have hkd : k = d.length := by omega
        split
        · simp [srcBytes, hkd]
        · split
          · simp [srcBytes, hkd]
          · have := ih ws'
            generalize srcWriteTo rest ws' = y at this
            obtain ⟨m, err, s', w', o⟩ := y
            simp only at this ⊢
            refine ⟨?_, ?_⟩
            · simp [srcBytes, List.append_assoc, this.1]
            · simp [this.2, hkd]

/-- what survives of the invariant on the delegated path: stream and counter (NOT the clauses that make
    UnreadByte safe: the code does not touch lastByte / r / w there — finding `deleg-stale-unread`) -/
theorem writeToWT_partial {S : Bytes} (b : Reader) (ws : WScript) (h : RInv S b)
    (hc : (wsWrite ws b.cur).2.1 = 0 → b.cur.length ≤ (wsWrite ws b.cur).1) :
    (b.writeToWT ws).1.consumed ++ (b.writeToWT ws).1.cur ++ srcBytes (b.writeToWT ws).1.src = S ∧
      (b.writeToWT ws).1.total = (b.writeToWT ws).1.consumed.length ∧
      (b.writeToWT ws).1.consumed = b.consumed ++ (b.writeToWT ws).2.2.2 := by
  have hw := inv_writeBuf b ws h
  have hcur : (b.writeBuf ws).2.2.1 = 0 → (b.writeBuf ws).1.cur = [] := by
    unfold Reader.writeBuf
    simp only
    intro he
    have := hc he
    simp [Reader.consume]; omega
  unfold Reader.writeToWT
  generalize b.writeBuf ws = x at hw hcur
  obtain ⟨b1, n, e, ws1, o⟩ := x
  simp only at hw hcur ⊢
  split
  · exact ⟨hw.1.stream, hw.1.cnt, hw.2⟩
  · rename_i he
    have he0 : e = 0 := by omega
    have hc1 := hcur he0
    have hs := srcWriteTo_spec b1.src ws1
    generalize srcWriteTo b1.src ws1 = y at hs
    obtain ⟨m, err, s', w', o2⟩ := y
    simp only at hs ⊢
    refine ⟨?_, ?_, ?_⟩
    · have := hw.1.stream
      rw [hc1] at this ⊢
      rw [← this, ← hs.1]; simp [List.append_assoc]
    · rw [List.length_append, hs.2, hw.1.cnt]
    · rw [hw.2, List.append_assoc]

theorem inv_apply {S : Bytes} (b : Reader) (op : ROp) (h : RInv S b) : RInv S (b.apply op) := by
  cases op with
  | rd n => exact (inv_read b n h).1
  | rb => exact (inv_readByteLoop _ _ (inv_noRune h)).1
  | ub => exact inv_unreadByte h
  | pk n => exact (inv_peek b n h).1
  | rs d => exact (inv_readSlice b d h).1
  | rl => exact inv_readLine b h
  | wt ws => exact (inv_writeTo b ws h).1
  | rbs d => exact (inv_readBytes b d h).1
  | rr => exact (inv_readRune b h).1
  | ur => exact inv_unreadRune b h

theorem inv_ops {S : Bytes} (b : Reader) (ops : List ROp) (h : RInv S b) : RInv S (ops.foldl Reader.apply b) := by
  induction ops generalizing b with
  | nil => exact h
  | cons op ops ih => exact ih _ (inv_apply b op h)

/-! ### loop fuel is sufficient

  `mu` bounds the number of further `fill()` calls that can make progress: every fill with room in the
  buffer and no pending error strictly decreases it. -/

def Reader.mu (b : Reader) : Nat := srcMeasure b.src + (if b.err = 0 then 1 else 0)

theorem mu_le_fuel (b : Reader) : b.mu + 1 ≤ b.fuel := by
  unfold Reader.mu Reader.fuel; split <;> omega

theorem fill_mu (b : Reader) (he : b.err = 0) (hroom : b.cur.length < b.cap) : b.fill.mu < b.mu := by
  unfold Reader.mu Reader.fill srcRead
  cases hs : b.src with
  | nil => simp [he, srcMeasure]
  | cons hd rest =>
    obtain ⟨d0, e0⟩ := hd
    simp only
    by_cases hfit : d0.length ≤ b.cap - b.cur.length
    · simp only [hfit, if_true, he, srcMeasure]
      split <;> (first | omega | (split <;> omega))
    · simp only [hfit, if_false, he, srcMeasure, List.length_drop]
      simp; omega

theorem fill_cap' (b : Reader) : b.fill.cap = b.cap := rfl

theorem peekLoop_stable (f : Nat) (b : Reader) (n : Nat) (hn : n ≤ b.cap) (hf : b.mu ≤ f) :
    Reader.peekLoop (f + 1) b n = Reader.peekLoop f b n := by
  induction f generalizing b with
  | zero =>
    have he : b.err ≠ 0 := by unfold Reader.mu at hf; intro h; simp [h] at hf
    simp [Reader.peekLoop, he]
  | succ f ih =>
    rw [Reader.peekLoop]
    conv => rhs; rw [Reader.peekLoop]
    by_cases hc : b.cur.length < n ∧ b.err = 0
    · rw [if_pos hc, if_pos hc]
      have := fill_mu b hc.2 (by omega)
      exact ih b.fill (by rw [fill_cap']; exact hn) (by omega)
    · rw [if_neg hc, if_neg hc]

/-- with the fuel the model supplies, the Peek loop really runs until its own exit condition -/
theorem peekLoop_exit (f : Nat) (b : Reader) (n : Nat) (hn : n ≤ b.cap) (hf : b.mu ≤ f) :
    ¬ ((Reader.peekLoop f b n).cur.length < n ∧ (Reader.peekLoop f b n).err = 0) := by
  induction f generalizing b with
  | zero =>
    have he : b.err ≠ 0 := by unfold Reader.mu at hf; intro h; simp [h] at hf
    simp [Reader.peekLoop, he]
  | succ f ih =>
    rw [Reader.peekLoop]
    by_cases hc : b.cur.length < n ∧ b.err = 0
    · rw [if_pos hc]
      have := fill_mu b hc.2 (by omega)
      exact ih b.fill (by rw [fill_cap']; exact hn) (by omega)
    · rw [if_neg hc]; exact hc

theorem readByteLoop_stable (f : Nat) (b : Reader) (hcap : 0 < b.cap) (hf : b.mu + 1 ≤ f) :
    Reader.readByteLoop (f + 1) b = Reader.readByteLoop f b := by
  induction f generalizing b with
  | zero => omega
  | succ f ih =>
    rw [Reader.readByteLoop]
    conv => rhs; rw [Reader.readByteLoop]
    cases hcur : b.cur with
    | cons c t => rfl
    | nil =>
      by_cases he : b.err ≠ 0
      · simp only [if_pos he]
      · simp only [if_neg he]
        have he0 : b.err = 0 := by omega
        have := fill_mu b he0 (by rw [hcur]; exact hcap)
        exact ih b.fill (by rw [fill_cap']; exact hcap) (by omega)

theorem readSliceLoop_stable (f : Nat) (b : Reader) (d : UInt8) (hf : b.mu + 1 ≤ f) :
    Reader.readSliceLoop (f + 1) b d = Reader.readSliceLoop f b d := by
  induction f generalizing b with
  | zero => omega
  | succ f ih =>
    rw [Reader.readSliceLoop]
    conv => rhs; rw [Reader.readSliceLoop]
    by_cases he : b.err ≠ 0
    · rw [if_pos he, if_pos he]
    · rw [if_neg he, if_neg he]
      have he0 : b.err = 0 := by omega
      simp only
      cases hi : indexOf d (List.drop b.cur.length b.fill.cur) with
      | some i => rfl
      | none =>
        simp only
        by_cases hfull : b.fill.cur.length ≥ b.fill.cap
        · rw [if_pos hfull, if_pos hfull]
        · rw [if_neg hfull, if_neg hfull]
          have hgrow : b.cur.length ≤ b.fill.cur.length := by unfold Reader.fill; simp
          have hroom : b.cur.length < b.cap := by rw [fill_cap'] at hfull; omega
          have := fill_mu b he0 hroom
          exact ih b.fill (by omega)

/-- one-step stability lifts to every larger fuel -/
theorem stable_of_step {α : Type} (L : Nat → α) (f0 : Nat) (h : ∀ f, f0 ≤ f → L (f + 1) = L f) :
    ∀ f, f0 ≤ f → L f = L f0 := by
  intro f hf
  induction f with
  | zero => have : f0 = 0 := by omega
            subst this; rfl
  | succ f ih =>
    by_cases h0 : f0 = f + 1
    · subst h0; rfl
    · rw [h f (by omega)]; exact ih (by omega)

/-! ### Writer -/

structure WInv (b : Writer) : Prop where
  stream : b.out ++ b.buf = b.accepted
  cnt : b.total = b.accepted.length

theorem winv_new (cap : Nat) (ws : WScript) : WInv (Writer.new cap ws) := ⟨rfl, rfl⟩

theorem wsWrite_le (ws : WScript) (p : Bytes) : (wsWrite ws p).1 ≤ p.length := by
  unfold wsWrite; split <;> simp <;> omega

theorem flush_accepted (b : Writer) : b.flush.1.accepted = b.accepted := by
  unfold Writer.flush
  split
  · rfl
  · split
    · rfl
    · simp only
      generalize (if (wsWrite b.ws b.buf).1 < b.buf.length ∧ (wsWrite b.ws b.buf).2.1 = 0 then 6
        else (wsWrite b.ws b.buf).2.1) = e'
      split <;> rfl

theorem flush_total (b : Writer) : b.flush.1.total = b.total := by
  unfold Writer.flush
  split
  · rfl
  · split
    · rfl
    · simp only
      generalize (if (wsWrite b.ws b.buf).1 < b.buf.length ∧ (wsWrite b.ws b.buf).2.1 = 0 then 6
        else (wsWrite b.ws b.buf).2.1) = e'
      split <;> rfl

theorem flush_stream (b : Writer) (hs : b.out ++ b.buf = b.accepted) :
    b.flush.1.out ++ b.flush.1.buf = b.accepted := by
  unfold Writer.flush
  split
  · exact hs
  · split
    · exact hs
    · simp only
      generalize hE : (if (wsWrite b.ws b.buf).1 < b.buf.length ∧ (wsWrite b.ws b.buf).2.1 = 0 then 6
        else (wsWrite b.ws b.buf).2.1) = e'
      split
      · simp only [List.append_assoc, List.take_append_drop]; exact hs
      · rename_i he
        simp only [List.append_nil]
        have he0 : e' = 0 := by omega
        have hn : ¬ ((wsWrite b.ws b.buf).1 < b.buf.length) := by
          intro hlt
          by_cases h0 : (wsWrite b.ws b.buf).2.1 = 0
          · simp [hlt, h0] at hE; omega
          · simp [h0] at hE; omega
        rw [List.take_of_length_le (by omega)]; exact hs

theorem flush_spec (b : Writer) (hs : b.out ++ b.buf = b.accepted) :
    b.flush.1.out ++ b.flush.1.buf = b.accepted ∧ b.flush.1.accepted = b.accepted ∧
      b.flush.1.total = b.total := ⟨flush_stream b hs, flush_accepted b, flush_total b⟩

/-- what the loop of `Write` guarantees -/
def LoopPost (b : Writer) (p : Bytes) (nn : Nat) (r : Writer × Nat × Bytes) : Prop :=
  r.1.out ++ r.1.buf = r.1.accepted ∧ r.1.total = b.total ∧
    r.1.accepted ++ r.2.2 = b.accepted ++ p ∧ r.1.accepted.length + nn = b.accepted.length + r.2.1

theorem writeLoop_spec (direct : Bool) (f : Nat) (b : Writer) (p : Bytes) (nn : Nat)
    (hs : b.out ++ b.buf = b.accepted) : LoopPost b p nn (Writer.writeLoop direct f b p nn) := by
  induction f generalizing b p nn with
  | zero => exact ⟨hs, rfl, rfl, by simp [Writer.writeLoop]⟩
  | succ f ih =>
    unfold Writer.writeLoop
    split
    · split
      · rename_i hd
        have hbe : b.buf = [] := by simpa using hd.2
        simp only
        have hk := wsWrite_le b.ws p
        generalize (wsWrite b.ws p).1 = k at hk ⊢
        generalize (wsWrite b.ws p).2.1 = e1
        generalize (wsWrite b.ws p).2.2 = ws1
        have key := ih { b with ws := ws1, err := e1, out := b.out ++ p.take k,
                                accepted := b.accepted ++ p.take k } (p.drop k) (nn + k)
          (by simp only [hbe, List.append_nil] at hs ⊢; rw [hs])
        generalize Writer.writeLoop direct f _ (p.drop k) (nn + k) = r at key ⊢
        obtain ⟨t1, t2, t3, t4⟩ := key
        refine ⟨t1, t2, ?_, ?_⟩
        · rw [t3]; simp only [List.append_assoc, List.take_append_drop]
        · simp only [List.length_append, List.length_take] at t4
          omega
      · simp only
        generalize hk : min p.length b.available = k
        have hkl : k ≤ p.length := by omega
        have hs1 : b.out ++ (b.buf ++ p.take k) = b.accepted ++ p.take k := by
          rw [← List.append_assoc, hs]
        have hf := flush_spec { b with buf := b.buf ++ p.take k, accepted := b.accepted ++ p.take k } hs1
        generalize Writer.flush { b with buf := b.buf ++ p.take k, accepted := b.accepted ++ p.take k } = fr at hf ⊢
        obtain ⟨u1, u2, u3⟩ := hf
        simp only at u1 u2 u3
        have key := ih fr.1 (p.drop k) (nn + k) (by rw [u1, u2])
        generalize Writer.writeLoop direct f fr.1 (p.drop k) (nn + k) = r at key ⊢
        obtain ⟨t1, t2, t3, t4⟩ := key
        refine ⟨t1, by rw [t2, u3], ?_, ?_⟩
        · rw [t3, u2]; simp only [List.append_assoc, List.take_append_drop]
        · rw [u2] at t4
          simp only [List.length_append, List.length_take] at t4
          omega
    · exact ⟨hs, rfl, rfl, by simp⟩

theorem winv_write (direct : Bool) (b : Writer) (p : Bytes) (h : WInv b) :
    WInv (Writer.write direct b p).1 ∧
      (Writer.write direct b p).1.accepted = b.accepted ++ p.take (Writer.write direct b p).2.1 := by
  obtain ⟨hs, hc⟩ := h
  have hl := writeLoop_spec direct (b.ws.length + p.length + 3) b p 0 hs
  unfold Writer.write
  generalize Writer.writeLoop direct (b.ws.length + p.length + 3) b p 0 = r at hl
  obtain ⟨b1, nn, p1⟩ := r
  unfold LoopPost at hl
  simp only at hl ⊢
  obtain ⟨t1, t2, t3, t4⟩ := hl
  have hlen : b1.accepted.length + p1.length = b.accepted.length + p.length := by
    have := congrArg List.length t3; simpa using this
  have hacc : b1.accepted = b.accepted ++ p.take nn := by
    have h1 : b1.accepted = (b.accepted ++ p).take b1.accepted.length := by
      rw [← t3]; simp
    rw [h1, List.take_append]
    have : b1.accepted.length = b.accepted.length + nn := by omega
    rw [this]
    simp [List.take_of_length_le]
  split
  · refine ⟨⟨t1, ?_⟩, hacc⟩
    simp only; omega
  · refine ⟨⟨?_, ?_⟩, ?_⟩
    · simp only; rw [← List.append_assoc, t1]
    · simp only [List.length_append]; omega
    · simp only
      rw [t3]
      have : nn + p1.length = p.length := by omega
      rw [this, List.take_length]

theorem winv_flush (b : Writer) (h : WInv b) : WInv b.flush.1 ∧ b.flush.1.accepted = b.accepted := by
  have := flush_spec b h.stream
  exact ⟨⟨by rw [this.1, this.2.1], by rw [this.2.2, this.2.1]; exact h.cnt⟩, this.2.1⟩

theorem winv_writeByte (b : Writer) (c : UInt8) (h : WInv b) : WInv (b.writeByte c).1 := by
  unfold Writer.writeByte
  split
  · exact h
  · have hb1 : WInv (if b.available = 0 then b.flush else (b, 0)).1 := by
      split
      · exact (winv_flush b h).1
      · exact h
    generalize (if b.available = 0 then b.flush else (b, 0)) = r at hb1
    obtain ⟨b1, fe⟩ := r
    simp only at hb1 ⊢
    split
    · exact hb1
    · refine ⟨?_, ?_⟩
      · simp only; rw [← List.append_assoc, hb1.stream]
      · simp only [List.length_append, List.length_singleton]; rw [hb1.cnt]

theorem readFromLoop_spec (f : Nat) (b : Writer) (src : Script) (n : Nat)
    (hs : b.out ++ b.buf = b.accepted) :
    let r := Writer.readFromLoop f b src n
    r.1.out ++ r.1.buf = r.1.accepted ∧ r.1.total = b.total ∧
      r.1.accepted.length + n = b.accepted.length + r.2.1 := by
  induction f generalizing b src n with
  | zero => exact ⟨hs, rfl, by simp [Writer.readFromLoop]⟩
  | succ f ih =>
    unfold Writer.readFromLoop
    have hb1 : let r := (if b.available = 0 then b.flush else (b, 0));
        r.1.out ++ r.1.buf = r.1.accepted ∧ r.1.accepted = b.accepted ∧ r.1.total = b.total := by
      simp only
      split
      · have := flush_spec b hs
        exact ⟨by rw [this.1, this.2.1], this.2.1, this.2.2⟩
      · exact ⟨hs, rfl, rfl⟩
    generalize (if b.available = 0 then b.flush else (b, 0)) = r at hb1
    obtain ⟨b1, fe⟩ := r
    simp only at hb1 ⊢
    obtain ⟨u1, u2, u3⟩ := hb1
    split
    · exact ⟨u1, u3, by rw [u2]⟩
    · split
      · exact ⟨u1, u3, by rw [u2]⟩
      · split
        · refine ⟨?_, u3, ?_⟩
          · simp only; rw [← List.append_assoc, u1]
          · simp only [List.length_append]; rw [u2]; omega
        · have := ih { b1 with buf := b1.buf ++ (srcRead src b1.available).1,
                               accepted := b1.accepted ++ (srcRead src b1.available).1 }
            (srcRead src b1.available).2.2 (n + (srcRead src b1.available).1.length)
            (by simp only; rw [← List.append_assoc, u1])
          generalize Writer.readFromLoop f _ _ _ = r at this ⊢
          obtain ⟨t1, t2, t3⟩ := this
          refine ⟨t1, by rw [t2]; exact u3, ?_⟩
          simp only [List.length_append] at t3
          rw [u2] at t3; omega

theorem winv_readFrom (b : Writer) (src : Script) (h : WInv b) : WInv (b.readFrom src).1 := by
  obtain ⟨hs, hc⟩ := h
  have hl := readFromLoop_spec (srcMeasure src + 2) b src 0 hs
  unfold Writer.readFrom
  generalize Writer.readFromLoop (srcMeasure src + 2) b src 0 = r at hl
  obtain ⟨b1, n, e, src1, early⟩ := r
  simp only at hl ⊢
  obtain ⟨t1, t2, t3⟩ := hl
  split
  · exact ⟨t1, by simp only; omega⟩
  · have hb2 : let r := (if e = 1 then (if b1.available = 0 then b1.flush else (b1, 0)) else (b1, e));
        r.1.out ++ r.1.buf = r.1.accepted ∧ r.1.accepted = b1.accepted ∧ r.1.total = b1.total := by
      simp only
      split
      · split
        · have := flush_spec b1 t1
          exact ⟨by rw [this.1, this.2.1], this.2.1, this.2.2⟩
        · exact ⟨t1, rfl, rfl⟩
      · exact ⟨t1, rfl, rfl⟩
    generalize (if e = 1 then (if b1.available = 0 then b1.flush else (b1, 0)) else (b1, e)) = r at hb2
    obtain ⟨b2, e2⟩ := r
    simp only at hb2 ⊢
    obtain ⟨u1, u2, u3⟩ := hb2
    exact ⟨u1, by simp only; rw [u2, u3]; omega⟩

theorem winv_appendRune (b : Writer) (enc : Bytes) (h : WInv b) : WInv (b.appendRune enc).1 := by
  refine ⟨?_, ?_⟩
  · simp only [Writer.appendRune]; rw [← List.append_assoc, h.stream]
  · simp only [Writer.appendRune, List.length_append]; rw [h.cnt]

theorem winv_writeRune (b : Writer) (r : Nat) (h : WInv b) : WInv (b.writeRune r).1 := by
  unfold Writer.writeRune
  split
  · have := winv_writeByte b (UInt8.ofNat r) h
    generalize b.writeByte (UInt8.ofNat r) = x at this
    obtain ⟨b', e⟩ := x
    simp only at this ⊢
    split <;> exact this
  · split
    · exact h
    · split
      · simp only
        have hf := (winv_flush b h).1
        split
        · exact hf
        · split
          · exact (winv_write false _ _ hf).1
          · exact winv_appendRune _ _ hf
      · exact winv_appendRune _ _ h

theorem sinkReadFromLoop_len (f : Nat) (src : Script) (n : Nat) (out : Bytes) :
    (sinkReadFromLoop f src n out).1 + out.length = n + (sinkReadFromLoop f src n out).2.2.length ∧
      out <+: (sinkReadFromLoop f src n out).2.2 := by
  induction f generalizing src n out with
  | zero => simp [sinkReadFromLoop]
  | succ f ih =>
    unfold sinkReadFromLoop
    simp only
    split
    · simp; omega
    · split
      · simp; omega
      · have := ih (srcRead src 8).2.2 (n + (srcRead src 8).1.length) (out ++ (srcRead src 8).1)
        generalize sinkReadFromLoop f _ _ _ = y at this ⊢
        refine ⟨?_, (List.prefix_append _ _).trans this.2⟩
        have h1 := this.1
        simp only [List.length_append] at h1
        omega

theorem winv_readFromRF (b : Writer) (src : Script) (h : WInv b) : WInv (b.readFromRF src).1 := by
  unfold Writer.readFromRF
  split
  · rename_i hb
    have hbe : b.buf = [] := by simpa using hb
    have hl := (sinkReadFromLoop_len (srcMeasure src + 2) src 0 []).1
    generalize sinkReadFromLoop (srcMeasure src + 2) src 0 [] = x at hl
    obtain ⟨n, e, o⟩ := x
    simp only at hl ⊢
    refine ⟨?_, ?_⟩
    · simp only [hbe, List.append_nil]
      have := h.stream; rw [hbe, List.append_nil] at this; rw [this]
    · simp only [List.length_append]; rw [h.cnt]; simp at hl; omega
  · exact winv_readFrom b src h

theorem winv_apply (b : Writer) (op : WOp) (h : WInv b) : WInv (b.apply op) := by
  cases op with
  | w p => exact (winv_write true b p h).1
  | s p => exact (winv_write false b p h).1
  | wb c => exact winv_writeByte b c h
  | fl => exact (winv_flush b h).1
  | rf src => exact winv_readFrom b src h
  | wr r => exact winv_writeRune b r h

theorem winv_ops (b : Writer) (ops : List WOp) (h : WInv b) : WInv (ops.foldl Writer.apply b) := by
  induction ops generalizing b with
  | nil => exact h
  | cons op ops ih => exact ih _ (winv_apply b op h)

end BfeVerif.C22
