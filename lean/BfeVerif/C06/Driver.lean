import BfeVerif.Common.Proto
import BfeVerif.C06.Model
/-!
  C06 driver.

  op `m <lab> <lab> …`   method-level schedule, one label = one atomic step of the model:
        a  AddFailNum | u<th>  UpdateStatus(th) (+spawn) | r  ResetFailNum | R  Release | k<i>:<ok>:<th>  checker i steps
     result: per label  `<code>=<avail>:<failNum>:<succNum>:<restarted>:<closed>`
        code = a | r | u0/u1 (return value) | R | P (close of closed channel) | pc of checker i after the step | none
  op `g <tok> <tok> …`   real `check` goroutine, compared at quiescent points (checker parked before its connect, or gone):
        F<th>  OnFail with FailNum=th | N  OnFail while the fetcher returns no conf | P<code>:<want>:<th>  one http check iteration (server sends code, conf expects want) | S  OnSuccess | H<ok>:<th>  let the checker run one iteration | R  Release
     result: per token `<avail>:<failNum>:<succNum>:<restarted>:<closed>:<live checker goroutines>:<connects accepted so far>`, then `end:<n>`
  op `x <threads>:<per>:<th>[:<rounds>]`   storm: threads×per concurrent OnFail, then one successful check under SuccNum=1
     result: two g-style observations
  every g / x result ends with `end:<n>`: check goroutines still alive after the harness released the backend and let a
  parked checker finish its iteration (the property demands 0); `HANG…` = a bounded wait of the harness expired
-/
namespace BfeVerif.C06
open BfeVerif.Proto

def b01 (b : Bool) : String := if b then "1" else "0"

def pcName : Pc → String
  | .top => "top" | .conn => "conn" | .afterFail => "af" | .afterSucc _ => "as" | .chk _ => "chk"
  | .setRestart => "sr" | .setAvail => "sa" | .done => "done"

def stStr (s : St) : String :=
  b01 s.avail ++ ":" ++ toString s.failNum ++ ":" ++ toString s.succNum ++ ":" ++ b01 s.restarted ++ ":" ++ b01 s.closed

def parseLab (t : String) : Option Lab :=
  match t.toList with
  | ['a'] => some .addFail
  | ['r'] => some .resetFail
  | ['R'] => some .release
  | 'u' :: rest => (String.ofList rest).toInt?.map .updStatus
  | 'k' :: rest =>
    match (String.ofList rest).splitOn ":" with
    | [i, ok, th] =>
      match i.toNat?, th.toInt? with
      | some i, some th => some (.ck i (ok == "1") th)
      | _, _ => none
    | _ => none
  | _ => none

def evCode (s' : St) (l : Lab) (e : Ev) : String :=
  match l, e with
  | .addFail, _ => "a"
  | .resetFail, _ => "r"
  | .updStatus _, .upd _ f => "u" ++ b01 f
  | .release, .panicClose => "P"
  | .release, _ => "R"
  | .ck i _ _, _ => match s'.cks[i]? with | some pc => pcName pc | none => "none"
  | _, _ => "?"

/-! ### spec oracle: works on a list of observed steps (events + what the implementation reported) -/

/-- a checker was started after the (most recent) release -/
def spawnedAfterRelease : List Ev → Bool
  | [] => false
  | .released :: _ => false
  | .upd _ true :: _ => true
  | _ :: r => spawnedAfterRelease r

def implHang (impl : String) : Bool := (impl.splitOn "HANG").length > 1

structure Obs where
  evs : List Ev          -- events of this step, oldest first
  avail : Bool           -- reported after the step
  live : Nat             -- live checkers after the step
  closed : Bool
  exactUp : Bool := false -- whole checker iterations are atomic (g mode): returning late is detectable

/-- fold state of the oracle: history (newest first), avail before -/
def judgeStep (hist : List Ev) (availB : Bool) (o : Obs) : Option String × List Ev :=
  let rec go (hist : List Ev) (es : List Ev) (downSeen upSeen : Bool) (bad : Option String) :
      List Ev × Bool × Bool × Option String :=
    match es with
    | [] => (hist, downSeen, upSeen, bad)
    | e :: r =>
      let bad := bad.orElse fun _ =>
        match e with
        | .upd th f =>
          let want := (availB && !downSeen) && decide (th ≤ consecFails hist)
          if f == want then none else some (if f then "down-early" else "down-late")
        | .setUp _ =>
          match healthTh hist with
          | some t => if t ≤ healthRun hist then none else some "up-early"
          | none => some "up-early"
        | .connect _ _ _ =>
          if hist.contains .released && decide (connSince hist ≥ 1) then some "checked-after-release" else none
        | _ => none
      let downSeen := downSeen || (match e with | .upd _ true => true | _ => false)
      let upSeen := upSeen || (match e with | .setUp _ => true | _ => false)
      go (e :: hist) r downSeen upSeen bad
  let (hist', downSeen, upSeen, bad) := go hist o.evs false false none
  let bad := bad.orElse fun _ =>
    if availB && !o.avail && !downSeen then some "down-unexplained"
    else if !availB && o.avail && !upSeen then some "up-unexplained"
    else if o.exactUp && o.closed && o.live ≥ 1 && hist'.contains .released &&
        (decide (connSince hist' ≥ 1) || spawnedAfterRelease hist') then some "checker-still-running-after-release"
    else if o.live > 1 then some "two-checkers"
    else if !o.avail && !o.closed && o.live != 1 then some "no-checker"
    else if o.avail && o.live == 1 then some "stray-checker"
    else if o.exactUp && !availB && !o.avail && !o.closed &&
        (match healthTh hist' with | some t => decide (t ≤ healthRun hist') && (match hist' with | .connect _ true _ :: _ => true | _ => false) | none => false)
      then some "up-late"
    else none
  (bad, hist')

def judge (obs : List Obs) : String :=
  let rec go (hist : List Ev) (availB : Bool) : List Obs → String
    | [] => "ok"
    | o :: r =>
      match judgeStep hist availB o with
      | (some c, _) => "FAIL:" ++ c
      | (none, hist') => go hist' o.avail r
  go [] true obs

/-! ### m mode -/

def parseSt5 (s : String) : Option (Bool × Int × Int × Bool × Bool) :=
  match s.splitOn ":" with
  | a :: f :: sn :: r :: c :: _ =>
    match f.toInt?, sn.toInt? with
    | some f, some sn => some (a == "1", f, sn, r == "1", c == "1")
    | _, _ => none
  | _ => none

def runM (labs : List Lab) : String × St × List Ev :=
  let rec go (s : St) (evs : List Ev) (acc : List String) : List Lab → String × St × List Ev
    | [] => (" ".intercalate acc.reverse, s, evs)
    | l :: ls =>
      let (s', e) := step s l
      go s' (e :: evs) ((evCode s' l e ++ "=" ++ stStr s') :: acc) ls
  go init [] [] labs

/-- rebuild the observations of an m-mode run from the implementation's own tokens -/
def obsM (labs : List Lab) (toks : List String) : Option (List Obs) :=
  let rec go (pcs : List String) : List Lab → List String → List Obs → Option (List Obs)
    | [], [], acc => some acc.reverse
    | l :: ls, t :: ts, acc =>
      match t.splitOn "=" with
      | [code, st] =>
        match parseSt5 st with
        | none => none
        | some (a, _, _, _, c) =>
          let (pcs', evs) : List String × List Ev :=
            match l with
            | .addFail => (pcs, [.addFail])
            | .resetFail => (pcs, [.resetFail])
            | .release => (pcs, [if code == "P" then .panicClose else .released])
            | .updStatus th => if code == "u1" then (pcs ++ ["top"], [.upd th true]) else (pcs, [.upd th false])
            | .ck i ok th =>
              match pcs[i]? with
              | none => (pcs, [])
              | some before =>
                let ev : List Ev :=
                  if before == "conn" then [.connect i (code == "as") th]
                  else if before == "sa" && code == "done" then [.setUp i]
                  else if before == "top" && code == "done" then [.stopped i]
                  else []
                (pcs.set i code, ev)
          let live := (pcs'.filter (· != "done")).length
          go pcs' ls ts ({ evs := evs, avail := a, live := live, closed := c } :: acc)
      | _ => none
    | _, _, _ => none
  go [] labs toks []

/-! ### g mode -/

inductive GTok
  | fail (th : Int) | succ | health (ok : Bool) (th : Int) | release
  /-- OnFail while the conf fetcher returns nil for the cluster: the failure is counted, the status is not updated -/
  | failNil
  /-- http health check: the server answers `code`, the conf expects `want` (cluster_conf.MatchStatusCode) -/
  | http (code want : Nat) (th : Int)

/-- cluster_conf.MatchStatusCode: exact code 100..599, 0 = any, 1..31 = bit mask of 1xx..5xx -/
def httpOk (code want : Nat) : Bool :=
  (decide (100 ≤ want ∧ want ≤ 599) && code == want) || want == 0 ||
  (decide (1 ≤ want ∧ want ≤ 31) && (want &&& (1 <<< (code / 100 - 1))) != 0)

def parseG (t : String) : Option GTok :=
  match t.toList with
  | ['S'] => some .succ
  | ['R'] => some .release
  | ['N'] => some .failNil
  | 'F' :: rest => (String.ofList rest).toInt?.map .fail
  | 'P' :: rest =>
    match (String.ofList rest).splitOn ":" with
    | [c, w, th] =>
      match c.toNat?, w.toNat?, th.toInt? with
      | some c, some w, some th => some (.http c w th)
      | _, _, _ => none
    | _ => none
  | 'H' :: rest =>
    match (String.ofList rest).splitOn ":" with
    | [ok, th] => th.toInt?.map (.health (ok == "1"))
    | _ => none
  | _ => none

/-- the real goroutine runs until it parks in the conf fetcher (pc conn) or exits -/
def settle (s : St) (evs : List Ev) : St × List Ev :=
  let rec go (i : Nat) (n : Nat) (s : St) (evs : List Ev) : St × List Ev :=
    match n with
    | 0 => (s, evs)
    | n + 1 =>
      match s.cks[i]? with
      | some .top => let (s', e) := step s (.ck i false 0); go (i + 1) n s' (e :: evs)
      | _ => go (i + 1) n s evs
  go 0 s.cks.length s evs

def parkedIdx (s : St) : Option Nat :=
  let rec go (i : Nat) : List Pc → Option Nat
    | [] => none
    | .conn :: _ => some i
    | _ :: r => go (i + 1) r
  go 0 s.cks

/-- one whole iteration of the parked checker: connect … until parked again or gone -/
def iterate (s : St) (evs : List Ev) (i : Nat) (ok : Bool) (th : Int) : St × List Ev :=
  let rec go (n : Nat) (s : St) (evs : List Ev) : St × List Ev :=
    match n with
    | 0 => (s, evs)
    | n + 1 =>
      let (s', e) := step s (.ck i ok th)
      match s'.cks[i]? with
      | some .conn => (s', e :: evs)
      | some .done => (s', e :: evs)
      | _ => go n s' (e :: evs)
  go 8 s evs

def gStep (s : St) (evs : List Ev) : GTok → St × List Ev
  | .fail th =>
    let (s1, e1) := step s .addFail
    let (s2, e2) := step s1 (.updStatus th)
    settle s2 (e2 :: e1 :: evs)
  | .succ => let (s1, e1) := step s .resetFail; (s1, e1 :: evs)
  | .release => let (s1, e1) := step s .release; (s1, e1 :: evs)
  | .health ok th =>
    match parkedIdx s with
    | none => (s, evs)
    | some i => iterate s evs i ok th
  | .failNil => let (s1, e1) := step s .addFail; (s1, e1 :: evs)
  | .http code want th =>
    match parkedIdx s with
    | none => (s, evs)
    | some i => iterate s evs i (httpOk code want) th

/-- does the check of this token reach a server of the harness (tcp accept / http request)? -/
def seenInc (s : St) : GTok → Nat
  | .health ok _ => if (parkedIdx s).isSome && ok then 1 else 0
  | .http _ _ _ => if (parkedIdx s).isSome then 1 else 0
  | _ => 0

/-- end of every g/x case: the harness releases the backend (if the script did not), lets a parked checker run the one
    iteration it is committed to, and counts the check goroutines still alive -/
def endStr (s : St) (evs : List Ev) : String :=
  let (s1, e1) := if s.closed then (s, evs) else let (s', e) := step s .release; (s', e :: evs)
  let (s2, _) := match parkedIdx s1 with
    | some i => iterate s1 e1 i false 1073741824
    | none => (s1, e1)
  "end:" ++ toString (liveCount s2)

def connCount (evs : List Ev) : Nat :=
  (evs.filter fun e => match e with | .connect _ true _ => true | _ => false).length

def gStr (s : St) (seen : Nat) : String :=
  stStr s ++ ":" ++ toString (liveCount s) ++ ":" ++ toString seen

def runG (toks : List GTok) : String × St × List Ev :=
  let rec go (s : St) (evs : List Ev) (seen : Nat) (acc : List String) : List GTok → String × St × List Ev
    | [] => (" ".intercalate (endStr s evs :: acc).reverse, s, evs)
    | t :: ts =>
      let (s', evs') := gStep s evs t
      let seen' := seen + seenInc s t
      go s' evs' seen' (gStr s' seen' :: acc) ts
  go init [] 0 [] toks

def parseSt7 (s : String) : Option (Bool × Bool × Nat × Nat) :=
  match s.splitOn ":" with
  | [a, _, _, _, c, l, n] =>
    match l.toNat?, n.toNat? with
    | some l, some n => some (a == "1", c == "1", l, n)
    | _, _ => none
  | _ => none

def obsG (toks : List GTok) (impl : List String) : Option (List Obs) :=
  let rec go (availB : Bool) (liveB : Nat) (connsB : Nat) : List GTok → List String → List Obs → Option (List Obs)
    | [], [], acc => some acc.reverse
    | t :: ts, r :: rs, acc =>
      match parseSt7 r with
      | none => none
      | some (a, c, l, n) =>
        let evs : List Ev :=
          match t with
          | .fail th => [.addFail, .upd th (availB && !a)]
          | .succ => [.resetFail]
          | .release => [.released]
          | .health _ th =>
            if liveB == 0 then [] else
              [.connect 0 (decide (n > connsB)) th] ++ (if !availB && a then [.setUp 0] else [])
          | .failNil => [.addFail]
          | .http code want th =>
            -- the outcome of an http check is what the configured status-code rule says about the code the server sent
            if liveB == 0 then [] else
              [.connect 0 (httpOk code want) th] ++ (if !availB && a then [.setUp 0] else [])
        go a l n ts rs ({ evs := evs, avail := a, live := l, closed := c, exactUp := true } :: acc)
    | _, _, _ => none
  go true 0 0 toks impl []

def thTag (ths : List Int) : List String := if ths.any (· < 1) then ["th<1"] else []

def run (op impl : String) : Ans :=
  match (op.splitOn " ").filter (· != "") with
  | "m" :: toks =>
    match toks.mapM parseLab with
    | none => { model := "bad-op", verdict := "skip" }
    | some labs =>
      let (m, s, evs) := runM labs
      let verdict :=
        match obsM labs ((impl.splitOn " ").filter (· != "")) with
        | some obs => judge obs
        | none => "FAIL:unparsable"
      let ups := (evs.filter fun e => match e with | .setUp _ => true | _ => false).length
      let downs := (evs.filter fun e => match e with | .upd _ true => true | _ => false).length
      let relConn := s.closed && connSince evs == 1
      { model := m, verdict := verdict
        tags := ["m"] ++ (if downs > 0 then ["nt", "down"] else []) ++ (if ups > 0 then ["up"] else [])
          ++ (if downs > 1 then ["down2"] else []) ++ (if s.closed then ["rel"] else [])
          ++ (if relConn then ["rel-conn"] else [])
          ++ (if evs.contains .panicClose then ["dblrel"] else [])
          ++ thTag (labs.filterMap fun l => match l with | .updStatus t => some t | .ck _ _ t => some t | _ => none) }
  | "g" :: toks =>
    match toks.mapM parseG with
    | none => { model := "bad-op", verdict := "skip" }
    | some gts =>
      let (m, s, evs) := runG gts
      let itoks := (impl.splitOn " ").filter (· != "")
      let endTok := itoks.getLast?.getD ""
      let verdict :=
        if implHang impl then
          -- a watchdog of the harness expired: report what the observations before it already show, if anything
          let pre := itoks.takeWhile fun t => !implHang t
          match obsG (gts.take pre.length) pre with
          | some obs => let v := judge obs; if v != "ok" then v else "FAIL:hang"
          | none => "FAIL:hang"
        else if !endTok.startsWith "end:" then "FAIL:unparsable"
        else
          match obsG gts itoks.dropLast with
          | some obs =>
            let v := judge obs
            if v != "ok" then v
            else if endTok != "end:0" then "FAIL:checker-still-running-after-release" else "ok"
          | none => "FAIL:unparsable"
      let ups := (evs.filter fun e => match e with | .setUp _ => true | _ => false).length
      let downs := (evs.filter fun e => match e with | .upd _ true => true | _ => false).length
      { model := m, verdict := verdict
        tags := ["g"] ++ (if downs > 0 then ["nt", "down"] else []) ++ (if ups > 0 then ["up"] else [])
          ++ (if downs > 1 then ["down2"] else []) ++ (if s.closed then ["rel"] else [])
          ++ (if s.closed && connSince evs == 1 then ["rel-conn"] else [])
          ++ (if gts.any (fun t => match t with | .http _ _ _ => true | _ => false) then ["http"] else [])
          ++ (if gts.any (fun t => match t with | .failNil => true | _ => false) then ["nilconf"] else []) }
  | ["x", spec] =>
    let fs := (spec.splitOn ":").map (·.toNat?)
    match fs with
    | some t :: some p :: rest =>
      let th : Option Int := match (spec.splitOn ":").getD 2 "" |>.toInt? with | some v => some v | none => none
      let rounds := match rest with | [_, some r] => r | _ => 1
      match th with
      | none => { model := "bad-op", verdict := "skip" }
      | some th =>
        -- sequential schedule; the observation after each storm does not depend on the schedule (every AddFailNum
        -- precedes the last UpdateStatus, nothing resets failNum meanwhile)
        let rec storm (s : St) (evs : List Ev) : Nat → St × List Ev
          | 0 => (s, evs)
          | n + 1 => let (s', e') := gStep s evs (GTok.fail th); storm s' e' n
        let rec go (r : Nat) (s : St) (evs : List Ev) (seen : Nat) (acc : List (String × Bool)) :
            St × List Ev × List (String × Bool) :=
          match r with
          | 0 => (s, evs, acc.reverse)
          | r + 1 =>
            let (s1, e1) := storm s evs (t * p)
            let tok := GTok.health true 1
            let seen' := seen + seenInc s1 tok
            let (s2, e2) := gStep s1 e1 tok
            go r s2 e2 seen' ((gStr s2 seen', s2.avail) :: (gStr s1 seen, s1.avail) :: acc)
        let (sE, eE, obs) := go rounds init [] 0 []
        let m := " ".intercalate (obs.map (·.1) ++ [endStr sE eE])
        let itoks := (impl.splitOn " ").filter (· != "")
        let verdict :=
          if implHang impl then
            match (itoks.takeWhile fun t => !implHang t).findSome? (fun r => match parseSt7 r with
                | some (a, _, l, _) => if l > 1 then some "FAIL:two-checkers" else if !a && l != 1 then some "FAIL:no-checker"
                    else if a && l != 0 then some "FAIL:stray-checker" else none
                | none => none) with
            | some v => v
            | none => "FAIL:hang"
          else if itoks.length != obs.length + 1 then "FAIL:unparsable"
          else
            let rec judgeX (i : Nat) : List String → List (String × Bool) → String
              | r :: rs, (_, wantAvail) :: os =>
                match parseSt7 r with
                | some (a, _, l, _) =>
                  if l > 1 then "FAIL:two-checkers"
                  else if !a && l != 1 then "FAIL:no-checker"
                  else if a && l != 0 then "FAIL:stray-checker"
                  else if a != wantAvail then (if i % 2 == 0 then (if a then "FAIL:down-late" else "FAIL:down-early") else (if a then "FAIL:up-early" else "FAIL:up-late"))
                  else judgeX (i + 1) rs os
                | none => "FAIL:unparsable"
              | [e], [] => if e != "end:0" then "FAIL:checker-still-running-after-release" else "ok"
              | _, _ => "FAIL:unparsable"
            judgeX 0 itoks obs
        { model := m, verdict := verdict
          tags := ["x"] ++ (if (eE.any fun e => match e with | .upd _ true => true | _ => false) then ["nt", "down"] else [])
            ++ (if rounds > 1 then ["x-rounds"] else []) }
    | _ => { model := "bad-op", verdict := "skip" }
  | _ => { model := "bad-op", verdict := "skip" }

end BfeVerif.C06
