import BfeVerif.C06.Proofs
/-!
  C06 — backend health state machine follows the configured thresholds.
  Property theorems only.  `Reach s evs` ranges over EVERY interleaving of atomic steps
  (lock-protected `BfeBackend` methods) of any number of request threads, reloads (`release`) and the
  checker goroutines the model itself spawns; thresholds may change from step to step (the code
  re-reads the health-check conf on every use).  `evs` is the observable history, newest first.
-/
namespace BfeVerif.C06

/-- `failNum` is, in every interleaving, the number of request failures since the last request success /
    the last return to rotation. -/
theorem C06_failNum_counts {s : St} {evs : List Ev} (h : Reach s evs) : s.failNum = consecFails evs :=
  (inv_of_reach h).fail

/-- Taken out of rotation EXACTLY at an `UpdateStatus(th)` step at which the consecutive request
    failures have reached the threshold `th` in force at that step — and at no other step. -/
theorem C06_down_iff {s : St} {evs : List Ev} (h : Reach s evs) (hav : s.avail = true) (l : Lab) :
    (step s l).1.avail = false ↔ ∃ th, l = Lab.updStatus th ∧ th ≤ consecFails evs := by
  have hf := (inv_of_reach h).fail
  cases l with
  | addFail => simp [step, hav]
  | resetFail => simp [step, hav]
  | release => simp only [step]; split <;> simp [hav]
  | updStatus th =>
    simp only [step, hav, if_true]
    by_cases hth : s.failNum ≥ th
    · simp only [hth, if_true]
      exact ⟨fun _ => ⟨th, rfl, by omega⟩, fun _ => by trivial⟩
    · simp only [hth, if_false, hav]
      constructor
      · intro hc; cases hc
      · rintro ⟨t, ht, hle⟩
        cases ht; omega
  | ck i ok th =>
    constructor
    · intro hdown
      exfalso
      simp only [step, stepCk] at hdown
      split at hdown
      · simp [hav] at hdown
      · split at hdown <;> (try split at hdown) <;> simp [hav] at hdown
    · rintro ⟨t, ht, _⟩; cases ht

/-- the `UpdateStatus` step reports the flip (and so starts a checker) exactly when it caused it -/
theorem C06_flip_reported {s : St} (th : Int) :
    (step s (Lab.updStatus th)).2 = Ev.upd th true ↔ (s.avail = true ∧ (step s (Lab.updStatus th)).1.avail = false) := by
  simp only [step]
  by_cases hth : s.failNum ≥ th <;> by_cases hav : s.avail = true <;> simp [hth, hav]

/-- Sequential request history (one request thread, threshold `th` constant, checker not yet successful):
    the backend is down afterwards iff the run-length spec says a run of `th` consecutive failures occurred. -/
theorem C06_down_exact_seq (th : Int) (outs : List Bool) :
    (exec init [] (seqLabs th outs)).1.avail = !(specDownSeq th outs 0 false) := by
  have gen : ∀ (outs : List Bool) (s : St) (evs : List Ev),
      (exec s evs (seqLabs th outs)).1.avail = !(specDownSeq th outs s.failNum (!s.avail)) := by
    intro outs
    induction outs with
    | nil => intro s evs; simp [seqLabs, exec, specDownSeq]
    | cons o r ih =>
      intro s evs
      cases o with
      | false =>
        simp only [seqLabs, exec, specDownSeq]
        rw [ih]; simp [step]
      | true =>
        simp only [seqLabs, exec, specDownSeq]
        rw [ih]
        simp only [step]
        by_cases hth : s.failNum + 1 ≥ th
        · by_cases hav : s.avail = true <;> simp [hth, hav]
        · simp [hth]
  simpa [init] using gen outs init []

/-- AT MOST ONE health checker, in every interleaving; one is live only while the backend is out of
    rotation, and while it is out of rotation and not released one IS live. -/
theorem C06_one_checker {s : St} {evs : List Ev} (h : Reach s evs) :
    liveCount s ≤ 1 ∧ (liveCount s = 1 → s.avail = false) ∧
    (s.avail = false → s.closed = false → liveCount s = 1) := by
  rcases (inv_of_reach h).cases with ⟨had, hdc, _⟩ | ⟨i, p, hol, hlive, hav, _, _⟩
  · have h0 := liveCount_allDone had
    unfold liveCount
    refine ⟨by omega, fun h1 => by omega, fun ha hc => ?_⟩
    rw [hdc ha] at hc; cases hc
  · have h1 := liveCount_onlyLive hol hlive
    unfold liveCount
    exact ⟨by omega, fun _ => hav, fun _ _ => h1⟩

/-- Back into rotation ONLY by the checker's `SetAvail(true)` step, and only when the most recent
    health checks were at least `t` consecutive successes, `t` being the healthy-threshold read for the
    last of them (no failed check in between, none counted from an earlier outage). -/
theorem C06_up_after {s : St} {evs : List Ev} (h : Reach s evs) (hav : s.avail = false) (l : Lab)
    (hup : (step s l).1.avail = true) :
    ∃ i ok th, l = Lab.ck i ok th ∧ (step s l).2 = Ev.setUp i ∧
      ∃ t, healthTh evs = some t ∧ t ≤ healthRun evs := by
  have hinv := inv_of_reach h
  cases l with
  | addFail => simp [step, hav] at hup
  | resetFail => simp [step, hav] at hup
  | release => simp only [step] at hup; split at hup <;> simp [hav] at hup
  | updStatus th => simp only [step] at hup; split at hup <;> (try split at hup) <;> simp [hav] at hup
  | ck i ok th =>
    refine ⟨i, ok, th, rfl, ?_⟩
    simp only [step, stepCk] at hup ⊢
    cases hi : s.cks[i]? with
    | none => simp [hi, hav] at hup
    | some pc =>
      simp only [hi] at hup ⊢
      cases pc with
      | setAvail =>
        refine ⟨rfl, ?_⟩
        rcases hinv.cases with ⟨had, _, _⟩ | ⟨i0, p, hol, _, _, hpc, _⟩
        · have := had i _ hi; cases this
        · rcases onlyLive_get hol hi with ⟨_, hp⟩ | hd
          · subst hp; exact hpc.2
          · cases hd
      | top => simp only at hup; split at hup <;> simp [hav] at hup
      | conn => simp only at hup; split at hup <;> simp [hav] at hup
      | chk t => simp only at hup; split at hup <;> simp [hav] at hup
      | afterFail => simp [hav] at hup
      | afterSucc t => simp [hav] at hup
      | setRestart => simp [hav] at hup
      | done => simp [hav] at hup

/-- the healthy-threshold test itself: `CheckAvail(t)` answers true only after `t` consecutive successes -/
theorem C06_checkAvail_true {s : St} {evs : List Ev} (h : Reach s evs) (l : Lab) (i : Nat) (t : Int)
    (hev : (step s l).2 = Ev.chkAvail i t true) : t ≤ healthRun evs ∧ healthTh evs = some t := by
  have hinv := inv_of_reach h
  cases l with
  | addFail => simp [step] at hev
  | resetFail => simp [step] at hev
  | release => simp only [step] at hev; split at hev <;> simp at hev
  | updStatus th => simp only [step] at hev; split at hev <;> (try split at hev) <;> simp at hev
  | ck j ok th =>
    simp only [step, stepCk] at hev
    cases hj : s.cks[j]? with
    | none => simp [hj] at hev
    | some pc =>
      simp only [hj] at hev
      cases pc with
      | chk t' =>
        simp only at hev
        split at hev
        · rename_i hge
          simp only [Ev.chkAvail.injEq] at hev
          obtain ⟨_, rfl, _⟩ := hev
          rcases hinv.cases with ⟨had, _, _⟩ | ⟨i0, p, hol, _, _, hpc, _⟩
          · have := had j _ hj; cases this
          · rcases onlyLive_get hol hj with ⟨_, hp⟩ | hd
            · subst hp
              simp only [PcOk] at hpc
              exact ⟨by omega, hpc.2⟩
            · cases hd
        · simp at hev
      | top => simp only at hev; split at hev <;> simp at hev
      | conn => simp only at hev; split at hev <;> simp at hev
      | afterFail => simp at hev
      | afterSucc t => simp at hev
      | setRestart => simp at hev
      | setAvail => simp at hev
      | done => simp at hev

/-- A released backend stops being checked: after `Release`, over all checkers together (the one that
    was running and any that a late request failure starts), at most ONE more health-check connect
    is made (the one the checker was already committed to). -/
theorem C06_release_stops {s : St} {evs : List Ev} (h : Reach s evs) (hc : s.closed = true) :
    connSince evs ≤ 1 :=
  (inv_of_reach h).rel hc

/-- …and the bound 1 is reached: the running checker may make one connect after the release. -/
theorem C06_release_one_more_possible :
    ∃ s evs, Reach s evs ∧ s.closed = true ∧ connSince evs = 1 := by
  let ls := [Lab.addFail, Lab.updStatus 1, Lab.ck 0 true 1, Lab.release, Lab.ck 0 true 1]
  exact ⟨(exec init [] ls).1, (exec init [] ls).2, reach_exec Reach.init ls, by decide, by decide⟩

/-! ### non-vacuity: concrete interleavings -/

/-- two request threads fail concurrently (both `addFail` before either `updStatus`): one checker;
    two successful checks under threshold 2 bring the backend back and reset `failNum`. -/
example :
    let r := exec init [] [Lab.addFail, Lab.addFail, Lab.updStatus 2, Lab.updStatus 2,
      Lab.ck 0 true 2, Lab.ck 0 true 2, Lab.ck 0 true 2, Lab.ck 0 true 2, Lab.ck 0 true 2,
      Lab.ck 0 true 2, Lab.ck 0 true 2, Lab.ck 0 true 2, Lab.ck 0 true 2, Lab.ck 0 true 2]
    r.1.avail = true ∧ r.1.failNum = 0 ∧ r.1.cks = [Pc.done] ∧ r.1.restarted = true := by decide

example : (exec init [] [Lab.addFail, Lab.addFail, Lab.updStatus 2, Lab.updStatus 2]).1.cks = [Pc.top] := by
  decide

example : (exec init [] (seqLabs 3 [true, true, false, true, true, true, false])).1.avail = false := by decide
example : (exec init [] (seqLabs 3 [true, true, false, true, true, false])).1.avail = true := by decide

end BfeVerif.C06
