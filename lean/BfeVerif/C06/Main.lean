import BfeVerif.C06.Driver
def main : IO Unit := BfeVerif.Proto.driverMain BfeVerif.C06.run
