import BfeVerif.C06.Model
/-! Lemmas for C06 (core Lean only): the inductive invariant of the health state machine. -/
namespace BfeVerif.C06

/-- every checker of the list has exited -/
def AllDone (l : List Pc) : Prop := ∀ (j : Nat) (q : Pc), l[j]? = some q → q = Pc.done

/-- checker `i` is at `p`, every other checker has exited -/
def OnlyLive (l : List Pc) (i : Nat) (p : Pc) : Prop :=
  l[i]? = some p ∧ ∀ (j : Nat) (q : Pc), l[j]? = some q → j ≠ i → q = Pc.done

theorem onlyLive_set {l : List Pc} {i : Nat} {p : Pc} (p' : Pc) (h : OnlyLive l i p) :
    OnlyLive (l.set i p') i p' := by
  obtain ⟨hi, ho⟩ := h
  have hlt : i < l.length := by
    rcases Nat.lt_or_ge i l.length with h | h
    · exact h
    · rw [List.getElem?_eq_none h] at hi; cases hi
  refine ⟨by simp [List.getElem?_set, hlt], fun j q hj hne => ?_⟩
  rw [List.getElem?_set] at hj
  have : ¬ i = j := fun e => hne e.symm
  simp only [this, if_false] at hj
  exact ho j q hj hne

theorem allDone_set {l : List Pc} {i : Nat} {p : Pc} (h : OnlyLive l i p) :
    AllDone (l.set i Pc.done) := by
  have h' := onlyLive_set Pc.done h
  intro j q hj
  by_cases e : j = i
  · subst e; rw [h'.1] at hj; cases hj; rfl
  · exact h'.2 j q hj e

theorem onlyLive_append {l : List Pc} (q : Pc) (h : AllDone l) : OnlyLive (l ++ [q]) l.length q := by
  refine ⟨by simp, fun j r hj hne => ?_⟩
  rw [List.getElem?_append] at hj
  split at hj
  · exact h j r hj
  · rename_i hge
    have : j - l.length ≠ 0 := by omega
    cases hk : j - l.length with
    | zero => exact absurd hk this
    | succ k => rw [hk] at hj; simp at hj

theorem onlyLive_get {l : List Pc} {i : Nat} {p : Pc} (h : OnlyLive l i p) {j : Nat} {q : Pc}
    (hj : l[j]? = some q) : (j = i ∧ q = p) ∨ q = Pc.done := by
  by_cases e : j = i
  · subst e; rw [h.1] at hj; cases hj; exact Or.inl ⟨rfl, rfl⟩
  · exact Or.inr (h.2 j q hj e)

/-- what must hold of the counters when the live checker sits at a given pc
    (`sn` = succNum, `run` = healthRun of the history, `ht` = healthTh of the history) -/
def PcOk (closed : Bool) (sn run : Int) (ht : Option Int) : Pc → Prop
  | .top => closed = true ∨ sn = run
  | .conn => sn = run
  | .afterFail => run = 0
  | .afterSucc t => sn + 1 = run ∧ ht = some t
  | .chk t => sn = run ∧ ht = some t
  | .setRestart => sn = 0 ∧ ∃ t, ht = some t ∧ t ≤ run
  | .setAvail => sn = 0 ∧ ∃ t, ht = some t ∧ t ≤ run
  | .done => True

/-- the inductive invariant, as a case distinction "no live checker" / "exactly one live checker" -/
structure Inv (s : St) (evs : List Ev) : Prop where
  fail : s.failNum = consecFails evs
  rel : s.closed = true → connSince evs ≤ 1
  cases :
    (AllDone s.cks ∧ (s.avail = false → s.closed = true) ∧ (s.closed = true ∨ s.succNum = 0)) ∨
    (∃ (i : Nat) (p : Pc), OnlyLive s.cks i p ∧ p ≠ Pc.done ∧ s.avail = false ∧
        PcOk s.closed s.succNum (healthRun evs) (healthTh evs) p ∧
        (s.closed = true → p = Pc.conn → connSince evs = 0))

theorem inv_init : Inv init [] := by
  refine ⟨rfl, by simp [init], Or.inl ⟨?_, by simp [init], by simp [init]⟩⟩
  intro j q hj; simp [init] at hj

/-- a step that changes neither the checker list nor any of the quantities the invariant reads -/
theorem inv_same {s s' : St} {evs : List Ev} {e : Ev} (h : Inv s evs)
    (hc : s'.cks = s.cks) (ha : s'.avail = s.avail) (hcl : s'.closed = s.closed) (hs : s'.succNum = s.succNum)
    (hf : s'.failNum = consecFails (e :: evs))
    (hr : healthRun (e :: evs) = healthRun evs) (ht : healthTh (e :: evs) = healthTh evs)
    (hcs : connSince (e :: evs) = connSince evs) : Inv s' (e :: evs) := by
  obtain ⟨_, hrel, hcase⟩ := h
  refine ⟨hf, by rw [hcl, hcs]; exact hrel, ?_⟩
  rw [hc, ha, hcl, hs, hr, ht, hcs]; exact hcase

theorem inv_step (s : St) (evs : List Ev) (l : Lab) (h : Inv s evs) :
    Inv (step s l).1 ((step s l).2 :: evs) := by
  cases l with
  | addFail =>
    exact inv_same h rfl rfl rfl rfl (by simp [step, consecFails, h.fail]) rfl rfl rfl
  | resetFail =>
    exact inv_same h rfl rfl rfl rfl (by simp [step, consecFails]) rfl rfl rfl
  | release =>
    by_cases hc : s.closed = true
    · simp only [step, hc, if_true]
      exact inv_same h rfl rfl rfl rfl (by simp [consecFails, h.fail]) rfl rfl rfl
    · simp only [step, hc]
      obtain ⟨hf, hrel, hcase⟩ := h
      refine ⟨by simp [consecFails, hf], by simp [connSince], ?_⟩
      rcases hcase with ⟨had, _, _⟩ | ⟨i, p, hol, hlive, hav, hpc, _⟩
      · exact Or.inl ⟨had, by simp, by simp⟩
      · refine Or.inr ⟨i, p, hol, hlive, hav, ?_, by simp [connSince]⟩
        cases p <;> simp_all [PcOk, healthRun, healthTh]
  | updStatus th =>
    by_cases hth : s.failNum ≥ th
    · by_cases hav : s.avail = true
      · simp only [step, hth, hav, if_true]
        obtain ⟨hf, hrel, hcase⟩ := h
        refine ⟨by simp [consecFails, hf], by simpa [connSince] using hrel, ?_⟩
        rcases hcase with ⟨had, _, hsn⟩ | ⟨i, p, _, _, hav', _, _⟩
        · refine Or.inr ⟨s.cks.length, Pc.top, onlyLive_append _ had, by simp, rfl, ?_, by simp⟩
          simp only [PcOk, healthRun]
          exact hsn
        · rw [hav] at hav'; cases hav'
      · simp only [step, hth, hav]
        exact inv_same h rfl rfl rfl rfl (by simp [consecFails, h.fail]) rfl rfl rfl
    · simp only [step, hth]
      exact inv_same h rfl rfl rfl rfl (by simp [consecFails, h.fail]) rfl rfl rfl
  | ck i ok th =>
    have hnoop : ∀ {e : Ev}, e = Ev.internal → Inv s (e :: evs) := fun he => by
      subst he
      exact inv_same h rfl rfl rfl rfl (by simp [consecFails, h.fail]) rfl rfl rfl
    simp only [step, stepCk]
    cases hi : s.cks[i]? with
    | none => exact hnoop rfl
    | some pc =>
      obtain ⟨hf, hrel, hcase⟩ := h
      rcases hcase with ⟨had, _, _⟩ | ⟨i0, p, hol, hlive, hav, hpc, hconn⟩
      · have := had i pc hi
        subst this
        exact hnoop rfl
      · rcases onlyLive_get hol hi with ⟨rfl, rfl⟩ | hd
        · -- the live checker moves
          have hset := fun p' => onlyLive_set p' hol
          have hdone := allDone_set hol
          cases pc with
          | done => exact absurd rfl hlive
          | top =>
            by_cases hc : s.closed = true
            · simp only [hc, if_true]
              exact ⟨by simp [consecFails, hf], fun _ => by simpa [connSince] using hrel hc,
                Or.inl ⟨hdone, fun _ => by trivial, Or.inl (by trivial)⟩⟩
            · simp only [hc]
              refine ⟨by simp [consecFails, hf], by simpa [connSince] using hrel,
                Or.inr ⟨i, Pc.conn, hset _, by simp, hav, ?_, by simp [hc]⟩⟩
              simp only [PcOk, healthRun, healthTh] at hpc ⊢
              rcases hpc with hpc | hpc
              · exact absurd hpc hc
              · exact hpc
          | conn =>
            cases ok with
            | true =>
              simp only [if_true]
              refine ⟨by simp [consecFails, hf], ?_, Or.inr ⟨i, Pc.afterSucc th, hset _, by simp, hav, ?_, by simp⟩⟩
              · intro hc; have := hconn hc rfl; simp [connSince, this]
              · simp only [PcOk, healthRun, healthTh] at hpc ⊢
                exact ⟨by omega, by trivial⟩
            | false =>
              simp only [Bool.false_eq_true, if_false]
              refine ⟨by simp [consecFails, hf], ?_, Or.inr ⟨i, Pc.afterFail, hset _, by simp, hav, ?_, by simp⟩⟩
              · intro hc; have := hconn hc rfl; simp [connSince, this]
              · simp [PcOk, healthRun]
          | afterFail =>
            refine ⟨by simp [consecFails, hf], by simpa [connSince] using hrel,
              Or.inr ⟨i, Pc.top, hset _, by simp, hav, ?_, by simp⟩⟩
            simp only [PcOk, healthRun, healthTh] at hpc ⊢
            exact Or.inr hpc.symm
          | afterSucc t =>
            refine ⟨by simp [consecFails, hf], by simpa [connSince] using hrel,
              Or.inr ⟨i, Pc.chk t, hset _, by simp, hav, ?_, by simp⟩⟩
            simp only [PcOk, healthRun, healthTh] at hpc ⊢
            exact hpc
          | chk t =>
            by_cases hge : s.succNum ≥ t
            · simp only [hge, if_true]
              refine ⟨by simp [consecFails, hf], by simpa [connSince] using hrel,
                Or.inr ⟨i, Pc.setRestart, hset _, by simp, hav, ?_, by simp⟩⟩
              simp only [PcOk, healthRun, healthTh] at hpc ⊢
              exact ⟨by trivial, t, hpc.2, by omega⟩
            · simp only [hge]
              refine ⟨by simp [consecFails, hf], by simpa [connSince] using hrel,
                Or.inr ⟨i, Pc.top, hset _, by simp, hav, ?_, by simp⟩⟩
              simp only [PcOk, healthRun, healthTh] at hpc ⊢
              exact Or.inr hpc.1
          | setRestart =>
            refine ⟨by simp [consecFails, hf], by simpa [connSince] using hrel,
              Or.inr ⟨i, Pc.setAvail, hset _, by simp, hav, ?_, by simp⟩⟩
            simp only [PcOk, healthRun, healthTh] at hpc ⊢
            exact hpc
          | setAvail =>
            refine ⟨by simp [consecFails], by simpa [connSince] using hrel,
              Or.inl ⟨hdone, by simp, Or.inr ?_⟩⟩
            simp only [PcOk] at hpc
            exact hpc.1
        · subst hd
          have hcase : Inv s evs := ⟨hf, hrel, Or.inr ⟨i0, p, hol, hlive, hav, hpc, hconn⟩⟩
          exact inv_same hcase rfl rfl rfl rfl (by simp [consecFails, hf]) rfl rfl rfl

theorem inv_of_reach {s : St} {evs : List Ev} (h : Reach s evs) : Inv s evs := by
  induction h with
  | init => exact inv_init
  | step l _ ih => exact inv_step _ _ l ih

theorem reach_exec {s : St} {evs : List Ev} (h : Reach s evs) (ls : List Lab) :
    Reach (exec s evs ls).1 (exec s evs ls).2 := by
  induction ls generalizing s evs with
  | nil => exact h
  | cons l ls ih => exact ih (Reach.step l h)

theorem liveCount_allDone {l : List Pc} (h : AllDone l) : (l.filter live).length = 0 := by
  induction l with
  | nil => rfl
  | cons a t ih =>
    have ha : a = Pc.done := h 0 a rfl
    have ht : AllDone t := fun j q hj => h (j + 1) q (by simpa using hj)
    subst ha
    simp [List.filter, live, ih ht]

theorem liveCount_onlyLive {l : List Pc} {i : Nat} {p : Pc} (h : OnlyLive l i p) (hp : p ≠ Pc.done) :
    (l.filter live).length = 1 := by
  induction l generalizing i with
  | nil => obtain ⟨hi, _⟩ := h; simp at hi
  | cons a t ih =>
    obtain ⟨hi, ho⟩ := h
    cases i with
    | zero =>
      simp at hi
      subst hi
      have ht : AllDone t := fun j q hj => ho (j + 1) q (by simpa using hj) (by omega)
      have hl : live a = true := by simp [live, hp]
      simp [List.filter, hl, liveCount_allDone ht]
    | succ k =>
      have ha : a = Pc.done := ho 0 a rfl (by omega)
      have ht : OnlyLive t k p := ⟨by simpa using hi, fun j q hj hne => ho (j + 1) q (by simpa using hj) (by omega)⟩
      subst ha
      simp [List.filter, live, ih ht]

end BfeVerif.C06
