/-
  C06 — model of the backend health state machine
  (bfe_balance/backend/bfe_backend.go, bfe_balance/backend/health_check.go).  Core-only.

  Granularity: one mutex-protected method of `BfeBackend` = one atomic step.

    request thread, OnFail:     AddFailNum()                     failNum++
                                UpdateStatus(backend, cluster):  th := *getCheckConf(cluster).FailNum
                                  backend.UpdateStatus(th)       prev := avail
                                                                 if failNum >= th { avail = false; if prev { return true } }
                                                                 return false
                                  if true { go check(backend, cluster) }
    request thread, OnSuccess:  ResetFailNum()                   failNum = 0
    reload:                     Release() = close(closeChan)     (a second close panics)
    checker goroutine `check`:
        loop: select { case <-closeChan: break loop; default: }                      pc top
              checkConf := getCheckConf(cluster)      (th := *checkConf.SuccNum is fixed here)
              ok := CheckConnect(backend, checkConf)                                  pc conn
              if !ok { ResetSuccNum(); sleep; continue }                              pc afterFail
              AddSuccNum()                                                            pc afterSucc th
              if !CheckAvail(th) { sleep; continue }                                  pc chk th
                    CheckAvail: if succNum >= th { succNum = 0; return true }; return false
              SetRestart(true)                                                        pc setRestart
              SetAvail(true)      (avail = true; failNum = 0)                         pc setAvail
              break loop                                                              pc done

  The model does NOT track which request thread is where: any thread may perform `addFail`,
  `updStatus th`, `resetFail`, `release` at any time and in any order, which is a superset of the real
  interleavings (where every `updStatus` follows an `addFail` of the same thread).  Checkers are a list
  of program counters; `updStatus` appends one whenever the real method returns true, so "at most one
  checker" is a theorem, not an assumption of the model.
-/
namespace BfeVerif.C06

/-- program counter of one `check` goroutine -/
inductive Pc
  | top | conn | afterFail | afterSucc (th : Int) | chk (th : Int) | setRestart | setAvail | done
  deriving DecidableEq, Repr

structure St where
  avail : Bool := true
  restarted : Bool := false
  failNum : Int := 0
  succNum : Int := 0
  closed : Bool := false
  cks : List Pc := []
  deriving DecidableEq, Repr

def init : St := {}

/-- labels = atomic steps any thread can take -/
inductive Lab
  | addFail
  | updStatus (th : Int)
  | resetFail
  | release
  /-- checker `i` takes its next atomic step; `ok` (connect outcome) and `th` (the `SuccNum` of the conf
      fetched for this iteration) are consulted only when the checker is at `conn`. -/
  | ck (i : Nat) (ok : Bool) (th : Int)
  deriving DecidableEq, Repr

/-- observable event of one step (what an outside observer / the spec can see) -/
inductive Ev
  | addFail
  | resetFail
  /-- `UpdateStatus(th)` returned `flipped` (true = backend taken out, one checker started) -/
  | upd (th : Int) (flipped : Bool)
  /-- a health-check connect was made by checker `i`, with outcome `ok`, under healthy-threshold `th` -/
  | connect (i : Nat) (ok : Bool) (th : Int)
  /-- `CheckAvail(th)` returned `res` -/
  | chkAvail (i : Nat) (th : Int) (res : Bool)
  /-- `SetAvail(true)` by checker `i` -/
  | setUp (i : Nat)
  /-- checker `i` saw the closed channel and exited -/
  | stopped (i : Nat)
  | released
  /-- close of a closed channel -/
  | panicClose
  | internal
  deriving DecidableEq, Repr

def stepCk (s : St) (i : Nat) (ok : Bool) (th : Int) : St × Ev :=
  match s.cks[i]? with
  | none => (s, .internal)
  | some pc =>
    match pc with
    | .top =>
      if s.closed then ({ s with cks := s.cks.set i .done }, .stopped i)
      else ({ s with cks := s.cks.set i .conn }, .internal)
    | .conn =>
      if ok then ({ s with cks := s.cks.set i (.afterSucc th) }, .connect i true th)
      else ({ s with cks := s.cks.set i .afterFail }, .connect i false th)
    | .afterFail => ({ s with succNum := 0, cks := s.cks.set i .top }, .internal)
    | .afterSucc t => ({ s with succNum := s.succNum + 1, cks := s.cks.set i (.chk t) }, .internal)
    | .chk t =>
      if s.succNum ≥ t then ({ s with succNum := 0, cks := s.cks.set i .setRestart }, .chkAvail i t true)
      else ({ s with cks := s.cks.set i .top }, .chkAvail i t false)
    | .setRestart => ({ s with restarted := true, cks := s.cks.set i .setAvail }, .internal)
    | .setAvail => ({ s with avail := true, failNum := 0, cks := s.cks.set i .done }, .setUp i)
    | .done => (s, .internal)

def step (s : St) : Lab → St × Ev
  | .addFail => ({ s with failNum := s.failNum + 1 }, .addFail)
  | .resetFail => ({ s with failNum := 0 }, .resetFail)
  | .updStatus th =>
    if s.failNum ≥ th then
      if s.avail then ({ s with avail := false, cks := s.cks ++ [.top] }, .upd th true)
      else (s, .upd th false)
    else (s, .upd th false)
  | .release =>
    if s.closed then (s, .panicClose) else ({ s with closed := true }, .released)
  | .ck i ok th => stepCk s i ok th

/-- Reachable (state, event history) pairs; the history is newest-first.  Quantifying over `Reach`
    is quantifying over every interleaving of request threads, reloads and checkers. -/
inductive Reach : St → List Ev → Prop
  | init : Reach init []
  | step {s evs} (l : Lab) : Reach s evs → Reach (step s l).1 ((step s l).2 :: evs)

/-- run a label list (used by the driver) ; history newest-first -/
def exec (s : St) (evs : List Ev) : List Lab → St × List Ev
  | [] => (s, evs)
  | l :: ls => exec (step s l).1 ((step s l).2 :: evs) ls

/-! ### observer-side (spec) functions: computed from the event history only -/

/-- consecutive request failures: `addFail`s since the last request success or the last return to rotation -/
def consecFails : List Ev → Int
  | [] => 0
  | .addFail :: r => consecFails r + 1
  | .resetFail :: _ => 0
  | .setUp _ :: _ => 0
  | _ :: r => consecFails r

/-- consecutive successful health checks of the current outage -/
def healthRun : List Ev → Int
  | [] => 0
  | .connect _ true _ :: r => healthRun r + 1
  | .connect _ false _ :: _ => 0
  | .upd _ true :: _ => 0
  | _ :: r => healthRun r

/-- healthy-threshold in force at the most recent health check -/
def healthTh : List Ev → Option Int
  | [] => none
  | .connect _ _ th :: _ => some th
  | .upd _ true :: _ => none
  | _ :: r => healthTh r

/-- number of health-check connects made since the backend was released -/
def connSince : List Ev → Nat
  | [] => 0
  | .released :: _ => 0
  | .connect _ _ _ :: r => connSince r + 1
  | _ :: r => connSince r

def live (pc : Pc) : Bool := pc != .done

def liveCount (s : St) : Nat := (s.cks.filter live).length

/-! ### sequential request history (one request thread, no checker progress): spec side -/

/-- `true` = request failed.  Spec of "taken out exactly when consecutive failures reach `th`":
    the backend is down after the history iff some run of `th` consecutive failures occurred. -/
def specDownSeq (th : Int) : List Bool → (run : Int) → (down : Bool) → Bool
  | [], _, down => down
  | true :: r, run, down => specDownSeq th r (run + 1) (down || decide (run + 1 ≥ th))
  | false :: r, _, down => specDownSeq th r 0 down

def seqLabs (th : Int) : List Bool → List Lab
  | [] => []
  | true :: r => .addFail :: .updStatus th :: seqLabs th r
  | false :: r => .resetFail :: seqLabs th r

end BfeVerif.C06
