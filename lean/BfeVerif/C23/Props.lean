import BfeVerif.C23.Proofs
/-!
  C23 — chunked transfer coding is decoded exactly.  Property theorems only (lemmas in `Proofs.lean`).

  `decode`      model of bfe's `chunkedReader` (whole stream -> data delivered, final error, unread rest)
  `encode`      model of bfe's `chunkedWriter` (one `Write` per list element, then `Close`)
  `rfcDechunk`  RFC 7230 §4.1 reference decoder (the spec oracle of the driver); `rfcDechunk true` relaxes only
                the line end of size lines to `*(SP/HT/CR) LF`, which is the leniency the reader has
-/
namespace BfeVerif.C23

/-- **size lines are strict**: `parseHexUint` accepts exactly 1..16 hex digits and returns their value as a
    natural number (so no wrap-around of the `uint64`), everything else is an error. -/
theorem C23_size_line_exact (v : Bytes) (n : BitVec 64) :
    parseHexUint v = .ok n ↔
      (1 ≤ v.length ∧ v.length ≤ 16 ∧ (∀ b ∈ v, isHexDig b = true) ∧ n.toNat = hexNat v) :=
  parseHex_exact v n

/-- **round trip**: whatever is written through the chunked writer (any number of writes of any sizes,
    empty writes included) followed by anything else (`rest`: trailer, next message) is read back as
    exactly the concatenation, ends cleanly, and leaves exactly `rest` unread. -/
theorem C23_roundtrip (chunks : List Bytes) (rest : Bytes) (h : ∀ c ∈ chunks, c.length < 2 ^ 64) :
    decode (encode chunks ++ rest) = ⟨chunks.flatten, .eof, rest⟩ :=
  roundtrip_aux chunks _ rest h (by omega)

/-- **soundness**: whenever the reader reports a clean end, the RFC decoder (with the stated size-line
    line-end leniency) accepts the same stream with the same body and the same unread rest.  In particular
    every size line of an accepted stream is 1..16 hex digits, every chunk is followed by CRLF and the
    body ends only at a last-chunk line. -/
theorem C23_sound (s : Bytes) (h : (decode s).err = .eof) :
    rfcDechunk true s = .ok (decode s).body (decode s).rest :=
  sound_aux _ s h _ (by omega)

/-- the leniency only adds: what the strict RFC decoder accepts, the lenient one accepts identically. -/
theorem C23_strict_in_lenient (s b r : Bytes) (h : rfcDechunk false s = .ok b r) :
    rfcDechunk true s = .ok b r :=
  strict_lenient_aux _ s b r h

/-- **strictness, stated on the reader**: if the first line of the (remaining) stream is not 1..16 hex
    digits after trimming, nothing is delivered and the result is an error (never a clean end). -/
theorem C23_bad_size_line_is_error (s line r : Bytes) (hl : readLine s = .ok (line, r))
    (hbad : ¬ (1 ≤ line.length ∧ line.length ≤ 16 ∧ ∀ b ∈ line, isHexDig b = true)) :
    (decode s).err ≠ .eof ∧ (decode s).body = [] := by
  unfold decode
  simp only [decodeAux, hl]
  cases hp : parseHexUint line with
  | error e => exact ⟨parseHexUint_err_ne_eof line e hp, rfl⟩
  | ok n =>
    obtain ⟨h1, h2, h3, _⟩ := (parseHex_exact line n).mp hp
    exact absurd ⟨h1, h2, h3⟩ hbad

/-- **completeness** (no chunk extensions): every stream the STRICT RFC decoder accepts and whose chunk-size
    lines are `1*HEXDIG CRLF` (no chunk-ext; such lines have at most 18 bytes, far below the 4096-byte line
    limit) is accepted by the reader with the same body and the same unread rest.  With `C23_sound` this makes the
    reader exact on that language. -/
theorem C23_accepts_strict (s b r r' : Bytes) (h : rfcDechunk false s = .ok b r)
    (hne : noExtChunks (s.length + 1) s = some r') : decode s = ⟨b, .eof, r⟩ :=
  complete_aux _ s b r h _ r' hne _ (by omega)

/-- **segmentation independence**: `decodeSeg segs` is the chunked reader on a connection whose reads return the
    pieces `segs` one after the other (cuts inside size lines, between CR and LF, inside chunk data, 1-byte pieces,
    empty pieces: any list).  What it delivers, the error it ends with and the bytes it leaves unread are those of
    the whole-stream reader on the concatenation — the result cannot depend on how the bytes arrive.
    (`readLineSeg` / `takeSeg` model ReadSlice / Read / ReadFull filling the buffer piece by piece.) -/
theorem C23_segmentation_independent (segs : List Bytes) : decodeSeg segs = decode segs.flatten := by
  have := decodeSegAux_eq (([] ++ segs.flatten).length + 1) [] segs
  simpa [decodeSeg, decodeSegS, decode] using this

/-- the same with bytes already buffered, as the reader is started by ReadRequest in the middle of a connection -/
theorem C23_segmentation_independent_buf (buf : Bytes) (segs : List Bytes) :
    (decodeSegS buf segs).toRes = decode (buf ++ segs.flatten) :=
  decodeSegAux_eq _ buf segs

/-- the result does not depend on the fuel used by the executable definition -/
theorem C23_fuel_irrelevant (s : Bytes) (f : Nat) (h : s.length < f) : decodeAux f s = decode s :=
  decodeAux_fuel f s _ h (by omega)

/-! ### the former defects (`parseHexUintOld` is the function before the fix), kept as witnesses -/

def w17 : Bytes := [49, 48, 48, 48, 48, 48, 48, 48, 48, 48, 48, 48, 48, 48, 48, 48, 53]

/-- the unfixed `parseHexUint` read the 17 digits `10000000000000005` as 5 … -/
theorem C23_witness_overflow_old : parseHexUintOld w17 = .ok 5 := by rfl
/-- … and an empty size line as 0 (= last chunk). -/
theorem C23_witness_empty_old : parseHexUintOld [] = .ok 0 := by rfl
/-- the fixed function rejects both -/
theorem C23_witness_fixed : parseHexUint w17 = .error .toolarge ∧ parseHexUint [] = .error .empty := by
  constructor <;> rfl

/-! ### non-vacuity -/
-- "5\r\nhello\r\n0\r\n\r\n" : body "hello", rest "\r\n"
example : decode [53, 13, 10, 104, 101, 108, 108, 111, 13, 10, 48, 13, 10, 13, 10] =
    ⟨[104, 101, 108, 108, 111], .eof, [13, 10]⟩ := by decide
-- leniency: "5 \n" size line
example : decode [53, 32, 10, 104, 101, 108, 108, 111, 13, 10, 48, 10] =
    ⟨[104, 101, 108, 108, 111], .eof, []⟩ := by decide
example : rfcDechunk false [53, 32, 10, 104, 101, 108, 108, 111, 13, 10, 48, 10] = .reject "no-crlf" := by decide
-- truncated inside the data: error, not a clean end
example : (decode [53, 13, 10, 104, 101]).err = .ueof := by decide
-- a size line that is not hex (hypothesis of C23_bad_size_line_is_error is satisfiable)
example : readLine [53, 59, 97, 13, 10] = .ok ([53, 59, 97], []) := by rfl

-- hypotheses of C23_accepts_strict are satisfiable ("5\r\nhello\r\n0\r\n\r\n"); a chunk extension is outside
example : noExtChunks 16 [53, 13, 10, 104, 101, 108, 108, 111, 13, 10, 48, 13, 10, 13, 10] = some [13, 10] := by decide
example : rfcDechunk false [53, 13, 10, 104, 101, 108, 108, 111, 13, 10, 48, 13, 10, 13, 10] =
    .ok [104, 101, 108, 108, 111] [13, 10] := by decide
example : noExtChunks 8 [53, 59, 97, 13, 10] = none := by decide

-- "5\r\nhello\r\n0\r\n\r\n" cut inside the size line, between CR and LF, inside the data, with empty pieces
example : decodeSeg [[53], [13], [], [10, 104, 101], [108, 108, 111, 13], [10, 48, 13], [10, 13, 10]] =
    ⟨[104, 101, 108, 108, 111], .eof, [13, 10]⟩ := by decide

end BfeVerif.C23
