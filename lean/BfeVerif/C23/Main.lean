import BfeVerif.C23.Driver
def main : IO Unit := BfeVerif.Proto.driverMain BfeVerif.C23.run
