import BfeVerif.Common.Proto
import BfeVerif.C23.Model
/-!
  C23 driver.
    dec <hex stream> <k>               -> `<err> <consumed|-> <hex body>`
    enc <hex,hex,..|-> <hex rest> <k>  -> `<hex wire> <err> <consumed|-> <hex body>`
    hex <hex>                          -> `ok:<n>` | `<err>`
  The verdict is computed from the implementation's result string and the RFC reference decoder only.
-/
namespace BfeVerif.C23
open BfeVerif.Proto

def renderRes (total : Nat) (r : Res) : String :=
  r.err.name ++ " " ++ (if r.err = .eof then toString (total - r.rest.length) else "-") ++ " " ++ hexField r.body

/-- judge `<err> <consumed> <body>` of the implementation for stream `s` -/
def judgeDec (s : Bytes) (implErr implCons implBody : String) : String × List String :=
  let strict := rfcDechunk false s
  let len := rfcDechunk true s
  let tags0 : List String :=
    (match strict, len with
     | .ok _ _, _ => ["rfc-ok"]
     | .reject _, .ok _ _ => ["rfc-lenient-only"]
     | .reject w, .reject _ => ["rfc-rej-" ++ w])
  if implErr == "eof" then
    match len with
    | .ok body rest =>
      if implBody == hexField body ∧ implCons == toString (s.length - rest.length) then ("ok", tags0)
      else ("FAIL:diff-body", tags0)
    | .reject w =>
      let cls := if w == "size-digits" then "hex-overflow"
                 else if w == "no-size" then "empty-size"
                 else if w == "truncated" then "eof-in-chunk"
                 else "accepts-" ++ w
      ("FAIL:" ++ cls, tags0)
  else
    -- an error is always a safe answer for framing; it must not hide a stream the strict grammar accepts,
    -- except for the two documented restrictions (no chunk extensions, lines < 4096 bytes)
    match strict with
    | .ok _ _ =>
      if implErr == "toolong" then ("ok", tags0 ++ ["rej-long"])
      else if implErr == "badhex" ∧ s.any (fun b => b.toNat = 59) then ("ok", tags0 ++ ["rej-ext"])
      else ("FAIL:rejects-valid", tags0)
    | .reject _ => ("ok", tags0)

def parseChunks (s : String) : Option (List Bytes) :=
  if s == "-" then some []
  else (s.splitOn ",").foldr (fun c acc =>
    match acc with
    | none => none
    | some l => if c == "" then some ([] :: l) else match bytesOfHex c with
      | none => none
      | some b => some (b :: l)) (some [])

def run (op impl : String) : Ans :=
  match op.splitOn " " with
  | ["dec", hx, _k] =>
    match bytesOfHex hx with
    | none => { model := "bad-op", verdict := "skip" }
    | some s =>
      let m := decode s
      let (v, tags) :=
        match impl.splitOn " " with
        | [e, c, b] => judgeDec s e c b
        | _ => ("FAIL:bad-result", [])
      { model := renderRes s.length m, verdict := v,
        tags := ["dec", "err-" ++ m.err.name] ++ tags ++ (if s.any (fun b => b.toNat = 10) then ["nt"] else []) }
  | ["enc", cs, rs, _k] =>
    match parseChunks cs, bytesOfHex rs with
    | some chunks, some rest =>
      let wire := encode chunks
      let s := wire ++ rest
      let m := decode s
      let want := chunks.flatten
      -- spec: the wire is a strict RFC chunked body for exactly the concatenation, and the reader returns it
      let v :=
        match impl.splitOn " " with
        | [w, e, c, b] =>
          match bytesOfHex w with
          | none => "FAIL:bad-result"
          | some iw =>
            match rfcDechunk false (iw ++ rest) with
            | .ok body r2 =>
              if body ≠ want ∨ r2 ≠ rest then "FAIL:encoder-wrong"
              else if e == "eof" ∧ b == hexField want ∧ c == toString iw.length then "ok"
              else "FAIL:roundtrip"
            | .reject _ => "FAIL:encoder-not-rfc"
        | _ => "FAIL:bad-result"
      { model := hexField wire ++ " " ++ renderRes s.length m, verdict := v,
        tags := ["enc", "chunks-" ++ toString (min chunks.length 6)] ++
                (if chunks.any (fun c => c.length ≥ 4096) then ["big"] else []) ++
                (if want.length > 0 then ["nt"] else []) }
    | _, _ => { model := "bad-op", verdict := "skip" }
  | ["hex", hx] =>
    match bytesOfHex hx with
    | none => { model := "bad-op", verdict := "skip" }
    | some v =>
      let m := match parseHexUint v with
        | .ok n => "ok:" ++ toString n.toNat
        | .error e => e.name
      let good := 1 ≤ v.length ∧ v.length ≤ 16 ∧ v.all isHexDig
      let verdict :=
        if good then (if impl == "ok:" ++ toString (hexNat v) then "ok" else "FAIL:hex-value")
        else if impl.startsWith "ok:" then
          (if v.length = 0 then "FAIL:empty-size" else if v.all isHexDig then "FAIL:hex-overflow" else "FAIL:hex-accepts-junk")
        else "ok"
      { model := m, verdict := verdict,
        tags := ["hex", if good then "hex-good" else "hex-bad"] ++ (if v.length ≥ 15 then ["nt"] else []) }
  | _ => { model := "bad-op", verdict := "skip" }

end BfeVerif.C23
