/-
  C23 — model of bfe_http/chunked.go (chunked transfer coding) and the RFC 7230 §4.1 reference
  decoder used as specification.  Core-only.

  Go code mirrored (after the fix recorded in fixes/C23-chunk-size.md):

    func parseHexUint(v []byte) (n uint64, err error) {
        if len(v) == 0 { return 0, "empty hex number for chunk length" }
        for i, b := range v {
            switch { '0'..'9' | 'a'..'f' | 'A'..'F' -> digit value ; default: return 0, "invalid byte in chunk length" }
            if i == 16 { return 0, "http chunk length too large" }
            n <<= 4 ; n |= uint64(b) }
        return }

    readLine:  p, err = b.ReadSlice('\n')          (bufio buffer of 4096 bytes)
               err == EOF -> ErrUnexpectedEOF ; err == ErrBufferFull -> ErrLineTooLong
               len(p) >= maxLineLength -> ErrLineTooLong ; return trimTrailingWhitespace(p)   (SP HT LF CR)

    beginChunk: line = readLine ; n = parseHexUint(line) ; n == 0 -> io.EOF
    Read:       (sticky error) ; n == 0 -> beginChunk ; read <= n bytes ; when the chunk is exhausted read 2 bytes,
                they must be "\r\n" else "malformed chunked encoding" ; an EOF from the underlying reader
                inside a chunk -> ErrUnexpectedEOF  (fix)

    chunkedWriter.Write(data): len(data)==0 -> nothing ; "%x\r\n" data "\r\n" ;  Close: "0\r\n"

  The model is a whole-stream function: it returns everything a caller gets when it calls Read until an
  error is returned (the concatenation of the data, the final error, and — for a clean end — the unread rest of
  the stream).  That the result does not depend on the sizes of the Read buffers / underlying reads is
  exercised by the harness (random schedules), not proved.
-/
namespace BfeVerif.C23

abbrev Bytes := List UInt8

inductive Err where
  | eof | ueof | toolong | badhex | malformed | toolarge | empty
  deriving DecidableEq, Repr

def Err.name : Err → String
  | .eof => "eof" | .ueof => "ueof" | .toolong => "toolong" | .badhex => "badhex"
  | .malformed => "malformed" | .toolarge => "toolarge" | .empty => "empty"

def maxLineLength : Nat := 4096
/-- size of the `bfe_bufio.Reader` buffer (`defaultBufSize`); `ReadSlice` fails once it is full. -/
def bufSize : Nat := 4096

/-- the `switch` of `parseHexUint` -/
def hexDigitVal (b : UInt8) : Option Nat :=
  if 48 ≤ b.toNat ∧ b.toNat ≤ 57 then some (b.toNat - 48)
  else if 97 ≤ b.toNat ∧ b.toNat ≤ 102 then some (b.toNat - 97 + 10)
  else if 65 ≤ b.toNat ∧ b.toNat ≤ 70 then some (b.toNat - 65 + 10)
  else none

def parseHexLoop : Bytes → Nat → BitVec 64 → Except Err (BitVec 64)
  | [], _, n => .ok n
  | b :: rest, i, n =>
    match hexDigitVal b with
    | none => .error .badhex
    | some d =>
      if i = 16 then .error .toolarge
      else parseHexLoop rest (i + 1) ((n <<< 4) ||| BitVec.ofNat 64 d)

def parseHexUint (v : Bytes) : Except Err (BitVec 64) :=
  if v.length = 0 then .error .empty else parseHexLoop v 0 0

/-- `parseHexUint` as it was before the fix (no emptiness / length check, shift before the switch). -/
def parseHexLoopOld : Bytes → BitVec 64 → Except Err (BitVec 64)
  | [], n => .ok n
  | b :: rest, n =>
    match hexDigitVal b with
    | none => .error .badhex
    | some d => parseHexLoopOld rest ((n <<< 4) ||| BitVec.ofNat 64 d)

def parseHexUintOld (v : Bytes) : Except Err (BitVec 64) := parseHexLoopOld v 0

def isSpace (b : UInt8) : Bool := b.toNat = 32 || b.toNat = 9 || b.toNat = 10 || b.toNat = 13

def trimTrailing (l : Bytes) : Bytes := (l.reverse.dropWhile isSpace).reverse

/-- split at the first LF: (bytes before it, bytes after it) -/
def splitLF : Bytes → Option (Bytes × Bytes)
  | [] => none
  | b :: t =>
    if b.toNat = 10 then some ([], t)
    else match splitLF t with
      | none => none
      | some (l, r) => some (b :: l, r)

/-- `readLine`: the line without its LF, trailing white space trimmed, and the rest of the stream. -/
def readLine (s : Bytes) : Except Err (Bytes × Bytes) :=
  match splitLF s with
  | none => if s.length ≥ bufSize then .error .toolong else .error .ueof
  | some (l, r) =>
    if l.length + 1 ≥ maxLineLength then .error .toolong
    else .ok (trimTrailing (l ++ [10]), r)

/-- everything the caller of `Read` sees: data delivered, final error, and (when `err = eof`) the unread rest -/
structure Res where
  body : Bytes
  err : Err
  rest : Bytes
  deriving DecidableEq, Repr

def decodeAux : Nat → Bytes → Res
  | 0, s => ⟨[], .ueof, s⟩
  | fuel + 1, s =>
    match readLine s with
    | .error e => ⟨[], e, []⟩
    | .ok (line, r) =>
      match parseHexUint line with
      | .error e => ⟨[], e, []⟩
      | .ok n =>
        if n.toNat = 0 then ⟨[], .eof, r⟩
        else if r.length < n.toNat then ⟨r, .ueof, []⟩
        else
          match r.drop n.toNat with
          | [] => ⟨r.take n.toNat, .ueof, []⟩
          | [_] => ⟨r.take n.toNat, .ueof, []⟩
          | a :: b :: r' =>
            if a.toNat = 13 ∧ b.toNat = 10 then
              let x := decodeAux fuel r'
              ⟨r.take n.toNat ++ x.body, x.err, x.rest⟩
            else ⟨r.take n.toNat, .malformed, []⟩

/-- every chunk consumes at least its LF, so `length + 1` rounds always suffice (`decodeAux_fuel`). -/
def decode (s : Bytes) : Res := decodeAux (s.length + 1) s

/-! ### the same reader fed by SEGMENTS

  The underlying connection hands the `bfe_bufio.Reader` its bytes in arbitrary pieces (one TCP read each, possibly
  empty).  State: the unread bytes already buffered, and the list of pieces still to come (`[]` = EOF).
  `ReadSlice('\n')` looks in the buffer and fills (appends the next piece) until it finds the LF, meets EOF, or has
  4096 bytes without LF; `Read`/`ReadFull` deliver from the buffer and fill when it is empty.  (The buffer's capacity
  only matters through the two length tests below, which are the ones of `readLine`.) -/

def readLineSeg : Bytes → List Bytes → Except Err (Bytes × Bytes × List Bytes)
  | buf, [] =>
    match readLine buf with
    | .error e => .error e
    | .ok (l, r) => .ok (l, r, [])
  | buf, g :: rest =>
    match splitLF buf with
    | some (l, r) =>
      if l.length + 1 ≥ maxLineLength then .error .toolong
      else .ok (trimTrailing (l ++ [10]), r, g :: rest)
    | none => if buf.length ≥ bufSize then .error .toolong else readLineSeg (buf ++ g) rest

/-- read `n` bytes (fewer at EOF): (data, buffer afterwards, pieces afterwards) -/
def takeSeg : Nat → Bytes → List Bytes → Bytes × Bytes × List Bytes
  | n, buf, [] => (buf.take n, buf.drop n, [])
  | n, buf, g :: rest =>
    if n ≤ buf.length then (buf.take n, buf.drop n, g :: rest)
    else
      let x := takeSeg (n - buf.length) g rest
      (buf ++ x.1, x.2.1, x.2.2)

/-- result of the segmented reader: like `Res`, but the unread rest keeps its shape (buffer, pieces to come) -/
structure ResS where
  body : Bytes
  err : Err
  buf : Bytes
  segs : List Bytes

def ResS.toRes (x : ResS) : Res := ⟨x.body, x.err, x.buf ++ x.segs.flatten⟩

def decodeSegAux : Nat → Bytes → List Bytes → ResS
  | 0, buf, segs => ⟨[], .ueof, buf, segs⟩
  | fuel + 1, buf, segs =>
    match readLineSeg buf segs with
    | .error e => ⟨[], e, [], []⟩
    | .ok (line, b1, s1) =>
      match parseHexUint line with
      | .error e => ⟨[], e, [], []⟩
      | .ok n =>
        if n.toNat = 0 then ⟨[], .eof, b1, s1⟩
        else
          let d := takeSeg n.toNat b1 s1
          if d.1.length < n.toNat then ⟨d.1, .ueof, [], []⟩
          else
            let t := takeSeg 2 d.2.1 d.2.2
            match t.1 with
            | [a, b] =>
              if a.toNat = 13 ∧ b.toNat = 10 then
                let x := decodeSegAux fuel t.2.1 t.2.2
                ⟨d.1 ++ x.body, x.err, x.buf, x.segs⟩
              else ⟨d.1, .malformed, [], []⟩
            | _ => ⟨d.1, .ueof, [], []⟩

/-- the chunked reader on a connection that delivers `segs` one piece per read -/
def decodeSegS (buf : Bytes) (segs : List Bytes) : ResS := decodeSegAux ((buf ++ segs.flatten).length + 1) buf segs

def decodeSeg (segs : List Bytes) : Res := (decodeSegS [] segs).toRes

/-! ### the encoder -/

def hexChar (d : Nat) : UInt8 := if d < 10 then UInt8.ofNat (48 + d) else UInt8.ofNat (87 + d)

/-- Go's `%x` of a non-negative int: lower case, no leading zeros -/
def hexDigits (n : Nat) : Bytes :=
  if _h : n < 16 then [hexChar n] else hexDigits (n / 16) ++ [hexChar (n % 16)]
decreasing_by omega

def crlf : Bytes := [13, 10]

def encChunk (d : Bytes) : Bytes :=
  if d.length = 0 then [] else hexDigits d.length ++ crlf ++ d ++ crlf

/-- `Write` once per element, then `Close` -/
def encode (chunks : List Bytes) : Bytes :=
  (chunks.map encChunk).flatten ++ [48, 13, 10]

/-! ### specification: RFC 7230 §4.1 decoder, written from the grammar

    chunked-body = *chunk last-chunk trailer-part CRLF        (this decoder stops after last-chunk, like the reader;
    chunk        = chunk-size [ chunk-ext ] CRLF chunk-data CRLF      the trailer belongs to C24)
    chunk-size   = 1*HEXDIG            (the property bounds it to 1..16 digits: the value must fit 64 bits)
    last-chunk   = 1*("0") [ chunk-ext ] CRLF
    chunk-ext    = *( ";" chunk-ext-name [ "=" chunk-ext-val ] )    name = token, val = token / quoted-string

  `lenient = true` relaxes exactly one production: the CRLF that ends a size line may be
  `*( SP / HT / CR ) LF`  (trailing blanks, bare LF).  The CRLF after chunk-data is never relaxed. -/

def rfcHexVal (b : UInt8) : Option Nat :=
  if 48 ≤ b.toNat ∧ b.toNat ≤ 57 then some (b.toNat - 48)
  else if 65 ≤ b.toNat ∧ b.toNat ≤ 70 then some (b.toNat - 55)
  else if 97 ≤ b.toNat ∧ b.toNat ≤ 102 then some (b.toNat - 87)
  else none

def isHexDig (b : UInt8) : Bool := (rfcHexVal b).isSome

def hexNat (ds : Bytes) : Nat := ds.foldl (fun a b => a * 16 + (rfcHexVal b).getD 0) 0

def isTchar (b : UInt8) : Bool :=
  let c := b.toNat
  (48 ≤ c && c ≤ 57) || (65 ≤ c && c ≤ 90) || (97 ≤ c && c ≤ 122) ||
  c = 33 || c = 35 || c = 36 || c = 37 || c = 38 || c = 39 || c = 42 || c = 43 || c = 45 || c = 46 ||
  c = 94 || c = 95 || c = 96 || c = 124 || c = 126

/-- quoted-string body after the opening DQUOTE: returns the rest after the closing DQUOTE -/
def skipQuoted : Bytes → Option Bytes
  | [] => none
  | b :: t =>
    if b.toNat = 34 then some t
    else if b.toNat = 92 then
      match t with
      | [] => none
      | q :: t' => if q.toNat = 9 ∨ (32 ≤ q.toNat ∧ q.toNat ≠ 127) then skipQuoted t' else none
    else if b.toNat = 9 ∨ (32 ≤ b.toNat ∧ b.toNat ≠ 127) then skipQuoted t
    else none

/-- `*( ";" token [ "=" ( token / quoted-string ) ] )`; `none` = malformed extension -/
def skipExt : Nat → Bytes → Option Bytes
  | 0, _ => none
  | fuel + 1, s =>
    match s with
    | [] => some []
    | b :: t =>
      if b.toNat ≠ 59 then some s
      else
        let name := t.takeWhile isTchar
        let r := t.dropWhile isTchar
        if name.length = 0 then none
        else match r with
          | [] => some []
          | e :: r' =>
            if e.toNat ≠ 61 then skipExt fuel r
            else match r' with
              | [] => none
              | q :: r'' =>
                if q.toNat = 34 then
                  match skipQuoted r'' with
                  | none => none
                  | some r3 => skipExt fuel r3
                else
                  let v := r'.takeWhile isTchar
                  if v.length = 0 then none else skipExt fuel (r'.dropWhile isTchar)

def isBlankCR (b : UInt8) : Bool := b.toNat = 32 || b.toNat = 9 || b.toNat = 13

/-- the line end of a size line -/
def lineEnd (lenient : Bool) (s : Bytes) : Option Bytes :=
  if lenient then
    match s.dropWhile isBlankCR with
    | b :: r => if b.toNat = 10 then some r else none
    | [] => none
  else
    match s with
    | a :: b :: r => if a.toNat = 13 ∧ b.toNat = 10 then some r else none
    | _ => none

inductive RRes where
  | ok (body rest : Bytes)
  | reject (why : String)
  deriving DecidableEq, Repr

def rfcAux (lenient : Bool) : Nat → Bytes → RRes
  | 0, _ => .reject "fuel"
  | fuel + 1, s =>
    let ds := s.takeWhile isHexDig
    let r := s.dropWhile isHexDig
    if ds.length = 0 then .reject "no-size"
    else if ds.length > 16 then .reject "size-digits"
    else match skipExt (r.length + 1) r with
      | none => .reject "bad-ext"
      | some r1 =>
        match lineEnd lenient r1 with
        | none => .reject "no-crlf"
        | some r2 =>
          let n := hexNat ds
          if n = 0 then .ok [] r2
          else if r2.length < n then .reject "truncated"
          else match r2.drop n with
            | a :: b :: r3 =>
              if a.toNat = 13 ∧ b.toNat = 10 then
                match rfcAux lenient fuel r3 with
                | .ok body rest => .ok (r2.take n ++ body) rest
                | .reject w => .reject w
              else .reject "no-crlf-after-data"
            | _ => .reject "truncated"

def rfcDechunk (lenient : Bool) (s : Bytes) : RRes := rfcAux lenient (s.length + 1) s

/-- "no chunk extensions": walks the chunk-size lines, each must be `1*HEXDIG CRLF` exactly; returns what follows
    the last-chunk line (hypothesis of `C23_accepts_strict`) -/
def noExtChunks : Nat → Bytes → Option Bytes
  | 0, _ => none
  | f + 1, s =>
    match s.dropWhile isHexDig with
    | a :: b :: r2 =>
      if a.toNat = 13 ∧ b.toNat = 10 then
        if hexNat (s.takeWhile isHexDig) = 0 then some r2
        else noExtChunks f (r2.drop (hexNat (s.takeWhile isHexDig) + 2))
      else none
    | _ => none

/-- does some size line (as the RFC decoder walks the stream) carry a chunk extension? (driver tag only) -/
def hasSemicolonLine (s : Bytes) : Bool :=
  match splitLF s with
  | none => s.any (fun b => b.toNat = 59)
  | some (l, _) => l.any (fun b => b.toNat = 59)

end BfeVerif.C23
