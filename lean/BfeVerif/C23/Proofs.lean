import BfeVerif.C23.Model
/-! Lemmas for C23 (core Lean only). -/
namespace BfeVerif.C23

/-! ### generic list lemmas -/

theorem dropWhile_append_all {α} (p : α → Bool) (a b : List α) (h : ∀ x ∈ a, p x = true) :
    (a ++ b).dropWhile p = b.dropWhile p := by
  induction a with
  | nil => rfl
  | cons x t ih =>
    have hx := h x (by simp)
    simp only [List.cons_append, List.dropWhile_cons, hx, if_true]
    exact ih (fun y hy => h y (by simp [hy]))

theorem takeWhile_append_stop {α} (p : α → Bool) (a : List α) (x : α) (b : List α)
    (h : ∀ y ∈ a, p y = true) (hx : p x = false) : (a ++ x :: b).takeWhile p = a := by
  induction a with
  | nil => simp [hx]
  | cons y t ih =>
    have hy := h y (by simp)
    simp only [List.cons_append, List.takeWhile_cons, hy, if_true]
    rw [ih (fun z hz => h z (by simp [hz]))]

theorem dropWhile_append_stop {α} (p : α → Bool) (a : List α) (x : α) (b : List α)
    (h : ∀ y ∈ a, p y = true) (hx : p x = false) : (a ++ x :: b).dropWhile p = x :: b := by
  rw [dropWhile_append_all p a _ h]
  simp [hx]

theorem mem_takeWhile_p {α} (p : α → Bool) : ∀ (l : List α) (x : α), x ∈ l.takeWhile p → p x = true := by
  intro l
  induction l with
  | nil => intro x h; simp at h
  | cons y t ih =>
    intro x h
    simp only [List.takeWhile_cons] at h
    by_cases hy : p y = true
    · simp only [hy, if_true] at h
      rcases List.mem_cons.mp h with rfl | h
      · exact hy
      · exact ih x h
    · simp [hy] at h

/-! ### hex digits -/

theorem hexDigitVal_eq (b : UInt8) : hexDigitVal b = rfcHexVal b := by
  unfold hexDigitVal rfcHexVal
  split
  · rfl
  · split
    · have : ¬ (65 ≤ b.toNat ∧ b.toNat ≤ 70) := by omega
      simp only [this, if_false]; congr 1; omega
    · split
      · congr 1; omega
      · rfl

theorem rfcHexVal_lt (b : UInt8) (d : Nat) (h : rfcHexVal b = some d) : d < 16 := by
  unfold rfcHexVal at h
  split at h
  · injection h with h; omega
  · split at h
    · injection h with h; omega
    · split at h
      · injection h with h; omega
      · cases h

theorem isHexDig_iff (b : UInt8) : isHexDig b = true ↔ ∃ d, rfcHexVal b = some d := by
  unfold isHexDig
  cases h : rfcHexVal b <;> simp

/-- one round of `n <<= 4; n |= d` without wrap-around -/
theorem shl4_or (n : BitVec 64) (d : Nat) (hn : n.toNat < 2 ^ 60) (hd : d < 16) :
    ((n <<< 4) ||| BitVec.ofNat 64 d).toNat = n.toNat * 16 + d := by
  rw [BitVec.toNat_or, BitVec.toNat_shiftLeft, BitVec.toNat_ofNat]
  have h1 : n.toNat <<< 4 % 2 ^ 64 = n.toNat <<< 4 := by
    apply Nat.mod_eq_of_lt
    rw [Nat.shiftLeft_eq]; omega
  have h2 : d % 2 ^ 64 = d := Nat.mod_eq_of_lt (by omega)
  rw [h1, h2, ← Nat.shiftLeft_add_eq_or_of_lt (by omega : d < 2 ^ 4), Nat.shiftLeft_eq]

def hexStep (a : Nat) (b : UInt8) : Nat := a * 16 + (rfcHexVal b).getD 0

theorem hexNat_eq (v : Bytes) : hexNat v = v.foldl hexStep 0 := rfl

theorem pow16_le (i j : Nat) (h : i ≤ j) : 16 ^ i ≤ 16 ^ j := Nat.pow_le_pow_right (by omega) h

theorem loop_ok : ∀ (v : Bytes) (i : Nat) (n : BitVec 64), i + v.length ≤ 16 → n.toNat < 16 ^ i →
    (∀ b ∈ v, isHexDig b = true) →
    parseHexLoop v i n = .ok (BitVec.ofNat 64 (v.foldl hexStep n.toNat)) ∧
      v.foldl hexStep n.toNat < 16 ^ (i + v.length) := by
  intro v
  induction v with
  | nil =>
    intro i n _ hn _
    simp only [parseHexLoop, List.foldl_nil, List.length_nil, Nat.add_zero]
    exact ⟨by rw [BitVec.ofNat_toNat]; simp, hn⟩
  | cons b t ih =>
    intro i n hlen hn hall
    have hb := hall b (by simp)
    obtain ⟨d, hd⟩ := (isHexDig_iff b).mp hb
    have hd16 := rfcHexVal_lt b d hd
    simp only [List.length_cons] at hlen
    have hi : i ≠ 16 := by omega
    have h60 : n.toNat < 2 ^ 60 := by
      have : 16 ^ i ≤ 16 ^ 15 := pow16_le i 15 (by omega)
      have e : (16 : Nat) ^ 15 = 2 ^ 60 := by decide
      omega
    have hstep := shl4_or n d h60 hd16
    have hlt : ((n <<< 4) ||| BitVec.ofNat 64 d).toNat < 16 ^ (i + 1) := by
      rw [hstep, Nat.pow_succ]; omega
    have := ih (i + 1) ((n <<< 4) ||| BitVec.ofNat 64 d) (by omega) hlt
      (fun y hy => hall y (by simp [hy]))
    simp only [parseHexLoop, hexDigitVal_eq, hd, hi, if_false, List.foldl_cons, List.length_cons]
    rw [hstep] at this
    have e : hexStep n.toNat b = n.toNat * 16 + d := by simp [hexStep, hd]
    rw [e]
    refine ⟨this.1, ?_⟩
    have := this.2
    rw [show i + 1 + t.length = i + (t.length + 1) by omega] at this
    exact this

theorem loop_ok_inv : ∀ (v : Bytes) (i : Nat) (n m : BitVec 64), parseHexLoop v i n = .ok m →
    (∀ b ∈ v, isHexDig b = true) ∧ (i ≤ 16 → i + v.length ≤ 16) := by
  intro v
  induction v with
  | nil => intro i n m _; simp
  | cons b t ih =>
    intro i n m h
    simp only [parseHexLoop, hexDigitVal_eq] at h
    cases hd : rfcHexVal b with
    | none => simp [hd] at h
    | some d =>
      simp only [hd] at h
      by_cases hi : i = 16
      · simp [hi] at h
      · simp only [hi, if_false] at h
        have := ih (i + 1) _ m h
        refine ⟨?_, ?_⟩
        · intro y hy
          rcases List.mem_cons.mp hy with rfl | hy
          · exact (isHexDig_iff _).mpr ⟨d, hd⟩
          · exact this.1 y hy
        · intro hle
          have := this.2 (by omega)
          simp only [List.length_cons]; omega

theorem hexNat_lt (v : Bytes) (hlen : v.length ≤ 16) (hall : ∀ b ∈ v, isHexDig b = true) :
    hexNat v < 2 ^ 64 := by
  have := (loop_ok v 0 0 (by omega) (by simp) hall).2
  have e : (0 : BitVec 64).toNat = 0 := rfl
  rw [e] at this
  have h2 : 16 ^ (0 + v.length) ≤ 16 ^ 16 := pow16_le _ _ (by omega)
  have e2 : (16 : Nat) ^ 16 = 2 ^ 64 := by decide
  rw [hexNat_eq]; omega

/-- `parseHexUint` accepts exactly 1..16 hex digits and returns their value (no wrap-around). -/
theorem parseHex_exact (v : Bytes) (n : BitVec 64) :
    parseHexUint v = .ok n ↔
      (1 ≤ v.length ∧ v.length ≤ 16 ∧ (∀ b ∈ v, isHexDig b = true) ∧ n.toNat = hexNat v) := by
  unfold parseHexUint
  constructor
  · intro h
    by_cases h0 : v.length = 0
    · simp [h0] at h
    · simp only [h0, if_false] at h
      have hinv := loop_ok_inv v 0 0 n h
      have hlen := hinv.2 (by omega)
      have hok := (loop_ok v 0 0 (by omega) (by simp) hinv.1).1
      rw [hok] at h
      injection h with h
      refine ⟨by omega, by omega, hinv.1, ?_⟩
      rw [← h, BitVec.toNat_ofNat]
      have e : (0 : BitVec 64).toNat = 0 := rfl
      rw [e, ← hexNat_eq]
      exact Nat.mod_eq_of_lt (hexNat_lt v (by omega) hinv.1)
  · rintro ⟨h1, h16, hall, hn⟩
    have h0 : ¬ v.length = 0 := by omega
    simp only [h0, if_false]
    rw [(loop_ok v 0 0 (by omega) (by simp) hall).1]
    congr 1
    apply BitVec.eq_of_toNat_eq
    rw [BitVec.toNat_ofNat, hn]
    have e : (0 : BitVec 64).toNat = 0 := rfl
    rw [e, ← hexNat_eq]
    exact Nat.mod_eq_of_lt (hexNat_lt v h16 hall)

/-! ### lines -/

theorem splitLF_spec : ∀ (s l r : Bytes), splitLF s = some (l, r) →
    s = l ++ 10 :: r ∧ ∀ b ∈ l, b.toNat ≠ 10 := by
  intro s
  induction s with
  | nil => intro l r h; simp [splitLF] at h
  | cons b t ih =>
    intro l r h
    simp only [splitLF] at h
    by_cases hb : b.toNat = 10
    · simp only [hb, if_true] at h
      injection h with h; injection h with h1 h2
      subst h1; subst h2
      have : b = 10 := UInt8.toNat_inj.mp (by simpa using hb)
      simp [this]
    · simp only [hb, if_false] at h
      cases hs : splitLF t with
      | none => simp [hs] at h
      | some p =>
        obtain ⟨l', r'⟩ := p
        simp only [hs] at h
        injection h with h; injection h with h1 h2
        subst h1; subst h2
        have := ih l' r' hs
        refine ⟨by rw [this.1]; simp, ?_⟩
        intro y hy
        rcases List.mem_cons.mp hy with rfl | hy
        · exact hb
        · exact this.2 y hy

theorem splitLF_append : ∀ (l : Bytes) (r : Bytes), (∀ b ∈ l, b.toNat ≠ 10) →
    splitLF (l ++ 10 :: r) = some (l, r) := by
  intro l
  induction l with
  | nil => intro r _; simp [splitLF]
  | cons b t ih =>
    intro r h
    have hb := h b (by simp)
    simp only [List.cons_append, splitLF, hb, if_false]
    rw [ih r (fun y hy => h y (by simp [hy]))]

theorem splitLF_length (s l r : Bytes) (h : splitLF s = some (l, r)) : r.length < s.length := by
  have := (splitLF_spec s l r h).1
  rw [this]; simp; omega

theorem trimTrailing_append (l ws : Bytes) (hws : ∀ b ∈ ws, isSpace b = true)
    (hl : ∀ x, l.getLast? = some x → isSpace x = false) : trimTrailing (l ++ ws) = l := by
  unfold trimTrailing
  rw [List.reverse_append, dropWhile_append_all isSpace _ _ (by simpa using hws)]
  cases hr : l.reverse with
  | nil =>
    have : l = [] := by simpa using hr
    simp [this]
  | cons x t =>
    have hx : l.getLast? = some x := by
      rw [List.getLast?_eq_head?_reverse, hr]; rfl
    have := hl x hx
    simp only [List.dropWhile_cons, this]
    rw [← hr]; simp

/-- what `trimTrailing` removes is white space -/
theorem trimTrailing_decomp (l : Bytes) :
    ∃ ws, l = trimTrailing l ++ ws ∧ ∀ b ∈ ws, isSpace b = true := by
  refine ⟨(l.reverse.takeWhile isSpace).reverse, ?_, ?_⟩
  · unfold trimTrailing
    rw [← List.reverse_append, List.takeWhile_append_dropWhile, List.reverse_reverse]
  · intro b hb
    have hb' : b ∈ l.reverse.takeWhile isSpace := by simpa using hb
    exact mem_takeWhile_p isSpace _ b hb'

theorem isHexDig_not_space (b : UInt8) (h : isHexDig b = true) : isSpace b = false := by
  obtain ⟨d, hd⟩ := (isHexDig_iff b).mp h
  unfold rfcHexVal at hd
  unfold isSpace
  split at hd
  · simp; omega
  · split at hd
    · simp; omega
    · split at hd
      · simp; omega
      · cases hd

theorem isHexDig_not_lf (b : UInt8) (h : isHexDig b = true) : b.toNat ≠ 10 := by
  have := isHexDig_not_space b h
  unfold isSpace at this
  simp at this
  omega

/-! ### fuel -/

theorem decodeAux_fuel : ∀ (f1 : Nat) (s : Bytes) (f2 : Nat), s.length < f1 → s.length < f2 →
    decodeAux f1 s = decodeAux f2 s := by
  intro f1
  induction f1 with
  | zero => intro s f2 h; omega
  | succ f ih =>
    intro s f2 h1 h2
    cases f2 with
    | zero => omega
    | succ g =>
      simp only [decodeAux]
      cases hrl : readLine s with
      | error e => rfl
      | ok p =>
        obtain ⟨line, r⟩ := p
        simp only []
        cases hp : parseHexUint line with
        | error e => rfl
        | ok n =>
          simp only []
          have hr : r.length < s.length := by
            unfold readLine at hrl
            cases hs : splitLF s with
            | none => simp [hs] at hrl; split at hrl <;> cases hrl
            | some q =>
              obtain ⟨l, r0⟩ := q
              simp only [hs] at hrl
              split at hrl
              · cases hrl
              · injection hrl with hrl; injection hrl with _ h2'
                subst h2'; exact splitLF_length s l r0 hs
          split
          · rfl
          · split
            · rfl
            · split
              · rfl
              · rfl
              · rename_i a b r' hd
                have hlen : r'.length < r.length := by
                  have := congrArg List.length hd
                  simp at this; omega
                rw [ih r' g (by omega) (by omega)]

/-! ### the size line, as the RFC decoder sees it -/

theorem readLine_ok (s line r : Bytes) (h : readLine s = .ok (line, r)) :
    ∃ l, splitLF s = some (l, r) ∧ line = trimTrailing (l ++ [10]) ∧ l.length + 1 < maxLineLength := by
  unfold readLine at h
  cases hs : splitLF s with
  | none => simp only [hs] at h; split at h <;> cases h
  | some q =>
    obtain ⟨l, r0⟩ := q
    simp only [hs] at h
    split at h
    · cases h
    · rename_i hlt
      injection h with h; injection h with h1 h2
      subst h2
      exact ⟨l, rfl, h1.symm, by omega⟩

theorem sizeLine_shape (s line r : Bytes) (n : BitVec 64) (h : readLine s = .ok (line, r))
    (hp : parseHexUint line = .ok n) :
    ∃ ws, s = line ++ ws ++ 10 :: r ∧ (∀ b ∈ ws, isBlankCR b = true) := by
  obtain ⟨l, hs, hline, _⟩ := readLine_ok s line r h
  obtain ⟨hs1, hs2⟩ := splitLF_spec s l r hs
  obtain ⟨h1, _, hall, _⟩ := (parseHex_exact line n).mp hp
  obtain ⟨ws', hd, hws'⟩ := trimTrailing_decomp (l ++ [10])
  rw [← hline] at hd
  have hne : ws' ≠ [] := by
    intro he
    rw [he, List.append_nil] at hd
    have : (10 : UInt8) ∈ line := by rw [← hd]; simp
    have := hall 10 this
    revert this; decide
  obtain ⟨ws, x, hx⟩ : ∃ ws x, ws' = ws ++ [x] := by
    refine ⟨ws'.dropLast, ws'.getLast hne, ?_⟩
    exact (List.dropLast_concat_getLast hne).symm
  rw [hx, ← List.append_assoc] at hd
  have hinj := List.append_inj' hd (by simp)
  have hl : l = line ++ ws := hinj.1
  refine ⟨ws, by rw [hs1, hl], ?_⟩
  intro b hb
  have hsp := hws' b (by rw [hx]; simp [hb])
  have hlf := hs2 b (by rw [hl]; simp [hb])
  unfold isSpace at hsp
  unfold isBlankCR
  simp at hsp ⊢
  omega

theorem isBlankCR_not_hex (b : UInt8) (h : isBlankCR b = true) : isHexDig b = false := by
  unfold isBlankCR at h
  unfold isHexDig rfcHexVal
  simp at h
  have h1 : ¬ (48 ≤ b.toNat ∧ b.toNat ≤ 57) := by omega
  have h2 : ¬ (65 ≤ b.toNat ∧ b.toNat ≤ 70) := by omega
  have h3 : ¬ (97 ≤ b.toNat ∧ b.toNat ≤ 102) := by omega
  simp [h1, h2, h3]

theorem take_drop_hex (line ws r : Bytes) (hall : ∀ b ∈ line, isHexDig b = true)
    (hws : ∀ b ∈ ws, isBlankCR b = true) :
    (line ++ ws ++ 10 :: r).takeWhile isHexDig = line ∧
    (line ++ ws ++ 10 :: r).dropWhile isHexDig = ws ++ 10 :: r := by
  rw [List.append_assoc]
  cases ws with
  | nil =>
    exact ⟨takeWhile_append_stop _ _ _ _ hall (by decide), dropWhile_append_stop _ _ _ _ hall (by decide)⟩
  | cons w t =>
    have hw := isBlankCR_not_hex w (hws w (by simp))
    exact ⟨takeWhile_append_stop _ _ _ _ hall hw, dropWhile_append_stop _ _ _ _ hall hw⟩

theorem skipExt_noext (ws r : Bytes) (hws : ∀ b ∈ ws, isBlankCR b = true) (f : Nat) :
    skipExt (f + 1) (ws ++ 10 :: r) = some (ws ++ 10 :: r) := by
  cases ws with
  | nil => simp [skipExt]
  | cons w t =>
    have hw := hws w (by simp)
    have : w.toNat ≠ 59 := by
      unfold isBlankCR at hw; simp at hw; omega
    simp [skipExt, this]

theorem lineEnd_lenient (ws r : Bytes) (hws : ∀ b ∈ ws, isBlankCR b = true) :
    lineEnd true (ws ++ 10 :: r) = some r := by
  unfold lineEnd
  simp only [if_true]
  rw [dropWhile_append_stop isBlankCR ws 10 r hws (by decide)]
  simp

theorem readLine_err_ne_eof (s : Bytes) (e : Err) (h : readLine s = .error e) : e ≠ .eof := by
  unfold readLine at h
  split at h
  · split at h <;> (injection h with h; subst h; decide)
  · split at h
    · injection h with h; subst h; decide
    · cases h

theorem parseHexLoop_err_ne_eof : ∀ (v : Bytes) (i : Nat) (n : BitVec 64) (e : Err),
    parseHexLoop v i n = .error e → e ≠ .eof := by
  intro v
  induction v with
  | nil => intro i n e h; simp [parseHexLoop] at h
  | cons b t ih =>
    intro i n e h
    simp only [parseHexLoop] at h
    split at h
    · injection h with h; subst h; decide
    · split at h
      · injection h with h; subst h; decide
      · exact ih _ _ _ h

theorem parseHexUint_err_ne_eof (v : Bytes) (e : Err) (h : parseHexUint v = .error e) : e ≠ .eof := by
  unfold parseHexUint at h
  split at h
  · injection h with h; subst h; decide
  · exact parseHexLoop_err_ne_eof _ _ _ _ h

/-- soundness w.r.t. the (line-end lenient) RFC decoder, for any sufficient fuel -/
theorem sound_aux : ∀ (f : Nat) (s : Bytes), (decodeAux f s).err = .eof →
    ∀ f2, s.length < f2 → rfcAux true f2 s = .ok (decodeAux f s).body (decodeAux f s).rest := by
  intro f
  induction f with
  | zero => intro s h; simp [decodeAux] at h
  | succ f ih =>
    intro s h f2 hf2
    cases f2 with
    | zero => omega
    | succ g =>
      simp only [decodeAux] at h ⊢
      cases hrl : readLine s with
      | error e =>
        simp only [hrl] at h
        exact absurd h (readLine_err_ne_eof s e hrl)
      | ok p =>
        obtain ⟨line, r⟩ := p
        simp only [hrl] at h ⊢
        cases hp : parseHexUint line with
        | error e =>
          simp only [hp] at h
          exact absurd h (parseHexUint_err_ne_eof line e hp)
        | ok n =>
          simp only [hp] at h ⊢
          obtain ⟨ws, hs, hws⟩ := sizeLine_shape s line r n hrl hp
          obtain ⟨h1, h16, hall, hn⟩ := (parseHex_exact line n).mp hp
          obtain ⟨htk, hdr⟩ := take_drop_hex line ws r hall hws
          have hl0 : ¬ line.length = 0 := by omega
          have hl16 : ¬ line.length > 16 := by omega
          have hrlen : r.length + 2 ≤ s.length := by rw [hs]; simp; omega
          rw [rfcAux]
          simp only [← hs] at htk hdr
          simp only [htk, hdr, hl0, hl16, if_false, List.length_append, List.length_cons,
            skipExt_noext ws r hws, lineEnd_lenient ws r hws, ← hn]
          by_cases hz : n.toNat = 0
          · simp only [hz, if_true] at h ⊢
          · simp only [hz, if_false] at h ⊢
            by_cases hlt : r.length < n.toNat
            · simp only [hlt, if_true] at h
              cases h
            · simp only [hlt, if_false] at h ⊢
              cases hd : r.drop n.toNat with
              | nil => simp only [hd] at h; cases h
              | cons a t =>
                cases t with
                | nil => simp only [hd] at h; cases h
                | cons b r' =>
                  simp only [hd] at h ⊢
                  by_cases hc : a.toNat = 13 ∧ b.toNat = 10
                  · simp only [hc, and_self, if_true] at h ⊢
                    have hlen : r'.length + 2 ≤ r.length := by
                      have := congrArg List.length hd
                      simp at this; omega
                    rw [ih r' h g (by omega)]
                  · simp only [hc, if_false] at h
                    cases h

/-! ### strict ⊆ lenient -/

theorem lineEnd_strict_lenient (x r : Bytes) (h : lineEnd false x = some r) : lineEnd true x = some r := by
  unfold lineEnd at h
  simp only [Bool.false_eq_true, if_false] at h
  match x, h with
  | a :: b :: t, h =>
    by_cases hc : a.toNat = 13 ∧ b.toNat = 10
    · simp only [hc, and_self, if_true] at h
      injection h with h; subst h
      have ha : isBlankCR a = true := by unfold isBlankCR; simp [hc.1]
      have hb : isBlankCR b = false := by unfold isBlankCR; simp [hc.2]
      unfold lineEnd
      simp [ha, hb, hc.2]
    · simp only [hc, if_false] at h; cases h

theorem strict_lenient_aux : ∀ (f : Nat) (s b r : Bytes), rfcAux false f s = .ok b r →
    rfcAux true f s = .ok b r := by
  intro f
  induction f with
  | zero => intro s b r h; simp [rfcAux] at h
  | succ f ih =>
    intro s b r h
    rw [rfcAux] at h ⊢
    simp only [] at h ⊢
    split at h
    · cases h
    · rename_i h0
      simp only [h0, if_false]
      split at h
      · cases h
      · rename_i h16
        simp only [h16, if_false]
        cases hse : skipExt ((s.dropWhile isHexDig).length + 1) (s.dropWhile isHexDig) with
        | none => simp only [hse] at h; cases h
        | some r1 =>
          simp only [hse] at h ⊢
          cases hle : lineEnd false r1 with
          | none => simp only [hle] at h; cases h
          | some r2 =>
            simp only [hle, lineEnd_strict_lenient r1 r2 hle] at h ⊢
            split at h
            · rename_i hz; simp only [hz, if_true]; exact h
            · rename_i hz
              simp only [hz, if_false]
              split at h
              · cases h
              · rename_i hlt
                simp only [hlt, if_false]
                split at h
                · rename_i a c r3 hd
                  split at h
                  · rename_i hc
                    simp only [hc, and_self, if_true]
                    cases hrec : rfcAux false f r3 with
                    | reject w => simp only [hrec] at h; cases h
                    | ok b' r' =>
                      simp only [hrec] at h
                      rw [ih r3 b' r' hrec]
                      exact h
                  · cases h
                · cases h

/-! ### the encoder -/

theorem hexChar_val (d : Nat) (h : d < 16) : rfcHexVal (hexChar d) = some d := by
  have : d = 0 ∨ d = 1 ∨ d = 2 ∨ d = 3 ∨ d = 4 ∨ d = 5 ∨ d = 6 ∨ d = 7 ∨ d = 8 ∨ d = 9 ∨ d = 10 ∨
      d = 11 ∨ d = 12 ∨ d = 13 ∨ d = 14 ∨ d = 15 := by omega
  rcases this with h|h|h|h|h|h|h|h|h|h|h|h|h|h|h|h <;> subst h <;> decide

theorem hexNat_append_one (a : Bytes) (c : UInt8) :
    hexNat (a ++ [c]) = hexNat a * 16 + (rfcHexVal c).getD 0 := by
  simp [hexNat, List.foldl_append]

theorem hexDigits_spec : ∀ n : Nat, (∀ b ∈ hexDigits n, isHexDig b = true) ∧ hexNat (hexDigits n) = n ∧
    hexDigits n ≠ [] ∧ ∀ k, 1 ≤ k → n < 16 ^ k → (hexDigits n).length ≤ k := by
  intro n
  induction n using Nat.strongRecOn with
  | _ n ih =>
    rw [hexDigits]
    by_cases h : n < 16
    · simp only [h, dite_true]
      have hv := hexChar_val n h
      refine ⟨?_, ?_, by simp, ?_⟩
      · intro b hb
        have : b = hexChar n := by simpa using hb
        subst this
        exact (isHexDig_iff _).mpr ⟨n, hv⟩
      · simp [hexNat, hv]
      · intro k hk _; simp; omega
    · simp only [h, dite_false]
      obtain ⟨i1, i2, i3, i4⟩ := ih (n / 16) (by omega)
      have hv := hexChar_val (n % 16) (by omega)
      refine ⟨?_, ?_, by simp, ?_⟩
      · intro b hb
        rcases List.mem_append.mp hb with hb | hb
        · exact i1 b hb
        · have : b = hexChar (n % 16) := by simpa using hb
          subst this
          exact (isHexDig_iff _).mpr ⟨_, hv⟩
      · rw [hexNat_append_one, i2, hv]; simp; omega
      · intro k hk hn
        cases k with
        | zero => omega
        | succ k =>
          have hk1 : 1 ≤ k := by
            cases k with
            | zero => simp at hn; omega
            | succ _ => omega
          have := i4 k hk1 (by rw [Nat.pow_succ] at hn; omega)
          simp; omega

theorem parse_hexDigits (n : Nat) (hn : n < 2 ^ 64) :
    parseHexUint (hexDigits n) = .ok (BitVec.ofNat 64 n) := by
  obtain ⟨h1, h2, h3, h4⟩ := hexDigits_spec n
  have hlen := h4 16 (by omega) (by have e : (16 : Nat) ^ 16 = 2 ^ 64 := by decide
                                    omega)
  rw [parseHex_exact]
  refine ⟨?_, hlen, h1, ?_⟩
  · cases hd : hexDigits n with
    | nil => exact absurd hd h3
    | cons _ _ => simp
  · rw [h2, BitVec.toNat_ofNat]; exact Nat.mod_eq_of_lt hn

theorem readLine_hexDigits (n : Nat) (hn : n < 2 ^ 64) (tail : Bytes) :
    readLine (hexDigits n ++ crlf ++ tail) = .ok (hexDigits n, tail) := by
  obtain ⟨h1, h2, h3, h4⟩ := hexDigits_spec n
  have hlen := h4 16 (by omega) (by have e : (16 : Nat) ^ 16 = 2 ^ 64 := by decide
                                    omega)
  have hsplit : splitLF (hexDigits n ++ crlf ++ tail) = some (hexDigits n ++ [13], tail) := by
    have : hexDigits n ++ crlf ++ tail = (hexDigits n ++ [13]) ++ 10 :: tail := by simp [crlf]
    rw [this]
    apply splitLF_append
    intro b hb
    rcases List.mem_append.mp hb with hb | hb
    · exact isHexDig_not_lf b (h1 b hb)
    · have : b = 13 := by simpa using hb
      subst this; decide
  unfold readLine
  simp only [hsplit]
  have : ¬ ((hexDigits n ++ [13]).length + 1 ≥ maxLineLength) := by
    simp [maxLineLength]; omega
  simp only [this, if_false]
  congr 2
  rw [List.append_assoc]
  apply trimTrailing_append
  · intro b hb
    have : b = 13 ∨ b = 10 := by simpa using hb
    rcases this with rfl | rfl <;> decide
  · intro x hx
    have : x ∈ hexDigits n := List.mem_of_getLast? hx
    exact isHexDig_not_space x (h1 x this)

theorem roundtrip_aux : ∀ (chunks : List Bytes) (fuel : Nat) (rest : Bytes),
    (∀ c ∈ chunks, c.length < 2 ^ 64) → (encode chunks ++ rest).length < fuel →
    decodeAux fuel (encode chunks ++ rest) = ⟨chunks.flatten, .eof, rest⟩ := by
  intro chunks
  induction chunks with
  | nil =>
    intro fuel rest _ hf
    cases fuel with
    | zero => omega
    | succ f =>
      have : encode [] ++ rest = 48 :: 13 :: 10 :: rest := by simp [encode]
      rw [this]
      have hrl : readLine (48 :: 13 :: 10 :: rest) = .ok ([48], rest) := by
        have := readLine_hexDigits 0 (by omega) rest
        have e : hexDigits 0 = [48] := by rw [hexDigits]; simp [hexChar]
        rw [e] at this
        simpa [crlf] using this
      have hp : parseHexUint [48] = .ok 0 := by
        have := parse_hexDigits 0 (by omega)
        have e : hexDigits 0 = [48] := by rw [hexDigits]; simp [hexChar]
        rw [e] at this; exact this
      simp only [decodeAux, hrl, hp]
      rfl
  | cons d cs ih =>
    intro fuel rest hlen hf
    have henc : encode (d :: cs) = encChunk d ++ encode cs := by simp [encode]
    by_cases hd : d.length = 0
    · have hd' : d = [] := List.eq_nil_of_length_eq_zero hd
      have : encChunk d = [] := by simp [encChunk, hd]
      rw [henc, this, List.nil_append] at hf ⊢
      rw [ih fuel rest (fun c hc => hlen c (by simp [hc])) hf, hd']
      simp
    · cases fuel with
      | zero => omega
      | succ f =>
        have hdl := hlen d (by simp)
        have hshape : encode (d :: cs) ++ rest =
            hexDigits d.length ++ crlf ++ (d ++ 13 :: 10 :: (encode cs ++ rest)) := by
          rw [henc]; simp [encChunk, hd, crlf]
        rw [hshape] at hf ⊢
        have hn : (BitVec.ofNat 64 d.length).toNat = d.length := by
          rw [BitVec.toNat_ofNat]; exact Nat.mod_eq_of_lt hdl
        simp only [decodeAux, readLine_hexDigits d.length hdl, parse_hexDigits d.length hdl, hn, hd,
          if_false]
        have h1 : ¬ ((d ++ 13 :: 10 :: (encode cs ++ rest)).length < d.length) := by simp
        simp only [h1, if_false, List.drop_left, List.take_left]
        have h2 : (13 : UInt8).toNat = 13 ∧ (10 : UInt8).toNat = 10 := by decide
        simp only [h2, and_self, if_true]
        rw [ih f rest (fun c hc => hlen c (by simp [hc])) (by simp at hf ⊢; omega)]
        simp

/-! ### completeness: strict RFC streams without chunk extensions are accepted -/

theorem readLine_digits (ds tail : Bytes) (hne : ds ≠ []) (hlen : ds.length ≤ 16)
    (hall : ∀ b ∈ ds, isHexDig b = true) :
    readLine (ds ++ 13 :: 10 :: tail) = .ok (ds, tail) := by
  have hsplit : splitLF (ds ++ 13 :: 10 :: tail) = some (ds ++ [13], tail) := by
    have : ds ++ 13 :: 10 :: tail = (ds ++ [13]) ++ 10 :: tail := by simp
    rw [this]
    apply splitLF_append
    intro b hb
    rcases List.mem_append.mp hb with hb | hb
    · exact isHexDig_not_lf b (hall b hb)
    · have : b = 13 := by simpa using hb
      subst this; decide
  unfold readLine
  simp only [hsplit]
  have : ¬ ((ds ++ [13]).length + 1 ≥ maxLineLength) := by
    simp [maxLineLength]; omega
  simp only [this, if_false]
  congr 2
  rw [List.append_assoc]
  apply trimTrailing_append
  · intro b hb
    have : b = 13 ∨ b = 10 := by simpa using hb
    rcases this with rfl | rfl <;> decide
  · intro x hx
    have : x ∈ ds := List.mem_of_getLast? hx
    exact isHexDig_not_space x (hall x this)

theorem complete_aux : ∀ (f : Nat) (s b r : Bytes), rfcAux false f s = .ok b r →
    ∀ f3 r', noExtChunks f3 s = some r' →
    ∀ f2, s.length < f2 → decodeAux f2 s = ⟨b, .eof, r⟩ := by
  intro f
  induction f with
  | zero => intro s b r h; simp [rfcAux] at h
  | succ f ih =>
    intro s b r h f3 r' hst f2 hf2
    cases f3 with
    | zero => simp [noExtChunks] at hst
    | succ g3 =>
    cases f2 with
    | zero => omega
    | succ g =>
    rw [rfcAux] at h
    rw [noExtChunks] at hst
    simp only [] at h
    have hall : ∀ x ∈ s.takeWhile isHexDig, isHexDig x = true := fun x hx => mem_takeWhile_p _ _ x hx
    cases hdw : s.dropWhile isHexDig with
    | nil => simp [hdw] at hst
    | cons a t =>
      cases t with
      | nil => simp [hdw] at hst
      | cons c r2 =>
        simp only [hdw] at hst h
        by_cases hac : a.toNat = 13 ∧ c.toNat = 10
        · simp only [hac, and_self, if_true] at hst
          have ha : a = 13 := UInt8.toNat_inj.mp (by simpa using hac.1)
          have hc : c = 10 := UInt8.toNat_inj.mp (by simpa using hac.2)
          subst ha; subst hc
          have hs : s = s.takeWhile isHexDig ++ 13 :: 10 :: r2 := by
            rw [← hdw, List.takeWhile_append_dropWhile]
          generalize hds : s.takeWhile isHexDig = ds at *
          by_cases h0 : ds.length = 0
          · simp [h0] at h
          · simp only [h0, if_false] at h
            by_cases h16 : ds.length > 16
            · simp [h16] at h
            · simp only [h16, if_false] at h
              have hse : skipExt ((13 :: 10 :: r2 : Bytes).length + 1) (13 :: 10 :: r2) = some (13 :: 10 :: r2) := by
                have : (13 : UInt8).toNat ≠ 59 := by decide
                simp [skipExt, this]
              have hle : lineEnd false (13 :: 10 :: r2) = some r2 := by
                have h1 : (13 : UInt8).toNat = 13 := rfl
                have h2 : (10 : UInt8).toNat = 10 := rfl
                simp [lineEnd, h1, h2]
              simp only [hse, hle] at h
              have hne : ds ≠ [] := fun e => h0 (by rw [e]; rfl)
              have hrl := readLine_digits ds r2 hne (by omega) hall
              have hpx : parseHexUint ds = .ok (BitVec.ofNat 64 (hexNat ds)) := by
                rw [parseHex_exact]
                refine ⟨by omega, by omega, hall, ?_⟩
                rw [BitVec.toNat_ofNat]
                exact Nat.mod_eq_of_lt (hexNat_lt ds (by omega) hall)
              have hnat : (BitVec.ofNat 64 (hexNat ds)).toNat = hexNat ds := by
                rw [BitVec.toNat_ofNat]
                exact Nat.mod_eq_of_lt (hexNat_lt ds (by omega) hall)
              rw [hs]
              simp only [decodeAux, hrl, hpx, hnat]
              by_cases hz : hexNat ds = 0
              · simp only [hz, if_true] at h ⊢
                injection h with h1 h2
                subst h1; subst h2; rfl
              · simp only [hz, if_false] at h hst ⊢
                by_cases hlt : r2.length < hexNat ds
                · simp [hlt] at h
                · simp only [hlt, if_false] at h ⊢
                  cases hd : r2.drop (hexNat ds) with
                  | nil => simp [hd] at h
                  | cons a' t' =>
                    cases t' with
                    | nil => simp [hd] at h
                    | cons b' r3 =>
                      simp only [hd] at h ⊢
                      by_cases hcc : a'.toNat = 13 ∧ b'.toNat = 10
                      · simp only [hcc, and_self, if_true] at h ⊢
                        cases hrec : rfcAux false f r3 with
                        | reject w => simp [hrec] at h
                        | ok body rest =>
                          simp only [hrec] at h
                          injection h with h1 h2
                          have hdrop : r2.drop (hexNat ds + 2) = r3 := by
                            rw [← List.drop_drop, hd]; rfl
                          rw [hdrop] at hst
                          have hlen : r3.length + 2 ≤ r2.length := by
                            have := congrArg List.length hd
                            simp at this; omega
                          have hsl : r2.length + 2 ≤ s.length := by rw [hs]; simp
                          rw [ih r3 body rest hrec g3 r' hst g (by omega)]
                          simp only []
                          rw [← h1, ← h2]
                      · simp [hcc] at h
        · simp [hac] at hst

/-! ### segmentation independence -/

theorem splitLF_append_some : ∀ (a l r x : Bytes), splitLF a = some (l, r) → splitLF (a ++ x) = some (l, r ++ x) := by
  intro a
  induction a with
  | nil => intro l r x h; simp [splitLF] at h
  | cons b t ih =>
    intro l r x h
    simp only [List.cons_append, splitLF] at h ⊢
    by_cases hb : b.toNat = 10
    · simp only [hb, if_true] at h ⊢
      injection h with h; injection h with h1 h2
      subst h1; subst h2; rfl
    · simp only [hb, if_false] at h ⊢
      cases hs : splitLF t with
      | none => simp [hs] at h
      | some q =>
        obtain ⟨l', r'⟩ := q
        simp only [hs] at h
        injection h with h; injection h with h1 h2
        subst h1; subst h2
        rw [ih l' r' x hs]

theorem splitLF_append_none : ∀ (a x : Bytes), splitLF a = none →
    splitLF (a ++ x) = (splitLF x).map (fun p => (a ++ p.1, p.2)) := by
  intro a
  induction a with
  | nil =>
    intro x _
    simp only [List.nil_append]
    cases splitLF x <;> simp
  | cons b t ih =>
    intro x h
    simp only [List.cons_append, splitLF] at h ⊢
    by_cases hb : b.toNat = 10
    · simp [hb] at h
    · simp only [hb, if_false] at h ⊢
      cases hs : splitLF t with
      | some q => simp [hs] at h
      | none =>
        rw [ih x hs]
        cases splitLF x <;> simp

theorem readLine_full (buf x : Bytes) (hn : splitLF buf = none) (hl : buf.length ≥ bufSize) :
    readLine (buf ++ x) = .error .toolong := by
  unfold readLine
  rw [splitLF_append_none buf x hn]
  cases hx : splitLF x with
  | none =>
    simp only [Option.map_none]
    have : (buf ++ x).length ≥ bufSize := by simp; omega
    rw [if_pos this]
  | some q =>
    simp only [Option.map_some]
    have : (buf ++ q.1).length + 1 ≥ maxLineLength := by
      simp [maxLineLength]; simp [bufSize] at hl; omega
    rw [if_pos this]

def lineNorm : Except Err (Bytes × Bytes × List Bytes) → Except Err (Bytes × Bytes)
  | .error e => .error e
  | .ok (l, b, s) => .ok (l, b ++ s.flatten)

theorem readLineSeg_norm : ∀ (segs : List Bytes) (buf : Bytes),
    lineNorm (readLineSeg buf segs) = readLine (buf ++ segs.flatten) := by
  intro segs
  induction segs with
  | nil =>
    intro buf
    simp only [readLineSeg, List.flatten_nil, List.append_nil]
    cases readLine buf with
    | error e => rfl
    | ok q => obtain ⟨l, r⟩ := q; simp [lineNorm]
  | cons g rest ih =>
    intro buf
    simp only [readLineSeg, List.flatten_cons]
    cases hs : splitLF buf with
    | some q =>
      obtain ⟨l, r⟩ := q
      simp only []
      unfold readLine
      rw [splitLF_append_some buf l r _ hs]
      simp only []
      split <;> simp [lineNorm]
    | none =>
      simp only []
      by_cases hl : buf.length ≥ bufSize
      · simp only [hl, if_true, lineNorm]
        exact (readLine_full buf _ hs hl).symm
      · simp only [hl, if_false]
        rw [ih (buf ++ g), List.append_assoc]

theorem takeSeg_norm : ∀ (segs : List Bytes) (n : Nat) (buf : Bytes),
    (takeSeg n buf segs).1 = (buf ++ segs.flatten).take n ∧
    (takeSeg n buf segs).2.1 ++ (takeSeg n buf segs).2.2.flatten = (buf ++ segs.flatten).drop n := by
  intro segs
  induction segs with
  | nil => intro n buf; simp [takeSeg]
  | cons g rest ih =>
    intro n buf
    simp only [takeSeg, List.flatten_cons]
    by_cases h : n ≤ buf.length
    · simp only [h, if_true, List.flatten_cons]
      constructor
      · rw [List.take_append_of_le_length h]
      · rw [List.drop_append_of_le_length h]
    · simp only [h, if_false]
      obtain ⟨i1, i2⟩ := ih (n - buf.length) g
      have k1 : ∀ y : Bytes, (buf ++ y).take n = buf ++ y.take (n - buf.length) := by
        intro y; rw [List.take_append, List.take_of_length_le (by omega)]
      have k2 : ∀ y : Bytes, (buf ++ y).drop n = y.drop (n - buf.length) := by
        intro y; rw [List.drop_append, List.drop_of_length_le (by omega)]; rfl
      constructor
      · rw [i1, k1]
      · rw [i2, k2]

theorem decodeSegAux_eq : ∀ (fuel : Nat) (buf : Bytes) (segs : List Bytes),
    (decodeSegAux fuel buf segs).toRes = decodeAux fuel (buf ++ segs.flatten) := by
  intro fuel
  induction fuel with
  | zero => intro buf segs; rfl
  | succ fuel ih =>
    intro buf segs
    simp only [decodeSegAux, decodeAux]
    have hline := readLineSeg_norm segs buf
    cases hrs : readLineSeg buf segs with
    | error e =>
      rw [hrs] at hline
      simp only [lineNorm] at hline
      rw [← hline]
      rfl
    | ok q =>
      obtain ⟨line, b1, s1⟩ := q
      rw [hrs] at hline
      simp only [lineNorm] at hline
      rw [← hline]
      simp only []
      cases hp : parseHexUint line with
      | error e => rfl
      | ok n =>
        simp only []
        by_cases hz : n.toNat = 0
        · simp [hz, ResS.toRes]
        · simp only [hz, if_false]
          obtain ⟨d1, d2⟩ := takeSeg_norm s1 n.toNat b1
          generalize hr : b1 ++ s1.flatten = r at *
          have hlen : (List.take n.toNat r).length < n.toNat ↔ r.length < n.toNat := by
            rw [List.length_take]; omega
          simp only [d1]
          by_cases hlt : r.length < n.toNat
          · have := hlen.mpr hlt
            simp only [this, hlt, if_true]
            rw [List.take_of_length_le (by omega)]
            rfl
          · have hn : ¬ (List.take n.toNat r).length < n.toNat := fun h => hlt (hlen.mp h)
            simp only [hn, hlt, if_false]
            obtain ⟨t1, t2⟩ := takeSeg_norm (takeSeg n.toNat b1 s1).2.2 2 (takeSeg n.toNat b1 s1).2.1
            rw [d2] at t1 t2
            cases hd : r.drop n.toNat with
            | nil =>
              rw [hd] at t1
              simp only [t1]; rfl
            | cons a t =>
              cases t with
              | nil =>
                rw [hd] at t1
                simp only [t1]; rfl
              | cons b r' =>
                rw [hd] at t1 t2
                have e1 : (takeSeg 2 (takeSeg n.toNat b1 s1).2.1 (takeSeg n.toNat b1 s1).2.2).1 = [a, b] := by
                  rw [t1]; rfl
                have e2 : (takeSeg 2 (takeSeg n.toNat b1 s1).2.1 (takeSeg n.toNat b1 s1).2.2).2.1 ++
                    (takeSeg 2 (takeSeg n.toNat b1 s1).2.1 (takeSeg n.toNat b1 s1).2.2).2.2.flatten = r' := by
                  rw [t2]; rfl
                simp only [e1]
                by_cases hc : a.toNat = 13 ∧ b.toNat = 10
                · simp only [hc, and_self, if_true]
                  have hx := ih (takeSeg 2 (takeSeg n.toNat b1 s1).2.1 (takeSeg n.toNat b1 s1).2.2).2.1
                    (takeSeg 2 (takeSeg n.toNat b1 s1).2.1 (takeSeg n.toNat b1 s1).2.2).2.2
                  rw [e2] at hx
                  rw [← hx]
                  rfl
                · simp only [hc, if_false]
                  rfl

end BfeVerif.C23
