import BfeVerif.C55.Proofs
/-!
  C55 — FastCGI requests and responses are encoded faithfully.  Property theorems only.
  (After fix c874d7d the request statement holds at full strength; the earlier witnesses — a 65493-byte value cut to
  65492 bytes, a 65493-byte name panicking — are kept in corpus/C55 and now pass.)
-/
namespace BfeVerif.C55

/-- **C55_params_rt** (full strength): for EVERY parameter list (= the map in any iteration order) with names and values
    shorter than 2^31 bytes (the range of `encodeSize`'s uint32 with the marker bit) and EVERY body, the bytes `Do`
    writes are decoded by an independent FastCGI 1.0 decoder (record layer, BEGIN_REQUEST{responder}, PARAMS and STDIN
    streams each closed by exactly one empty record, name-value pairs) to exactly these parameters, in this order,
    and this body — whatever the lengths: pairs larger than a record span several records. -/
theorem C55_params_rt (pairs : List (Bytes × Bytes)) (body : Bytes)
    (hlen : ∀ p ∈ pairs, p.1.length < 2147483648 ∧ p.2.length < 2147483648) :
    decodeRequest (encodeRequest pairs body) = some ⟨pairs, body⟩ := by
  obtain ⟨init, e2, e3, _, hparse⟩ := request_parse pairs body
  obtain ⟨b1, b2⟩ := streamWrite_spec body
  unfold decodeRequest
  rw [hparse]
  have hc : (toRec 1 ((1 : UInt8), beginBody)).typ = 1 ∧ (toRec 1 ((1 : UInt8), beginBody)).content = [0, 1, 0, 0, 0, 0, 0, 0] ∧
      (toRec 1 ((1 : UInt8), beginBody)).id ≠ 0 ∧
      (restRecs (init ++ [[]]) (streamWrite body ++ [[]])).all
        (fun r => r.id == (toRec 1 ((1 : UInt8), beginBody)).id && (r.typ == 4 || r.typ == 5)) = true := by
    refine ⟨rfl, rfl, by simp [toRec], ?_⟩
    simpa [toRec] using restRecs_all (init ++ [[]]) (streamWrite body ++ [[]])
  simp only []
  rw [if_pos hc, restRecs_params _ _ e2, restRecs_body _ _ b2]
  simp only [e3, b1]
  rw [decPairs_enc _ hlen _ (Nat.le_refl _)]

/-- **C55_body_rt**: the STDIN stream decodes to exactly the body, for any size. -/
theorem C55_body_rt (pairs : List (Bytes × Bytes)) (body : Bytes)
    (hlen : ∀ p ∈ pairs, p.1.length < 2147483648 ∧ p.2.length < 2147483648) :
    (decodeRequest (encodeRequest pairs body)).map (·.body) = some body := by
  rw [C55_params_rt pairs body hlen]; rfl

/-- **C55_record_bound**: every record `Do` writes has at most 65500 (≤ 65535) content bytes, so the 16-bit length
    field of `frame` is exact — also when one name-value pair is larger than the bufio buffer. -/
theorem C55_record_bound (pairs : List (Bytes × Bytes)) (body : Bytes) :
    ∀ r ∈ requestRecords pairs body, r.2.length ≤ 65535 := by
  obtain ⟨init, e2, _, hr, _⟩ := request_parse pairs body
  obtain ⟨_, b2⟩ := streamWrite_spec body
  rw [hr]
  intro r hr
  simp only [List.mem_cons, List.mem_append, List.mem_map] at hr
  rcases hr with rfl | ⟨c, hc, rfl⟩ | ⟨c, hc, rfl⟩
  · simp [beginBody]
  · rcases hc with h | h | h
    · have := (e2 c h).2; simp only [maxWrite] at this; simp only; omega
    · subst h; simp
    · simp at h
  · rcases hc with h | h | h
    · have := (b2 c h).2; simp only [maxWrite] at this; simp only; omega
    · subst h; simp
    · simp at h

/-- **C55_writer_stream**: the statement-level model of writePairs over the 65500-byte bufio.Writer (Write with the
    large-write shortcut, WriteString, Flush when the counter passes 65500) hands the sink exactly the concatenated
    encoded pairs, in order, whatever their sizes; and `Write(body)` + Close yields `streamWrite body ++ [[]]`. -/
theorem C55_writer_stream (pairs : List (Bytes × Bytes)) (body : Bytes) :
    (writePairsBW pairs 0 ⟨[], []⟩).stream = (pairs.map fun p => encPair p.1 p.2).flatten ∧
    (bodyBW body).records = streamWrite body ++ [[]] :=
  ⟨by simpa [BW.stream] using (writePairsBW_spec pairs 0 ⟨[], []⟩ (by simp [BW.Inv])).2, bodyBW_records body⟩

/-! ### the CGI environment built by Transport.RoundTrip (`envLog` replays buildMetaValsAndMethod's Add/Set calls) -/

/-- **C55_env_protected**: no request header — whatever its name, case, `-`/`_` spelling or number — changes the value
    of any variable whose name does not start with `HTTP_`, except CONTENT_TYPE (which is the request's own
    Content-Type by definition): REMOTE_ADDR, SCRIPT_FILENAME, DOCUMENT_ROOT, REQUEST_METHOD, QUERY_STRING,
    CONTENT_LENGTH, SERVER_*, the operator's EnvVars … are the same for every header map. -/
theorem C55_env_protected (i : RtIn) (hdrs' : List (Bytes × List Bytes)) (k : Bytes)
    (hk : isHttpKey k = false) (hct : k ≠ kCONTENT_TYPE) :
    lookup k (envLog i) = lookup k (envLog { i with hdrs := hdrs' }) := by
  have hno : ∀ j : RtIn, ∀ o ∈ hdrOps j, o.key ≠ k := by
    intro j o ho heq
    have := hdrOps_http j o ho
    rw [heq, hk] at this
    exact absurd this (by decide)
  by_cases hcl : k = kCONTENT_LENGTH
  · subst hcl
    have : ∀ j : RtIn, j.contentLength = i.contentLength →
        lookup kCONTENT_LENGTH (envLog j) = some [fmtInt i.contentLength] := by
      intro j hj
      unfold envLog
      rw [lookup_append]
      have a1 : ¬ kREQUEST_METHOD = kCONTENT_LENGTH := by simp [kREQUEST_METHOD, kCONTENT_LENGTH]
      have a2 : ¬ kCONTENT_TYPE = kCONTENT_LENGTH := by simp [kCONTENT_TYPE, kCONTENT_LENGTH]
      simp only [finalOps, List.foldl_cons, List.foldl_nil, step, a1, a2, if_false, if_true, hj]
    rw [this i rfl, this { i with hdrs := hdrs' } rfl]
  · exact env_core i hdrs' k hcl hct (hno i) (hno _)

/-- **C55_env_no_httpoxy**: HTTP_PROXY is exactly what the operator configured (or absent): a request header `Proxy`
    (any case) never creates or changes it, and no other header name maps to it. -/
theorem C55_env_no_httpoxy (i : RtIn) :
    lookup kHTTP_PROXY (envLog i) = lookup kHTTP_PROXY (envLog { i with hdrs := [] }) :=
  env_core i [] kHTTP_PROXY (by simp [kHTTP_PROXY, kCONTENT_LENGTH]) (by simp [kHTTP_PROXY, kCONTENT_TYPE])
    (hdrOps_not_proxy i) (hdrOps_not_proxy _)

/-! ### response side -/

/-- full-strength statement — FALSE for the code as it is: for every well-formed responder record sequence that
    contains END_REQUEST, the stream handed to the HTTP response parser is the application's STDOUT stream. -/
def StdoutOnly : Prop :=
  ∀ (conn : Bytes) (rs : List Rec), parse conn = some rs → hasEnd rs = true →
    readAll conn = (stdoutOf rs, End.eof)

/-- What the code really delivers for EVERY well-formed record sequence with END_REQUEST: the contents of all
    records before END_REQUEST, whatever their type (and request id), and a clean end of stream. -/
theorem C55_response_stream (conn : Bytes) (rs : List Rec) (hp : parse conn = some rs) (he : hasEnd rs = true) :
    readAll conn = (allBeforeEnd rs, End.eof) := by
  have := readStream_parse conn.length conn rs hp he (conn.length + 1) [] (by omega)
  simpa [readAll] using this

/-- **C55_stdout_only (partial)**: if every record before END_REQUEST is STDOUT or empty (e.g. the empty STDERR
    end-of-stream marker), the delivered stream is exactly the STDOUT stream. -/
theorem C55_stdout_only_partial (conn : Bytes) (rs : List Rec) (hp : parse conn = some rs) (he : hasEnd rs = true)
    (hso : ∀ r ∈ rs, r.typ = 6 ∨ r.typ = 3 ∨ r.content = []) :
    readAll conn = (stdoutOf rs, End.eof) := by
  rw [C55_response_stream conn rs hp he, allBeforeEnd_eq_stdoutOf rs hso]

/-- **C55_read_chunking**: the response stream does not depend on how the caller cuts its reads.  For every connection
    content and every sequence of `Read(p)` calls with non-empty buffers that all return a nil error, the bytes
    delivered are a prefix of what `io.ReadAll` gets (`readAll`), continued by what is still `remaining`; and a call that
    returns an error delivers nothing, happens exactly when nothing remains, and reports the end `readAll` reports. -/
theorem C55_read_chunking (conn : Bytes) (sizes : List Nat) (hpos : ∀ s ∈ sizes, 0 < s)
    (hnil : ∀ p ∈ (readSteps conn sizes).1, p.2 = RErr.nil) :
    ∃ st', (readAll conn).1 = (readSteps conn sizes).2 ++ remaining st' := by
  obtain ⟨st', h⟩ := stepsFrom_spec sizes ⟨conn, []⟩ hpos hnil
  refine ⟨st', ?_⟩
  show (readAll conn).1 = (stepsFrom ⟨conn, []⟩ sizes).2 ++ remaining st'
  rw [← h]
  simp [readAll, readStream_drain, remaining]

theorem C55_read_end (st : RdState) (s : Nat) (hs : 0 < s) (he : (readStep st s).2.2 ≠ RErr.nil) :
    remaining st = [] ∧ (readStep st s).2.1 = [] ∧
      toEnd (readStep st s).2.2 = (readStream (st.conn.length + 1) st.conn []).2 := by
  obtain ⟨h1, h2, h3⟩ := (readStep_spec st s hs).2 he
  exact ⟨h1, h2, by rw [readStream_drain, h3]⟩

/-- every call returns at most `len(p)` bytes -/
theorem C55_read_count (st : RdState) (s : Nat) : (readStep st s).2.1.length ≤ s := by
  unfold readStep
  split
  · simp
  · split
    · split <;> simp [List.length_take] <;> omega
    · simp [List.length_take]; omega

/-- **C55_witness_stderr**: a STDERR record "E" followed by END_REQUEST: the response stream is "E", the STDOUT stream is empty. -/
theorem C55_witness_stderr : ¬ StdoutOnly := by
  intro h
  let recs : List (UInt8 × Bytes) := [(7, [69]), (3, [0, 0, 0, 0, 0, 0, 0, 0])]
  have hp : parse ((recs.map fun r => frame r.1 1 r.2).flatten) = some (recs.map (toRec 1)) :=
    parseRecs_frames 1 (by omega) recs (by intro r hr; simp [recs] at hr; rcases hr with rfl | rfl <;> simp) _ (Nat.le_refl _)
  have he : hasEnd (recs.map (toRec 1)) = true := by simp [hasEnd, recs, toRec]
  have h1 := h _ _ hp he
  rw [C55_response_stream _ _ hp he] at h1
  have h2 := congrArg Prod.fst h1
  simp [allBeforeEnd, stdoutOf, recs, toRec] at h2

/-! a concrete request -/
example : encodeRequest [] [] =
    [1, 1, 0, 1, 0, 8, 0, 0, 0, 1, 0, 0, 0, 0, 0, 0,  1, 4, 0, 1, 0, 0, 0, 0,  1, 5, 0, 1, 0, 0, 0, 0] := by rfl
/-- an empty read ends the body copy (bfe_bufio.Writer.ReadFrom): ABCD read as 2 bytes, (0,nil), 2 bytes -> AB -/
example : bodyDelivered [65, 66, 67, 68] [2, 0, 2] = [65, 66] := by decide

end BfeVerif.C55
