import BfeVerif.C55.Proofs
/-!
  C55 — FastCGI requests and responses are encoded faithfully.  Property theorems only.

  Full-strength request statement (FALSE for the code as it is, see the two witnesses):
    `ParamsRoundTrip` : for every parameter list (= map in iteration order) and body, `Do` writes bytes that a
    FastCGI 1.0 application decodes to exactly these parameters and this body.
-/
namespace BfeVerif.C55

def ParamsRoundTrip : Prop :=
  ∀ (pairs : List (Bytes × Bytes)) (body : Bytes),
    (encodeRequest pairs body).bind decodeRequest = some ⟨pairs, body⟩

/-- What the code really does, for EVERY input on which it does not panic: the application decodes the
    parameters with each value cut to `65500-8-|k|` bytes (`truncPair`), and the body unchanged. -/
theorem C55_request_decodes (pairs : List (Bytes × Bytes)) (body bs : Bytes)
    (h : encodeRequest pairs body = some bs) :
    decodeRequest bs = some ⟨pairs.map truncPair, body⟩ := by
  obtain ⟨init, e2, e3, e4, _, hparse⟩ := request_parse pairs body bs h
  obtain ⟨b1, b2⟩ := streamWrite_spec body
  unfold decodeRequest
  rw [hparse]
  have hc : (toRec 1 ((1 : UInt8), beginBody)).typ = 1 ∧ (toRec 1 ((1 : UInt8), beginBody)).content = [0, 1, 0, 0, 0, 0, 0, 0] ∧
      (toRec 1 ((1 : UInt8), beginBody)).id ≠ 0 ∧
      (restRecs (init ++ [[]]) (streamWrite body ++ [[]])).all
        (fun r => r.id == (toRec 1 ((1 : UInt8), beginBody)).id && (r.typ == 4 || r.typ == 5)) = true := by
    refine ⟨rfl, rfl, by simp [toRec], ?_⟩
    simpa [toRec] using restRecs_all (init ++ [[]]) (streamWrite body ++ [[]])
  have hbound : ∀ p ∈ pairs.map truncPair, p.1.length < 2147483648 ∧ p.2.length < 2147483648 := by
    intro p hp
    obtain ⟨q, hq, rfl⟩ := List.mem_map.mp hp
    have hb := truncVal_bound q.1 q.2 (e4 q hq)
    simp only [truncPair, maxWrite] at hb ⊢
    omega
  simp only []
  rw [if_pos hc, restRecs_params _ _ e2, restRecs_body _ _ b2]
  simp only [e3, b1]
  rw [decPairs_enc _ hbound _ (Nat.le_refl _)]

/-- **C55_params_rt (partial)**: when every pair satisfies `8+|k|+|v| ≤ 65500`, the request is written without
    panic and decodes (FastCGI 1.0 decoder) to exactly the parameters, in the map's iteration order, and the body. -/
theorem C55_params_rt_partial (pairs : List (Bytes × Bytes)) (body : Bytes)
    (hsz : ∀ p ∈ pairs, 8 + p.1.length + p.2.length ≤ maxWrite) :
    (encodeRequest pairs body).bind decodeRequest = some ⟨pairs, body⟩ := by
  have hnp : ∀ p ∈ pairs, panics p.1 p.2 = false := by
    intro p hp; have := hsz p hp; simp [panics]; omega
  have hsome := wpl_isSome pairs hnp 0 [] []
  cases hw : writePairsLoop pairs 0 [] [] with
  | none => simp [hw] at hsome
  | some ps =>
    have he : ∃ bs, encodeRequest pairs body = some bs := by simp [encodeRequest, requestRecords, hw]
    obtain ⟨bs, hbs⟩ := he
    rw [hbs, Option.bind_some, C55_request_decodes pairs body bs hbs]
    have : pairs.map truncPair = pairs := by
      rw [List.map_congr_left (g := id)]
      · simp
      · intro p hp
        have := hsz p hp
        simp only [truncPair, truncVal, id]
        rw [if_neg (by omega)]
    rw [this]

/-- **C55_body_rt**: whenever the request is written at all, the STDIN stream decodes to exactly the body (any size). -/
theorem C55_body_rt (pairs : List (Bytes × Bytes)) (body bs : Bytes)
    (h : encodeRequest pairs body = some bs) : (decodeRequest bs).map (·.body) = some body := by
  rw [C55_request_decodes pairs body bs h]; rfl

/-- **C55_record_bound**: every record `Do` writes has at most 65500 (≤ 65535) content bytes, so the 16-bit
    length field of `frame` is exact; and the bytes are exactly these records back to back. -/
theorem C55_record_bound (pairs : List (Bytes × Bytes)) (body : Bytes) (rs : List (UInt8 × Bytes))
    (h : requestRecords pairs body = some rs) : ∀ r ∈ rs, r.2.length ≤ 65535 := by
  have he : encodeRequest pairs body = some (rs.map fun r => frame r.1 1 r.2).flatten := by
    simp [encodeRequest, h]
  obtain ⟨init, e2, _, _, hr, _⟩ := request_parse pairs body _ he
  obtain ⟨_, b2⟩ := streamWrite_spec body
  rw [h] at hr
  simp only [Option.some.injEq] at hr
  subst hr
  intro r hr
  simp only [List.mem_cons, List.mem_append, List.mem_map] at hr
  rcases hr with rfl | ⟨c, hc, rfl⟩ | ⟨c, hc, rfl⟩
  · simp [beginBody]
  · rcases hc with h | h | h
    · have := (e2 c h).2; simp only [maxWrite] at this; simp only; omega
    · subst h; simp
    · simp at h
  · rcases hc with h | h | h
    · have := (b2 c h).2; simp only [maxWrite] at this; simp only; omega
    · subst h; simp
    · simp at h

/-- **C55_witness_trunc**: the full statement is false — a 65493-byte value under an empty name arrives cut
    to 65492 bytes (silently; the request is still well-formed). -/
theorem C55_witness_trunc : ¬ ParamsRoundTrip := by
  intro hrt
  have h := hrt [([], big)] []
  have hsome := wpl_isSome [(([] : Bytes), big)]
    (by intro p hp; simp at hp; subst hp; simp [panics, maxWrite]) 0 [] []
  cases hw : writePairsLoop [(([] : Bytes), big)] 0 [] [] with
  | none => simp [hw] at hsome
  | some ps =>
    have he : ∃ bs, encodeRequest [(([] : Bytes), big)] [] = some bs := by
      simp [encodeRequest, requestRecords, hw]
    obtain ⟨bs, hbs⟩ := he
    rw [hbs, Option.bind_some, C55_request_decodes _ _ bs hbs] at h
    simp only [Option.some.injEq, Req.mk.injEq, and_true, List.map_cons, List.map_nil, List.cons.injEq,
      truncPair, Prod.mk.injEq, true_and] at h
    have hl := congrArg List.length h
    rw [truncVal, if_pos (by simp [big_length, maxWrite])] at hl
    simp only [List.length_take, List.length_nil, big_length, maxWrite] at hl
    omega

/-- **C55_witness_panic**: a 65493-byte parameter name makes `writePairs` evaluate `v[:-1]` — a runtime panic. -/
theorem C55_witness_panic : encodeRequest [(big, [])] [] = none := by
  simp [encodeRequest, requestRecords, writePairsLoop, panics, maxWrite, big_length]

/-! ### the CGI environment built by Transport.RoundTrip (`envLog` replays buildMetaValsAndMethod's Add/Set calls) -/

/-- **C55_env_protected**: no request header — whatever its name, case, `-`/`_` spelling or number — changes the value
    of any variable whose name does not start with `HTTP_`, except CONTENT_TYPE (which is the request's own
    Content-Type by definition): REMOTE_ADDR, SCRIPT_FILENAME, DOCUMENT_ROOT, REQUEST_METHOD, QUERY_STRING,
    CONTENT_LENGTH, SERVER_*, the operator's EnvVars … are the same for every header map. -/
theorem C55_env_protected (i : RtIn) (hdrs' : List (Bytes × List Bytes)) (k : Bytes)
    (hk : isHttpKey k = false) (hct : k ≠ kCONTENT_TYPE) :
    lookup k (envLog i) = lookup k (envLog { i with hdrs := hdrs' }) := by
  have hno : ∀ j : RtIn, ∀ o ∈ hdrOps j, o.key ≠ k := by
    intro j o ho heq
    have := hdrOps_http j o ho
    rw [heq, hk] at this
    exact absurd this (by decide)
  by_cases hcl : k = kCONTENT_LENGTH
  · subst hcl
    have : ∀ j : RtIn, j.contentLength = i.contentLength →
        lookup kCONTENT_LENGTH (envLog j) = some [fmtInt i.contentLength] := by
      intro j hj
      unfold envLog
      rw [lookup_append]
      have a1 : ¬ kREQUEST_METHOD = kCONTENT_LENGTH := by decide
      have a2 : ¬ kCONTENT_TYPE = kCONTENT_LENGTH := by decide
      simp only [finalOps, List.foldl_cons, List.foldl_nil, step, a1, a2, if_false, if_true, hj]
    rw [this i rfl, this { i with hdrs := hdrs' } rfl]
  · exact env_core i hdrs' k hcl hct (hno i) (hno _)

/-- **C55_env_no_httpoxy**: HTTP_PROXY is exactly what the operator configured (or absent): a request header `Proxy`
    (any case) never creates or changes it, and no other header name maps to it. -/
theorem C55_env_no_httpoxy (i : RtIn) :
    lookup kHTTP_PROXY (envLog i) = lookup kHTTP_PROXY (envLog { i with hdrs := [] }) :=
  env_core i [] kHTTP_PROXY (by decide) (by decide) (hdrOps_not_proxy i) (hdrOps_not_proxy _)

/-- the request writer of the model is the statement-by-statement bufio model: `writePairsBW` (Write / WriteString /
    Flush on a 65500-byte bfe_bufio.Writer whose sink calls become records) produces exactly the records of
    `writePairsLoop`, and one `Write(body)` + Close exactly `streamWrite body ++ [[]]`. -/
theorem C55_bufio_refines (pairs : List (Bytes × Bytes)) (body : Bytes) :
    (writePairsBW pairs 0 ⟨[], []⟩).map BW.records = writePairsLoop pairs 0 [] [] ∧
    (bodyBW body).records = streamWrite body ++ [[]] :=
  ⟨by simpa using writePairsBW_eq pairs 0 ⟨[], []⟩ rfl (by simp [maxWrite]), bodyBW_records body⟩

/-! ### response side -/

/-- full-strength statement — FALSE for the code as it is: for every well-formed responder record sequence that
    contains END_REQUEST, the stream handed to the HTTP response parser is the application's STDOUT stream. -/
def StdoutOnly : Prop :=
  ∀ (conn : Bytes) (rs : List Rec), parse conn = some rs → hasEnd rs = true →
    readAll conn = (stdoutOf rs, End.eof)

/-- What the code really delivers for EVERY well-formed record sequence with END_REQUEST: the contents of all
    records before END_REQUEST, whatever their type (and request id), and a clean end of stream. -/
theorem C55_response_stream (conn : Bytes) (rs : List Rec) (hp : parse conn = some rs) (he : hasEnd rs = true) :
    readAll conn = (allBeforeEnd rs, End.eof) := by
  have := readStream_parse conn.length conn rs hp he (conn.length + 1) [] (by omega)
  simpa [readAll] using this

/-- **C55_stdout_only (partial)**: if every record before END_REQUEST is STDOUT or empty (e.g. the empty STDERR
    end-of-stream marker), the delivered stream is exactly the STDOUT stream. -/
theorem C55_stdout_only_partial (conn : Bytes) (rs : List Rec) (hp : parse conn = some rs) (he : hasEnd rs = true)
    (hso : ∀ r ∈ rs, r.typ = 6 ∨ r.typ = 3 ∨ r.content = []) :
    readAll conn = (stdoutOf rs, End.eof) := by
  rw [C55_response_stream conn rs hp he, allBeforeEnd_eq_stdoutOf rs hso]

/-- **C55_witness_stderr**: a STDERR record "E" followed by END_REQUEST: the response stream is "E", the STDOUT stream is empty. -/
theorem C55_witness_stderr : ¬ StdoutOnly := by
  intro h
  let recs : List (UInt8 × Bytes) := [(7, [69]), (3, [0, 0, 0, 0, 0, 0, 0, 0])]
  have hp : parse ((recs.map fun r => frame r.1 1 r.2).flatten) = some (recs.map (toRec 1)) :=
    parseRecs_frames 1 (by omega) recs (by intro r hr; simp [recs] at hr; rcases hr with rfl | rfl <;> simp) _ (Nat.le_refl _)
  have he : hasEnd (recs.map (toRec 1)) = true := by decide
  have h1 := h _ _ hp he
  rw [C55_response_stream _ _ hp he] at h1
  have h2 := congrArg Prod.fst h1
  revert h2
  decide

/-! non-vacuity: a concrete request that meets the hypotheses and decodes -/
example : (encodeRequest [([65], [66, 67])] [1, 2, 3]).bind decodeRequest = some ⟨[([65], [66, 67])], [1, 2, 3]⟩ :=
  C55_params_rt_partial _ _ (by intro p hp; simp at hp; subst hp; simp [maxWrite])
example : encodeRequest [] [] =
    some [1, 1, 0, 1, 0, 8, 0, 0, 0, 1, 0, 0, 0, 0, 0, 0,  1, 4, 0, 1, 0, 0, 0, 0,  1, 5, 0, 1, 0, 0, 0, 0] := by rfl

end BfeVerif.C55
