/-
  C55 — FastCGI client of bfe (bfe_fcgi/fcgi_client.go): request encoding and response stream assembly.
  Core-only.  MODEL (mirrors the Go code) first, then the independent SPEC (a FastCGI 1.0 decoder).

  Go code mirrored (fcgi_client.go):
    header.init:      Version=1, Type, Id, ContentLength=uint16(len), PaddingLength=uint8(-len & 7)
    writeRecord:      8 header bytes (big endian) ++ content ++ pad[:PaddingLength]           -> `frame`
    streamWriter.Write: split p into pieces of at most maxWrite=65500, one record each       -> `streamWrite`
    encodeSize:       size>127 -> 4 bytes big endian of size|1<<31, else 1 byte               -> `encSize`
    writePairs:       for k,v := range pairs { m := 8+len(k)+len(v); if m>maxWrite { v = v[:maxWrite-8-len(k)] } (PANICS if negative)
                        encode sizes; m = n+len(k)+len(v); if nn+m>maxWrite { w.Flush(); nn=0 }; nn+=m; write sizes,k,v }
                      w.Close()  (Flush, then an empty record)                                -> `writePairsLoop`
    Do:               BEGIN_REQUEST{role=1,flags=0}; writePairs(PARAMS); io.Copy(stdin writer, body); Close -> `encodeRequest`
    record.read / streamReader.Read (the content of EVERY record that is not END_REQUEST is delivered) -> `readStream`
  Abstractions (trusted base, exercised by the correspondence run): the bufio.Writer between writePairs / io.Copy
  and streamWriter only appends while the data fits (theorem `C55_buffer_fits` shows it always fits in writePairs)
  and hands full 65500-byte buffers resp. the rest on Flush to streamWriter.Write; Go's map order = the order of the list.
-/
namespace BfeVerif.C55

abbrev Bytes := List UInt8

def maxWrite : Nat := 65500

/-- `uint8(-n & 7)` -/
def padLen (n : Nat) : Nat := (8 - n % 8) % 8

/-- one record on the wire (`header.init` + `writeRecord`); `uint16(len)` truncates modulo 65536. -/
def frame (t : UInt8) (id : Nat) (c : Bytes) : Bytes :=
  [1, t, UInt8.ofNat (id % 65536 / 256), UInt8.ofNat (id % 256),
   UInt8.ofNat (c.length % 65536 / 256), UInt8.ofNat (c.length % 256),
   UInt8.ofNat (padLen c.length), 0] ++ c ++ List.replicate (padLen c.length) 0

/-- `streamWriter.Write`: pieces of at most `maxWrite` bytes (fuel = length of `p`). -/
def chunks : Nat → Bytes → List Bytes
  | 0, _ => []
  | fuel + 1, p => if p.length = 0 then [] else p.take maxWrite :: chunks fuel (p.drop maxWrite)

def streamWrite (p : Bytes) : List Bytes := chunks p.length p

/-- `encodeSize` (the argument is `uint32(len)`). -/
def encSize (n : Nat) : Bytes :=
  if n > 127 then
    let s := (n % 4294967296) ||| 2147483648
    [UInt8.ofNat (s / 16777216), UInt8.ofNat (s / 65536 % 256), UInt8.ofNat (s / 256 % 256), UInt8.ofNat (s % 256)]
  else [UInt8.ofNat n]

def encPair (k v : Bytes) : Bytes := encSize k.length ++ encSize v.length ++ k ++ v

/-- `if m > maxWrite { v = v[:maxWrite-8-len(k)] }` -/
def truncVal (k v : Bytes) : Bytes :=
  if 8 + k.length + v.length > maxWrite then v.take (maxWrite - 8 - k.length) else v

def truncPair (p : Bytes × Bytes) : Bytes × Bytes := (p.1, truncVal p.1 p.2)

/-- the slice expression `v[:vl]` panics iff `vl < 0` (it cannot exceed `len(v)` here). -/
def panics (k v : Bytes) : Bool :=
  decide (8 + k.length + v.length > maxWrite) && decide (maxWrite < 8 + k.length)

/-- the loop of `writePairs`; `nn` = the code's counter, `buf` = the bufio buffer, `out` = records already
    handed to `streamWriter` (contents).  `none` = runtime panic. -/
def writePairsLoop : List (Bytes × Bytes) → Nat → Bytes → List Bytes → Option (List Bytes)
  | [], _, buf, out => some (out ++ streamWrite buf ++ [[]])
  | (k, v) :: rest, nn, buf, out =>
    if panics k v then none
    else
      let e := encPair k (truncVal k v)
      if nn + e.length > maxWrite then writePairsLoop rest e.length e (out ++ streamWrite buf)
      else writePairsLoop rest (nn + e.length) (buf ++ e) out

/-- BEGIN_REQUEST body: role = 1 (responder), flags = 0 -/
def beginBody : Bytes := [0, 1, 0, 0, 0, 0, 0, 0]

/-- contents of the records `Do` writes, with their types. -/
def requestRecords (pairs : List (Bytes × Bytes)) (body : Bytes) : Option (List (UInt8 × Bytes)) :=
  match writePairsLoop pairs 0 [] [] with
  | none => none
  | some ps => some ((1, beginBody) :: ps.map (fun c => (4, c)) ++ (streamWrite body ++ [[]]).map (fun c => (5, c)))

/-- every byte `FCGIClient.Do` writes to the connection (request id 1). -/
def encodeRequest (pairs : List (Bytes × Bytes)) (body : Bytes) : Option Bytes :=
  (requestRecords pairs body).map fun rs => (rs.map fun r => frame r.1 1 r.2).flatten

/-! ### response side: `record.read` + `streamReader.Read` under `io.ReadAll` -/

/-- `binary.Read(r, BigEndian, &header)`: the 8 header bytes (version, type, id, content length, padding length)
    and the rest of the connection; shared with the SPEC parser below -/
def splitHeader : Bytes → Option (UInt8 × UInt8 × Nat × Nat × Nat × Bytes)
  | v :: t :: i1 :: i0 :: c1 :: c0 :: p :: _ :: rest =>
    some (v, t, i1.toNat * 256 + i0.toNat, c1.toNat * 256 + c0.toNat, p.toNat, rest)
  | _ => none

inductive End | eof | ver | short
deriving DecidableEq, Repr

/-- what `io.ReadAll(streamReader)` yields on the connection content `conn`; `acc` = bytes delivered so far.
    `record.read` does not look at the record type (except END_REQUEST) nor at the request id.
    END_REQUEST ends the stream with io.EOF (its body is not read); a connection that ends at a record
    boundary, or right after a header, is io.EOF as well (`binary.Read`/`io.ReadFull` semantics). -/
def readStream : Nat → Bytes → Bytes → Bytes × End
  | 0, _, acc => (acc, .eof)
  | fuel + 1, conn, acc =>
    if conn.length = 0 then (acc, .eof)
    else match splitHeader conn with
      | none => (acc, .short)
      | some (v, t, _, cl, pl, rest) =>
        if v ≠ 1 then (acc, .ver)
        else if t = 3 then (acc, .eof)
        else
          let n := cl + pl
          if n = 0 then readStream fuel rest acc
          else if rest.length = 0 then (acc, .eof)
          else if rest.length < n then (acc, .short)
          else readStream fuel (rest.drop n) (acc ++ rest.take cl)

def readAll (conn : Bytes) : Bytes × End := readStream (conn.length + 1) conn []

/-! ## SPEC: FastCGI 1.0 decoder (record layer §3.3, name-value pairs §3.4, streams §3.3/§5) -/

structure Rec where
  typ : UInt8
  id : Nat
  content : Bytes
deriving DecidableEq, Repr

/-- a byte string is a sequence of complete version-1 records. -/
def parseRecs : Nat → Bytes → Option (List Rec)
  | 0, bs => if bs.length = 0 then some [] else none
  | fuel + 1, bs =>
    if bs.length = 0 then some []
    else match splitHeader bs with
      | none => none
      | some (v, t, id, cl, pl, rest) =>
        if v ≠ 1 then none
        else if rest.length < cl + pl then none
        else (parseRecs fuel (rest.drop (cl + pl))).map (fun rs => ⟨t, id, rest.take cl⟩ :: rs)

def parse (bs : Bytes) : Option (List Rec) := parseRecs bs.length bs

/-- a stream of type `t`: its non-empty records, closed by exactly one empty record at the end. -/
def closedStream (t : UInt8) (rs : List Rec) : Option Bytes :=
  let cs := (rs.filter (fun r => r.typ == t)).map (·.content)
  match cs.getLast? with
  | some [] => if cs.dropLast.all (fun c => c.length != 0) then some cs.flatten else none
  | _ => none

def decSize : Bytes → Option (Nat × Bytes)
  | [] => none
  | b :: rest =>
    if b.toNat < 128 then some (b.toNat, rest)
    else match rest with
      | b1 :: b2 :: b3 :: r => some ((b.toNat - 128) * 16777216 + b1.toNat * 65536 + b2.toNat * 256 + b3.toNat, r)
      | _ => none

def decPairs : Nat → Bytes → Option (List (Bytes × Bytes))
  | 0, bs => if bs.length = 0 then some [] else none
  | fuel + 1, bs =>
    if bs.length = 0 then some []
    else match decSize bs with
      | none => none
      | some (kl, r1) =>
        match decSize r1 with
        | none => none
        | some (vl, r2) =>
          if r2.length < kl + vl then none
          else (decPairs fuel (r2.drop (kl + vl))).map (fun ps => (r2.take kl, (r2.drop kl).take vl) :: ps)

structure Req where
  pairs : List (Bytes × Bytes)
  body : Bytes
deriving DecidableEq, Repr

/-- what a FastCGI application reads from the connection: BEGIN_REQUEST{responder, flags 0} with a non-null id,
    then only PARAMS / STDIN records of that id, both streams properly closed. -/
def decodeRequest (bs : Bytes) : Option Req :=
  match parse bs with
  | some (b :: rest) =>
    if b.typ = 1 ∧ b.content = [0, 1, 0, 0, 0, 0, 0, 0] ∧ b.id ≠ 0 ∧
       rest.all (fun r => r.id == b.id && (r.typ == 4 || r.typ == 5)) then
      match closedStream 4 rest, closedStream 5 rest with
      | some ps, some body =>
        match decPairs ps.length ps with
        | some pairs => some ⟨pairs, body⟩
        | none => none
      | _, _ => none
    else none
  | _ => none

/-- the application's standard output: contents of the STDOUT records before END_REQUEST. -/
def stdoutOf (rs : List Rec) : Bytes :=
  (((rs.takeWhile (fun r => r.typ != 3)).filter (fun r => r.typ == 6)).map (·.content)).flatten

/-- what the code delivers instead: the contents of ALL records before END_REQUEST -/
def allBeforeEnd (rs : List Rec) : Bytes :=
  ((rs.takeWhile (fun r => r.typ != 3)).map (·.content)).flatten

def hasEnd (rs : List Rec) : Bool := rs.any (fun r => r.typ == 3)

end BfeVerif.C55
