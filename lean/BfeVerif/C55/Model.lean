/-
  C55 — FastCGI client of bfe (bfe_fcgi/fcgi_client.go): request encoding and response stream assembly.
  Core-only.  MODEL (mirrors the Go code) first, then the independent SPEC (a FastCGI 1.0 decoder).

  Go code mirrored (fcgi_client.go):
    header.init:      Version=1, Type, Id, ContentLength=uint16(len), PaddingLength=uint8(-len & 7)
    writeRecord:      8 header bytes (big endian) ++ content ++ pad[:PaddingLength]           -> `frame`
    streamWriter.Write: split p into pieces of at most maxWrite=65500, one record each       -> `streamWrite`
    encodeSize:       size>127 -> 4 bytes big endian of size|1<<31, else 1 byte               -> `encSize`
    writePairs (after fix c874d7d: no truncation): for k,v := range pairs { n := encodeSize(k)+encodeSize(v); m := n+len(k)+len(v);
                        if nn+m > maxWrite { w.Flush(); nn = 0 }; nn += m; w.Write(b[:n]); w.WriteString(k); w.WriteString(v) }
                      w.Close()  (Flush, then an empty record)                                -> `writePairsBW`
    the bfe_bufio.Writer (65500 bytes) in between is modelled call by call (`BW`): a pair larger than the buffer spills
    over into several sink calls, i.e. a name-value pair may span records
    Do:               BEGIN_REQUEST{role=1,flags=0}; writePairs(PARAMS); io.Copy(stdin writer, body); Close -> `encodeRequest`
    record.read / streamReader.Read (the content of EVERY record that is not END_REQUEST is delivered) -> `readStream`
  Go's map order = the order of the list.
-/
namespace BfeVerif.C55

abbrev Bytes := List UInt8

def maxWrite : Nat := 65500

/-- `uint8(-n & 7)` -/
def padLen (n : Nat) : Nat := (8 - n % 8) % 8

/-- one record on the wire (`header.init` + `writeRecord`); `uint16(len)` truncates modulo 65536. -/
def frame (t : UInt8) (id : Nat) (c : Bytes) : Bytes :=
  [1, t, UInt8.ofNat (id % 65536 / 256), UInt8.ofNat (id % 256),
   UInt8.ofNat (c.length % 65536 / 256), UInt8.ofNat (c.length % 256),
   UInt8.ofNat (padLen c.length), 0] ++ c ++ List.replicate (padLen c.length) 0

/-- `streamWriter.Write`: pieces of at most `maxWrite` bytes (fuel = length of `p`). -/
def chunks : Nat → Bytes → List Bytes
  | 0, _ => []
  | fuel + 1, p => if p.length = 0 then [] else p.take maxWrite :: chunks fuel (p.drop maxWrite)

def streamWrite (p : Bytes) : List Bytes := chunks p.length p

/-- `encodeSize` (the argument is `uint32(len)`). -/
def encSize (n : Nat) : Bytes :=
  if n > 127 then
    let s := (n % 4294967296) ||| 2147483648
    [UInt8.ofNat (s / 16777216), UInt8.ofNat (s / 65536 % 256), UInt8.ofNat (s / 256 % 256), UInt8.ofNat (s % 256)]
  else [UInt8.ofNat n]

def encPair (k v : Bytes) : Bytes := encSize k.length ++ encSize v.length ++ k ++ v

/-! ### the bufio.Writer between writePairs / io.Copy and streamWriter, at the level of calls

  `bfe_bufio.NewWriterSize(streamWriter, maxWrite)`; the sink (`streamWriter.Write`) takes everything and never
  fails on the in-memory connection.  Same functions as `BfeVerif.C22.Writer` (Write with the large-write
  shortcut, WriteString without it, Flush), but `out` keeps the ARGUMENT OF EACH CALL to the sink, because every
  call becomes its own FastCGI record(s). -/
structure BW where
  buf : Bytes
  out : List Bytes
deriving DecidableEq, Repr

def BW.flush (b : BW) : BW := if b.buf.length = 0 then b else { buf := [], out := b.out ++ [b.buf] }

/-- loop of `Write` (`direct = true`) / `WriteString` (`direct = false`) -/
def BW.writeLoop (direct : Bool) : Nat → BW → Bytes → BW × Bytes
  | 0, b, p => (b, p)
  | f + 1, b, p =>
    if p.length > maxWrite - b.buf.length then
      if direct ∧ b.buf.length = 0 then BW.writeLoop direct f { b with out := b.out ++ [p] } []
      else
        let n := min p.length (maxWrite - b.buf.length)
        BW.writeLoop direct f (BW.flush { b with buf := b.buf ++ p.take n }) (p.drop n)
    else (b, p)

def BW.write (direct : Bool) (b : BW) (p : Bytes) : BW :=
  let r := BW.writeLoop direct (2 * p.length + 3) b p
  { r.1 with buf := r.1.buf ++ r.2 }

/-- the records a finished writer has produced: every call split by `streamWriter.Write`, then Close's empty record -/
def BW.records (b : BW) : List Bytes := (b.flush.out.map streamWrite).flatten ++ [[]]

/-- `writePairs`, statement by statement (`nn` = the code's counter) -/
def writePairsBW : List (Bytes × Bytes) → Nat → BW → BW
  | [], _, b => b
  | (k, v) :: rest, nn, b =>
    let sz := encSize k.length ++ encSize v.length
    let m := sz.length + k.length + v.length
    let fl := decide (nn + m > maxWrite)
    let b1 := if fl then b.flush else b
    let nn1 := if fl then 0 else nn
    writePairsBW rest (nn1 + m) (BW.write false (BW.write false (BW.write true b1 sz) k) v)

/-- `io.Copy(body, req)` when the source is an io.WriterTo: one `Write(body)` -/
def bodyBW (body : Bytes) : BW := BW.write true ⟨[], []⟩ body

/-- BEGIN_REQUEST body: role = 1 (responder), flags = 0 -/
def beginBody : Bytes := [0, 1, 0, 0, 0, 0, 0, 0]

/-- contents of the records `Do` writes, with their types (the STDIN part: `streamWrite body ++ [[]]`, which is what
    both io.Copy paths produce — `bodyBW_records` for the WriterTo path). -/
def requestRecords (pairs : List (Bytes × Bytes)) (body : Bytes) : List (UInt8 × Bytes) :=
  (1, beginBody) :: (writePairsBW pairs 0 ⟨[], []⟩).records.map (fun c => (4, c)) ++
    (streamWrite body ++ [[]]).map (fun c => (5, c))

/-- every byte `FCGIClient.Do` writes to the connection (request id 1). -/
def encodeRequest (pairs : List (Bytes × Bytes)) (body : Bytes) : Bytes :=
  ((requestRecords pairs body).map fun r => frame r.1 1 r.2).flatten

/-! ### response side: `record.read` + `streamReader.Read` under `io.ReadAll` -/

/-- `binary.Read(r, BigEndian, &header)`: the 8 header bytes (version, type, id, content length, padding length)
    and the rest of the connection; shared with the SPEC parser below -/
def splitHeader : Bytes → Option (UInt8 × UInt8 × Nat × Nat × Nat × Bytes)
  | v :: t :: i1 :: i0 :: c1 :: c0 :: p :: _ :: rest =>
    some (v, t, i1.toNat * 256 + i0.toNat, c1.toNat * 256 + c0.toNat, p.toNat, rest)
  | _ => none

inductive End | eof | ver | short
deriving DecidableEq, Repr

/-- what `io.ReadAll(streamReader)` yields on the connection content `conn`; `acc` = bytes delivered so far.
    `record.read` does not look at the record type (except END_REQUEST) nor at the request id.
    END_REQUEST ends the stream with io.EOF (its body is not read); a connection that ends at a record
    boundary, or right after a header, is io.EOF as well (`binary.Read`/`io.ReadFull` semantics). -/
def readStream : Nat → Bytes → Bytes → Bytes × End
  | 0, _, acc => (acc, .eof)
  | fuel + 1, conn, acc =>
    if conn.length = 0 then (acc, .eof)
    else match splitHeader conn with
      | none => (acc, .short)
      | some (v, t, _, cl, pl, rest) =>
        if v ≠ 1 then (acc, .ver)
        else if t = 3 then (acc, .eof)
        else
          let n := cl + pl
          if n = 0 then readStream fuel rest acc
          else if rest.length = 0 then (acc, .eof)
          else if rest.length < n then (acc, .short)
          else readStream fuel (rest.drop n) (acc ++ rest.take cl)

def readAll (conn : Bytes) : Bytes × End := readStream (conn.length + 1) conn []


/-! ## building the CGI environment: transport.go `buildMetaValsAndMethod` + the params map of `RoundTrip`

  `metaHeader` is an http.Header: `Add` appends a value under the canonical key, `Set` replaces all values.
  All keys used are upper case ASCII (the static names; `"HTTP_"+ToUpper(name)` with `-` -> `_`) or operator
  configuration (`EnvVars`), and RoundTrip finally does `metaData[strings.ToUpper(k)] = strings.Join(vs, ",")`,
  so the model keys the header by the upper-cased name (for token names two names have the same canonical
  MIME form iff they have the same upper-case form).  The header is kept as the LOG of Add/Set operations;
  `lookup` replays the log, which is exactly Go's map-of-slices semantics.
  Library calls the model does not re-implement are inputs (`scriptFilename` = filepath.Join(root, path), `pathInfoJoin`
  = filepath.Join(root, ""), `reqHost`/`reqPort` = net.SplitHostPort(r.Host), `requestURI` = r.URL.RequestURI()).
  After the C55 httpoxy fix a request header whose mapped name is PROXY is skipped. -/

def kGATEWAY_INTERFACE : Bytes := [71, 65, 84, 69, 87, 65, 89, 95, 73, 78, 84, 69, 82, 70, 65, 67, 69]   -- "GATEWAY_INTERFACE"
def kSERVER_SOFTWARE : Bytes := [83, 69, 82, 86, 69, 82, 95, 83, 79, 70, 84, 87, 65, 82, 69]   -- "SERVER_SOFTWARE"
def kAUTH_TYPE : Bytes := [65, 85, 84, 72, 95, 84, 89, 80, 69]   -- "AUTH_TYPE"
def kCONTENT_LENGTH : Bytes := [67, 79, 78, 84, 69, 78, 84, 95, 76, 69, 78, 71, 84, 72]   -- "CONTENT_LENGTH"
def kCONTENT_TYPE : Bytes := [67, 79, 78, 84, 69, 78, 84, 95, 84, 89, 80, 69]   -- "CONTENT_TYPE"
def kPATH_INFO : Bytes := [80, 65, 84, 72, 95, 73, 78, 70, 79]   -- "PATH_INFO"
def kQUERY_STRING : Bytes := [81, 85, 69, 82, 89, 95, 83, 84, 82, 73, 78, 71]   -- "QUERY_STRING"
def kREMOTE_ADDR : Bytes := [82, 69, 77, 79, 84, 69, 95, 65, 68, 68, 82]   -- "REMOTE_ADDR"
def kREMOTE_HOST : Bytes := [82, 69, 77, 79, 84, 69, 95, 72, 79, 83, 84]   -- "REMOTE_HOST"
def kREMOTE_PORT : Bytes := [82, 69, 77, 79, 84, 69, 95, 80, 79, 82, 84]   -- "REMOTE_PORT"
def kREMOTE_IDENT : Bytes := [82, 69, 77, 79, 84, 69, 95, 73, 68, 69, 78, 84]   -- "REMOTE_IDENT"
def kREMOTE_USER : Bytes := [82, 69, 77, 79, 84, 69, 95, 85, 83, 69, 82]   -- "REMOTE_USER"
def kREQUEST_METHOD : Bytes := [82, 69, 81, 85, 69, 83, 84, 95, 77, 69, 84, 72, 79, 68]   -- "REQUEST_METHOD"
def kREQUEST_SCHEME : Bytes := [82, 69, 81, 85, 69, 83, 84, 95, 83, 67, 72, 69, 77, 69]   -- "REQUEST_SCHEME"
def kSERVER_NAME : Bytes := [83, 69, 82, 86, 69, 82, 95, 78, 65, 77, 69]   -- "SERVER_NAME"
def kSERVER_PORT : Bytes := [83, 69, 82, 86, 69, 82, 95, 80, 79, 82, 84]   -- "SERVER_PORT"
def kSERVER_PROTOCOL : Bytes := [83, 69, 82, 86, 69, 82, 95, 80, 82, 79, 84, 79, 67, 79, 76]   -- "SERVER_PROTOCOL"
def kDOCUMENT_ROOT : Bytes := [68, 79, 67, 85, 77, 69, 78, 84, 95, 82, 79, 79, 84]   -- "DOCUMENT_ROOT"
def kDOCUMENT_URI : Bytes := [68, 79, 67, 85, 77, 69, 78, 84, 95, 85, 82, 73]   -- "DOCUMENT_URI"
def kHTTP_HOST : Bytes := [72, 84, 84, 80, 95, 72, 79, 83, 84]   -- "HTTP_HOST"
def kREQUEST_URI : Bytes := [82, 69, 81, 85, 69, 83, 84, 95, 85, 82, 73]   -- "REQUEST_URI"
def kSCRIPT_FILENAME : Bytes := [83, 67, 82, 73, 80, 84, 95, 70, 73, 76, 69, 78, 65, 77, 69]   -- "SCRIPT_FILENAME"
def kSCRIPT_NAME : Bytes := [83, 67, 82, 73, 80, 84, 95, 78, 65, 77, 69]   -- "SCRIPT_NAME"
def kHTTP_PROXY : Bytes := [72, 84, 84, 80, 95, 80, 82, 79, 88, 89]   -- "HTTP_PROXY"
def sCGI11 : Bytes := [67, 71, 73, 47, 49, 46, 49]   -- "CGI/1.1"
def sBFE : Bytes := [66, 70, 69]   -- "BFE"
def sHTTP_ : Bytes := [72, 84, 84, 80, 95]   -- "HTTP_"
def sPROXY : Bytes := [80, 82, 79, 88, 89]   -- "PROXY"
def sContentLength : Bytes := [67, 111, 110, 116, 101, 110, 116, 45, 76, 101, 110, 103, 116, 104]   -- "Content-Length"
def sContentType : Bytes := [67, 111, 110, 116, 101, 110, 116, 45, 84, 121, 112, 101]   -- "Content-Type"
def sDefaultCT : Bytes := [97, 112, 112, 108, 105, 99, 97, 116, 105, 111, 110, 47, 120, 45, 119, 119, 119, 45, 102, 111, 114, 109, 45, 117, 114, 108, 101, 110, 99, 111, 100, 101, 100]   -- "application/x-www-form-urlencoded"

inductive Op
  | add (k v : Bytes)
  | set (k v : Bytes)
deriving DecidableEq, Repr

def Op.key : Op → Bytes
  | .add k _ => k
  | .set k _ => k

def step (k : Bytes) (st : Option (List Bytes)) : Op → Option (List Bytes)
  | .add k' v => if k' = k then some (st.getD [] ++ [v]) else st
  | .set k' v => if k' = k then some [v] else st

/-- the values stored under key `k` after the operations of the log -/
def lookup (k : Bytes) (ops : List Op) : Option (List Bytes) := ops.foldl (step k) none

structure RtIn where
  method : Bytes
  remote : Bytes
  host : Bytes
  path : Bytes
  rawQuery : Bytes
  proto : Bytes
  scheme : Bytes
  contentLength : Int
  root : Bytes
  envVars : List (Bytes × Bytes)
  hdrs : List (Bytes × List Bytes)
  scriptFilename : Bytes
  pathInfoJoin : Bytes
  reqHost : Bytes
  reqPort : Bytes
  requestURI : Bytes

def upperB (c : UInt8) : UInt8 := if 97 ≤ c.toNat ∧ c.toNat ≤ 122 then c - 32 else c
def upper (s : Bytes) : Bytes := s.map upperB
def dashUnd (s : Bytes) : Bytes := s.map (fun c => if c = 45 then 95 else c)

def joinWith (sep : Bytes) : List Bytes → Bytes
  | [] => []
  | [x] => x
  | x :: y :: xs => x ++ sep ++ joinWith sep (y :: xs)

/-- `Header.Get(key)` for an already canonical key -/
def hget (hdrs : List (Bytes × List Bytes)) (k : Bytes) : Bytes :=
  match hdrs.find? (fun p => p.1 == k) with
  | some (_, v :: _) => v
  | _ => []

/-- `strings.LastIndex(s, ":")` -/
def lastColon (s : Bytes) : Option Nat :=
  (List.range s.length).foldl (fun acc i => if s.getD i 0 == 58 then some i else acc) none

/-- `strings.Replace(s, string(c), "", 1)` -/
def removeFirst (c : UInt8) : Bytes → Bytes
  | [] => []
  | x :: xs => if x = c then xs else x :: removeFirst c xs

def remoteIpPort (r : Bytes) : Bytes × Bytes :=
  let (ip, port) := match lastColon r with
    | some idx => (r.take idx, r.drop (idx + 1))
    | none => (r, [])
  (removeFirst 93 (removeFirst 91 ip), port)

def fmtInt (i : Int) : Bytes := (toString i).toUTF8.toList

/-- the first three `Add`s -/
def staticA : List Op := [.add kGATEWAY_INTERFACE sCGI11, .add kSERVER_SOFTWARE sBFE, .add kAUTH_TYPE []]

/-- the two `Add`s that read request headers -/
def staticH (i : RtIn) : List Op :=
  [.add kCONTENT_LENGTH (hget i.hdrs sContentLength), .add kCONTENT_TYPE (hget i.hdrs sContentType)]

/-- the remaining static `Add`s (none of them reads the request headers) -/
def staticB (i : RtIn) : List Op :=
  let ipp := remoteIpPort i.remote
  [.add kPATH_INFO [], .add kQUERY_STRING i.rawQuery, .add kREMOTE_ADDR ipp.1, .add kREMOTE_HOST ipp.1,
   .add kREMOTE_PORT ipp.2, .add kREMOTE_IDENT [], .add kREMOTE_USER [], .add kREQUEST_METHOD i.method,
   .add kREQUEST_SCHEME i.scheme, .add kSERVER_NAME i.reqHost, .add kSERVER_PORT i.reqPort,
   .add kSERVER_PROTOCOL i.proto, .add kDOCUMENT_ROOT i.root, .add kDOCUMENT_URI i.path, .add kHTTP_HOST i.host,
   .add kREQUEST_URI i.requestURI, .add kSCRIPT_FILENAME i.scriptFilename, .add kSCRIPT_NAME i.path]

/-- `if metaHeader.Get("PATH_INFO") == "" { metaHeader.Add("PATH_INFO", filepath.Join(root, pathInfo)) }` -/
def pathInfoOps (i : RtIn) (before : List Op) : List Op :=
  match lookup kPATH_INFO before with
  | some (v :: _) => if v.length = 0 then [.add kPATH_INFO i.pathInfoJoin] else []
  | _ => [.add kPATH_INFO i.pathInfoJoin]

def envOps (i : RtIn) : List Op := i.envVars.map (fun p => .set (upper p.1) p.2)

/-- one request header; `none` = skipped (the httpoxy fix) -/
def hdrOp (h : Bytes × List Bytes) : Option Op :=
  let name := dashUnd (upper h.1)
  if name = sPROXY then none else some (.add (sHTTP_ ++ name) (joinWith [44, 32] h.2))

def hdrOps (i : RtIn) : List Op := i.hdrs.filterMap hdrOp

def finalOps (i : RtIn) : List Op :=
  let ct := hget i.hdrs sContentType
  [.set kREQUEST_METHOD i.method, .set kCONTENT_LENGTH (fmtInt i.contentLength),
   .set kCONTENT_TYPE (if ct.length = 0 then sDefaultCT else ct)]

def envLog (i : RtIn) : List Op :=
  let s := staticA ++ staticH i ++ staticB i
  s ++ pathInfoOps i s ++ envOps i ++ hdrOps i ++ finalOps i

/-- the params map handed to `client.Do`: every key of the log (first appearance), values joined with "," -/
def envPairs (i : RtIn) : List (Bytes × Bytes) :=
  let log := envLog i
  (log.map Op.key).eraseDups.map fun k => (k, joinWith [44] ((lookup k log).getD []))

def isHttpKey (k : Bytes) : Bool := k.take 5 == sHTTP_


/-! ### streamReader.Read call by call (the `(n, err)` contract) -/

inductive RErr | nil | eof | short | ver
deriving DecidableEq, Repr

/-- `record.read`: (content, error, what is left of the connection).  On an error the bytes already consumed stay
    consumed: after END_REQUEST its 8-byte body is still unread, so a further Read parses it as a record header. -/
def recRead (conn : Bytes) : Option Bytes × RErr × Bytes :=
  if conn.length = 0 then (none, .eof, [])
  else match splitHeader conn with
    | none => (none, .short, [])
    | some (v, t, _, cl, pl, rest) =>
      if v ≠ 1 then (none, .ver, rest)
      else if t = 3 then (none, .eof, rest)
      else if cl + pl = 0 then (some [], .nil, rest)
      else if rest.length = 0 then (none, .eof, [])
      else if rest.length < cl + pl then (none, .short, [])
      else (some (rest.take cl), .nil, rest.drop (cl + pl))

structure RdState where
  conn : Bytes
  buf : Bytes
deriving DecidableEq, Repr

/-- one `streamReader.Read(p)` with `len(p) = s`: new state, delivered bytes, error -/
def readStep (st : RdState) (s : Nat) : RdState × Bytes × RErr :=
  if s = 0 then (st, [], .nil)
  else if st.buf.length = 0 then
    match recRead st.conn with
    | (some c, _, rest) => ({ conn := rest, buf := c.drop s }, c.take s, .nil)
    | (none, e, rest) => ({ conn := rest, buf := [] }, [], e)
  else ({ st with buf := st.buf.drop s }, st.buf.take s, .nil)

def stepsFrom : RdState → List Nat → List (Nat × RErr) × Bytes
  | _, [] => ([], [])
  | st, s :: ss =>
    let r1 := readStep st s
    let r := stepsFrom r1.1 ss
    ((r1.2.1.length, r1.2.2) :: r.1, r1.2.1 ++ r.2)

/-- the `(n, err)` results of the successive `Read(p)` calls with `len(p) = sizes[i]`, and all bytes delivered -/
def readSteps (conn : Bytes) (sizes : List Nat) : List (Nat × RErr) × Bytes := stepsFrom ⟨conn, []⟩ sizes

/-- the records drained one after the other: all contents up to the first error, and that error -/
def drain : Nat → Bytes → Bytes × RErr
  | 0, _ => ([], .eof)
  | f + 1, conn =>
    match recRead conn with
    | (some c, _, rest) => let r := drain f rest; (c ++ r.1, r.2)
    | (none, e, _) => ([], e)

def toEnd : RErr → End
  | .ver => .ver
  | .short => .short
  | _ => .eof

/-! ### io.Copy(stdin writer, body) through bfe_bufio.Writer.ReadFrom with a body reader that returns the body in pieces

  `ReadFrom`: `for { if Available()==0 { flush }; m, err = r.Read(buf[n:]); if m == 0 { break }; … }` — an EMPTY read with a
  nil error ends the copy (Go's bufio retries instead), so the rest of the body is never sent.  `sizes` = the sizes the
  reader would like to return (0 = empty read), after them the rest in one piece; every read is capped by the free
  buffer space.  Result: how many body bytes reach the FastCGI application. -/
def bodyPos : Nat → Nat → Nat → Nat → List Nat → Nat
  | 0, _, pos, _, _ => pos
  | fuel + 1, len, pos, buffered, sizes =>
    let buffered := if buffered = maxWrite then 0 else buffered
    if len - pos = 0 then pos
    else
      let s := match sizes with
        | [] => len - pos
        | x :: _ => x
      if s = 0 then pos
      else
        let m := min s (min (maxWrite - buffered) (len - pos))
        bodyPos fuel len (pos + m) (buffered + m) sizes.tail

def bodyDelivered (body : Bytes) (sizes : List Nat) : Bytes :=
  body.take (bodyPos (sizes.length + body.length / maxWrite + 3) body.length 0 0 sizes)

/-! ### the HTTP response built from the stream: `readResponse` (transport.go) over textproto.ReadMIMEHeader

  Modelled for header blocks whose lines do not start with SP/HT (no continuation lines) and that end with a blank
  line; otherwise `unmodelled`.  A line without a colon is a ProtocolError (-> `err`). -/
def isTokenByte (c : UInt8) : Bool :=
  let n := c.toNat
  (48 ≤ n && n ≤ 57) || (65 ≤ n && n ≤ 90) || (97 ≤ n && n ≤ 122) ||
  [33, 35, 36, 37, 38, 39, 42, 43, 45, 46, 94, 95, 96, 124, 126].contains n

/-- `canonicalMIMEHeaderKey` -/
def canonKey (k : Bytes) : Bytes :=
  if k.all isTokenByte then
    (k.foldl (fun (acc : Bytes × Bool) c =>
      let c' := if acc.2 && 97 ≤ c.toNat && c.toNat ≤ 122 then c - 32
                else if !acc.2 && 65 ≤ c.toNat && c.toNat ≤ 90 then c + 32 else c
      (acc.1 ++ [c'], c' == 45)) ([], true)).1
  else k

def isWs (c : UInt8) : Bool := c == 32 || c == 9
def trimWs (s : Bytes) : Bytes := ((s.dropWhile isWs).reverse.dropWhile isWs).reverse

/-- first line (without its LF and one CR before it) and the rest; `none` when there is no LF -/
def splitLine : Bytes → Option (Bytes × Bytes)
  | [] => none
  | 10 :: rest => some ([], rest)
  | c :: rest => match splitLine rest with
    | none => none
    | some (l, r) => some (c :: l, r)

def stripCR (l : Bytes) : Bytes := if l.getLast? == some 13 then l.dropLast else l

inductive HdrParse
  | ok (hdrs : List (Bytes × Bytes)) (body : Bytes)
  | err
  | unmodelled

def parseHdrBlock : Nat → Bytes → List (Bytes × Bytes) → HdrParse
  | 0, _, _ => .unmodelled
  | fuel + 1, s, acc =>
    match splitLine s with
    | none => .unmodelled
    | some (l0, rest) =>
      let l := stripCR l0
      if l.length = 0 then .ok acc rest
      else if isWs (l.headD 0) then .unmodelled
      else
        let kv := trimWs l
        match kv.idxOf? 58 with
        | none => .err
        | some i =>
          let key := canonKey (kv.take i)
          let value := (kv.drop (i + 1)).dropWhile isWs
          if key.length = 0 then parseHdrBlock fuel rest acc
          else parseHdrBlock fuel rest (acc ++ [(key, value)])

/-- some line of the header block (up to the blank line) starts with SP/HT: textproto joins it to the PREVIOUS line
    (continuation), which the model does not follow — such blocks are `unmodelled` as a whole, whatever else they contain -/
def hasContLine : Nat → Bytes → Bool
  | 0, _ => false
  | fuel + 1, s =>
    match splitLine s with
    | none => false
    | some (l0, rest) =>
      let l := stripCR l0
      if l.length = 0 then false
      else if isWs (l.headD 0) then true
      else if isWs (rest.headD 0) && rest.length != 0 then true   -- also when that line never ends (no LF before EOF)
      else hasContLine fuel rest

/-- `strconv.Atoi` / `ParseInt(s, 10, 64)` -/
def atoi (s : Bytes) : Option Int :=
  let (neg, ds) := match s with
    | 43 :: r => (false, r)
    | 45 :: r => (true, r)
    | r => (false, r)
  if ds.length = 0 || !(ds.all fun c => 48 ≤ c.toNat && c.toNat ≤ 57) then none
  else
    let v : Nat := ds.foldl (fun (a : Nat) c => a * 10 + (c.toNat - 48)) 0
    if neg then (if v > 9223372036854775808 then none else some (-(v : Int)))
    else (if v > 9223372036854775807 then none else some (v : Int))

structure CgiResp where
  code : Int
  status : Bytes
  hdrs : List (Bytes × List Bytes)   -- canonical key, values in order of appearance; keys in order of first appearance
  contentLength : Int
  te : List Bytes
  body : Bytes

inductive CgiResult
  | resp (r : CgiResp)
  | err
  | unmodelled

def groupHdrs (kvs : List (Bytes × Bytes)) : List (Bytes × List Bytes) :=
  (kvs.map (·.1)).eraseDups.map fun k => (k, (kvs.filter (fun p => p.1 == k)).map (·.2))

def sStatus : Bytes := [83, 116, 97, 116, 117, 115]
def sCLen : Bytes := [67, 111, 110, 116, 101, 110, 116, 45, 76, 101, 110, 103, 116, 104]
def sTE : Bytes := [84, 114, 97, 110, 115, 102, 101, 114, 45, 69, 110, 99, 111, 100, 105, 110, 103]
def sChunked : Bytes := [99, 104, 117, 110, 107, 101, 100]

def readResponse (stream : Bytes) : CgiResult :=
  if hasContLine (stream.length + 1) stream then .unmodelled else
  match parseHdrBlock (stream.length + 1) stream [] with
  | .unmodelled => .unmodelled
  | .err => .err
  | .ok kvs body =>
    let hdrs := groupHdrs kvs
    let get (k : Bytes) : Bytes := ((hdrs.find? (fun p => p.1 == k)).bind (·.2.head?)).getD []
    let st := get sStatus
    let te := ((hdrs.find? (fun p => p.1 == sTE)).map (·.2)).getD []
    let cl := (atoi (get sCLen)).getD 0
    if te.head? == some sChunked then .unmodelled
    else if st.length = 0 then .resp ⟨200, [], hdrs, cl, te, body⟩
    else
      let p0 := st.takeWhile (· != 32)
      let p1 := (st.dropWhile (· != 32)).drop 1
      match atoi p0 with
      | none => .err
      | some c => .resp ⟨c, p1, hdrs, cl, te, body⟩

/-! ## SPEC: FastCGI 1.0 decoder (record layer §3.3, name-value pairs §3.4, streams §3.3/§5) -/

structure Rec where
  typ : UInt8
  id : Nat
  content : Bytes
deriving DecidableEq, Repr

/-- a byte string is a sequence of complete version-1 records. -/
def parseRecs : Nat → Bytes → Option (List Rec)
  | 0, bs => if bs.length = 0 then some [] else none
  | fuel + 1, bs =>
    if bs.length = 0 then some []
    else match splitHeader bs with
      | none => none
      | some (v, t, id, cl, pl, rest) =>
        if v ≠ 1 then none
        else if rest.length < cl + pl then none
        else (parseRecs fuel (rest.drop (cl + pl))).map (fun rs => ⟨t, id, rest.take cl⟩ :: rs)

def parse (bs : Bytes) : Option (List Rec) := parseRecs bs.length bs

/-- a stream of type `t`: its non-empty records, closed by exactly one empty record at the end. -/
def closedStream (t : UInt8) (rs : List Rec) : Option Bytes :=
  let cs := (rs.filter (fun r => r.typ == t)).map (·.content)
  match cs.getLast? with
  | some [] => if cs.dropLast.all (fun c => c.length != 0) then some cs.flatten else none
  | _ => none

def decSize : Bytes → Option (Nat × Bytes)
  | [] => none
  | b :: rest =>
    if b.toNat < 128 then some (b.toNat, rest)
    else match rest with
      | b1 :: b2 :: b3 :: r => some ((b.toNat - 128) * 16777216 + b1.toNat * 65536 + b2.toNat * 256 + b3.toNat, r)
      | _ => none

def decPairs : Nat → Bytes → Option (List (Bytes × Bytes))
  | 0, bs => if bs.length = 0 then some [] else none
  | fuel + 1, bs =>
    if bs.length = 0 then some []
    else match decSize bs with
      | none => none
      | some (kl, r1) =>
        match decSize r1 with
        | none => none
        | some (vl, r2) =>
          if r2.length < kl + vl then none
          else (decPairs fuel (r2.drop (kl + vl))).map (fun ps => (r2.take kl, (r2.drop kl).take vl) :: ps)

structure Req where
  pairs : List (Bytes × Bytes)
  body : Bytes
deriving DecidableEq, Repr

/-- what a FastCGI application reads from the connection: BEGIN_REQUEST{responder, flags 0} with a non-null id,
    then only PARAMS / STDIN records of that id, both streams properly closed. -/
def decodeRequest (bs : Bytes) : Option Req :=
  match parse bs with
  | some (b :: rest) =>
    if b.typ = 1 ∧ b.content = [0, 1, 0, 0, 0, 0, 0, 0] ∧ b.id ≠ 0 ∧
       rest.all (fun r => r.id == b.id && (r.typ == 4 || r.typ == 5)) then
      match closedStream 4 rest, closedStream 5 rest with
      | some ps, some body =>
        match decPairs ps.length ps with
        | some pairs => some ⟨pairs, body⟩
        | none => none
      | _, _ => none
    else none
  | _ => none

/-- the application's standard output: contents of the STDOUT records before END_REQUEST. -/
def stdoutOf (rs : List Rec) : Bytes :=
  (((rs.takeWhile (fun r => r.typ != 3)).filter (fun r => r.typ == 6)).map (·.content)).flatten

/-- what the code delivers instead: the contents of ALL records before END_REQUEST -/
def allBeforeEnd (rs : List Rec) : Bytes :=
  ((rs.takeWhile (fun r => r.typ != 3)).map (·.content)).flatten

def hasEnd (rs : List Rec) : Bool := rs.any (fun r => r.typ == 3)

end BfeVerif.C55
