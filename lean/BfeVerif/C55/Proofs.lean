import BfeVerif.C55.Model
/-! C55 helper lemmas. -/
namespace BfeVerif.C55

theorem toNat_ofNat_lt (n : Nat) (h : n < 256) : (UInt8.ofNat n).toNat = n := by
  simp [UInt8.toNat_ofNat']; omega

theorem padLen_lt (n : Nat) : padLen n < 256 := by unfold padLen; omega

/-! ### chunks -/
def Good (c : Bytes) : Prop := 0 < c.length ∧ c.length ≤ maxWrite

theorem chunks_spec : ∀ (fuel : Nat) (p : Bytes), p.length ≤ fuel →
    (chunks fuel p).flatten = p ∧ ∀ c ∈ chunks fuel p, Good c := by
  intro fuel
  induction fuel with
  | zero =>
    intro p hp
    have : p = [] := List.eq_nil_of_length_eq_zero (by omega)
    subst this; simp [chunks]
  | succ f ih =>
    intro p hp
    unfold chunks
    by_cases h0 : p.length = 0
    · have : p = [] := List.eq_nil_of_length_eq_zero h0
      subst this; simp
    · simp only [h0, if_false]
      have hd : (p.drop maxWrite).length ≤ f := by simp [maxWrite]; omega
      obtain ⟨h1, h2⟩ := ih (p.drop maxWrite) hd
      refine ⟨by simp [h1], ?_⟩
      intro c hc
      rcases List.mem_cons.mp hc with h | h
      · subst h; unfold Good; simp [List.length_take, maxWrite]; omega
      · exact h2 c h

theorem streamWrite_spec (p : Bytes) : (streamWrite p).flatten = p ∧ ∀ c ∈ streamWrite p, Good c :=
  chunks_spec p.length p (Nat.le_refl _)

/-! ### encSize / encPair -/
theorem encSize_length_le (n : Nat) : (encSize n).length ≤ 4 := by
  unfold encSize; split <;> simp

theorem encPair_length_le (k v : Bytes) : (encPair k v).length ≤ 8 + k.length + v.length := by
  unfold encPair
  have := encSize_length_le k.length
  have := encSize_length_le v.length
  simp only [List.length_append]; omega

/-! ### record layer: the SPEC parser inverts `frame` -/
def toRec (id : Nat) (r : UInt8 × Bytes) : Rec := ⟨r.1, id, r.2⟩

theorem u16_rt (n : Nat) (h : n < 65536) : n % 65536 / 256 * 256 + n % 256 = n := by omega

theorem frame_length (t : UInt8) (id : Nat) (c : Bytes) :
    (frame t id c).length = 8 + c.length + padLen c.length := by
  unfold frame; simp; omega

theorem splitHeader_frame (t : UInt8) (id : Nat) (c rest : Bytes) (hid : id < 65536) (hc : c.length < 65536) :
    splitHeader (frame t id c ++ rest) =
      some (1, t, id, c.length, padLen c.length, (c ++ List.replicate (padLen c.length) 0) ++ rest) := by
  unfold frame
  simp only [List.cons_append, List.nil_append, splitHeader, List.append_assoc]
  rw [toNat_ofNat_lt (id % 65536 / 256) (by omega), toNat_ofNat_lt (id % 256) (by omega),
      toNat_ofNat_lt (c.length % 65536 / 256) (by omega), toNat_ofNat_lt (c.length % 256) (by omega),
      toNat_ofNat_lt (padLen c.length) (padLen_lt _)]
  rw [u16_rt id hid, u16_rt c.length hc]

theorem parseRecs_nil (fuel : Nat) : parseRecs fuel [] = some [] := by
  cases fuel <;> simp [parseRecs]

theorem parseRecs_frames (id : Nat) (hid : id < 65536) : ∀ (recs : List (UInt8 × Bytes)),
    (∀ r ∈ recs, r.2.length < 65536) → ∀ fuel,
    ((recs.map fun r => frame r.1 id r.2).flatten).length ≤ fuel →
    parseRecs fuel ((recs.map fun r => frame r.1 id r.2).flatten) = some (recs.map (toRec id)) := by
  intro recs
  induction recs with
  | nil => intro _ fuel _; simpa using parseRecs_nil fuel
  | cons r rs ih =>
    intro hall fuel hfuel
    simp only [List.map_cons, List.flatten_cons, List.length_append, frame_length] at hfuel
    cases fuel with
    | zero => omega
    | succ f =>
      simp only [List.map_cons, List.flatten_cons]
      unfold parseRecs
      have hne : ¬ (frame r.1 id r.2 ++ (List.map (fun r => frame r.1 id r.2) rs).flatten).length = 0 := by
        simp only [List.length_append, frame_length]; omega
      simp only [hne, if_false]
      have hc := hall r (List.mem_cons_self ..)
      rw [splitHeader_frame r.1 id r.2 _ hid hc]
      have hl : (r.2 ++ List.replicate (padLen r.2.length) (0 : UInt8)).length = r.2.length + padLen r.2.length := by simp
      simp only [ne_eq, not_true_eq_false, if_false]
      have hlt : ¬ ((r.2 ++ List.replicate (padLen r.2.length) (0 : UInt8)) ++
          (List.map (fun r => frame r.1 id r.2) rs).flatten).length < r.2.length + padLen r.2.length := by
        simp only [List.length_append, List.length_replicate]; omega
      simp only [hlt, if_false]
      rw [List.drop_left' hl]
      rw [ih (fun q hq => hall q (List.mem_cons_of_mem _ hq)) f (by omega)]
      simp only [Option.map_some, List.append_assoc, List.take_left', toRec]

/-! ### name-value pairs: the SPEC decoder inverts `encSize` / `encPair` -/
theorem or_hi (n : Nat) (h : n < 2147483648) : (n % 4294967296) ||| 2147483648 = n + 2147483648 := by
  have h1 : n % 4294967296 = n := Nat.mod_eq_of_lt (by omega)
  rw [h1]
  have := Nat.two_pow_add_eq_or_of_lt (i := 31) (b := n) (by simpa using h) 1
  rw [Nat.or_comm]
  simp at this
  omega

theorem decSize_encSize (n : Nat) (rest : Bytes) (h : n < 2147483648) :
    decSize (encSize n ++ rest) = some (n, rest) := by
  unfold encSize
  by_cases hb : n > 127
  · simp only [hb, if_true, or_hi n h, List.cons_append, List.nil_append, decSize]
    rw [toNat_ofNat_lt ((n + 2147483648) / 16777216) (by omega), toNat_ofNat_lt _ (Nat.mod_lt _ (by omega)),
        toNat_ofNat_lt _ (Nat.mod_lt _ (by omega)), toNat_ofNat_lt _ (Nat.mod_lt _ (by omega))]
    have : ¬ (n + 2147483648) / 16777216 < 128 := by omega
    simp only [this, if_false]
    congr 2
    omega
  · simp only [hb, if_false, List.cons_append, List.nil_append, decSize]
    rw [toNat_ofNat_lt n (by omega)]
    have : n < 128 := by omega
    simp [this]

theorem decPairs_nil (fuel : Nat) : decPairs fuel [] = some [] := by
  cases fuel <;> simp [decPairs]

theorem encPair_length_pos (k v : Bytes) : 2 ≤ (encPair k v).length := by
  unfold encPair encSize
  simp only [List.length_append]
  split <;> split <;> simp <;> omega

theorem decPairs_enc : ∀ (ps : List (Bytes × Bytes)),
    (∀ p ∈ ps, p.1.length < 2147483648 ∧ p.2.length < 2147483648) → ∀ fuel,
    ((ps.map fun p => encPair p.1 p.2).flatten).length ≤ fuel →
    decPairs fuel ((ps.map fun p => encPair p.1 p.2).flatten) = some ps := by
  intro ps
  induction ps with
  | nil => intro _ fuel _; simpa using decPairs_nil fuel
  | cons p rs ih =>
    intro hall fuel hfuel
    obtain ⟨k, v⟩ := p
    have hpos := encPair_length_pos k v
    simp only [List.map_cons, List.flatten_cons, List.length_append] at hfuel
    cases fuel with
    | zero => omega
    | succ f =>
      simp only [List.map_cons, List.flatten_cons]
      unfold decPairs
      have hne : ¬ (encPair k v ++ (List.map (fun p => encPair p.1 p.2) rs).flatten).length = 0 := by
        simp only [List.length_append]; omega
      simp only [hne, if_false]
      obtain ⟨hk, hv⟩ := hall (k, v) (List.mem_cons_self ..)
      simp only at hk hv
      generalize hX : (List.map (fun p => encPair p.1 p.2) rs).flatten = X at *
      have he : encPair k v ++ X = encSize k.length ++ (encSize v.length ++ (k ++ (v ++ X))) := by
        simp [encPair]
      rw [he, decSize_encSize _ _ hk]
      simp only []
      rw [decSize_encSize _ _ hv]
      simp only []
      have hlt : ¬ (k ++ (v ++ X)).length < k.length + v.length := by
        simp only [List.length_append]; omega
      simp only [hlt, if_false]
      have e1 : List.drop (k.length + v.length) (k ++ (v ++ X)) = X := by
        rw [← List.append_assoc]; exact List.drop_left' (by simp)
      rw [e1, ih (fun q hq => hall q (List.mem_cons_of_mem _ hq)) f (by omega)]
      simp only [Option.map_some, List.take_left', List.drop_left']

/-! ### streams -/
theorem closedStream_of_cs (t : UInt8) (rs : List Rec) (a : List Bytes)
    (h : (rs.filter (fun r => r.typ == t)).map (·.content) = a ++ [[]]) (ha : ∀ c ∈ a, Good c) :
    closedStream t rs = some a.flatten := by
  unfold closedStream
  simp only [h, List.getLast?_append, List.getLast?_singleton, Option.some_or, List.dropLast_concat]
  have : (a.all fun c => c.length != 0) = true := by
    rw [List.all_eq_true]; intro c hc; have := (ha c hc).1
    simp only [bne_iff_ne, ne_eq]; omega
  simp [this]

/-- the records after BEGIN_REQUEST, as the SPEC parser sees them -/
def restRecs (ps bd : List Bytes) : List Rec :=
  (ps.map (fun c => ((4 : UInt8), c)) ++ bd.map (fun c => ((5 : UInt8), c))).map (toRec 1)

theorem filter_true' {α} (l : List α) : l.filter (fun _ => true) = l := by
  induction l <;> simp_all
theorem filter_false' {α} (l : List α) : l.filter (fun _ => false) = [] := by
  induction l <;> simp_all

theorem restRecs_params (a b : List Bytes) (ha : ∀ c ∈ a, Good c) :
    closedStream 4 (restRecs (a ++ [[]]) b) = some a.flatten := by
  apply closedStream_of_cs _ _ _ _ ha
  simp [restRecs, toRec, List.filter_map, Function.comp_def, List.filter_append, filter_true', filter_false']

theorem restRecs_body (a b : List Bytes) (hb : ∀ c ∈ b, Good c) :
    closedStream 5 (restRecs a (b ++ [[]])) = some b.flatten := by
  apply closedStream_of_cs _ _ _ _ hb
  simp [restRecs, toRec, List.filter_map, Function.comp_def, List.filter_append, filter_true', filter_false']

theorem restRecs_all (a b : List Bytes) :
    (restRecs a b).all (fun r => r.id == 1 && (r.typ == 4 || r.typ == 5)) = true := by
  simp [restRecs, toRec, List.all_append, List.all_map]

/-! ### the call-level bufio writer: everything written comes out, in order, in sink calls -/
def BW.stream (b : BW) : Bytes := b.out.flatten ++ b.buf
def BW.Inv (b : BW) : Prop := b.buf.length ≤ maxWrite

theorem BW.flush_spec (b : BW) (h : b.Inv) : b.flush.Inv ∧ b.flush.stream = b.stream := by
  unfold BW.flush
  by_cases h0 : b.buf.length = 0
  · simp [h0, h]
  · simp [h0, BW.Inv, BW.stream]

theorem BW.flush_buf_nil_or (b : BW) : b.flush.buf = [] ∨ b.flush = b := by
  unfold BW.flush
  by_cases h0 : b.buf.length = 0
  · right; simp [h0]
  · left; simp [h0]

theorem BW.writeLoop_spec (d : Bool) : ∀ (fuel : Nat) (b : BW) (p : Bytes), b.Inv →
    2 * p.length + (if b.buf.length = maxWrite then 1 else 0) < fuel →
    (BW.writeLoop d fuel b p).1.Inv ∧
    (BW.writeLoop d fuel b p).1.stream ++ (BW.writeLoop d fuel b p).2 = b.stream ++ p ∧
    (BW.writeLoop d fuel b p).2.length ≤ maxWrite - (BW.writeLoop d fuel b p).1.buf.length := by
  intro fuel
  induction fuel with
  | zero => intro b p _ hm; omega
  | succ f ih =>
    intro b p hinv hm
    unfold BW.writeLoop
    by_cases hgt : p.length > maxWrite - b.buf.length
    · simp only [hgt, if_true]
      by_cases hd : d = true ∧ b.buf.length = 0
      · obtain ⟨hd1, hd0⟩ := hd
        subst hd1
        simp only [hd0, and_self, if_true]
        have hb : b.buf = [] := List.eq_nil_of_length_eq_zero hd0
        have := ih { b with out := b.out ++ [p] } [] (by simpa [BW.Inv] using hinv)
          (by simp only [List.length_nil]; split <;> omega)
        obtain ⟨i1, i2, i3⟩ := this
        refine ⟨i1, ?_, i3⟩
        rw [i2]; simp [BW.stream, hb]
      · simp only [hd, if_false]
        have hinv' : b.buf.length ≤ maxWrite := hinv
        have hn : min p.length (maxWrite - b.buf.length) = maxWrite - b.buf.length := by omega
        rw [hn]
        have hlen : (b.buf ++ p.take (maxWrite - b.buf.length)).length = maxWrite := by
          simp only [List.length_append, List.length_take]; omega
        have hfl : BW.flush { b with buf := b.buf ++ p.take (maxWrite - b.buf.length) } =
            { buf := [], out := b.out ++ [b.buf ++ p.take (maxWrite - b.buf.length)] } := by
          unfold BW.flush
          have : ¬ (b.buf ++ p.take (maxWrite - b.buf.length)).length = 0 := by rw [hlen]; simp [maxWrite]
          rw [if_neg this]
        rw [hfl]
        have := ih { buf := [], out := b.out ++ [b.buf ++ p.take (maxWrite - b.buf.length)] }
          (p.drop (maxWrite - b.buf.length)) (by simp [BW.Inv])
          (by
            simp only [List.length_drop, List.length_nil]
            have : ¬ (0 = maxWrite) := by simp [maxWrite]
            simp only [this, if_false]
            split at hm <;> omega)
        obtain ⟨i1, i2, i3⟩ := this
        refine ⟨i1, ?_, i3⟩
        rw [i2]
        simp [BW.stream]
    · simp only [hgt, if_false]
      exact ⟨hinv, trivial, by omega⟩

theorem BW.write_spec (d : Bool) (b : BW) (p : Bytes) (h : b.Inv) :
    (BW.write d b p).Inv ∧ (BW.write d b p).stream = b.stream ++ p := by
  obtain ⟨i1, i2, i3⟩ := BW.writeLoop_spec d (2 * p.length + 3) b p h (by split <;> omega)
  unfold BW.write
  refine ⟨?_, ?_⟩
  · simp only [BW.Inv, List.length_append]; have : (BW.writeLoop d (2 * p.length + 3) b p).1.buf.length ≤ maxWrite := i1; omega
  · rw [← i2]; simp [BW.stream]

theorem writePairsBW_spec : ∀ (pairs : List (Bytes × Bytes)) (nn : Nat) (b : BW), b.Inv →
    (writePairsBW pairs nn b).Inv ∧
    (writePairsBW pairs nn b).stream = b.stream ++ (pairs.map fun p => encPair p.1 p.2).flatten := by
  intro pairs
  induction pairs with
  | nil => intro nn b h; simp [writePairsBW, h]
  | cons p rest ih =>
    intro nn b h
    obtain ⟨k, v⟩ := p
    unfold writePairsBW
    simp only []
    have hb1 : (if decide (nn + ((encSize k.length ++ encSize v.length).length + k.length + v.length) > maxWrite) = true
        then b.flush else b).Inv ∧
        (if decide (nn + ((encSize k.length ++ encSize v.length).length + k.length + v.length) > maxWrite) = true
        then b.flush else b).stream = b.stream := by
      split
      · exact BW.flush_spec b h
      · exact ⟨h, rfl⟩
    generalize (if decide (nn + ((encSize k.length ++ encSize v.length).length + k.length + v.length) > maxWrite) = true
        then b.flush else b) = b1 at hb1
    obtain ⟨h1, s1⟩ := hb1
    obtain ⟨h2, s2⟩ := BW.write_spec true b1 (encSize k.length ++ encSize v.length) h1
    obtain ⟨h3, s3⟩ := BW.write_spec false _ k h2
    obtain ⟨h4, s4⟩ := BW.write_spec false _ v h3
    obtain ⟨h5, s5⟩ := ih _ _ h4
    refine ⟨h5, ?_⟩
    rw [s5, s4, s3, s2, s1]
    simp [encPair]

theorem flatten_map_streamWrite (l : List Bytes) : ((l.map streamWrite).flatten).flatten = l.flatten := by
  induction l with
  | nil => rfl
  | cons c cs ih => simp [List.flatten_append, (streamWrite_spec c).1, ih]

/-- the records of a writer: all but the closing empty one are non-empty and at most 65500 bytes, and together they are
    exactly the bytes written -/
theorem BW.records_spec (b : BW) (h : b.Inv) :
    ∃ init, b.records = init ++ [[]] ∧ (∀ c ∈ init, Good c) ∧ init.flatten = b.stream := by
  refine ⟨(b.flush.out.map streamWrite).flatten, rfl, ?_, ?_⟩
  · intro c hc
    obtain ⟨l, hl, hcl⟩ := List.mem_flatten.mp hc
    obtain ⟨x, _, rfl⟩ := List.mem_map.mp hl
    exact (streamWrite_spec x).2 c hcl
  · rw [flatten_map_streamWrite]
    have hs := (BW.flush_spec b h).2
    rcases BW.flush_buf_nil_or b with hn | hn
    · rw [← hs]; simp [BW.stream, hn]
    · rw [hn]
      -- flush = b means the buffer is empty
      have : b.buf = [] := by
        unfold BW.flush at hn
        by_cases h0 : b.buf.length = 0
        · exact List.eq_nil_of_length_eq_zero h0
        · simp only [h0, if_false] at hn
          have := congrArg BW.buf hn
          simp at this
          exact this
      simp [BW.stream, this]

theorem BW.write_fits (d : Bool) (b : BW) (p : Bytes) (h : p.length ≤ maxWrite - b.buf.length) :
    BW.write d b p = { b with buf := b.buf ++ p } := by
  unfold BW.write BW.writeLoop
  have : ¬ p.length > maxWrite - b.buf.length := by omega
  simp [this]

theorem streamWrite_nil : streamWrite [] = [] := by simp [streamWrite, chunks]

theorem bodyBW_records (body : Bytes) : (bodyBW body).records = streamWrite body ++ [[]] := by
  unfold bodyBW
  by_cases h : body.length ≤ maxWrite
  · rw [BW.write_fits true _ _ (by simpa using h)]
    simp only [BW.records, List.nil_append]
    unfold BW.flush
    by_cases h0 : body.length = 0
    · have : body = [] := List.eq_nil_of_length_eq_zero h0
      subst this; simp [streamWrite_nil]
    · simp [h0]
  · have hlt : maxWrite < body.length := by omega
    have hw : BW.write true ⟨[], []⟩ body = ⟨[], [body]⟩ := by
      simp [BW.write, BW.writeLoop, hlt]
    rw [hw]
    simp [BW.records, BW.flush]

/-- all record contents `Do` emits, and what the SPEC parser makes of the bytes -/
theorem request_parse (pairs : List (Bytes × Bytes)) (body : Bytes) :
    ∃ init, (∀ c ∈ init, Good c) ∧
      init.flatten = (pairs.map (fun p => encPair p.1 p.2)).flatten ∧
      requestRecords pairs body = ((1 : UInt8), beginBody) ::
        ((init ++ [[]]).map (fun c => ((4 : UInt8), c)) ++ (streamWrite body ++ [[]]).map (fun c => ((5 : UInt8), c))) ∧
      parse (encodeRequest pairs body) =
        some (toRec 1 (1, beginBody) :: restRecs (init ++ [[]]) (streamWrite body ++ [[]])) := by
  have hw := writePairsBW_spec pairs 0 ⟨[], []⟩ (by simp [BW.Inv])
  obtain ⟨init, e1, e2, e3⟩ := BW.records_spec _ hw.1
  obtain ⟨b1, b2⟩ := streamWrite_spec body
  have hr : requestRecords pairs body = ((1 : UInt8), beginBody) ::
      ((init ++ [[]]).map (fun c => ((4 : UInt8), c)) ++ (streamWrite body ++ [[]]).map (fun c => ((5 : UInt8), c))) := by
    simp [requestRecords, e1]
  refine ⟨init, e2, by rw [e3, hw.2]; simp [BW.stream], hr, ?_⟩
  unfold parse encodeRequest
  rw [hr]
  rw [parseRecs_frames 1 (by omega) _ ?_ _ (Nat.le_refl _)]
  · simp [restRecs]
  · intro r hr
    simp only [List.mem_cons, List.mem_append, List.mem_map] at hr
    rcases hr with rfl | ⟨c, hc, rfl⟩ | ⟨c, hc, rfl⟩
    · simp [beginBody]
    · rcases hc with h | h | h
      · have := (e2 c h).2; simp only [maxWrite] at this; simp only; omega
      · subst h; simp
      · simp at h
    · rcases hc with h | h | h
      · have := (b2 c h).2; simp only [maxWrite] at this; simp only; omega
      · subst h; simp
      · simp at h

/-! ### response side -/
theorem splitHeader_some (conn : Bytes) (x : UInt8 × UInt8 × Nat × Nat × Nat × Bytes)
    (h : splitHeader conn = some x) :
    ∃ v t i1 i0 c1 c0 p r rest, conn = v :: t :: i1 :: i0 :: c1 :: c0 :: p :: r :: rest ∧
      x = (v, t, i1.toNat * 256 + i0.toNat, c1.toNat * 256 + c0.toNat, p.toNat, rest) := by
  unfold splitHeader at h
  split at h
  · rename_i v t i1 i0 c1 c0 p r rest
    exact ⟨v, t, i1, i0, c1, c0, p, r, rest, rfl, by simpa using h.symm⟩
  · simp at h

theorem readStream_parse : ∀ (fuel1 : Nat) (conn : Bytes) (rs : List Rec),
    parseRecs fuel1 conn = some rs → hasEnd rs = true →
    ∀ (fuel2 : Nat) (acc : Bytes), conn.length < fuel2 →
    readStream fuel2 conn acc = (acc ++ allBeforeEnd rs, End.eof) := by
  intro fuel1
  induction fuel1 with
  | zero =>
    intro conn rs h he
    unfold parseRecs at h
    split at h
    · simp only [Option.some.injEq] at h; subst h; simp [hasEnd] at he
    · simp at h
  | succ f ih =>
    intro conn rs h he fuel2 acc hf
    unfold parseRecs at h
    by_cases h0 : conn.length = 0
    · simp only [h0, if_true, Option.some.injEq] at h; subst h; simp [hasEnd] at he
    · simp only [h0, if_false] at h
      cases hs : splitHeader conn with
      | none => simp [hs] at h
      | some x =>
        obtain ⟨v, t, rid, cl, pl, rest⟩ := x
        have hlen : conn.length = rest.length + 8 := by
          obtain ⟨_, _, _, _, _, _, _, _, rest', hc, hx⟩ := splitHeader_some conn _ hs
          simp only [Prod.mk.injEq] at hx
          rw [hc, hx.2.2.2.2.2]; simp
        simp only [hs] at h
        by_cases hv : v = 1
        · subst hv
          simp only [ne_eq, not_true_eq_false, if_false] at h
          by_cases hl : rest.length < cl + pl
          · simp [hl] at h
          · simp only [hl, if_false] at h
            cases hp : parseRecs f (rest.drop (cl + pl)) with
            | none => simp [hp] at h
            | some rs' =>
              simp only [hp, Option.map_some, Option.some.injEq] at h
              subst h
              cases fuel2 with
              | zero => omega
              | succ g =>
                unfold readStream
                simp only [h0, if_false, hs, ne_eq, not_true_eq_false]
                by_cases ht : t = 3
                · subst ht
                  simp [allBeforeEnd]
                · simp only [ht, if_false]
                  have he' : hasEnd rs' = true := by
                    simp only [hasEnd, List.any_cons, Bool.or_eq_true, beq_iff_eq] at he
                    rcases he with he | he
                    · exact absurd he ht
                    · simpa [hasEnd] using he
                  have hcons : allBeforeEnd (⟨t, rid, rest.take cl⟩ :: rs') =
                      rest.take cl ++ allBeforeEnd rs' := by
                    simp [allBeforeEnd, ht]
                  by_cases hn : cl + pl = 0
                  · simp only [hn, if_true]
                    rw [hn, List.drop_zero] at hp
                    rw [ih rest rs' hp he' g acc (by omega), hcons]
                    have : cl = 0 := by omega
                    simp [this]
                  · simp only [hn, if_false]
                    have h1 : ¬ rest.length = 0 := by omega
                    simp only [h1, hl, if_false]
                    rw [ih _ rs' hp he' g _ (by simp only [List.length_drop]; omega), hcons]
                    simp [List.append_assoc]
        · simp [hv] at h

theorem allBeforeEnd_eq_stdoutOf : ∀ (rs : List Rec),
    (∀ r ∈ rs, r.typ = 6 ∨ r.typ = 3 ∨ r.content = []) → allBeforeEnd rs = stdoutOf rs := by
  intro rs
  induction rs with
  | nil => intro _; rfl
  | cons r rest ih =>
    intro h
    have ih' := ih (fun q hq => h q (List.mem_cons_of_mem _ hq))
    unfold allBeforeEnd stdoutOf at ih' ⊢
    by_cases h3 : r.typ = 3
    · simp [h3]
    · have hb : (r.typ != 3) = true := by simpa using h3
      simp only [List.takeWhile_cons, hb, if_true, List.map_cons, List.flatten_cons, List.filter_cons]
      rcases h r (List.mem_cons_self ..) with h6 | h3' | he
      · simp [h6, ih']
      · exact absurd h3' h3
      · by_cases h6 : r.typ = 6
        · simp [h6, ih']
        · have : (r.typ == 6) = false := by simpa using h6
          simp [this, he, ih']

/-! ### reading call by call = reading the whole stream -/
theorem recRead_shorter (conn c rest : Bytes) (e : RErr) (h : recRead conn = (some c, e, rest)) :
    rest.length + 8 ≤ conn.length := by
  unfold recRead at h
  by_cases h0 : conn.length = 0
  · simp [h0] at h
  · simp only [h0, if_false] at h
    cases hs : splitHeader conn with
    | none => simp [hs] at h
    | some x =>
      obtain ⟨v, t, rid, cl, pl, r⟩ := x
      obtain ⟨_, _, _, _, _, _, _, _, r', hc, hx⟩ := splitHeader_some conn _ hs
      simp only [Prod.mk.injEq] at hx
      have hr : r = r' := hx.2.2.2.2.2
      have hlen : conn.length = r.length + 8 := by rw [hc, hr]; simp
      simp only [hs] at h
      split at h
      · simp at h
      · split at h
        · simp at h
        · split at h
          · simp only [Prod.mk.injEq] at h; rw [← h.2.2]; omega
          · split at h
            · simp at h
            · split at h
              · simp at h
              · simp only [Prod.mk.injEq] at h; rw [← h.2.2]; simp only [List.length_drop]; omega

theorem recRead_none_ne_nil (conn : Bytes) (e : RErr) (rest : Bytes) (h : recRead conn = (none, e, rest)) :
    e ≠ RErr.nil := by
  unfold recRead at h
  by_cases h0 : conn.length = 0
  · simp only [h0, if_true, Prod.mk.injEq] at h; rw [← h.2.1]; simp
  · simp only [h0, if_false] at h
    cases hs : splitHeader conn with
    | none => simp only [hs, Prod.mk.injEq] at h; rw [← h.2.1]; simp
    | some x =>
      obtain ⟨v, t, rid, cl, pl, r⟩ := x
      simp only [hs] at h
      split at h
      · simp only [Prod.mk.injEq] at h; rw [← h.2.1]; simp
      · split at h
        · simp only [Prod.mk.injEq] at h; rw [← h.2.1]; simp
        · split at h
          · simp at h
          · split at h
            · simp only [Prod.mk.injEq] at h; rw [← h.2.1]; simp
            · split at h
              · simp only [Prod.mk.injEq] at h; rw [← h.2.1]; simp
              · simp at h

theorem readStream_drain : ∀ (f : Nat) (conn acc : Bytes),
    readStream f conn acc = (acc ++ (drain f conn).1, toEnd (drain f conn).2) := by
  intro f
  induction f with
  | zero => intro conn acc; simp [readStream, drain, toEnd]
  | succ n ih =>
    intro conn acc
    unfold readStream drain recRead
    by_cases h0 : conn.length = 0
    · simp [h0, toEnd]
    · simp only [h0, if_false]
      cases hs : splitHeader conn with
      | none => simp [toEnd]
      | some x =>
        obtain ⟨v, t, rid, cl, pl, r⟩ := x
        simp only []
        by_cases hv : v = 1
        · subst hv
          simp only [ne_eq, not_true_eq_false, if_false]
          by_cases ht : t = 3
          · simp [ht, toEnd]
          · simp only [ht, if_false]
            by_cases hn : cl + pl = 0
            · have hcl : cl = 0 := by omega
              have hpl : pl = 0 := by omega
              subst hcl; subst hpl
              simp [ih]
            · simp only [hn, if_false]
              by_cases hr0 : r.length = 0
              · simp [hr0, toEnd]
              · simp only [hr0, if_false]
                by_cases hlt : r.length < cl + pl
                · simp [hlt, toEnd]
                · simp [hlt, ih, List.append_assoc]
        · simp [hv, toEnd]

theorem drain_succ (f : Nat) (conn : Bytes) : drain (f + 1) conn =
    match recRead conn with
    | (some c, _, rest) => (c ++ (drain f rest).1, (drain f rest).2)
    | (none, e, _) => ([], e) := by
  rfl

theorem drain_fuel : ∀ (f g : Nat) (conn : Bytes), conn.length < f → conn.length < g → drain f conn = drain g conn := by
  intro f
  induction f with
  | zero => intro g conn h; omega
  | succ n ih =>
    intro g conn hf hg
    cases g with
    | zero => omega
    | succ m =>
      unfold drain
      cases hr : recRead conn with
      | mk oc er =>
        obtain ⟨e, rest⟩ := er
        cases oc with
        | none => rfl
        | some c =>
          have := recRead_shorter conn c rest e hr
          simp only []
          rw [ih m rest (by omega) (by omega)]

/-- what is still to come from a reader state: the buffered rest of the current record, then all further records -/
def remaining (st : RdState) : Bytes := st.buf ++ (drain (st.conn.length + 1) st.conn).1

theorem readStep_spec (st : RdState) (s : Nat) (hs : 0 < s) :
    ((readStep st s).2.2 = RErr.nil → remaining st = (readStep st s).2.1 ++ remaining (readStep st s).1) ∧
    ((readStep st s).2.2 ≠ RErr.nil → remaining st = [] ∧ (readStep st s).2.1 = [] ∧
      (drain (st.conn.length + 1) st.conn).2 = (readStep st s).2.2) := by
  unfold readStep
  have hs0 : ¬ s = 0 := by omega
  simp only [hs0, if_false]
  by_cases hb : st.buf.length = 0
  · have hbn : st.buf = [] := List.eq_nil_of_length_eq_zero hb
    simp only [hb, if_true]
    cases hr : recRead st.conn with
    | mk oc er =>
      obtain ⟨e, rest⟩ := er
      cases oc with
      | none =>
        have hd : drain (st.conn.length + 1) st.conn = ([], e) := by rw [drain_succ, hr]
        constructor
        · intro he
          exact absurd he (recRead_none_ne_nil st.conn e rest hr)
        · intro _
          simp [remaining, hbn, hd]
      | some c =>
        have hsh := recRead_shorter st.conn c rest e hr
        have hd : (drain (st.conn.length + 1) st.conn).1 = c ++ (drain (rest.length + 1) rest).1 := by
          rw [drain_succ, hr]
          simp only []
          rw [drain_fuel st.conn.length (rest.length + 1) rest (by omega) (by omega)]
        constructor
        · intro _
          simp only [remaining, hbn, hd, List.nil_append]
          rw [← List.append_assoc, List.take_append_drop]
        · intro h; exact absurd rfl h
  · simp only [hb, if_false]
    constructor
    · intro _
      simp only [remaining]
      rw [← List.append_assoc, List.take_append_drop]
    · intro h; exact absurd rfl h

theorem stepsFrom_spec : ∀ (sizes : List Nat) (st : RdState), (∀ s ∈ sizes, 0 < s) →
    (∀ p ∈ (stepsFrom st sizes).1, p.2 = RErr.nil) →
    ∃ st', remaining st = (stepsFrom st sizes).2 ++ remaining st' := by
  intro sizes
  induction sizes with
  | nil => intro st _ _; exact ⟨st, by simp [stepsFrom]⟩
  | cons s ss ih =>
    intro st hpos hnil
    simp only [stepsFrom] at hnil ⊢
    have h1 := (readStep_spec st s (hpos s (List.mem_cons_self ..))).1 (hnil _ (List.mem_cons_self ..))
    obtain ⟨st', h2⟩ := ih (readStep st s).1 (fun x hx => hpos x (List.mem_cons_of_mem _ hx))
      (fun p hp => hnil p (List.mem_cons_of_mem _ hp))
    exact ⟨st', by rw [h1, h2, List.append_assoc]⟩

/-! ### environment building -/
theorem lookup_append (k : Bytes) (a b : List Op) : lookup k (a ++ b) = b.foldl (step k) (lookup k a) := by
  simp [lookup, List.foldl_append]

theorem foldl_step_irrelevant (k : Bytes) : ∀ (ops : List Op), (∀ o ∈ ops, o.key ≠ k) →
    ∀ st, ops.foldl (step k) st = st := by
  intro ops
  induction ops with
  | nil => intro _ st; rfl
  | cons o rest ih =>
    intro h st
    have ho := h o (List.mem_cons_self ..)
    simp only [List.foldl_cons]
    have : step k st o = st := by
      cases o <;> simp_all [step, Op.key]
    rw [this]
    exact ih (fun q hq => h q (List.mem_cons_of_mem _ hq)) st

theorem hdrOps_http (i : RtIn) : ∀ o ∈ hdrOps i, isHttpKey o.key = true := by
  intro o ho
  unfold hdrOps at ho
  obtain ⟨h, _, hh⟩ := List.mem_filterMap.mp ho
  by_cases hn : dashUnd (upper h.1) = sPROXY
  · simp [hdrOp, hn] at hh
  · simp only [hdrOp, hn, if_false, Option.some.injEq] at hh
    subst hh
    simp [Op.key, isHttpKey, sHTTP_]

theorem hdrOps_not_proxy (i : RtIn) : ∀ o ∈ hdrOps i, o.key ≠ kHTTP_PROXY := by
  intro o ho
  unfold hdrOps at ho
  obtain ⟨h, _, hh⟩ := List.mem_filterMap.mp ho
  by_cases hne : dashUnd (upper h.1) = sPROXY
  · simp [hdrOp, hne] at hh
  · simp only [hdrOp, hne, if_false, Option.some.injEq] at hh
    subst hh
    intro heq
    apply hne
    have : kHTTP_PROXY = sHTTP_ ++ sPROXY := by simp [kHTTP_PROXY, sHTTP_, sPROXY]
    rw [this] at heq
    simp only [Op.key] at heq
    exact List.append_cancel_left heq

/-- the static part stores the same values under `k` whatever the request headers are, for every key except the two
    that are read from the headers -/
theorem static_lookup (i : RtIn) (hdrs' : List (Bytes × List Bytes)) (k : Bytes)
    (h1 : k ≠ kCONTENT_LENGTH) (h2 : k ≠ kCONTENT_TYPE) :
    lookup k (staticA ++ staticH i ++ staticB i) =
      lookup k (staticA ++ staticH { i with hdrs := hdrs' } ++ staticB { i with hdrs := hdrs' }) := by
  have hB : staticB { i with hdrs := hdrs' } = staticB i := rfl
  rw [hB, lookup_append, lookup_append, lookup_append, lookup_append]
  have e1 : ∀ j : RtIn, (staticH j).foldl (step k) (lookup k staticA) = lookup k staticA := by
    intro j
    apply foldl_step_irrelevant
    intro o ho
    simp only [staticH, List.mem_cons, List.mem_nil_iff, or_false] at ho
    rcases ho with rfl | rfl
    · exact fun h => h1 h.symm
    · exact fun h => h2 h.symm
  rw [e1, e1]

theorem env_core (i : RtIn) (hdrs' : List (Bytes × List Bytes)) (k : Bytes)
    (h1 : k ≠ kCONTENT_LENGTH) (h2 : k ≠ kCONTENT_TYPE)
    (h3 : ∀ o ∈ hdrOps i, o.key ≠ k) (h3' : ∀ o ∈ hdrOps { i with hdrs := hdrs' }, o.key ≠ k) :
    lookup k (envLog i) = lookup k (envLog { i with hdrs := hdrs' }) := by
  have hp : pathInfoOps { i with hdrs := hdrs' }
      (staticA ++ staticH { i with hdrs := hdrs' } ++ staticB { i with hdrs := hdrs' }) =
      pathInfoOps i (staticA ++ staticH i ++ staticB i) := by
    unfold pathInfoOps
    rw [← static_lookup i hdrs' kPATH_INFO (by simp [kPATH_INFO, kCONTENT_LENGTH]) (by simp [kPATH_INFO, kCONTENT_TYPE])]
  have hE : envOps { i with hdrs := hdrs' } = envOps i := rfl
  unfold envLog
  simp only [hp, hE]
  rw [lookup_append, lookup_append, lookup_append, lookup_append]
  rw [lookup_append _ _ (finalOps _), lookup_append _ _ (hdrOps _), lookup_append _ _ (envOps i), lookup_append _ _ (pathInfoOps _ _)]
  rw [static_lookup i hdrs' k h1 h2]
  rw [foldl_step_irrelevant k (hdrOps i) h3, foldl_step_irrelevant k (hdrOps _) h3']
  have hf : ∀ (j : RtIn) st, j.method = i.method → j.contentLength = i.contentLength →
      (finalOps j).foldl (step k) st = (finalOps i).foldl (step k) st := by
    intro j st hm hc
    simp only [finalOps, List.foldl_cons, List.foldl_nil, hm, hc]
    have : ∀ v st, step k st (Op.set kCONTENT_TYPE v) = st := by
      intro v st
      have : ¬ kCONTENT_TYPE = k := fun h => h2 h.symm
      simp [step, this]
    rw [this, this]
  rw [hf { i with hdrs := hdrs' } _ rfl rfl]

end BfeVerif.C55
