import BfeVerif.C55.Driver
def main : IO Unit := BfeVerif.Proto.driverMain BfeVerif.C55.run
