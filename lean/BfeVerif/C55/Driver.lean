import BfeVerif.Common.Proto
import BfeVerif.C55.Model
/-!
  C55 driver.
  op `req <pairs> <body> <rk>` : result = RLE bytes written to the connection | `PANIC:…`
  op `resp <conn> <ck>`       : result = `<stream RLE> <eof|ver|short> <same|na>`
  RLE bytes: tokens joined by `.`; token = hex digits | `<n>x<hh>` (n ≥ 8 copies of one byte); `-` = empty.
  Go's map order is not an input: the driver reads the order of the keys off the implementation's own
  output (with the SPEC decoder) and runs the model with the pairs in that order.
-/
namespace BfeVerif.C55
open BfeVerif.Proto

def unrleTok (t : String) : Option Bytes :=
  match t.splitOn "x" with
  | [h] => if h.isEmpty then none else bytesOfHexAux h.toList []
  | [n, h] =>
    match n.toNat?, bytesOfHexAux h.toList [] with
    | some k, some [b] => some (List.replicate k b)
    | _, _ => none
  | _ => none

def unrle (s : String) : Option Bytes :=
  if s == "-" then some []
  else (s.splitOn ".").foldl (fun acc t =>
    match acc, unrleTok t with
    | some a, some b => some (a ++ b)
    | _, _ => none) (some [])

/-- maximal runs, in order -/
def runs (bs : Bytes) : List (UInt8 × Nat) :=
  (bs.foldl (fun (acc : List (UInt8 × Nat)) b =>
    match acc with
    | (c, n) :: tl => if c == b then (c, n + 1) :: tl else (b, 1) :: acc
    | [] => [(b, 1)]) []).reverse

def rle (bs : Bytes) : String :=
  if bs.isEmpty then "-"
  else
    let (toks, lit) := (runs bs).foldl (fun (st : List String × String) (r : UInt8 × Nat) =>
      if r.2 ≥ 8 then
        let toks := if st.2.isEmpty then st.1 else st.2 :: st.1
        ((toString r.2 ++ "x" ++ hexOfByte r.1) :: toks, "")
      else (st.1, (List.range r.2).foldl (fun s _ => s ++ hexOfByte r.1) st.2)) ([], "")
    let toks := if lit.isEmpty then toks else lit :: toks
    ".".intercalate toks.reverse

def parsePairs (s : String) : Option (List (Bytes × Bytes)) :=
  if s == "-" then some []
  else (s.splitOn ",").foldr (fun kv acc =>
    match acc, kv.splitOn ":" with
    | some a, [k, v] =>
      match unrle k, unrle v with
      | some kb, some vb => some ((kb, vb) :: a)
      | _, _ => none
    | _, _ => none) (some [])

/-- the pairs of `ps` in the order in which their keys appear in `keys` (identity if that is not a permutation). -/
def reorder (ps : List (Bytes × Bytes)) (keys : List Bytes) : List (Bytes × Bytes) :=
  let picked := keys.filterMap (fun k => ps.find? (fun p => p.1 == k))
  if picked.length == ps.length && keys.length == ps.length then picked else ps

def endStr : End → String
  | .eof => "eof" | .ver => "ver" | .short => "short"

def hasBlankLine : Bytes → Bool
  | 13 :: 10 :: 13 :: 10 :: _ => true
  | _ :: rest => hasBlankLine rest
  | [] => false

def runReq (ps : List (Bytes × Bytes)) (body : Bytes) (impl : String) : Ans :=
  let implBytes := if impl.startsWith "PANIC" then none else unrle impl
  let dec := implBytes.bind decodeRequest
  let ord := match dec with
    | some r => reorder ps (r.pairs.map (·.1))
    | none => ps
  let model := match encodeRequest ord body with
    | some bs => rle bs
    | none =>
      match ord.find? (fun p => panics p.1 p.2) with
      | some p => "PANIC:runtime error: slice bounds out of range [:-" ++ toString (8 + p.1.length - maxWrite) ++ "]"
      | none => "PANIC"
  let big := ps.any (fun p => p.1.length + p.2.length > 60000)
  let willTrunc := ps.any (fun p => 8 + p.1.length + p.2.length > maxWrite)
  let willPanic := ps.any (fun p => panics p.1 p.2)
  let nParamRecs := match implBytes.bind parse with
    | some rs => (rs.filter (fun r => r.typ == 4)).length
    | none => 0
  let nBodyRecs := match implBytes.bind parse with
    | some rs => (rs.filter (fun r => r.typ == 5)).length
    | none => 0
  let verdict :=
    if impl.startsWith "PANIC" then (if willPanic then "FAIL:key-too-long-panic" else "FAIL:panic")
    else match dec with
      | some r =>
        if r.pairs == ord && r.body == body then "ok"
        else if r.body != body then "FAIL:body"
        else if willTrunc && r.pairs == ord.map truncPair then "FAIL:value-truncated"
        else "FAIL:params"
      | none => "FAIL:undecodable"
  { model := model
    verdict := verdict
    tags := ["req"] ++ (if ps.length > 0 || body.length > 0 then ["nt"] else []) ++ (if big then ["big"] else [])
      ++ (if willTrunc && !willPanic then ["trunc"] else []) ++ (if willPanic then ["panic"] else [])
      ++ (if nParamRecs > 2 then ["flush"] else []) ++ (if nBodyRecs > 2 then ["body-multi"] else [])
      ++ (if ps.length > 8 then ["many"] else []) }

def runResp (conn : Bytes) (impl : String) : Ans :=
  let (s, e) := readAll conn
  let h := if e == .eof && hasBlankLine s then "same" else "na"
  let model := rle s ++ " " ++ endStr e ++ " " ++ h
  let spec := parse conn
  let (verdict, tags) := match spec with
    | some rs =>
      if hasEnd rs then
        let want := stdoutOf rs
        let hasErr := rs.any (fun r => r.typ == 7 && r.content.length != 0)
        let hasOther := rs.any (fun r => r.typ != 7 && r.typ != 6 && r.typ != 3 && r.content.length != 0)
        let tg := ["nt"] ++ (if hasErr then ["stderr"] else []) ++ (if hasOther then ["othertype"] else [])
        match impl.splitOn " " with
        | [is, ie, ih] =>
          if unrle is == some want && ie == "eof" && ih != "diff" then ("ok", tg)
          else if ih == "diff" then ("FAIL:assembly", tg)
          else if ie != "eof" then ("FAIL:end", tg)
          else if hasErr then ("FAIL:stderr-in-response", tg)
          else if hasOther then ("FAIL:nonstdout-in-response", tg)
          else ("FAIL:stream", tg)
        | _ => ("FAIL:result", tg)
      else ("skip", ["no-end"])
    | none => ("skip", ["malformed"])
  { model := model, verdict := verdict, tags := ["resp"] ++ tags }

def run (op impl : String) : Ans :=
  match op.splitOn " " with
  | ["req", p, b, _rk] =>
    match parsePairs p, unrle b with
    | some ps, some body => runReq ps body impl
    | _, _ => { model := "bad-op", verdict := "skip" }
  | ["resp", c, _ck] =>
    match unrle c with
    | some conn => runResp conn impl
    | none => { model := "bad-op", verdict := "skip" }
  | _ => { model := "bad-op", verdict := "skip" }

end BfeVerif.C55
