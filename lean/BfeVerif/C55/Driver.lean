import BfeVerif.Common.Proto
import BfeVerif.C55.Model
/-!
  C55 driver.
  op `req <pairs> <body> <rk>` : result = RLE bytes written to the connection | `PANIC:…`
  op `resp <conn> <ck>`       : result = `<stream RLE> <eof|ver|short> <same|na>`
  RLE bytes: tokens joined by `.`; token = hex digits | `<n>x<hh>` (n ≥ 8 copies of one byte); `-` = empty.
  Go's map order is not an input: the driver reads the order of the keys off the implementation's own
  output (with the SPEC decoder) and runs the model with the pairs in that order.
-/
namespace BfeVerif.C55
open BfeVerif.Proto

def unrleTok (t : String) : Option Bytes :=
  match t.splitOn "x" with
  | [h] => if h.isEmpty then none else bytesOfHexAux h.toList []
  | [n, h] =>
    match n.toNat?, bytesOfHexAux h.toList [] with
    | some k, some [b] => some (List.replicate k b)
    | _, _ => none
  | _ => none

def unrle (s : String) : Option Bytes :=
  if s == "-" then some []
  else (s.splitOn ".").foldl (fun acc t =>
    match acc, unrleTok t with
    | some a, some b => some (a ++ b)
    | _, _ => none) (some [])

/-- maximal runs, in order -/
def runs (bs : Bytes) : List (UInt8 × Nat) :=
  (bs.foldl (fun (acc : List (UInt8 × Nat)) b =>
    match acc with
    | (c, n) :: tl => if c == b then (c, n + 1) :: tl else (b, 1) :: acc
    | [] => [(b, 1)]) []).reverse

def rle (bs : Bytes) : String :=
  if bs.isEmpty then "-"
  else
    let (toks, lit) := (runs bs).foldl (fun (st : List String × String) (r : UInt8 × Nat) =>
      if r.2 ≥ 8 then
        let toks := if st.2.isEmpty then st.1 else st.2 :: st.1
        ((toString r.2 ++ "x" ++ hexOfByte r.1) :: toks, "")
      else (st.1, (List.range r.2).foldl (fun s _ => s ++ hexOfByte r.1) st.2)) ([], "")
    let toks := if lit.isEmpty then toks else lit :: toks
    ".".intercalate toks.reverse

def parsePairs (s : String) : Option (List (Bytes × Bytes)) :=
  if s == "-" then some []
  else (s.splitOn ",").foldr (fun kv acc =>
    match acc, kv.splitOn ":" with
    | some a, [k, v] =>
      match unrle k, unrle v with
      | some kb, some vb => some ((kb, vb) :: a)
      | _, _ => none
    | _, _ => none) (some [])

/-- the pairs of `ps` in the order in which their keys appear in `keys` (identity if that is not a permutation). -/
def reorder (ps : List (Bytes × Bytes)) (keys : List Bytes) : List (Bytes × Bytes) :=
  let picked := keys.filterMap (fun k => ps.find? (fun p => p.1 == k))
  if picked.length == ps.length && keys.length == ps.length then picked else ps

def endStr : End → String
  | .eof => "eof" | .ver => "ver" | .short => "short"

def hasBlankLine : Bytes → Bool
  | 13 :: 10 :: 13 :: 10 :: _ => true
  | _ :: rest => hasBlankLine rest
  | [] => false

def runReq (ps : List (Bytes × Bytes)) (body sent : Bytes) (impl : String) : Ans :=
  let implBytes := if impl.startsWith "PANIC" then none else unrle impl
  let dec := implBytes.bind decodeRequest
  let ord := match dec with
    | some r => reorder ps (r.pairs.map (·.1))
    | none => ps
  let model := rle (encodeRequest ord sent)
  let big := ps.any (fun p => p.1.length + p.2.length > 60000)
  let willTrunc := ps.any (fun p => 8 + p.1.length + p.2.length > maxWrite)
  let nParamRecs := match implBytes.bind parse with
    | some rs => (rs.filter (fun r => r.typ == 4)).length
    | none => 0
  let nBodyRecs := match implBytes.bind parse with
    | some rs => (rs.filter (fun r => r.typ == 5)).length
    | none => 0
  let verdict :=
    if impl.startsWith "PANIC" then "FAIL:panic"
    else match dec with
      | some r =>
        if r.pairs == ord && r.body == body then "ok"
        else if r.body != body then (if sent != body then "FAIL:body-cut-at-empty-read" else "FAIL:body")
        else "FAIL:params"
      | none => "FAIL:undecodable"
  { model := model
    verdict := verdict
    tags := ["req"] ++ (if ps.length > 0 || body.length > 0 then ["nt"] else []) ++ (if big then ["big"] else [])
      ++ (if willTrunc then ["spill"] else [])
      ++ (if nParamRecs > 2 then ["flush"] else []) ++ (if nBodyRecs > 2 then ["body-multi"] else [])
      ++ (if ps.length > 8 then ["many"] else []) }

def runResp (conn : Bytes) (impl : String) : Ans :=
  let (s, e) := readAll conn
  let h := if e == .eof && hasBlankLine s then "same" else "na"
  let model := rle s ++ " " ++ endStr e ++ " " ++ h
  let spec := parse conn
  let (verdict, tags) := match spec with
    | some rs =>
      if hasEnd rs then
        let want := stdoutOf rs
        let hasErr := rs.any (fun r => r.typ == 7 && r.content.length != 0)
        let hasOther := rs.any (fun r => r.typ != 7 && r.typ != 6 && r.typ != 3 && r.content.length != 0)
        let tg := ["nt"] ++ (if hasErr then ["stderr"] else []) ++ (if hasOther then ["othertype"] else [])
        match impl.splitOn " " with
        | [is, ie, ih] =>
          if unrle is == some want && ie == "eof" && ih != "diff" then ("ok", tg)
          else if ih == "diff" then ("FAIL:assembly", tg)
          else if ie != "eof" then ("FAIL:end", tg)
          else if hasErr then ("FAIL:stderr-in-response", tg)
          else if hasOther then ("FAIL:nonstdout-in-response", tg)
          else ("FAIL:stream", tg)
        | _ => ("FAIL:result", tg)
      else ("skip", ["no-end"])
    | none => ("skip", ["malformed"])
  { model := model, verdict := verdict, tags := ["resp"] ++ tags }

def hexB (s : String) : Option Bytes := bytesOfHex s

def parseEnvVars (s : String) : Option (List (Bytes × Bytes)) :=
  if s == "-" then some []
  else (s.splitOn ",").mapM fun kv =>
    match kv.splitOn "=" with
    | [k, v] => match hexB k, hexB v with
      | some k, some v => some (k, v)
      | _, _ => none
    | _ => none

def parseHdrs (s : String) : Option (List (Bytes × List Bytes)) :=
  if s == "-" then some []
  else (s.splitOn ",").mapM fun kv =>
    match kv.splitOn ":" with
    | [k, vs] => match hexB k, (vs.splitOn "|").mapM hexB with
      | some k, some vs => some (k, vs)
      | _, _ => none
    | _ => none

def isInfix (p : Bytes) : Bytes → Bool
  | [] => p.isEmpty
  | x :: xs => (p.isPrefixOf (x :: xs)) || isInfix p xs

def alookup (m : List (Bytes × Bytes)) (k : Bytes) : Option Bytes := (m.find? (fun p => p.1 == k)).map (·.2)

def bytesLt : Bytes → Bytes → Bool
  | [], [] => false
  | [], _ => true
  | _, [] => false
  | a :: as, b :: bs => if a < b then true else if a > b then false else bytesLt as bs

def insertSorted (x : Bytes × List Bytes) : List (Bytes × List Bytes) → List (Bytes × List Bytes)
  | [] => [x]
  | y :: ys => if bytesLt x.1 y.1 then x :: y :: ys else y :: insertSorted x ys

def renderCgi : CgiResult → String
  | .err => "E"
  | .unmodelled => "?"
  | .resp r =>
    let hs := (r.hdrs.foldl (fun acc h => insertSorted h acc) []).map fun h =>
      hexField h.1 ++ "=" ++ ",".intercalate (h.2.map hexField)
    let j (xs : List String) (sep : String) : String := if xs.isEmpty then "-" else sep.intercalate xs
    toString r.code ++ "|" ++ hexField r.status ++ "|" ++ j hs ";" ++ "|" ++ toString r.contentLength ++ "|" ++
      j (r.te.map hexField) "," ++ "|" ++ rle r.body

def cannedReply : Bytes :=
  frame 6 1 [83, 116, 97, 116, 117, 115, 58, 32, 50, 48, 49, 32, 67, 114, 101, 97, 116, 101, 100, 13, 10, 67, 111, 110, 116, 101, 110, 116, 45, 84, 121, 112, 101, 58, 32, 116, 101, 120, 116, 47, 112, 108, 97, 105, 110, 13, 10, 13, 10, 104, 101, 108, 108, 111] ++ frame 6 1 [] ++ frame 3 1 [0, 0, 0, 0, 0, 0, 0, 0]

def parseSizes (s : String) : List Nat :=
  if s == "-" then []
  else
    let sc := if s.endsWith "e" then (s.dropEnd 1).toString else s
    (sc.splitOn ".").filterMap (·.toNat?)

def rerrStr : RErr → String
  | .nil => "nil" | .eof => "eof" | .short => "short" | .ver => "ver"

def runRd (conn : Bytes) (sizes : List Nat) (impl : String) : Ans :=
  let (steps, data) := readSteps conn sizes
  let model := if steps.isEmpty then "-|-"
    else ",".intercalate (steps.map fun p => toString p.1 ++ ":" ++ rerrStr p.2) ++ "|" ++ rle data
  -- SPEC: up to the first error the calls deliver a prefix of the application's STDOUT stream, never more than asked;
  -- if they reach the end, it is a clean EOF after exactly that stream
  let verdict : String × List String := match parse conn with
    | some rs =>
      if hasEnd rs then
        let want := stdoutOf rs
        let hasErr := rs.any (fun r => r.typ == 7 && r.content.length != 0)
        let hasOther := rs.any (fun r => r.typ != 7 && r.typ != 6 && r.typ != 3 && r.content.length != 0)
        match impl.splitOn "|" with
        | [st, d] =>
          let stp := if st == "-" then [] else (st.splitOn ",").map fun x => match x.splitOn ":" with
            | [n, e] => (n.toNat?.getD 0, e)
            | _ => (0, "bad")
          let okSteps := stp.takeWhile (fun p => p.2 == "nil")
          let firstErr := (stp.dropWhile (fun p => p.2 == "nil")).head?
          let nOk := okSteps.foldl (fun a p => a + p.1) 0
          let got := ((unrle d).getD []).take nOk
          let sizesOk := (stp.zip sizes).all (fun p => p.1.1 ≤ p.2)
          let good := sizesOk && got.isPrefixOf want && (match firstErr with
            | none => true
            | some (_, e) => e == "eof" && got == want)
          if good then ("ok", ["nt"])
          else if hasErr then ("FAIL:stderr-in-response", ["nt", "stderr"])
          else if hasOther then ("FAIL:nonstdout-in-response", ["nt"])
          else ("FAIL:read-contract", ["nt"])
        | _ => ("FAIL:result", ["nt"])
      else ("skip", ["no-end"])
    | none => ("skip", ["malformed"])
  { model := model, verdict := verdict.1, tags := ["rd"] ++ verdict.2 }

def runSw (t : Nat) (p : Bytes) (impl : String) : Ans :=
  let bytes := ((streamWrite p).map (frame (UInt8.ofNat t) 1)).flatten
  let model := toString p.length ++ ":nil " ++ rle bytes
  let verdict := match impl.splitOn " " with
    | [ne, b] =>
      match (unrle b).bind parse with
      | some rs => if ne == toString p.length ++ ":nil" && rs.all (fun r => r.typ.toNat == t && r.id == 1) &&
          (rs.map (·.content)).flatten == p then "ok" else "FAIL:stream-write"
      | none => "FAIL:stream-write"
    | _ => "FAIL:stream-write"
  { model := model, verdict := verdict, tags := ["sw"] ++ (if p.length > maxWrite then ["nt"] else []) }

def runRT (i : RtIn) (body : Bytes) (reply : Bytes) (impl : String) : Ans :=
  match impl.splitOn " " with
  | [ib, dump] =>
    let dec := (unrle ib).bind decodeRequest
    let cands := [envPairs i, envPairs { i with hdrs := i.hdrs.reverse }]
    let keysOf := match dec with
      | some r => r.pairs.map (·.1)
      | none => []
    let ord := match dec with
      | some r => ((cands.map (fun c => reorder c keysOf)).find? (fun c => c == r.pairs)).getD (reorder (envPairs i) keysOf)
      | none => envPairs i
    -- the response: model = readResponse over what the code's reader delivers; SPEC = readResponse over the STDOUT stream
    let (stream, e) := readAll reply
    let mresp := if e == End.eof then readResponse stream else CgiResult.unmodelled
    let modelled := match mresp with
      | .unmodelled => false
      | _ => true
    let mdump := if modelled then renderCgi mresp else dump
    let specDump : Option String := match parse reply with
      | some rs => if hasEnd rs then (match readResponse (stdoutOf rs) with
          | .unmodelled => none
          | r => some (renderCgi r)) else none
      | none => none
    let rHasErr := match parse reply with
      | some rs => rs.any (fun r => r.typ == 7 && r.content.length != 0)
      | none => false
    let respBad := modelled && (match specDump with
      | some sd => sd != dump
      | none => false)
    let model := rle (encodeRequest ord body) ++ " " ++ mdump
    let overridden (k : Bytes) : Bool := i.envVars.any (fun p => upper p.1 == k)
    let verdict : String := match dec with
      | none => "FAIL:undecodable"
      | some r =>
        let m := r.pairs
        let want : List (Bytes × Bytes) := [(kREQUEST_METHOD, i.method), (kQUERY_STRING, i.rawQuery),
          (kSCRIPT_FILENAME, i.scriptFilename), (kDOCUMENT_ROOT, i.root), (kSERVER_PROTOCOL, i.proto),
          (kREQUEST_URI, i.requestURI), (kSCRIPT_NAME, i.path), (kGATEWAY_INTERFACE, sCGI11), (kSERVER_SOFTWARE, sBFE)]
        let finalOverride (k : Bytes) : Bool := k == kREQUEST_METHOD
        let protBad := want.any (fun p => (!overridden p.1 || finalOverride p.1) && alookup m p.1 != some p.2)
        let proxyFromCfg := (i.envVars.find? (fun p => upper p.1 == kHTTP_PROXY)).map (·.2)
        let oxy := alookup m kHTTP_PROXY != proxyFromCfg
        let lost := i.hdrs.any (fun h =>
          let name := dashUnd (upper h.1)
          name != sPROXY && !(match alookup m (sHTTP_ ++ name) with
            | some v => isInfix (joinWith [44, 32] h.2) v
            | none => false))
        let clBad := if i.contentLength < 0 then !(alookup m kCONTENT_LENGTH == none || alookup m kCONTENT_LENGTH == some [])
          else alookup m kCONTENT_LENGTH != some (fmtInt i.contentLength)
        let piComma := match alookup m kPATH_INFO with
          | some (44 :: _) => true
          | _ => false
        if r.body != body then "FAIL:body"
        else if oxy then "FAIL:httpoxy"
        else if protBad then "FAIL:protected-var"
        else if lost then "FAIL:header-lost"
        else if respBad then (if rHasErr then "FAIL:stderr-in-response" else "FAIL:response")
        else if clBad then (if i.contentLength < 0 then "FAIL:content-length-negative" else "FAIL:content-length")
        else if piComma && !overridden kPATH_INFO then "FAIL:path-info-comma"
        else "ok"
    let hasProxy := i.hdrs.any (fun h => dashUnd (upper h.1) == sPROXY)
    let collide := i.hdrs.any (fun h => i.hdrs.any (fun g => g.1 != h.1 && dashUnd (upper g.1) == dashUnd (upper h.1)))
    { model := model, verdict := verdict
      tags := ["rt", "nt"] ++ (if modelled then ["resp-modelled"] else []) ++ (if hasProxy then ["proxy-hdr"] else []) ++ (if collide then ["collide"] else [])
        ++ (if i.envVars.isEmpty then [] else ["envvars"]) ++ (if i.contentLength < 0 then ["cl-neg"] else []) }
  | _ => { model := "rt-result", verdict := "FAIL:result", tags := ["rt"] }

def runOne (op impl : String) : Ans :=
  match op.splitOn " " with
  | ["req", p, b, _rk] =>
    match parsePairs p, unrle b with
    | some ps, some body =>
      let sent := if _rk.startsWith "s:" then bodyDelivered body (parseSizes (_rk.drop 2).toString) else body
      let a := runReq ps body sent impl
      if _rk.startsWith "s:" then { a with tags := a.tags ++ ["body-script"] } else a
    | _, _ => { model := "bad-op", verdict := "skip" }
  | ["rd", c, _cs, szs] =>
    match unrle c with
    | some conn => runRd conn (parseSizes szs) impl
    | none => { model := "bad-op", verdict := "skip" }
  | ["sw", t, b] =>
    match t.toNat?, unrle b with
    | some t, some p => runSw t p impl
    | _, _ => { model := "bad-op", verdict := "skip" }
  | ["rt", me, rem, ho, pa, rq, pr, sc, cl, ro, ev, hd, b, sf, pij, rh, rp, ru] =>
    match [me, rem, ho, pa, rq, pr, sc, ro, sf, pij, rh, rp, ru].mapM hexB, cl.toInt?, parseEnvVars ev, parseHdrs hd, unrle b with
    | some [me, rem, ho, pa, rq, pr, sc, ro, sf, pij, rh, rp, ru], some cl, some ev, some hd, some body =>
      runRT { method := me, remote := rem, host := ho, path := pa, rawQuery := rq, proto := pr, scheme := sc,
              contentLength := cl, root := ro, envVars := ev, hdrs := hd, scriptFilename := sf, pathInfoJoin := pij,
              reqHost := rh, reqPort := rp, requestURI := ru } body cannedReply impl
    | _, _, _, _, _ => { model := "bad-op", verdict := "skip" }
  | ["rt", me, rem, ho, pa, rq, pr, sc, cl, ro, ev, hd, b, sf, pij, rh, rp, ru, rep] =>
    match [me, rem, ho, pa, rq, pr, sc, ro, sf, pij, rh, rp, ru].mapM hexB, cl.toInt?, parseEnvVars ev, parseHdrs hd, unrle b, (if rep == "-" then some cannedReply else unrle rep) with
    | some [me, rem, ho, pa, rq, pr, sc, ro, sf, pij, rh, rp, ru], some cl, some ev, some hd, some body, some reply =>
      runRT { method := me, remote := rem, host := ho, path := pa, rawQuery := rq, proto := pr, scheme := sc,
              contentLength := cl, root := ro, envVars := ev, hdrs := hd, scriptFilename := sf, pathInfoJoin := pij,
              reqHost := rh, reqPort := rp, requestURI := ru } body reply impl
    | _, _, _, _, _, _ => { model := "bad-op", verdict := "skip" }
  | ["resp", c, _ck] =>
    match unrle c with
    | some conn => runResp conn impl
    | none => { model := "bad-op", verdict := "skip" }
  | _ => { model := "bad-op", verdict := "skip" }

def knownClass (v : String) : Bool :=
  ["FAIL:stderr-in-response", "FAIL:nonstdout-in-response", "FAIL:path-info-comma", "FAIL:content-length-negative",
   "FAIL:body-cut-at-empty-read"].contains v

/-- `rtb a;b;c`: each round trip judged on its own; first unknown failure, else first known one, else ok -/
def run (op impl : String) : Ans :=
  if op.startsWith "rtb " then
    let ops := ((op.drop 4).toString.splitOn ";").map fun o => "rt " ++ (o.drop 3).toString
    let impls := impl.splitOn "#"
    let impls := impls ++ List.replicate (ops.length - impls.length) ""
    let rs := (ops.zip impls).map fun p => runOne p.1 p.2
    let vs := rs.map (·.verdict)
    let verdict := match vs.find? (fun v => v.startsWith "FAIL" && !knownClass v) with
      | some v => v
      | none => match vs.find? (fun v => v.startsWith "FAIL") with
        | some v => v
        | none => if vs.all (· == "skip") then "skip" else "ok"
    let models := (rs.zip impls).map fun p => if p.1.verdict == "skip" then p.2 else p.1.model
    { model := "#".intercalate models, verdict := verdict, tags := ["rtb"] ++ (rs.flatMap (·.tags)).eraseDups }
  else runOne op impl

end BfeVerif.C55
