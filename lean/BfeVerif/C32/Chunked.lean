import BfeVerif.C32.Model
/-!
  C32 hardening — the Framer fed by a SEGMENTED reader.  `Rd` is a scripted `io.Reader`: a list of
  chunks; one `Read(p)` delivers at most the rest of the current chunk (an empty chunk is an empty read
  `(0, nil)`), and the last data may arrive together with `io.EOF`.  `readFull` is `io.ReadFull`
  (`io.ReadAtLeast` loop), `readFrameR` is `Framer.ReadFrame` on such a reader.  Core-only.
-/
namespace BfeVerif.C32

structure Rd where
  chunks : List Bytes
  eofWithData : Bool
deriving Repr

/-- one `Read(p)` with `len(p) = want > 0`: data, `err == io.EOF`, new state -/
def Rd.read (r : Rd) (want : Nat) : Bytes × Bool × Rd :=
  match r.chunks with
  | [] => ([], true, r)
  | c :: cs =>
    if c.length ≤ want then (c, cs.isEmpty && r.eofWithData, { r with chunks := cs })
    else (c.take want, false, { r with chunks := c.drop want :: cs })

/-- `io.ReadFull(r, buf)` with `len(buf) = want`, `acc` = bytes read so far:
    `for n < min && err == nil { nn, err = r.Read(buf[n:]); n += nn }`, then
    `n >= min → nil`, `n > 0 && err == EOF → ErrUnexpectedEOF`, else `err`. -/
def readFull : Nat → Rd → Nat → Bytes → Except Err Bytes × Rd
  | 0, r, _, _ => (.error .eof, r)
  | fuel + 1, r, want, acc =>
    if acc.length ≥ want then (.ok acc, r)
    else
      match r.read (want - acc.length) with
      | (d, eof, r') =>
        if eof then
          (if (acc ++ d).length ≥ want then .ok (acc ++ d)
           else if (acc ++ d).length > 0 then .error .ueof else .error .eof, r')
        else readFull fuel r' want (acc ++ d)

def Rd.rest (r : Rd) : Bytes := r.chunks.flatten

/-- `Framer.ReadFrame` on the segmented reader -/
def readFrameR (fr : Framer) (r : Rd) : Except Err Frame × Framer × Rd :=
  match readFull (r.chunks.length + 2) r 9 [] with
  | (.error e, r1) => (.error e, fr, r1)
  | (.ok hb, r1) =>
    match parseHeader hb with
    | none => (.error .ueof, fr, r1)
    | some (fh, _) =>
      if fh.length > fr.maxReadSize then (.error .tooLarge, fr, r1)
      else
        match readFull (r1.chunks.length + 2) r1 fh.length [] with
        | (.error e, r2) => (.error e, fr, r2)
        | (.ok payload, r2) => ((acceptFrame fr fh payload).1, (acceptFrame fr fh payload).2, r2)

def readAllR : Nat → Framer → Rd → List (Except Err Frame)
  | 0, _, _ => []
  | fuel + 1, fr, r =>
    match readFrameR fr r with
    | (.ok f, fr', r') => if (postCheck f).isSome then [.ok f] else .ok f :: readAllR fuel fr' r'
    | (.error e, fr', r') => if terminal e then [.error e] else .error e :: readAllR fuel fr' r'

/-- reading on after EVERY error except i/o errors (what a caller that ignores
    `terminalReadFrameError` would see): pins the framer state left behind by each error -/
def readAllCont : Nat → Framer → Bytes → List (Except Err Frame)
  | 0, _, _ => []
  | fuel + 1, fr, inp =>
    match readFrame fr inp with
    | (.ok f, fr', rest) => .ok f :: readAllCont fuel fr' rest
    | (.error .eof, _, _) => [.error .eof]
    | (.error .ueof, _, _) => [.error .ueof]
    | (.error e, fr', rest) => .error e :: readAllCont fuel fr' rest

/-- chunks of an input according to a cyclic list of sizes (0 = an empty read) -/
def cutInto : Nat → List Nat → List Nat → Bytes → List Bytes
  | 0, _, _, inp => if inp.isEmpty then [] else [inp]
  | fuel + 1, all, cur, inp =>
    if inp.isEmpty then []
    else
      match cur with
      | [] => if all.foldl (· + ·) 0 == 0 then [inp] else cutInto fuel all all inp
      | n :: rest => inp.take n :: cutInto fuel all rest (inp.drop n)

end BfeVerif.C32
