import BfeVerif.C32.Proofs
/-! C32 helper lemmas, round 2: for every frame type the class of the parser's answer equals the
    RFC table `specCore` (both directions: completeness and soundness of rejection). -/
namespace BfeVerif.C32

theorem settingValid_isSome (s : Nat × Nat) : (settingValid s).isSome = rfcSettingBad s := by
  obtain ⟨i, v⟩ := s
  unfold settingValid rfcSettingBad
  by_cases h2 : i = 2
  · subst h2
    by_cases h1 : v = 1
    · subst h1; simp
    · by_cases h0 : v = 0
      · subst h0; simp
      · have : v > 1 := by omega
        simp [h1, h0, this]
  · by_cases h4 : i = 4
    · subst h4
      by_cases hv : v > 2147483647
      · simp [hv]
      · simp [hv]
    · by_cases h5 : i = 5
      · subst h5
        by_cases ha : v < 16384
        · simp [ha]
        · by_cases hb : v > 16777215
          · simp [ha, hb]
          · simp [ha, hb]
      · simp [h2, h4, h5]

theorem settingsValid_isSome (l : List (Nat × Nat)) : (settingsValid l).isSome = l.any rfcSettingBad := by
  induction l with
  | nil => rfl
  | cons s t ih =>
    simp only [settingsValid, List.any_cons]
    rw [← settingValid_isSome s, ← ih]
    cases settingValid s <;> simp

theorem settingValue_bad (p : Bytes) (v : Nat) (h : settingValue p 4 = some v) (hv : v > 2147483647) :
    (settingsOf p).any rfcSettingBad = true := by
  unfold settingValue at h
  cases hf : (settingsOf p).find? (fun s => s.1 == 4) with
  | none => rw [hf] at h; cases h
  | some s =>
    rw [hf] at h
    have hv' : s.2 = v := Option.some.inj h
    have hm := List.mem_of_find?_eq_some hf
    have h4 := List.find?_some hf
    simp only [beq_iff_eq] at h4
    rw [List.any_eq_true]
    refine ⟨s, hm, ?_⟩
    unfold rfcSettingBad
    simp [h4, hv', hv]

theorem cls_data (fh : FH) (p : Bytes) (ht : fh.typ = 0) : classOf (parseData fh p) = specCore fh p := by
  obtain ⟨typ, flags, length, sid⟩ := fh
  simp only at ht; subst ht
  simp only [parseData, specCore, fixedLen, padOf]
  by_cases hs : sid = 0
  · simp [hs, classOf]
  · simp only [beq_iff_eq, hs, if_false]
    rcases Bool.eq_false_or_eq_true (hasFlag flags 8) with hf | hf
    · cases p with
      | nil => simp [hf, readByte, classOf]
      | cons b r =>
        simp only [hf, readByte, if_true]
        by_cases hb : b > r.length
        · simp [hb, classOf]
        · simp [hb, classOf, postCheck]
    · simp [hf, classOf, postCheck]

theorem cls_continuation (fh : FH) (p : Bytes) (ht : fh.typ = 9) :
    classOf (parseContinuation fh p) = specCore fh p := by
  obtain ⟨typ, flags, length, sid⟩ := fh
  simp only at ht; subst ht
  simp only [parseContinuation, specCore]
  by_cases hs : sid = 0
  · simp [hs, classOf]
  · simp [hs, classOf, postCheck]

theorem cls_ping (fh : FH) (p : Bytes) (ht : fh.typ = 6) : classOf (parsePing fh p) = specCore fh p := by
  obtain ⟨typ, flags, length, sid⟩ := fh
  simp only at ht; subst ht
  simp only [parsePing, specCore]
  by_cases h8 : p.length = 8
  · by_cases hs : sid = 0
    · simp [h8, hs, classOf, postCheck]
    · simp [h8, hs, classOf]
  · simp [h8, classOf]

theorem cls_rst (fh : FH) (p : Bytes) (ht : fh.typ = 3) : classOf (parseRST fh p) = specCore fh p := by
  obtain ⟨typ, flags, length, sid⟩ := fh
  simp only at ht; subst ht
  simp only [specCore]
  by_cases hs : sid = 0
  · match p with
    | [] | [_] | [_, _] | [_, _, _] | [_, _, _, _] | _ :: _ :: _ :: _ :: _ :: _ => simp [parseRST, hs, classOf]
  · match p with
    | [] | [_] | [_, _] | [_, _, _] | [_, _, _, _] | _ :: _ :: _ :: _ :: _ :: _ => simp [parseRST, hs, classOf, postCheck]

theorem cls_priority (fh : FH) (p : Bytes) (ht : fh.typ = 2) : classOf (parsePriority fh p) = specCore fh p := by
  obtain ⟨typ, flags, length, sid⟩ := fh
  simp only at ht; subst ht
  simp only [specCore]
  by_cases hs : sid = 0
  · simp [parsePriority, hs, classOf]
  · match p with
    | [] | [_] | [_, _] | [_, _, _] | [_, _, _, _] | [_, _, _, _, _] | _ :: _ :: _ :: _ :: _ :: _ :: _ =>
      simp [parsePriority, hs, classOf, postCheck]

theorem pwu4 (fh : FH) (a b c d : Nat) : parseWindowUpdate fh [a, b, c, d] =
    (if (low31 (be32 a b c d) == 0) = true then
      (if (fh.sid == 0) = true then Except.error (Err.conn cProtocol) else Except.error (Err.stream fh.sid cProtocol))
     else Except.ok (Frame.windowUpdate fh (low31 (be32 a b c d)))) := by
  simp only [parseWindowUpdate]

theorem cls_wu_aux (fh : FH) (inc : Nat) :
    classOf (if (inc == 0) = true then
        (if (fh.sid == 0) = true then Except.error (Err.conn cProtocol) else Except.error (Err.stream fh.sid cProtocol))
      else Except.ok (Frame.windowUpdate fh inc)) =
    (if (inc == 0) = true then (if (fh.sid == 0) = true then Class.connErr else Class.streamErr) else Class.accept) := by
  by_cases hi : inc = 0
  · by_cases hs : fh.sid = 0
    · simp [hi, hs, classOf]
    · simp [hi, hs, classOf]
  · simp [hi, classOf, postCheck]

theorem cls_windowUpdate (fh : FH) (p : Bytes) (ht : fh.typ = 8) :
    classOf (parseWindowUpdate fh p) = specCore fh p := by
  obtain ⟨typ, flags, length, sid⟩ := fh
  simp only at ht; subst ht
  by_cases h4 : p.length = 4
  · obtain ⟨a, b, c, d, rfl⟩ : ∃ a b c d, p = [a, b, c, d] := by
      match p, h4 with
      | [a, b, c, d], _ => exact ⟨a, b, c, d, rfl⟩
    have hspec : specCore ⟨8, flags, length, sid⟩ [a, b, c, d] =
        (if low31 (be32 a b c d) == 0 then (if sid == 0 then Class.connErr else Class.streamErr) else Class.accept) := by
      have g0 : ([a, b, c, d] : List Nat).getD 0 0 = a := rfl
      have g1 : ([a, b, c, d] : List Nat).getD 1 0 = b := rfl
      have g2 : ([a, b, c, d] : List Nat).getD 2 0 = c := rfl
      have g3 : ([a, b, c, d] : List Nat).getD 3 0 = d := rfl
      have gl : ([a, b, c, d] : List Nat).length = 4 := rfl
      simp only [specCore, g0, g1, g2, g3, gl, bne_self_eq_false, Bool.false_eq_true, if_false]
    exact Eq.trans (congrArg classOf (pwu4 _ a b c d))
      (Eq.trans (cls_wu_aux ⟨8, flags, length, sid⟩ (low31 (be32 a b c d))) hspec.symm)
  · have hparse : parseWindowUpdate ⟨8, flags, length, sid⟩ p = .error (.conn cFrameSize) := by
      unfold parseWindowUpdate
      split
      · exact absurd rfl h4
      · rfl
    have hspec : specCore ⟨8, flags, length, sid⟩ p = Class.connErr := by
      simp only [specCore]
      rw [if_pos (by simpa using h4)]
    rw [hparse, hspec]
    simp only [classOf]

theorem cls_goAway (fh : FH) (p : Bytes) (ht : fh.typ = 7) : classOf (parseGoAway fh p) = specCore fh p := by
  obtain ⟨typ, flags, length, sid⟩ := fh
  simp only at ht; subst ht
  simp only [specCore]
  by_cases hs : sid = 0
  · match p with
    | [] | [_] | [_, _] | [_, _, _] | [_, _, _, _] | [_, _, _, _, _] | [_, _, _, _, _, _] | [_, _, _, _, _, _, _]
    | _ :: _ :: _ :: _ :: _ :: _ :: _ :: _ :: _ => simp [parseGoAway, hs, classOf, postCheck]
  · simp [parseGoAway, hs, classOf]

theorem cls_pushPromise (fh : FH) (p : Bytes) (ht : fh.typ = 5) :
    classOf (parsePushPromise fh p) = specCore fh p := by
  obtain ⟨typ, flags, length, sid⟩ := fh
  simp only at ht; subst ht
  simp only [parsePushPromise, specCore, fixedLen, padOf]
  by_cases hs : sid = 0
  · simp [hs, classOf]
  · simp only [beq_iff_eq, hs, if_false]
    rcases Bool.eq_false_or_eq_true (hasFlag flags 8) with hf | hf
    · match p with
      | [] | [_] | [_, _] | [_, _, _] | [_, _, _, _] => simp [hf, readByte, readUint32, classOf]
      | pb :: a :: b :: c :: d :: r =>
        simp only [hf, readByte, readUint32, if_true]
        by_cases hb : pb > r.length
        · simp [hb, classOf]
        · simp [hb, classOf, postCheck]
    · match p with
      | [] | [_] | [_, _] | [_, _, _] => simp [hf, readUint32, classOf]
      | a :: b :: c :: d :: r => simp [hf, readUint32, classOf, postCheck]

theorem cls_headers (fh : FH) (p : Bytes) (ht : fh.typ = 1) : classOf (parseHeaders fh p) = specCore fh p := by
  obtain ⟨typ, flags, length, sid⟩ := fh
  simp only at ht; subst ht
  simp only [parseHeaders, specCore, fixedLen, padOf]
  by_cases hs : sid = 0
  · simp [hs, classOf]
  · simp only [beq_iff_eq, hs, if_false]
    rcases Bool.eq_false_or_eq_true (hasFlag flags 8) with hf | hf <;>
      rcases Bool.eq_false_or_eq_true (hasFlag flags 32) with hg | hg
    · -- padded + priority
      match p with
      | [] | [_] | [_, _] | [_, _, _] | [_, _, _, _] | [_, _, _, _, _] => simp [hf, hg, readByte, readUint32, classOf]
      | pb :: a :: b :: c :: d :: w :: r =>
        simp only [hf, hg, readByte, readUint32, if_true]
        by_cases hb : r.length ≤ pb
        · simp [hb, classOf]
        · simp [hb, classOf, postCheck]
    · -- padded only
      match p with
      | [] => simp [hf, hg, readByte, classOf]
      | pb :: r =>
        simp only [hf, hg, readByte, if_true, Bool.false_eq_true, if_false]
        by_cases hb : r.length ≤ pb
        · simp [hb, classOf]
        · simp [hb, classOf, postCheck]
    · -- priority only
      match p with
      | [] | [_] | [_, _] | [_, _, _] | [_, _, _, _] => simp [hf, hg, readByte, readUint32, classOf]
      | a :: b :: c :: d :: w :: r =>
        simp only [hf, hg, readByte, readUint32, if_true, Bool.false_eq_true, if_false]
        by_cases hb : r.length ≤ 0
        · simp [hb, classOf]
        · simp [hb, classOf, postCheck]
    · -- neither
      simp only [hf, hg, Bool.false_eq_true, if_false]
      by_cases hb : p.length ≤ 0
      · simp [hb, classOf]
      · simp [hb, classOf, postCheck]

theorem cls_settings (fh : FH) (p : Bytes) (ht : fh.typ = 4) (hlen : p.length = fh.length) :
    classOf (parseSettings fh p) = specCore fh p := by
  obtain ⟨typ, flags, length, sid⟩ := fh
  simp only at ht hlen; subst ht; subst hlen
  simp only [parseSettings, specCore]
  rcases Bool.eq_false_or_eq_true (hasFlag flags 1) with hk | hk
  · -- ACK
    by_cases hn : p.length = 0
    · have hp0 : p = [] := List.eq_nil_of_length_eq_zero hn
      subst hp0
      by_cases hs : sid = 0
      · simp [hk, hs, classOf, postCheck, settingValue, settingsOf]
      · simp [hk, hs, classOf]
    · have : p.length > 0 := by omega
      simp [hk, this, hn, classOf]
  · simp only [hk, Bool.false_and, Bool.false_eq_true, if_false, Bool.false_or]
    by_cases hs : sid = 0
    · by_cases h6 : p.length % 6 = 0
      · simp only [hs, h6, bne_self_eq_false, Bool.false_eq_true, if_false, Bool.or_self]
        have hpost : ∀ _x : Nat, classOf (.ok (.settings ⟨4, flags, p.length, 0⟩ p) : Except Err Frame) =
            (if (settingsOf p).any rfcSettingBad = true then Class.connErr else Class.accept) := by
          intro _
          simp only [classOf, postCheck, hk, Bool.false_eq_true, if_false, settingsValid_isSome]
        cases hv : settingValue p 4 with
        | none => simp only []; exact hpost 0
        | some v =>
          simp only []
          by_cases hb : v > 2147483647
          · simp only [hb, if_true, classOf, settingValue_bad p v hv hb]
          · simp only [hb, if_false]; exact hpost 0
      · simp [hs, h6, classOf]
    · simp [hs, classOf]

theorem specCore_ne_tooLarge (fh : FH) (p : Bytes) : specCore fh p ≠ .tooLarge := by
  simp only [specCore]
  repeat' split
  all_goals (intro h; cases h)

/-- class of the parser's answer = the RFC table, for every type, flags, stream and payload -/
theorem cls_parseFrame (fh : FH) (p : Bytes) (hlen : p.length = fh.length) :
    classOf (parseFrame fh p) = specCore fh p := by
  unfold parseFrame
  split
  · exact cls_data fh p (by assumption)
  · exact cls_headers fh p (by assumption)
  · exact cls_priority fh p (by assumption)
  · exact cls_rst fh p (by assumption)
  · exact cls_settings fh p (by assumption) hlen
  · exact cls_pushPromise fh p (by assumption)
  · exact cls_ping fh p (by assumption)
  · exact cls_goAway fh p (by assumption)
  · exact cls_windowUpdate fh p (by assumption)
  · exact cls_continuation fh p (by assumption)
  · rename_i h0 h1 h2 h3 h4 h5 h6 h7 h8 h9
    unfold specCore
    split <;> first | (simp [classOf, postCheck]; done) | (rename_i hh; first | exact absurd hh h0 | exact absurd hh h1 | exact absurd hh h2 | exact absurd hh h3 | exact absurd hh h4 | exact absurd hh h5 | exact absurd hh h6 | exact absurd hh h7 | exact absurd hh h8 | exact absurd hh h9)

end BfeVerif.C32
