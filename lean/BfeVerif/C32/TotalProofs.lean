import BfeVerif.C32.Checked
import BfeVerif.C32.ClassProofs
/-! C32 round 2: the checked reader never panics and equals the unchecked model. -/
namespace BfeVerif.C32
open BfeVerif.C32.Checked (idx sliceFrom sliceTo sliceToI slice u32 u16)

-- keep the kernel / `rfl` from evaluating 31-bit arithmetic on symbolic bytes
attribute [local irreducible] low31 be32

theorem sliceToI_ok (p : Bytes) (pad : Nat) (h : pad ≤ p.length) :
    sliceToI p ((p.length : Int) - (pad : Int)) = some (p.take (p.length - pad)) := by
  unfold sliceToI
  have h1 : (0 : Int) ≤ (p.length : Int) - (pad : Int) ∧ (p.length : Int) - (pad : Int) ≤ (p.length : Int) := by omega
  have h2 : ((p.length : Int) - (pad : Int)).toNat = p.length - pad := by omega
  simp only [h1, and_self, if_true, h2]

theorem sliceToI_full (p : Bytes) : sliceToI p (p.length : Int) = some p := by
  have := sliceToI_ok p 0 (by omega)
  simpa using this

theorem readByte_ok (p : Bytes) : Checked.readByte p = some (readByte p) := by
  cases p with
  | nil => rfl
  | cons b r => simp [Checked.readByte, readByte, sliceFrom, idx]

theorem readUint32_ok (p : Bytes) : Checked.readUint32 p = some (readUint32 p) := by
  match p with
  | [] | [_] | [_, _] | [_, _, _] => simp [Checked.readUint32, readUint32]
  | a :: b :: c :: d :: r => simp [Checked.readUint32, readUint32, sliceFrom, sliceTo, u32]

theorem parseData_ok (fh : FH) (p : Bytes) : Checked.parseData fh p = some (parseData fh p) := by
  unfold Checked.parseData parseData
  split
  · rfl
  · rcases Bool.eq_false_or_eq_true (hasFlag fh.flags 8) with hf | hf
    · simp only [hf, if_true, readByte_ok]
      cases hr : readByte p with
      | error e => simp
      | ok x =>
        obtain ⟨q, pad⟩ := x
        simp only [Option.bind_eq_bind, Option.bind_some]
        by_cases hb : pad > q.length
        · simp [hb]
        · simp [hb, sliceToI_ok q pad (by omega)]
    · simp [hf, sliceToI_full]

theorem parsePushPromise_ok (fh : FH) (p : Bytes) : Checked.parsePushPromise fh p = some (parsePushPromise fh p) := by
  unfold Checked.parsePushPromise parsePushPromise
  split
  · rfl
  · have key : ∀ (q : Bytes) (pad : Nat),
        (do let r1 ← Checked.readUint32 q
            match r1 with
            | .error e => pure (.error e)
            | .ok (p, v) =>
              if pad > p.length then pure (.error (.conn cProtocol))
              else do
                let frag ← sliceToI p ((p.length : Int) - (pad : Int))
                pure (.ok (.pushPromise fh (low31 v) frag)) : Option (Except Err Frame)) =
        some (match readUint32 q with
          | .error e => .error e
          | .ok (p, v) => if pad > p.length then .error (.conn cProtocol)
                          else .ok (.pushPromise fh (low31 v) (p.take (p.length - pad)))) := by
      intro q pad
      rw [readUint32_ok]
      cases hr : readUint32 q with
      | error e => simp
      | ok x =>
        obtain ⟨q2, v⟩ := x
        simp only [Option.bind_eq_bind, Option.bind_some]
        by_cases hb : pad > q2.length
        · simp [hb]
        · simp [hb, sliceToI_ok q2 pad (by omega)]
    rcases Bool.eq_false_or_eq_true (hasFlag fh.flags 8) with hf | hf
    · simp only [hf, if_true, readByte_ok, Option.bind_eq_bind, Option.bind_some]
      cases hr : readByte p with
      | error e => simp
      | ok x => obtain ⟨q, pad⟩ := x; exact key q pad
    · simp only [hf, Bool.false_eq_true, if_false, Option.bind_eq_bind, Option.bind_some]
      exact key p 0

theorem parseHeaders_ok (fh : FH) (p : Bytes) : Checked.parseHeaders fh p = some (parseHeaders fh p) := by
  unfold Checked.parseHeaders parseHeaders
  split
  · rfl
  · have fin : ∀ (q : Bytes) (pad : Nat) (pr : Prio),
        ((if (q.length : Int) - (pad : Int) ≤ 0 then pure (.error (.stream fh.sid cProtocol))
          else do
            let frag ← sliceToI q ((q.length : Int) - (pad : Int))
            pure (.ok (.headers fh pr frag))) : Option (Except Err Frame)) =
        some (if q.length ≤ pad then .error (.stream fh.sid cProtocol)
              else .ok (.headers fh pr (q.take (q.length - pad)))) := by
      intro q pad pr
      by_cases hb : q.length ≤ pad
      · have : (q.length : Int) - (pad : Int) ≤ 0 := by omega
        simp [hb, this]
      · have : ¬ ((q.length : Int) - (pad : Int) ≤ 0) := by omega
        simp [hb, this, sliceToI_ok q pad (by omega)]
    have key : ∀ (q : Bytes) (pad : Nat),
        (do let r ← (if hasFlag fh.flags 32 = true then do
                let r1 ← Checked.readUint32 q
                match r1 with
                | .error e => pure (.error e)
                | .ok (p, v) =>
                  let r2 ← Checked.readByte p
                  match r2 with
                  | .error e => pure (.error e)
                  | .ok (p, w) => pure (.ok (p, (⟨low31 v, v != low31 v, w⟩ : Prio)))
              else some (.ok (q, Prio.zero)) : Option (Except Err (Bytes × Prio)))
            match r with
            | .error e => pure (.error e)
            | .ok (p, pr) =>
              if (p.length : Int) - (pad : Int) ≤ 0 then pure (.error (.stream fh.sid cProtocol))
              else do
                let frag ← sliceToI p ((p.length : Int) - (pad : Int))
                pure (.ok (.headers fh pr frag)) : Option (Except Err Frame)) =
        some (match (if hasFlag fh.flags 32 = true then
                  match readUint32 q with
                  | .error e => .error e
                  | .ok (p, v) =>
                    match readByte p with
                    | .error e => .error e
                    | .ok (p, w) => .ok (p, (⟨low31 v, v != low31 v, w⟩ : Prio))
                else .ok (q, Prio.zero) : Except Err (Bytes × Prio)) with
          | .error e => .error e
          | .ok (p, pr) => if p.length ≤ pad then .error (.stream fh.sid cProtocol)
                           else .ok (.headers fh pr (p.take (p.length - pad)))) := by
      intro q pad
      rcases Bool.eq_false_or_eq_true (hasFlag fh.flags 32) with hg | hg
      · simp only [hg, if_true, readUint32_ok, Option.bind_eq_bind, Option.bind_some]
        cases hr : readUint32 q with
        | error e => simp
        | ok x =>
          obtain ⟨q2, v⟩ := x
          simp only [readByte_ok, Option.bind_some]
          cases hr2 : readByte q2 with
          | error e => simp
          | ok y => obtain ⟨q3, w⟩ := y; simp only [Option.pure_def, Option.bind_some]; exact fin q3 pad _
      · simp only [hg, Bool.false_eq_true, if_false, Option.bind_eq_bind, Option.bind_some]
        exact fin q pad _
    rcases Bool.eq_false_or_eq_true (hasFlag fh.flags 8) with hf | hf
    · simp only [hf, if_true]
      rw [readByte_ok p]
      simp only [Option.bind_eq_bind, Option.bind_some]
      cases hr : readByte p with
      | error e => simp
      | ok x => obtain ⟨q, pad⟩ := x; simp only []; exact key q pad
    · simp only [hf, Bool.false_eq_true, if_false, Option.bind_eq_bind, Option.bind_some]
      exact key p 0

theorem parsePing_ok (fh : FH) (p : Bytes) : Checked.parsePing fh p = some (parsePing fh p) := by
  unfold Checked.parsePing parsePing
  split
  · rfl
  · split <;> rfl

theorem parseContinuation_ok (fh : FH) (p : Bytes) :
    Checked.parseContinuation fh p = some (parseContinuation fh p) := by
  unfold Checked.parseContinuation parseContinuation
  split <;> rfl

theorem parseRST_ok (fh : FH) (p : Bytes) : Checked.parseRST fh p = some (parseRST fh p) := by
  match p with
  | [] | [_] | [_, _] | [_, _, _] | _ :: _ :: _ :: _ :: _ :: _ => simp [Checked.parseRST, parseRST]
  | [a, b, c, d] =>
    by_cases hs : fh.sid = 0
    · simp [Checked.parseRST, parseRST, hs]
    · simp [Checked.parseRST, parseRST, hs, sliceTo, u32]

theorem parsePriority_ok (fh : FH) (p : Bytes) : Checked.parsePriority fh p = some (parsePriority fh p) := by
  by_cases hs : fh.sid = 0
  · simp [Checked.parsePriority, parsePriority, hs]
  · match p with
    | [] | [_] | [_, _] | [_, _, _] | [_, _, _, _] | _ :: _ :: _ :: _ :: _ :: _ :: _ =>
      simp [Checked.parsePriority, parsePriority, hs]
    | [a, b, c, d, w] => simp [Checked.parsePriority, parsePriority, hs, sliceTo, u32, idx]

theorem pwu4' (fh : FH) (a b c d : Nat) :
    parseWindowUpdate fh [a, b, c, d] = Checked.wuResult fh (low31 (be32 a b c d)) := by
  simp only [parseWindowUpdate, Checked.wuResult]

theorem parseWindowUpdate_ok (fh : FH) (p : Bytes) :
    Checked.parseWindowUpdate fh p = some (parseWindowUpdate fh p) := by
  by_cases h4 : p.length = 4
  · obtain ⟨a, b, c, d, rfl⟩ : ∃ a b c d, p = [a, b, c, d] := by
      match p, h4 with
      | [a, b, c, d], _ => exact ⟨a, b, c, d, rfl⟩
    have e1 : sliceTo [a, b, c, d] 4 = some [a, b, c, d] := rfl
    have e2 : u32 [a, b, c, d] = some (be32 a b c d) := rfl
    have e0 : (([a, b, c, d] : Bytes).length != 4) = false := rfl
    refine Eq.trans ?_ (congrArg some (pwu4' fh a b c d).symm)
    simp only [Checked.parseWindowUpdate, e0, Bool.false_eq_true, if_false, e1, e2]
  · have hparse : parseWindowUpdate fh p = .error (.conn cFrameSize) := by
      unfold parseWindowUpdate
      split
      · exact absurd rfl h4
      · rfl
    rw [hparse]
    unfold Checked.parseWindowUpdate
    rw [if_pos (by simpa using h4)]

theorem parseGoAway_ok (fh : FH) (p : Bytes) : Checked.parseGoAway fh p = some (parseGoAway fh p) := by
  by_cases hs : fh.sid = 0
  · match p with
    | [] | [_] | [_, _] | [_, _, _] | [_, _, _, _] | [_, _, _, _, _] | [_, _, _, _, _, _] | [_, _, _, _, _, _, _] =>
      simp [Checked.parseGoAway, parseGoAway, hs]
    | a :: b :: c :: d :: e :: f :: g :: h :: r =>
      simp [Checked.parseGoAway, parseGoAway, hs, sliceTo, slice, sliceFrom, u32]
  · simp [Checked.parseGoAway, parseGoAway, hs]

theorem valueLoop_ok (id : Nat) : ∀ (n : Nat) (buf : Bytes) (fuel : Nat), buf.length = 6 * n → fuel > buf.length →
    Checked.valueLoop fuel buf id = some (settingValue buf id) := by
  intro n
  induction n with
  | zero =>
    intro buf fuel hl hf
    have : buf = [] := List.eq_nil_of_length_eq_zero (by omega)
    subst this
    cases fuel with
    | zero => simp at hf
    | succ f => simp [Checked.valueLoop, settingValue, settingsOf]
  | succ n ih =>
    intro buf fuel hl hf
    match buf, hl with
    | a :: b :: c :: d :: e :: f :: r, hl =>
      cases fuel with
      | zero => simp at hf
      | succ fu =>
        have hr : r.length = 6 * n := by simp at hl; omega
        have hfu : fu > r.length := by simp at hf; omega
        have ihr := ih r fu hr hfu
        simp only [Checked.valueLoop, List.length_cons, sliceTo, u16, slice, u32, sliceFrom, settingValue, settingsOf,
          List.find?_cons] at ihr ⊢
        by_cases hid : a * 256 + b = id
        · simp [hid]
        · have hid' : (a * 256 + b == id) = false := by simpa using hid
          simp [hid', ihr]
          intro h; exact absurd h hid

theorem validLoop_ok : ∀ (n : Nat) (buf : Bytes) (fuel : Nat), buf.length = 6 * n → fuel > buf.length →
    Checked.validLoop fuel buf = some (settingsValid (settingsOf buf)) := by
  intro n
  induction n with
  | zero =>
    intro buf fuel hl hf
    have : buf = [] := List.eq_nil_of_length_eq_zero (by omega)
    subst this
    cases fuel with
    | zero => simp at hf
    | succ f => simp [Checked.validLoop, settingsValid, settingsOf]
  | succ n ih =>
    intro buf fuel hl hf
    match buf, hl with
    | a :: b :: c :: d :: e :: f :: r, hl =>
      cases fuel with
      | zero => simp at hf
      | succ fu =>
        have hr : r.length = 6 * n := by simp at hl; omega
        have hfu : fu > r.length := by simp at hf; omega
        have ihr := ih r fu hr hfu
        simp only [Checked.validLoop, List.length_cons, sliceTo, u16, slice, u32, sliceFrom, settingsValid, settingsOf]
        cases hv : settingValid (a * 256 + b, be32 c d e f) with
        | some e => simp [hv]
        | none => simp [hv, ihr]

theorem parseSettings_ok (fh : FH) (p : Bytes) : Checked.parseSettings fh p = some (parseSettings fh p) := by
  unfold Checked.parseSettings parseSettings
  split
  · rfl
  · split
    · rfl
    · split
      · rfl
      · rename_i h6
        have h6' : p.length % 6 = 0 := by simpa using h6
        rw [valueLoop_ok 4 (p.length / 6) p (p.length + 1) (by omega) (by omega)]
        simp only [Option.bind_eq_bind, Option.bind_some]
        cases settingValue p 4 with
        | none => rfl
        | some v => simp only []; split <;> rfl

theorem parseFrame_ok (fh : FH) (p : Bytes) : Checked.parseFrame fh p = some (parseFrame fh p) := by
  obtain ⟨typ, flags, length, sid⟩ := fh
  match typ with
  | 0 => exact parseData_ok _ p
  | 1 => exact parseHeaders_ok _ p
  | 2 => exact parsePriority_ok _ p
  | 3 => exact parseRST_ok _ p
  | 4 => exact parseSettings_ok _ p
  | 5 => exact parsePushPromise_ok _ p
  | 6 => exact parsePing_ok _ p
  | 7 => exact parseGoAway_ok _ p
  | 8 => exact parseWindowUpdate_ok _ p
  | 9 => exact parseContinuation_ok _ p
  | _ + 10 => rfl

theorem readFrame_ok (fr : Framer) (inp : Bytes) : Checked.readFrame fr inp = some (readFrame fr inp) := by
  match inp with
  | [] | [_] | [_, _] | [_, _, _] | [_, _, _, _] | [_, _, _, _, _] | [_, _, _, _, _, _] | [_, _, _, _, _, _, _]
  | [_, _, _, _, _, _, _, _] => simp [Checked.readFrame, readFrame, parseHeader]
  | l0 :: l1 :: l2 :: t :: f :: s0 :: s1 :: s2 :: s3 :: rest =>
    have h9 : ¬ ((l0 :: l1 :: l2 :: t :: f :: s0 :: s1 :: s2 :: s3 :: rest).length < 9) := by simp
    have hs : sliceTo (l0 :: l1 :: l2 :: t :: f :: s0 :: s1 :: s2 :: s3 :: rest) 9 =
        some [l0, l1, l2, t, f, s0, s1, s2, s3] := by simp [sliceTo]
    have hr : sliceFrom (l0 :: l1 :: l2 :: t :: f :: s0 :: s1 :: s2 :: s3 :: rest) 9 = some rest := by
      simp [sliceFrom]
    have hd : Checked.decodeHeader [l0, l1, l2, t, f, s0, s1, s2, s3] =
        some ⟨t, f, l0 * 65536 + l1 * 256 + l2, low31 (be32 s0 s1 s2 s3)⟩ := by
      simp [Checked.decodeHeader, idx, sliceFrom, u32]
    generalize hfh : (⟨t, f, l0 * 65536 + l1 * 256 + l2, low31 (be32 s0 s1 s2 s3)⟩ : FH) = fh at hd
    have hm : readFrame fr (l0 :: l1 :: l2 :: t :: f :: s0 :: s1 :: s2 :: s3 :: rest) =
        (if fh.length > fr.maxReadSize then (.error .tooLarge, fr, rest)
         else if rest.length < fh.length then (.error (if rest.isEmpty then .eof else .ueof), fr, [])
         else ((acceptFrame fr fh (rest.take fh.length)).1, (acceptFrame fr fh (rest.take fh.length)).2,
               rest.drop fh.length)) := by
      simp only [readFrame, parseHeader, hfh]
    rw [hm]
    simp only [Checked.readFrame, h9, if_false, hs, hr, hd, Option.bind_eq_bind, Option.bind_some]
    by_cases hbig : fh.length > fr.maxReadSize
    · simp [hbig]
    · by_cases hshort : rest.length < fh.length
      · simp [hbig, hshort]
      · have hst : sliceTo rest fh.length = some (rest.take fh.length) := by
          simp only [sliceTo]; rw [if_pos (by omega)]
        have hsf : sliceFrom rest fh.length = some (rest.drop fh.length) := by
          simp only [sliceFrom]; rw [if_pos (by omega)]
        simp only [hbig, hshort, if_false, hst, hsf, Option.bind_some, parseFrame_ok, acceptFrame, Option.pure_def]
        cases parseFrame fh (rest.take fh.length) with
        | error e => rfl
        | ok fr0 =>
          simp only []
          cases checkFrameOrder fr fh with
          | error e => rfl
          | ok fr' => rfl

theorem postCheck_ok (f : Frame) (h6 : ∀ fh p, f = .settings fh p → p.length % 6 = 0) :
    Checked.postCheck f = some (postCheck f) := by
  cases f with
  | settings fh p =>
    simp only [Checked.postCheck, postCheck]
    split
    · rfl
    · have := h6 fh p rfl
      exact validLoop_ok (p.length / 6) p (p.length + 1) (by omega) (by omega)
  | _ => rfl

/-- a SETTINGS frame returned by the parser has a payload of whole 6-byte entries -/
theorem parseFrame_settings_len (fh fh' : FH) (p p' : Bytes) (h : parseFrame fh p = .ok (.settings fh' p')) :
    p'.length % 6 = 0 := by
  have hc : parseSettings fh p = .ok (.settings fh' p') ∨ fh.typ ≠ 4 := by
    by_cases h4 : fh.typ = 4
    · left; unfold parseFrame at h; simp only [h4] at h; exact h
    · right; exact h4
  rcases hc with hc | hc
  · unfold parseSettings at hc
    split at hc
    · cases hc
    · split at hc
      · cases hc
      · split at hc
        · cases hc
        · rename_i h6
          have h6' : p.length % 6 = 0 := by simpa using h6
          have : p' = p := by
            split at hc
            · split at hc
              · cases hc
              · injection hc with hc; injection hc with _ hp; exact hp.symm
            · injection hc with hc; injection hc with _ hp; exact hp.symm
          rw [this]; exact h6'
  · -- other parsers never build a SETTINGS frame
    exfalso
    unfold parseFrame at h
    split at h
    all_goals first
      | (exact hc (by assumption))
      | (simp only [parseData, parseHeaders, parsePriority, parseRST, parsePushPromise, parsePing, parseGoAway,
          parseWindowUpdate, parseContinuation] at h
         repeat' split at h
         all_goals first | cases h | (injection h with h; cases h))
      | (injection h with h; cases h)

end BfeVerif.C32
