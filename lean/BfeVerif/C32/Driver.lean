import BfeVerif.Common.Proto
import BfeVerif.C32.Model
import BfeVerif.C32.Chunked
import BfeVerif.C32.Meta
/-!
  C32 driver.
  ops:
    `rd <max> <hex>`                         read the byte stream with SetMaxReadFrameSize(max)
    `ws <max> <allow01> <w1>;<w2>;…`         run the writers on one Framer (AllowIllegalWrites=allow),
                                             then read the written buffer back
  writer specs (fields separated by `,`; bools 0/1; byte strings hex, `-` = empty):
    D,sid,es,data,pad|nil   H,sid,es,eh,padlen,dep,excl,weight,frag   P,sid,dep,excl,weight   R,sid,code
    S,id:val+id:val|-       A      U,sid,promise,eh,padlen,frag      I,ack,data8   G,last,code,debug
    W,sid,incr              C,sid,eh,frag                            X,type,flags,sid,payload
  result of rd:   <read entries joined by |>
  result of ws:   <status of each writer joined by ,> <hex of the buffer> <read entries joined by |>
  read entry:  D:flags:sid:len:data  H:…:dep.excl.weight:frag  P:…:dep.excl.weight  R:…:code
               S:…:id=val+…|-:v=ok|c<code>   U:…:promise:frag   I:…:data   G:…:last:code:debug   W:…:inc
               C:…:frag   X<type>:…:payload    E:c<code>  E:s<sid>.<code>  E:eof  E:ueof  E:big
-/
namespace BfeVerif.C32
open BfeVerif.Proto

def hexB (b : Bytes) : String := hexField (b.map fun x => UInt8.ofNat x)

def unhex (s : String) : Option Bytes := (bytesOfHex s).map fun l => l.map (·.toNat)

def b01 (b : Bool) : String := if b then "1" else "0"

def fhStr (fh : FH) : String := toString fh.flags ++ ":" ++ toString fh.sid ++ ":" ++ toString fh.length

def prioStr (p : Prio) : String := toString p.dep ++ "." ++ b01 p.excl ++ "." ++ toString p.weight

def errStr : Err → String
  | .conn c => "E:c" ++ toString c
  | .stream s c => "E:s" ++ toString s ++ "." ++ toString c
  | .eof => "E:eof"
  | .ueof => "E:ueof"
  | .tooLarge => "E:big"

def settingsStr (l : List (Nat × Nat)) : String :=
  if l.isEmpty then "-" else "+".intercalate (l.map fun s => toString s.1 ++ "=" ++ toString s.2)

def frameStr : Frame → String
  | .data fh d => "D:" ++ fhStr fh ++ ":" ++ hexB d
  | .headers fh pr frag => "H:" ++ fhStr fh ++ ":" ++ prioStr pr ++ ":" ++ hexB frag
  | .priority fh pr => "P:" ++ fhStr fh ++ ":" ++ prioStr pr
  | .rst fh c => "R:" ++ fhStr fh ++ ":" ++ toString c
  | .settings fh p =>
    "S:" ++ fhStr fh ++ ":" ++ settingsStr (settingsOf p) ++ ":v=" ++
      (match postCheck (.settings fh p) with | none => "ok" | some e => (errStr e).drop 2 |>.toString)
  | .pushPromise fh pid frag => "U:" ++ fhStr fh ++ ":" ++ toString pid ++ ":" ++ hexB frag
  | .ping fh d => "I:" ++ fhStr fh ++ ":" ++ hexB d
  | .goAway fh l c d => "G:" ++ fhStr fh ++ ":" ++ toString l ++ ":" ++ toString c ++ ":" ++ hexB d
  | .windowUpdate fh i => "W:" ++ fhStr fh ++ ":" ++ toString i
  | .continuation fh frag => "C:" ++ fhStr fh ++ ":" ++ hexB frag
  | .unknown fh p => "X" ++ toString fh.typ ++ ":" ++ fhStr fh ++ ":" ++ hexB p

def resStr : Except Err Frame → String
  | .ok f => frameStr f
  | .error e => errStr e

def readsStr (max : Nat) (buf : Bytes) : String :=
  "|".intercalate ((readAll (buf.length + 1) (newFramer max) buf).map resStr)

def pBool (s : String) : Option Bool := if s == "1" then some true else if s == "0" then some false else none

def pSetting (s : String) : Option (Nat × Nat) :=
  match s.splitOn ":" with
  | [a, b] => do let i ← a.toNat?; let v ← b.toNat?; pure (i, v)
  | _ => none

def parseW (s : String) : Option W :=
  match s.splitOn "," with
  | ["D", sid, es, d, pad] => do
    let pd ← if pad == "nil" then some none else (unhex pad).map some
    pure (.data (← sid.toNat?) (← pBool es) (← unhex d) pd)
  | ["H", sid, es, eh, pl, dep, ex, w, frag] => do
    pure (.headers (← sid.toNat?) (← pBool es) (← pBool eh) (← pl.toNat?) ⟨← dep.toNat?, ← pBool ex, ← w.toNat?⟩ (← unhex frag))
  | ["P", sid, dep, ex, w] => do pure (.priority (← sid.toNat?) ⟨← dep.toNat?, ← pBool ex, ← w.toNat?⟩)
  | ["R", sid, c] => do pure (.rst (← sid.toNat?) (← c.toNat?))
  | ["S", l] => do
    let ss ← if l == "-" then some [] else (l.splitOn "+").mapM pSetting
    pure (.settings ss)
  | ["A"] => some .settingsAck
  | ["U", sid, pr, eh, pl, frag] => do
    pure (.pushPromise (← sid.toNat?) (← pr.toNat?) (← pBool eh) (← pl.toNat?) (← unhex frag))
  | ["I", ack, d] => do pure (.ping (← pBool ack) (← unhex d))
  | ["G", l, c, d] => do pure (.goAway (← l.toNat?) (← c.toNat?) (← unhex d))
  | ["W", sid, inc] => do pure (.windowUpdate (← sid.toNat?) (← inc.toNat?))
  | ["C", sid, eh, frag] => do pure (.continuation (← sid.toNat?) (← pBool eh) (← unhex frag))
  | ["X", t, f, sid, p] => do pure (.raw (← t.toNat?) (← f.toNat?) (← sid.toNat?) (← unhex p))
  | _ => none

def werrStr : WErr → String
  | .streamID => "werr:sid" | .padLength => "werr:pad" | .depID => "werr:dep"
  | .window => "werr:win" | .tooLarge => "werr:big"

/-! the specification oracle (independent splitter + `specFrame`) -/

structure SpecEntry where
  cls : Class
  rule : String      -- which rule decided (for the failure class)

/-- classes the RFC-level specification demands for the byte stream -/
def specAll : Nat → Nat → Nat → Bytes → List Class
  | 0, _, _, _ => []
  | fuel + 1, exp, max, inp =>
    match inp with
    | [] => [.ioErr]
    | l0 :: l1 :: l2 :: t :: f :: s0 :: s1 :: s2 :: s3 :: rest =>
      let fh : FH := ⟨t, f, l0 * 65536 + l1 * 256 + l2, low31 (be32 s0 s1 s2 s3)⟩
      if fh.length > max then [.tooLarge]
      else if rest.length < fh.length then [.ioErr]
      else
        let p := rest.take fh.length
        let c := specFrame exp fh p
        let exp' := if c == .accept && (t == 1 || t == 9) then (if hasFlag f 4 then 0 else fh.sid) else exp
        if c == .accept || c == .streamErr then c :: specAll fuel exp' max (rest.drop fh.length) else [c]
    | _ => [.ioErr]

def classOfStr (s : String) : Class :=
  if s.startsWith "E:c" then .connErr
  else if s.startsWith "E:s" then .streamErr
  else if s == "E:big" then .tooLarge
  else if s.startsWith "E:" then .ioErr
  else if s.startsWith "S:" && !(s.endsWith ":v=ok") then .connErr
  else .accept

def clsName : Class → String
  | .accept => "accept" | .connErr => "conn" | .streamErr => "stream" | .ioErr => "io" | .tooLarge => "big"

/-- compare the implementation's entries with the specification's classes -/
def judgeClasses : List String → List Class → Nat → Bytes → Option String
  | [], [], _, _ => none
  | [], _ :: _, _, _ => some "fewer-entries"
  | _ :: _, [], _, _ => some "more-entries"
  | e :: es, c :: cs, exp, _ =>
    let ic := classOfStr e
    if ic == c then judgeClasses es cs (if e.startsWith "H:" || e.startsWith "C:" then
        (match e.splitOn ":" with | _ :: fl :: sid :: _ => if hasFlag (fl.toNat?.getD 0) 4 then 0 else sid.toNat?.getD 0 | _ => 0)
      else exp) []
    else if c == .connErr && ic == .streamErr && exp != 0 then some "seq-stream-error"
    else some ("class-" ++ clsName c ++ "-got-" ++ clsName ic)

def judgeRT : List String → List (Option Frame) → Option String
  | [], _ => none
  | _, [] => none
  | e :: es, x :: xs =>
    if e.startsWith "E:" then judgeRT es xs
    else match x with
      | none => judgeRT es xs
      | some f => if e == frameStr f then judgeRT es xs else some ("rt-" ++ (e.take 1).toString)

def kindTag (e : String) : String :=
  if e.startsWith "E:c" then "e-conn" else if e.startsWith "E:s" then "e-stream"
  else if e.startsWith "E:" then "e-" ++ (e.drop 2).toString else "f-" ++ (e.take 1).toString

def fieldsStr (fs : List Field) : String :=
  if fs.isEmpty then "-" else "&".intercalate (fs.map fun f => hexB f.name ++ "=" ++ hexB f.value)

def mresStr : MRes → String
  | .frame f => frameStr f
  | .mh fh pr fs t => "M:" ++ fhStr fh ++ ":" ++ prioStr pr ++ ":T" ++ b01 t ++ ":" ++ fieldsStr fs
  | .err e => errStr e
  | .merr .comp => "E:c9"
  | .merr .uri => "E:uri"
  | .merr .hls => "E:hls"
  | .merr .unsupported => "UNSUPPORTED"
  | .panic => "PANIC"

/-- independent checks on a MetaHeadersFrame the implementation returned -/
def judgeMeta (maxList maxUri : Nat) (e : String) : Option String :=
  if !e.startsWith "M:" then none
  else
    match e.splitOn ":" with
    | [_, _, _, _, _, _, fstr] =>
      if fstr == "-" then none
      else
        let fs := (fstr.splitOn "&").filterMap fun kv =>
          match kv.splitOn "=" with
          | [a, b] => match unhex a, unhex b with | some x, some y => some (Field.mk x y) | _, _ => none
          | _ => none
        if fs.length != (fstr.splitOn "&").length then some "meta-unparsable"
        else if (fs.map Field.size).foldl (· + ·) 0 > maxList then some "meta-list-size"
        else if fs.any (fun f => f.name == strBytes ":path" && f.value.length > maxUri) then some "meta-uri-size"
        else if fs.any (fun f => !validValue f.value || (!isPseudo f.name && !validName f.name)) then some "meta-invalid-field"
        else if (fs.dropWhile (fun f => isPseudo f.name)).any (fun f => isPseudo f.name) then some "meta-pseudo-after-regular"
        else if !pseudoOK fs then some "meta-pseudo-set"
        else none
    | _ => some "meta-unparsable"

def run (op impl : String) : Ans :=
  match op.splitOn " " with
  | ["rd", mx, hx] =>
    match mx.toNat?, unhex hx with
    | some max, some buf =>
      let fr := newFramer max
      let entries := impl.splitOn "|"
      let spec := specAll (buf.length + 1) 0 fr.maxReadSize buf
      let v := match judgeClasses entries spec 0 [] with | none => "ok" | some c => "FAIL:" ++ c
      { model := readsStr max buf, verdict := v,
        tags := (entries.map kindTag).eraseDups ++ ["rd"] ++ (if entries.length ≥ 2 then ["nt"] else []) }
    | _, _ => { model := "bad-op", verdict := "skip" }
  | ["ws", mx, al, wl] =>
    match mx.toNat?, pBool al, (wl.splitOn ";").mapM parseW with
    | some max, some allow, some ws =>
      let outs := ws.map (runW allow)
      let buf := outs.foldl (fun acc o => match o with | .ok b => acc ++ b | .error _ => acc) []
      let stat := ",".intercalate (outs.map fun o => match o with | .ok _ => "ok" | .error e => werrStr e)
      let model := stat ++ " " ++ hexB buf ++ " " ++ readsStr max buf
      -- oracle on the implementation's own output
      match impl.splitOn " " with
      | [istat, ibufHex, ireads] =>
        match unhex ibufHex with
        | none => { model := model, verdict := "FAIL:unparsable" }
        | some ibuf =>
          let entries := ireads.splitOn "|"
          let fr := newFramer max
          let spec := specAll (ibuf.length + 1) 0 fr.maxReadSize ibuf
          let okWs := (ws.zip (istat.splitOn ",")).filterMap fun (w, st) => if st == "ok" then some (expectRT w) else none
          let v :=
            match judgeClasses entries spec 0 [] with
            | some c => "FAIL:" ++ c
            | none => match judgeRT entries okWs with | some c => "FAIL:" ++ c | none => "ok"
          { model := model, verdict := v,
            tags := (entries.map kindTag).eraseDups ++ ["ws"] ++ (if allow then ["allow"] else []) ++
              (if okWs.any (·.isSome) && entries.any (fun e => !e.startsWith "E:") then ["nt"] else []) ++
              ((istat.splitOn ",").filter (· != "ok")).eraseDups }
      | _ => { model := model, verdict := "FAIL:unparsable" }
    | _, _, _ => { model := "bad-op", verdict := "skip" }
  | ["rs", mx, cuts, hx] =>
    -- the same byte stream through a SEGMENTED reader: cuts = sizes (cycled), suffix `e` = last data with io.EOF
    let ewd := cuts.endsWith "e"
    let cs := if ewd then (cuts.dropEnd 1).toString else cuts
    match mx.toNat?, unhex hx, (cs.splitOn ",").mapM (·.toNat?) with
    | some max, some buf, some sizes =>
      let fr := newFramer max
      let chunks := cutInto ((buf.length + 1) * (sizes.length + 2)) sizes sizes buf
      let rd : Rd := ⟨chunks, ewd⟩
      let entries := impl.splitOn "|"
      let spec := specAll (buf.length + 1) 0 fr.maxReadSize buf
      let v := match judgeClasses entries spec 0 [] with | none => "ok" | some c => "FAIL:" ++ c
      { model := "|".intercalate ((readAllR (buf.length + 1) fr rd).map resStr), verdict := v,
        tags := (entries.map kindTag).eraseDups ++ ["rs"] ++ (if ewd then ["eof-with-data"] else []) ++
          (if sizes.contains 0 then ["empty-read"] else []) ++ (if sizes == [1] then ["bytewise"] else []) ++
          (if entries.length ≥ 2 then ["nt"] else []) }
    | _, _, _ => { model := "bad-op", verdict := "skip" }
  | ["rm", ml, mu, mx, hx] =>
    -- ReadFrame with ReadMetaHeaders set (MaxHeaderListSize ml >= 1, MaxHeaderUriSize mu >= 1)
    match ml.toNat?, mu.toNat?, mx.toNat?, unhex hx with
    | some maxList, some maxUri, some max, some buf =>
      if maxList == 0 || maxUri == 0 then { model := "bad-op", verdict := "skip" } else
      let rs := readAllM ⟨maxList, maxUri⟩ (buf.length + 1) ⟨newFramer max, []⟩ buf
      let model := "|".intercalate (rs.map mresStr)
      let entries := impl.splitOn "|"
      let unsupported := rs.any fun r => match r with | .merr .unsupported => true | _ => false
      let v :=
        if impl.startsWith "PANIC" || impl == "HANG" then "FAIL:meta-panic"
        else match entries.findSome? (judgeMeta maxList maxUri) with
          | some c => "FAIL:" ++ c
          | none => if unsupported then "skip" else "ok"
      { model := model, verdict := v,
        tags := ["rm"] ++ (entries.map fun e => if e.startsWith "M:" then "f-M" else kindTag e).eraseDups ++
          (if unsupported then ["hpack-unsupported"] else []) ++
          (if entries.any (·.startsWith "M:") then ["nt"] else []) }
    | _, _, _, _ => { model := "bad-op", verdict := "skip" }
  | ["rc", mx, hx] =>
    -- ReadFrame called again after EVERY error (until an i/o error)
    match mx.toNat?, unhex hx with
    | some max, some buf =>
      let entries := impl.splitOn "|"
      { model := "|".intercalate ((readAllCont (buf.length + 2) (newFramer max) buf).map resStr),
        verdict := if impl.startsWith "PANIC" || impl == "HANG" then "FAIL:panic-after-error" else "ok",
        tags := (entries.map kindTag).eraseDups ++ ["rc"] ++ (if entries.length ≥ 3 then ["nt"] else []) }
    | _, _ => { model := "bad-op", verdict := "skip" }
  | ["wf", mx, al, modes, wl] =>
    -- writers on a sink that fails: per call g = good, s = short write (n-1, nil), z = (0, nil), e = error
    match mx.toNat?, pBool al, (wl.splitOn ";").mapM parseW with
    | some max, some allow, some ws =>
      let ms := modes.toList
      if ms.length != ws.length then { model := "bad-op", verdict := "skip" } else
      let outs := (ws.zip ms).map fun (w, m) =>
        match runW allow w with
        | .error e => (werrStr e, ([] : Bytes))
        | .ok b => if m == 'g' then ("ok", b) else if m == 'e' then ("werr:io", []) else ("werr:short", [])
      let buf := outs.foldl (fun acc o => acc ++ o.2) []
      let stat := ",".intercalate (outs.map (·.1))
      { model := stat ++ " " ++ hexB buf ++ " " ++ readsStr max buf,
        verdict := if impl.startsWith "PANIC" then "FAIL:panic" else "ok",
        tags := ["wf"] ++ (outs.map (·.1)).eraseDups ++ (if outs.any (·.1 == "ok") then ["nt"] else []) }
    | _, _, _ => { model := "bad-op", verdict := "skip" }
  | ["wb", al, kind, ns, pls] =>
    -- payload sizes around 2^24 (ErrFrameTooLarge of endWrite); result: status, bytes written, the 9 header bytes
    match pBool al, ns.toNat?, pls.toNat? with
    | some _, some n, some pl =>
      if !(["D", "H", "U", "C", "G", "X", "S"].contains kind) || pl > 255 then { model := "bad-op", verdict := "skip" } else
      let len := sizedLen kind n pl
      let typ := if kind == "D" then 0 else if kind == "H" then 1 else if kind == "U" then 5 else if kind == "C" then 9
        else if kind == "G" then 7 else if kind == "X" then 10 else 4
      let flags := (if (kind == "D" || kind == "H" || kind == "U") && pl != 0 then 8 else 0) +
        (if kind == "H" || kind == "U" || kind == "C" then 4 else 0)
      let sid := if kind == "G" || kind == "S" then 0 else 1
      let model :=
        if len ≥ 16777216 then "werr:big 0 -"
        else "ok " ++ toString (9 + len) ++ " " ++ hexB ([len / 65536 % 256, len / 256 % 256, len % 256, typ, flags] ++ put32 sid)
      { model := model,
        verdict := if (len ≥ 16777216) == (impl.startsWith "werr:big") then "ok" else "FAIL:frame-too-large-boundary",
        tags := ["wb", kind] ++ (if len == 16777215 || len == 16777216 then ["nt", "at-limit"] else []) }
    | _, _, _ => { model := "bad-op", verdict := "skip" }
  | _ => { model := "bad-op", verdict := "skip" }

end BfeVerif.C32
