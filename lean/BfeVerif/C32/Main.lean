import BfeVerif.C32.Driver
def main : IO Unit := BfeVerif.Proto.driverMain BfeVerif.C32.run
