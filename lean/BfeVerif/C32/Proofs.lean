import BfeVerif.C32.Model
/-! C32 helper lemmas -/
namespace BfeVerif.C32

theorem hdr_len (L : Nat) (h : L < 16777216) :
    L / 65536 % 256 * 65536 + L / 256 % 256 * 256 + L % 256 = L := by omega

theorem be32_put32 (v : Nat) (h : v < 4294967296) :
    be32 (v / 16777216 % 256) (v / 65536 % 256) (v / 256 % 256) (v % 256) = v := by
  unfold be32; omega

theorem low31_id (v : Nat) (h : v < 2147483648) : low31 v = v := by unfold low31; omega

/-- reading back what `endWrite` produced: the 9-byte header decodes to the same fields and exactly
    the payload is handed to the parser -/
theorem readFrame_endWrite (fr : Framer) (typ flags sid : Nat) (payload bs rest : Bytes)
    (hw : endWrite typ flags sid payload = .ok bs)
    (ht : typ < 256) (hf : flags < 256) (hs : sid < 2147483648) (hmax : payload.length ≤ fr.maxReadSize) :
    readFrame fr (bs ++ rest) =
      ((acceptFrame fr ⟨typ, flags, payload.length, sid⟩ payload).1,
       (acceptFrame fr ⟨typ, flags, payload.length, sid⟩ payload).2, rest) := by
  unfold endWrite at hw
  split at hw
  · cases hw
  · rename_i hlt
    have hL : payload.length < 16777216 := by omega
    injection hw with hw; subst hw
    have h1 : low31 (be32 (sid / 16777216 % 256) (sid / 65536 % 256) (sid / 256 % 256) (sid % 256)) = sid := by
      rw [be32_put32 sid (by omega), low31_id sid hs]
    simp only [put32, List.cons_append, List.nil_append, List.append_assoc, readFrame, parseHeader, h1,
      hdr_len _ hL, Nat.mod_eq_of_lt ht, Nat.mod_eq_of_lt hf]
    have h2 : ¬ (payload.length > fr.maxReadSize) := by omega
    have h3 : ¬ ((payload ++ rest).length < payload.length) := by simp
    simp only [h2, h3, if_false, List.take_left', List.drop_left']

/-- frame order check for a frame that is neither HEADERS nor CONTINUATION, no header block open -/
theorem order_plain (fr : Framer) (fh : FH) (h0 : fr.lastHeaderStream = 0) (h1 : fh.typ ≠ 1) (h9 : fh.typ ≠ 9) :
    checkFrameOrder fr fh = .ok fr := by
  simp [checkFrameOrder, h0, h1, h9]

def orderOK (fr : Framer) (fh : FH) : Prop :=
  if fr.lastHeaderStream ≠ 0 then fh.typ = 9 ∧ fh.sid = fr.lastHeaderStream else fh.typ ≠ 9

def orderNext (fr : Framer) (fh : FH) : Framer :=
  if fh.typ = 1 ∨ fh.typ = 9 then
    (if hasFlag fh.flags 4 then { fr with lastHeaderStream := 0 } else { fr with lastHeaderStream := fh.sid })
  else fr

theorem order_ok (fr : Framer) (fh : FH) (h : orderOK fr fh) : checkFrameOrder fr fh = .ok (orderNext fr fh) := by
  unfold orderOK at h
  unfold checkFrameOrder orderNext
  split at h
  · rename_i hne
    obtain ⟨h9, hs⟩ := h
    simp [hne, h9, hs]
  · rename_i hne
    have : fr.lastHeaderStream = 0 := by omega
    simp [this, h]

theorem accept_of (fr : Framer) (fh : FH) (p : Bytes) (f : Frame) (hp : parseFrame fh p = .ok f) (ho : orderOK fr fh) :
    acceptFrame fr fh p = (.ok f, orderNext fr fh) := by
  simp [acceptFrame, hp, order_ok fr fh ho]

theorem vsid (sid : Nat) (h : validStreamID sid = true) : sid ≠ 0 ∧ sid < 2147483648 := by
  simp [validStreamID] at h; exact h

theorem b2n_lt (b : Bool) (v : Nat) : b2n b v ≤ v := by unfold b2n; split <;> omega

theorem ite_some {α : Type} {c : Prop} [Decidable c] {a f : α}
    (h : (if c then some a else none) = some f) : c ∧ a = f := by
  split at h
  · exact ⟨‹_›, Option.some.inj h⟩
  · cases h

theorem prio_decode (dep : Nat) (excl : Bool) (h : dep < 2147483648) :
    (if excl = true then setHigh dep else dep) < 4294967296 ∧
    low31 (if excl = true then setHigh dep else dep) = dep ∧
    ((low31 (if excl = true then setHigh dep else dep)) != (if excl = true then setHigh dep else dep)) = excl ∧
    ((if excl = true then setHigh dep else dep) != (low31 (if excl = true then setHigh dep else dep))) = excl := by
  have hs : setHigh dep = dep + 2147483648 := by
    unfold setHigh
    have : dep / 2147483648 % 2 = 0 := by omega
    simp [this]
  cases excl with
  | false => simp [low31]; omega
  | true =>
    simp only [if_true, hs, low31]
    refine ⟨by omega, by omega, ?_, ?_⟩
    · have : (dep + 2147483648) % 2147483648 ≠ dep + 2147483648 := by omega
      simpa using this
    · have : dep + 2147483648 ≠ (dep + 2147483648) % 2147483648 := by omega
      simpa using this

theorem flags_headers (a b c d : Bool) :
    hasFlag (b2n a 8 + b2n b 1 + b2n c 4 + b2n d 32) 8 = a ∧
    hasFlag (b2n a 8 + b2n b 1 + b2n c 4 + b2n d 32) 32 = d ∧
    hasFlag (b2n a 8 + b2n b 1 + b2n c 4 + b2n d 32) 4 = c ∧
    b2n a 8 + b2n b 1 + b2n c 4 + b2n d 32 < 256 := by
  cases a <;> cases b <;> cases c <;> cases d <;> decide

theorem flags_pp (a c : Bool) :
    hasFlag (b2n a 8 + b2n c 4) 8 = a ∧ hasFlag (b2n a 8 + b2n c 4) 4 = c ∧ b2n a 8 + b2n c 4 < 256 := by
  cases a <;> cases c <;> decide

def encSettings (ss : List (Nat × Nat)) : Bytes := ss.flatMap fun s => put16 s.1 ++ put32 s.2

theorem encSettings_length (ss : List (Nat × Nat)) : (encSettings ss).length = 6 * ss.length := by
  induction ss with
  | nil => rfl
  | cons s t ih =>
    simp only [encSettings, List.flatMap_cons, List.length_append, List.length_cons] at ih ⊢
    simp [put16, put32] at ih ⊢
    omega

theorem settingsOf_enc (ss : List (Nat × Nat)) (h : ∀ s ∈ ss, s.1 < 65536 ∧ s.2 < 4294967296) :
    settingsOf (encSettings ss) = ss := by
  induction ss with
  | nil => rfl
  | cons s t ih =>
    have hs := h s (List.mem_cons_self ..)
    have ht := ih (fun x hx => h x (List.mem_cons_of_mem _ hx))
    have hstep : encSettings (s :: t) = s.1 / 256 % 256 :: s.1 % 256 :: s.2 / 16777216 % 256 :: s.2 / 65536 % 256 ::
        s.2 / 256 % 256 :: s.2 % 256 :: encSettings t := by
      simp [encSettings, put16, put32]
    rw [hstep]
    simp only [settingsOf]
    rw [ht, be32_put32 _ hs.2]
    have : s.1 / 256 % 256 * 256 + s.1 % 256 = s.1 := by omega
    rw [this]

/-! ### accepted ⇒ every rule of the specification table holds -/

theorem settingsValid_none (l : List (Nat × Nat)) (h : settingsValid l = none) : l.any rfcSettingBad = false := by
  induction l with
  | nil => rfl
  | cons s t ih =>
    simp only [settingsValid] at h
    cases hv : settingValid s with
    | some e => rw [hv] at h; cases h
    | none =>
      rw [hv] at h
      have ht := ih h
      simp only [List.any_cons, ht, Bool.or_false]
      unfold settingValid at hv
      unfold rfcSettingBad
      by_cases h2 : s.1 = 2
      · simp only [h2, beq_self_eq_true, if_true] at hv
        split at hv
        · cases hv
        · rename_i hc
          have : s.2 = 1 ∨ s.2 = 0 := by
            simp only [Bool.and_eq_true, bne_iff_ne, ne_eq, not_and, Decidable.not_not] at hc
            by_cases h1 : s.2 = 1
            · exact Or.inl h1
            · exact Or.inr (hc h1)
          have : ¬ s.2 > 1 := by omega
          simp [h2, this]
      · by_cases h4 : s.1 = 4
        · simp only [h4] at hv
          simp only [show ((4 : Nat) == 2) = false by decide, Bool.false_eq_true, if_false, beq_self_eq_true, if_true] at hv
          split at hv
          · cases hv
          · rename_i hc; simp [h4, hc]
        · by_cases h5 : s.1 = 5
          · simp only [h5] at hv
            simp only [show ((5 : Nat) == 2) = false by decide, show ((5 : Nat) == 4) = false by decide,
              Bool.false_eq_true, if_false, beq_self_eq_true, if_true] at hv
            split at hv
            · cases hv
            · rename_i hc
              simp only [Bool.or_eq_true, decide_eq_true_eq, not_or] at hc
              simp [h5, hc.1, hc.2]
          · simp [h2, h4, h5]

theorem spec_data (fh : FH) (p : Bytes) (f : Frame) (ht : fh.typ = 0) (h : parseData fh p = .ok f) :
    specCore fh p = .accept := by
  obtain ⟨typ, flags, length, sid⟩ := fh
  simp only at ht; subst ht
  unfold parseData at h
  simp only [specCore, fixedLen, padOf]
  split at h
  · cases h
  · rename_i hs
    simp only [hs, Bool.false_eq_true, if_false]
    simp only [] at h
    rcases Bool.eq_false_or_eq_true (hasFlag flags 8) with hf | hf
    · simp only [hf, if_true] at h
      cases p with
      | nil => simp [readByte] at h
      | cons b r =>
        simp only [readByte] at h
        split at h
        · cases h
        · rename_i hb
          simp [hf]; first | omega | (rw [if_neg (by omega), if_neg (by omega)]) | (simp [hb]; done) | (simp [hb]; omega)
    · simp [hf]

theorem spec_pushPromise (fh : FH) (p : Bytes) (f : Frame) (ht : fh.typ = 5) (h : parsePushPromise fh p = .ok f) :
    specCore fh p = .accept := by
  obtain ⟨typ, flags, length, sid⟩ := fh
  simp only at ht; subst ht
  unfold parsePushPromise at h
  simp only [specCore, fixedLen, padOf]
  split at h
  · cases h
  · rename_i hs
    simp only [hs, Bool.false_eq_true, if_false]
    simp only [] at h
    rcases Bool.eq_false_or_eq_true (hasFlag flags 8) with hf | hf
    rotate_left
    · simp only [hf, Bool.false_eq_true, if_false] at h
      match p, h with
      | a :: b :: c :: d :: r, h =>
        simp [hf]
      | [], h => simp [readUint32] at h
      | [_], h => simp [readUint32] at h
      | [_, _], h => simp [readUint32] at h
      | [_, _, _], h => simp [readUint32] at h
    · simp only [hf, if_true] at h
      match p, h with
      | [], h => simp [readByte] at h
      | [_], h => simp [readByte, readUint32] at h
      | [_, _], h => simp [readByte, readUint32] at h
      | [_, _, _], h => simp [readByte, readUint32] at h
      | [_, _, _, _], h => simp [readByte, readUint32] at h
      | pb :: a :: b :: c :: d :: r, h =>
        simp only [readByte, readUint32] at h
        split at h
        · cases h
        · rename_i hb
          simp [hf]; first | omega | (rw [if_neg (by omega), if_neg (by omega)]) | (simp [hb]; done) | (simp [hb]; omega)

theorem spec_headers (fh : FH) (p : Bytes) (f : Frame) (ht : fh.typ = 1) (h : parseHeaders fh p = .ok f) :
    specCore fh p = .accept := by
  obtain ⟨typ, flags, length, sid⟩ := fh
  simp only at ht; subst ht
  unfold parseHeaders at h
  simp only [specCore, fixedLen, padOf]
  split at h
  · cases h
  · rename_i hs
    simp only [hs, Bool.false_eq_true, if_false]
    simp only [] at h
    rcases Bool.eq_false_or_eq_true (hasFlag flags 8) with hf | hf <;>
      rcases Bool.eq_false_or_eq_true (hasFlag flags 32) with hg | hg <;>
      simp only [hf, hg, if_true, Bool.false_eq_true, if_false] at h
    rotate_left 3
    · -- no padding, no priority
      split at h
      · cases h
      · rename_i hb; simp [hf, hg] at hb ⊢; first | omega | (rw [if_neg (by omega), if_neg (by omega)]) | (simp [hb]; done) | (simp [hb]; omega)
    rotate_left 2
    · -- priority only
      match p, h with
      | [], h => simp [readUint32] at h
      | [_], h => simp [readUint32] at h
      | [_, _], h => simp [readUint32] at h
      | [_, _, _], h => simp [readUint32] at h
      | [_, _, _, _], h => simp [readUint32, readByte] at h
      | a :: b :: c :: d :: w :: r, h =>
        simp only [readUint32, readByte] at h
        split at h
        · cases h
        · rename_i hb; simp [hf, hg] at hb ⊢; first | omega | (rw [if_neg (by omega), if_neg (by omega)]) | (simp [hb]; done) | (simp [hb]; omega)
    rotate_left 1
    · -- padding only
      match p, h with
      | [], h => simp [readByte] at h
      | pb :: r, h =>
        simp only [readByte] at h
        split at h
        · cases h
        · rename_i hb; simp [hf, hg] at hb ⊢; first | omega | (rw [if_neg (by omega), if_neg (by omega)]) | (simp [hb]; done) | (simp [hb]; omega)
    · -- padding and priority
      match p, h with
      | [], h => simp [readByte] at h
      | [_], h => simp [readUint32, readByte] at h
      | [_, _], h => simp [readUint32, readByte] at h
      | [_, _, _], h => simp [readUint32, readByte] at h
      | [_, _, _, _], h => simp [readUint32, readByte] at h
      | [_, _, _, _, _], h => simp [readUint32, readByte] at h
      | pb :: a :: b :: c :: d :: w :: r, h =>
        simp only [readUint32, readByte] at h
        split at h
        · cases h
        · rename_i hb; simp [hf, hg] at hb ⊢; first | omega | (rw [if_neg (by omega), if_neg (by omega)]) | (simp [hb]; done) | (simp [hb]; omega)

end BfeVerif.C32
