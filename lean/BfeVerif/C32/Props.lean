import BfeVerif.C32.ClassProofs
import BfeVerif.C32.TotalProofs
import BfeVerif.C32.ChunkProofs
import BfeVerif.C32.MetaProofs
/-!
  C32 — HTTP/2 frames round-trip and malformed frames are rejected.  Property theorems only.

  Round trips are stated through the writer-call language `W` of the harness: `runW allow w` is the
  model of the Framer's `Write*` method, `expectRT w` the frame the ORACLE expects to read back (it
  is `some` exactly under the stated preconditions of that writer), so the theorems say: the frame
  the oracle demands is what `ReadFrame` returns on the written bytes, for every parameter value,
  with any unread tail `rest` following, and with the frame-order automaton advanced correctly.
-/
namespace BfeVerif.C32

/-- shape shared by all round-trip theorems -/
def RoundTrips (w : W) : Prop :=
  ∀ (allow : Bool) (f : Frame) (bs rest : Bytes) (fr : Framer),
    expectRT w = some f → runW allow w = .ok bs → orderOK fr f.fh → f.fh.length ≤ fr.maxReadSize →
    readFrame fr (bs ++ rest) = (.ok f, orderNext fr f.fh, rest)

theorem C32_roundtrip_data (sid : Nat) (es : Bool) (d : Bytes) (pad : Option Bytes) :
    RoundTrips (.data sid es d pad) := by
  intro allow f bs rest fr he hw ho hm
  cases pad with
  | none =>
    simp only [expectRT] at he
    obtain ⟨hv, rfl⟩ := ite_some he
    simp only [Bool.and_true] at hv
    obtain ⟨hs0, hs31⟩ := vsid sid hv
    simp only [runW, writeData, hv, Bool.not_true, Bool.false_and, Bool.false_eq_true, if_false] at hw
    simp only [Frame.fh] at ho hm
    rw [readFrame_endWrite fr 0 (b2n es 1) sid d bs rest hw (by omega) (by have := b2n_lt es 1; omega) hs31 hm]
    have hp : parseFrame ⟨0, b2n es 1, d.length, sid⟩ d = .ok (.data ⟨0, b2n es 1, d.length, sid⟩ d) := by
      have hnf : hasFlag (b2n es 1) 8 = false := by cases es <;> decide
      simp [parseFrame, parseData, hs0, hnf]
    rw [accept_of fr _ _ _ hp ho]
    rfl
  | some pd =>
    simp only [expectRT] at he
    obtain ⟨hv, rfl⟩ := ite_some he
    simp only [Bool.and_eq_true, decide_eq_true_eq] at hv
    obtain ⟨hsid, hpad⟩ := hv
    obtain ⟨hs0, hs31⟩ := vsid sid hsid
    have : ¬ pd.length > 255 := by omega
    simp only [runW, writeData, hsid, Bool.not_true, Bool.false_and, Bool.false_eq_true, if_false, this] at hw
    simp only [Frame.fh] at ho hm
    have hlen : 1 + d.length + pd.length = (pd.length :: (d ++ pd)).length := by simp; omega
    rw [hlen] at ho hm ⊢
    rw [readFrame_endWrite fr 0 (b2n es 1 + 8) sid _ bs rest hw (by omega) (by have := b2n_lt es 1; omega) hs31 hm]
    have hp : parseFrame ⟨0, b2n es 1 + 8, (pd.length :: (d ++ pd)).length, sid⟩ (pd.length :: (d ++ pd)) =
        .ok (.data ⟨0, b2n es 1 + 8, (pd.length :: (d ++ pd)).length, sid⟩ d) := by
      have hnf : hasFlag (b2n es 1 + 8) 8 = true := by cases es <;> decide
      simp [parseFrame, parseData, hs0, hnf, readByte]
    rw [accept_of fr _ _ _ hp ho]
    rfl

theorem C32_roundtrip_priority (sid : Nat) (pr : Prio) : RoundTrips (.priority sid pr) := by
  intro allow f bs rest fr he hw ho hm
  obtain ⟨dep, excl, w⟩ := pr
  simp only [expectRT] at he
  obtain ⟨hv, rfl⟩ := ite_some he
  simp only [Bool.and_eq_true, decide_eq_true_eq] at hv
  obtain ⟨⟨hsid, hdep⟩, hw8⟩ := hv
  obtain ⟨hs0, hs31⟩ := vsid sid hsid
  simp only [runW, writePriority, hsid, Bool.not_true, Bool.false_and, Bool.false_eq_true, if_false] at hw
  simp only [Frame.fh] at ho hm
  obtain ⟨hv32, hlow, hex, _⟩ := prio_decode dep excl hdep
  have hlen : 5 = (prioBytes ⟨dep, excl, w⟩).length := by simp [prioBytes, put32]
  rw [hlen] at ho hm ⊢
  rw [readFrame_endWrite fr 2 0 sid _ bs rest hw (by omega) (by omega) hs31 hm]
  have hp : parseFrame ⟨2, 0, (prioBytes ⟨dep, excl, w⟩).length, sid⟩ (prioBytes ⟨dep, excl, w⟩) =
      .ok (.priority ⟨2, 0, (prioBytes ⟨dep, excl, w⟩).length, sid⟩ ⟨dep, excl, w⟩) := by
    simp only [parseFrame, parsePriority, prioBytes, put32, List.cons_append, List.nil_append]
    rw [be32_put32 _ hv32, hex, hlow]
    simp [hs0]
  rw [accept_of fr _ _ _ hp ho]
  rfl

theorem C32_roundtrip_rst (sid code : Nat) : RoundTrips (.rst sid code) := by
  intro allow f bs rest fr he hw ho hm
  simp only [expectRT] at he
  obtain ⟨hv, rfl⟩ := ite_some he
  simp only [Bool.and_eq_true, decide_eq_true_eq] at hv
  obtain ⟨hsid, hc⟩ := hv
  obtain ⟨hs0, hs31⟩ := vsid sid hsid
  simp only [runW, writeRST, hsid, Bool.not_true, Bool.false_and, Bool.false_eq_true, if_false] at hw
  simp only [Frame.fh] at ho hm
  have hlen : 4 = (put32 code).length := by simp [put32]
  rw [hlen] at ho hm ⊢
  rw [readFrame_endWrite fr 3 0 sid _ bs rest hw (by omega) (by omega) hs31 hm]
  have hp : parseFrame ⟨3, 0, (put32 code).length, sid⟩ (put32 code) = .ok (.rst ⟨3, 0, (put32 code).length, sid⟩ code) := by
    simp only [parseFrame, parseRST, put32]
    rw [be32_put32 _ hc]
    simp [hs0]
  rw [accept_of fr _ _ _ hp ho]
  rfl

theorem C32_roundtrip_settings (ss : List (Nat × Nat)) : RoundTrips (.settings ss) := by
  intro allow f bs rest fr he hw ho hm
  simp only [expectRT] at he
  obtain ⟨hv, rfl⟩ := ite_some he
  simp only [Bool.and_eq_true, List.all_eq_true, decide_eq_true_eq] at hv
  obtain ⟨hall, hiws⟩ := hv
  simp only [runW, writeSettings] at hw
  simp only [Frame.fh] at ho hm
  change endWrite 4 0 0 (encSettings ss) = .ok bs at hw
  change readFrame fr (bs ++ rest) = (.ok (.settings ⟨4, 0, 6 * ss.length, 0⟩ (encSettings ss)), _, rest)
  rw [← encSettings_length ss] at ho hm ⊢
  rw [readFrame_endWrite fr 4 0 0 _ bs rest hw (by omega) (by omega) (by omega) hm]
  have hso : settingsOf (encSettings ss) = ss := settingsOf_enc ss (fun s hs => hall s hs)
  have hp : parseFrame ⟨4, 0, (encSettings ss).length, 0⟩ (encSettings ss) =
      .ok (.settings ⟨4, 0, (encSettings ss).length, 0⟩ (encSettings ss)) := by
    have h6 : (encSettings ss).length % 6 = 0 := by rw [encSettings_length]; omega
    have hnf : hasFlag 0 1 = false := by decide
    simp only [parseFrame, parseSettings, hnf, Bool.false_and, Bool.false_eq_true, if_false, h6, settingValue, hso]
    cases hfind : ss.find? (fun s => s.1 == 4) with
    | none => simp
    | some s =>
      rw [hfind] at hiws
      simp only [decide_eq_true_eq] at hiws
      have : ¬ s.2 > 2147483647 := by omega
      simp [this]
  rw [accept_of fr _ _ _ hp ho]
  rfl

theorem C32_roundtrip_settingsAck : RoundTrips .settingsAck := by
  intro allow f bs rest fr he hw ho hm
  simp only [expectRT] at he
  have := Option.some.inj he; subst this
  simp only [runW, writeSettingsAck] at hw
  simp only [Frame.fh] at ho hm
  have hlen : 0 = ([] : Bytes).length := rfl
  rw [hlen] at ho hm ⊢
  rw [readFrame_endWrite fr 4 1 0 _ bs rest hw (by omega) (by omega) (by omega) hm]
  have hp : parseFrame ⟨4, 1, ([] : Bytes).length, 0⟩ [] = .ok (.settings ⟨4, 1, ([] : Bytes).length, 0⟩ []) := by
    simp [parseFrame, parseSettings, settingValue, settingsOf]
  rw [accept_of fr _ _ _ hp ho]
  rfl

theorem C32_roundtrip_ping (ack : Bool) (d : Bytes) : RoundTrips (.ping ack d) := by
  intro allow f bs rest fr he hw ho hm
  simp only [expectRT] at he
  obtain ⟨hv, rfl⟩ := ite_some he
  simp only [beq_iff_eq] at hv
  simp only [runW, writePing] at hw
  simp only [Frame.fh] at ho hm
  rw [← hv] at ho hm ⊢
  rw [readFrame_endWrite fr 6 (b2n ack 1) 0 _ bs rest hw (by omega) (by have := b2n_lt ack 1; omega) (by omega) hm]
  have hp : parseFrame ⟨6, b2n ack 1, d.length, 0⟩ d = .ok (.ping ⟨6, b2n ack 1, d.length, 0⟩ d) := by
    simp [parseFrame, parsePing, hv]
  rw [accept_of fr _ _ _ hp ho]
  rfl

theorem C32_roundtrip_goAway (last code : Nat) (debug : Bytes) : RoundTrips (.goAway last code debug) := by
  intro allow f bs rest fr he hw ho hm
  simp only [expectRT] at he
  obtain ⟨hv, rfl⟩ := ite_some he
  simp only [runW, writeGoAway] at hw
  simp only [Frame.fh] at ho hm
  have hlen : 8 + debug.length = (put32 (low31 last) ++ put32 code ++ debug).length := by simp [put32]; omega
  rw [hlen] at ho hm ⊢
  rw [readFrame_endWrite fr 7 0 0 _ bs rest hw (by omega) (by omega) (by omega) hm]
  have hl : low31 last < 4294967296 := by unfold low31; omega
  have hll : low31 (low31 last) = low31 last := by unfold low31; omega
  have hp : parseFrame ⟨7, 0, (put32 (low31 last) ++ put32 code ++ debug).length, 0⟩ (put32 (low31 last) ++ put32 code ++ debug) =
      .ok (.goAway ⟨7, 0, (put32 (low31 last) ++ put32 code ++ debug).length, 0⟩ (low31 last) code debug) := by
    simp only [parseFrame, parseGoAway, put32, List.cons_append, List.nil_append]
    rw [be32_put32 _ hl, be32_put32 _ hv, hll]
    simp
  rw [accept_of fr _ _ _ hp ho]
  rfl

theorem C32_roundtrip_windowUpdate (sid incr : Nat) : RoundTrips (.windowUpdate sid incr) := by
  intro allow f bs rest fr he hw ho hm
  simp only [expectRT] at he
  obtain ⟨hv, rfl⟩ := ite_some he
  simp only [Bool.and_eq_true, decide_eq_true_eq] at hv
  obtain ⟨⟨hs31, h1⟩, h2⟩ := hv
  have hc : ((incr < 1 || incr > 2147483647) && !allow) = false := by
    have a : ¬ incr < 1 := by omega
    have b : ¬ incr > 2147483647 := by omega
    simp [a, b]
  simp only [runW, writeWindowUpdate, hc, Bool.false_eq_true, if_false] at hw
  simp only [Frame.fh] at ho hm
  have hlen : 4 = (put32 incr).length := by simp [put32]
  rw [hlen] at ho hm ⊢
  rw [readFrame_endWrite fr 8 0 sid _ bs rest hw (by omega) (by omega) hs31 hm]
  have hp : parseFrame ⟨8, 0, (put32 incr).length, sid⟩ (put32 incr) =
      .ok (.windowUpdate ⟨8, 0, (put32 incr).length, sid⟩ incr) := by
    simp only [parseFrame, parseWindowUpdate, put32]
    rw [be32_put32 _ (by omega), low31_id _ (by omega)]
    have : incr ≠ 0 := by omega
    simp [this]
  rw [accept_of fr _ _ _ hp ho]
  rfl

theorem C32_roundtrip_continuation (sid : Nat) (eh : Bool) (frag : Bytes) : RoundTrips (.continuation sid eh frag) := by
  intro allow f bs rest fr he hw ho hm
  simp only [expectRT] at he
  obtain ⟨hsid, rfl⟩ := ite_some he
  obtain ⟨hs0, hs31⟩ := vsid sid hsid
  simp only [runW, writeContinuation, hsid, Bool.not_true, Bool.false_and, Bool.false_eq_true, if_false] at hw
  simp only [Frame.fh] at ho hm
  rw [readFrame_endWrite fr 9 (b2n eh 4) sid _ bs rest hw (by omega) (by have := b2n_lt eh 4; omega) hs31 hm]
  have hp : parseFrame ⟨9, b2n eh 4, frag.length, sid⟩ frag = .ok (.continuation ⟨9, b2n eh 4, frag.length, sid⟩ frag) := by
    simp [parseFrame, parseContinuation, hs0]
  rw [accept_of fr _ _ _ hp ho]
  rfl

theorem C32_roundtrip_raw (t fl sid : Nat) (p : Bytes) : RoundTrips (.raw t fl sid p) := by
  intro allow f bs rest fr he hw ho hm
  simp only [expectRT] at he
  obtain ⟨hv, rfl⟩ := ite_some he
  simp only [Bool.and_eq_true, decide_eq_true_eq] at hv
  obtain ⟨⟨⟨ht9, ht⟩, hf⟩, hs31⟩ := hv
  simp only [runW, writeRaw] at hw
  simp only [Frame.fh] at ho hm
  rw [readFrame_endWrite fr t fl sid _ bs rest hw ht hf hs31 hm]
  have hp : parseFrame ⟨t, fl, p.length, sid⟩ p = .ok (.unknown ⟨t, fl, p.length, sid⟩ p) := by
    obtain ⟨k, rfl⟩ : ∃ k, t = k + 10 := ⟨t - 10, by omega⟩
    simp [parseFrame]
  rw [accept_of fr _ _ _ hp ho]
  rfl

theorem C32_roundtrip_headers (sid : Nat) (es eh : Bool) (pl : Nat) (pr : Prio) (frag : Bytes) :
    RoundTrips (.headers sid es eh pl pr frag) := by
  intro allow f bs rest fr he hw ho hm
  obtain ⟨dep, excl, w⟩ := pr
  simp only [expectRT] at he
  obtain ⟨hv, rfl⟩ := ite_some he
  simp only [Bool.and_eq_true, decide_eq_true_eq, Bool.or_eq_true, Bool.not_eq_true'] at hv
  obtain ⟨⟨⟨⟨hsid, hdep⟩, hfrag⟩, hpl⟩, hw8⟩ := hv
  obtain ⟨hs0, hs31⟩ := vsid sid hsid
  obtain ⟨hf8, hf32, hf4, hflt⟩ := flags_headers (pl != 0) es eh ((⟨dep, excl, w⟩ : Prio) != Prio.zero)
  have hfne : frag.length ≠ 0 := by
    intro h0; have := List.eq_nil_of_length_eq_zero h0; subst this; simp at hfrag
  have hc2 : (((⟨dep, excl, w⟩ : Prio) != Prio.zero) && !validStreamID dep && !allow) = false := by
    rcases hdep with h | h
    · simp [h]
    · simp [h]
  simp only [runW, writeHeaders, hsid, Bool.not_true, Bool.false_and, Bool.false_eq_true, if_false, hc2] at hw
  simp only [Frame.fh] at ho hm
  generalize hpay : ((if (pl != 0) = true then [pl] else []) ++
      (if ((⟨dep, excl, w⟩ : Prio) != Prio.zero) = true then prioBytes ⟨dep, excl, w⟩ else []) ++ frag ++
      List.replicate pl 0) = payload at hw
  have hlen : (if (pl != 0) = true then 1 else 0) + (if ((⟨dep, excl, w⟩ : Prio) != Prio.zero) = true then 5 else 0) +
      frag.length + pl = payload.length := by
    rw [← hpay]
    simp only [List.length_append, List.length_replicate]
    have h1 : (if (pl != 0) = true then [pl] else ([] : Bytes)).length = (if (pl != 0) = true then 1 else 0) := by
      split <;> rfl
    have h2 : (if ((⟨dep, excl, w⟩ : Prio) != Prio.zero) = true then prioBytes ⟨dep, excl, w⟩ else ([] : Bytes)).length =
        (if ((⟨dep, excl, w⟩ : Prio) != Prio.zero) = true then 5 else 0) := by
      split
      · simp [prioBytes, put32]
      · rfl
    rw [h1, h2]
  rw [hlen] at ho hm ⊢
  rw [readFrame_endWrite fr 1 _ sid payload bs rest hw (by omega) hflt hs31 hm]
  have hp : parseFrame ⟨1, b2n (pl != 0) 8 + b2n es 1 + b2n eh 4 + b2n ((⟨dep, excl, w⟩ : Prio) != Prio.zero) 32,
        payload.length, sid⟩ payload =
      .ok (.headers ⟨1, b2n (pl != 0) 8 + b2n es 1 + b2n eh 4 + b2n ((⟨dep, excl, w⟩ : Prio) != Prio.zero) 32,
        payload.length, sid⟩ ⟨dep, excl, w⟩ frag) := by
    have htail : ¬ ((frag ++ List.replicate pl 0).length ≤ pl) := by simp; omega
    have htake : (frag ++ List.replicate pl 0).take ((frag ++ List.replicate pl 0).length - pl) = frag := by
      simp
    simp only [parseFrame, parseHeaders, hf8, hf32]
    rw [← hpay]
    cases hA : (pl != 0) with
    | false =>
      have hpl0 : pl = 0 := by simpa using hA
      subst hpl0
      cases hD : ((⟨dep, excl, w⟩ : Prio) != Prio.zero) with
      | false =>
        have hz : (⟨dep, excl, w⟩ : Prio) = Prio.zero := by simpa using hD
        simp [hs0, hfne, hz]
      | true =>
        have hdv : validStreamID dep = true := by
          rcases hdep with h | h
          · rw [hD] at h; cases h
          · exact h
        obtain ⟨_, hd31⟩ := vsid dep hdv
        obtain ⟨hv32, hlow, _, hex⟩ := prio_decode dep excl hd31
        simp only [prioBytes, put32, List.cons_append, List.nil_append, if_true, Bool.false_eq_true, if_false, readUint32,
          readByte]
        rw [be32_put32 _ hv32, hex, hlow]
        simp [hs0, hfne]
    | true =>
      have hpl0 : pl ≠ 0 := by simpa using hA
      cases hD : ((⟨dep, excl, w⟩ : Prio) != Prio.zero) with
      | false =>
        have hz : (⟨dep, excl, w⟩ : Prio) = Prio.zero := by simpa using hD
        simp only [if_true, Bool.false_eq_true, if_false, List.cons_append, List.nil_append, List.append_nil, readByte]
        simp only [htail, htake, if_false, hz]
        simp [hs0]
      | true =>
        have hdv : validStreamID dep = true := by
          rcases hdep with h | h
          · rw [hD] at h; cases h
          · exact h
        obtain ⟨_, hd31⟩ := vsid dep hdv
        obtain ⟨hv32, hlow, _, hex⟩ := prio_decode dep excl hd31
        simp only [prioBytes, put32, List.cons_append, List.nil_append, if_true, readUint32, readByte]
        rw [be32_put32 _ hv32, hex, hlow]
        simp only [htail, htake, if_false]
        simp [hs0]
  rw [accept_of fr _ _ _ hp ho]
  rfl

theorem C32_roundtrip_pushPromise (sid promise : Nat) (eh : Bool) (pl : Nat) (frag : Bytes) :
    RoundTrips (.pushPromise sid promise eh pl frag) := by
  intro allow f bs rest fr he hw ho hm
  simp only [expectRT] at he
  obtain ⟨hv, rfl⟩ := ite_some he
  simp only [Bool.and_eq_true, decide_eq_true_eq] at hv
  obtain ⟨⟨hsid, hpr⟩, hpl⟩ := hv
  obtain ⟨hs0, hs31⟩ := vsid sid hsid
  obtain ⟨_, hp31⟩ := vsid promise hpr
  obtain ⟨hf8, hf4, hflt⟩ := flags_pp (pl != 0) eh
  simp only [runW, writePushPromise, hsid, hpr, Bool.not_true, Bool.false_and, Bool.false_eq_true, if_false] at hw
  simp only [Frame.fh] at ho hm
  generalize hpay : ((if (pl != 0) = true then [pl] else []) ++ put32 promise ++ frag ++ List.replicate pl 0) = payload at hw
  have hlen : (if (pl != 0) = true then 1 else 0) + 4 + frag.length + pl = payload.length := by
    rw [← hpay]
    simp only [List.length_append, List.length_replicate]
    have h1 : (if (pl != 0) = true then [pl] else ([] : Bytes)).length = (if (pl != 0) = true then 1 else 0) := by
      split <;> rfl
    rw [h1]; simp [put32]
  rw [hlen] at ho hm ⊢
  rw [readFrame_endWrite fr 5 _ sid payload bs rest hw (by omega) hflt hs31 hm]
  have hp : parseFrame ⟨5, b2n (pl != 0) 8 + b2n eh 4, payload.length, sid⟩ payload =
      .ok (.pushPromise ⟨5, b2n (pl != 0) 8 + b2n eh 4, payload.length, sid⟩ promise frag) := by
    have htail : ¬ (pl > (frag ++ List.replicate pl 0).length) := by simp
    have htake : (frag ++ List.replicate pl 0).take ((frag ++ List.replicate pl 0).length - pl) = frag := by
      simp
    simp only [parseFrame, parsePushPromise, hf8]
    rw [← hpay]
    cases hA : (pl != 0) with
    | false =>
      have hpl0 : pl = 0 := by simpa using hA
      subst hpl0
      simp only [put32, List.cons_append, List.nil_append, Bool.false_eq_true, if_false, readUint32]
      rw [be32_put32 _ (by omega), low31_id _ hp31]
      simp [hs0]
    | true =>
      simp only [put32, List.cons_append, List.nil_append, if_true, readUint32, readByte]
      rw [be32_put32 _ (by omega), low31_id _ hp31]
      simp only [htail, htake, if_false]
      simp [hs0]
  rw [accept_of fr _ _ _ hp ho]
  rfl

/-- **C32 (round trip, all writers)**: whatever any `Write*` method of the framer writes under its
    preconditions is read back as the same type / flags / stream / payload fields. -/
theorem C32_roundtrip (w : W) : RoundTrips w := by
  cases w with
  | data sid es d pad => exact C32_roundtrip_data sid es d pad
  | headers sid es eh pl pr frag => exact C32_roundtrip_headers sid es eh pl pr frag
  | priority sid pr => exact C32_roundtrip_priority sid pr
  | rst sid c => exact C32_roundtrip_rst sid c
  | settings ss => exact C32_roundtrip_settings ss
  | settingsAck => exact C32_roundtrip_settingsAck
  | pushPromise sid pr eh pl frag => exact C32_roundtrip_pushPromise sid pr eh pl frag
  | ping ack d => exact C32_roundtrip_ping ack d
  | goAway l c d => exact C32_roundtrip_goAway l c d
  | windowUpdate sid inc => exact C32_roundtrip_windowUpdate sid inc
  | continuation sid eh frag => exact C32_roundtrip_continuation sid eh frag
  | raw t f sid p => exact C32_roundtrip_raw t f sid p

/-- **C32 (rules)**: a frame that `ReadFrame` returns (and, for SETTINGS, whose values pass the
    receiver's `Setting.Valid` loop) satisfies EVERY rule of the RFC 7540 table `specFrame`:
    stream-0 restrictions per type, fixed fields fit and padding ≤ remaining payload (these are exactly
    the guards of the Go slice expressions), SETTINGS ack ⇒ empty / length mod 6 / value ranges of every
    entry, PING 8, WINDOW_UPDATE 4 and non-zero increment, RST_STREAM 4, PRIORITY 5, GOAWAY ≥ 8, and
    CONTINUATION sequencing.  Contrapositive: every malformed frame is rejected. -/
theorem C32_rules (fr fr' : Framer) (fh : FH) (p : Bytes) (f : Frame) (hlen : p.length = fh.length)
    (h : acceptFrame fr fh p = (.ok f, fr')) (hpost : postCheck f = none) :
    specFrame fr.lastHeaderStream fh p = .accept := by
  unfold acceptFrame at h
  cases hp : parseFrame fh p with
  | error e => rw [hp] at h; simp at h
  | ok f0 =>
    rw [hp] at h
    simp only at h
    cases ho : checkFrameOrder fr fh with
    | error e => rw [ho] at h; simp at h
    | ok fr0 =>
      rw [ho] at h
      simp only [Prod.mk.injEq, Except.ok.injEq] at h
      obtain ⟨hf, _⟩ := h
      subst hf
      have hseq : seqBad fr.lastHeaderStream fh = false := by
        unfold checkFrameOrder at ho
        unfold seqBad
        by_cases h0 : fr.lastHeaderStream = 0
        · simp only [h0, bne_self_eq_false, Bool.false_eq_true, if_false] at ho
          split at ho
          · cases ho
          · rename_i h9; simp [h0, h9]
        · have hne : (fr.lastHeaderStream != 0) = true := by simpa using h0
          simp only [hne, if_true] at ho
          split at ho
          · cases ho
          · split at ho
            · cases ho
            · rename_i h9 hs
              simp only [bne_iff_ne, ne_eq, Decidable.not_not] at h9 hs
              simp [h0, h9, hs]
      unfold specFrame
      simp only [hseq, Bool.false_eq_true, if_false]
      -- per type
      unfold parseFrame at hp
      split at hp
      · exact spec_data fh p f0 (by assumption) hp
      · exact spec_headers fh p f0 (by assumption) hp
      · -- PRIORITY
        rename_i ht
        unfold parsePriority at hp
        simp only [specCore, ht]
        split at hp
        · cases hp
        · rename_i hs
          split at hp
          · simp [hs]
          · cases hp
      · -- RST_STREAM
        rename_i ht
        unfold parseRST at hp
        simp only [specCore, ht]
        split at hp
        · split at hp
          · cases hp
          · rename_i hs; simp [hs]
        · cases hp
      · -- SETTINGS
        rename_i ht
        unfold parseSettings at hp
        simp only [specCore, ht]
        split at hp
        · cases hp
        · rename_i hack
          split at hp
          · cases hp
          · rename_i hsid
            split at hp
            · cases hp
            · rename_i h6
              have hfp : f0 = .settings fh p := by
                split at hp
                · split at hp
                  · cases hp
                  · exact (Except.ok.inj hp).symm
                · exact (Except.ok.inj hp).symm
              subst hfp
              simp only [postCheck] at hpost
              simp only [bne_iff_ne, ne_eq, Decidable.not_not] at hsid h6
              have hany : (settingsOf p).any rfcSettingBad = false := by
                split at hpost
                · rename_i hak
                  have : ¬ fh.length > 0 := by
                    intro hc; apply hack; simp [hak, hc]
                  have hp0 : p = [] := List.eq_nil_of_length_eq_zero (by omega)
                  subst hp0; rfl
                · exact settingsValid_none _ hpost
              have hackn : (hasFlag fh.flags 1 && p.length != 0) = false := by
                cases hk : hasFlag fh.flags 1 with
                | false => rfl
                | true =>
                  have : ¬ fh.length > 0 := by
                    intro hc; apply hack; simp [hk, hc]
                  have : p.length = 0 := by omega
                  simp [this]
              simp [hackn, hsid, h6, hany]
      · exact spec_pushPromise fh p f0 (by assumption) hp
      · -- PING
        rename_i ht
        unfold parsePing at hp
        simp only [specCore, ht]
        split at hp
        · cases hp
        · rename_i h8
          split at hp
          · cases hp
          · rename_i hs
            simp only [bne_iff_ne, ne_eq, Decidable.not_not] at h8 hs
            simp [h8, hs]
      · -- GOAWAY
        rename_i ht
        unfold parseGoAway at hp
        simp only [specCore, ht]
        split at hp
        · cases hp
        · rename_i hs
          simp only [bne_iff_ne, ne_eq, Decidable.not_not] at hs
          split at hp
          · simp [hs]
          · cases hp
      · -- WINDOW_UPDATE
        rename_i ht
        unfold parseWindowUpdate at hp
        simp only [specCore, ht]
        split at hp
        · simp only at hp
          split at hp
          · split at hp <;> cases hp
          · rename_i hinc
            simp [hinc]
        · cases hp
      · -- CONTINUATION
        rename_i ht
        unfold parseContinuation at hp
        simp only [specCore, ht]
        split at hp
        · cases hp
        · rename_i hs; simp [hs]
      · -- unknown types are always accepted
        rename_i h0 h1 h2 h3 h4 h5 h6 h7 h8 h9
        simp only [specCore]

/-- **C32 (CONTINUATION sequencing automaton)**: a frame is returned only in order, and
    `lastHeaderStream` then is exactly "stream of the still-open header block". -/
theorem C32_sequencing (fr fr' : Framer) (fh : FH) (p : Bytes) (f : Frame)
    (h : acceptFrame fr fh p = (.ok f, fr')) :
    (fr.lastHeaderStream ≠ 0 → fh.typ = 9 ∧ fh.sid = fr.lastHeaderStream) ∧
    (fr.lastHeaderStream = 0 → fh.typ ≠ 9) ∧
    fr' = orderNext fr fh := by
  unfold acceptFrame at h
  cases hp : parseFrame fh p with
  | error e => rw [hp] at h; simp at h
  | ok f0 =>
    rw [hp] at h
    simp only at h
    cases ho : checkFrameOrder fr fh with
    | error e => rw [ho] at h; simp at h
    | ok fr0 =>
      rw [ho] at h
      simp only [Prod.mk.injEq, Except.ok.injEq] at h
      obtain ⟨_, hfr⟩ := h
      subst hfr
      have hok : orderOK fr fh := by
        unfold checkFrameOrder at ho
        unfold orderOK
        by_cases h0 : fr.lastHeaderStream = 0
        · simp only [h0, bne_self_eq_false, Bool.false_eq_true, if_false] at ho
          split at ho
          · cases ho
          · rename_i h9; simp only [beq_iff_eq] at h9; simp [h0, h9]
        · have hne : (fr.lastHeaderStream != 0) = true := by simpa using h0
          simp only [hne, if_true] at ho
          split at ho
          · cases ho
          · split at ho
            · cases ho
            · rename_i h9 hs
              simp only [bne_iff_ne, ne_eq, Decidable.not_not] at h9 hs
              simp [h0, h9, hs]
      have hnext := order_ok fr fh hok
      rw [hnext] at ho
      refine ⟨?_, ?_, (Except.ok.inj ho).symm⟩
      · intro hne; unfold orderOK at hok; simpa [hne] using hok
      · intro h0; unfold orderOK at hok; simpa [h0] using hok

/-- **C32 (maximum frame size)**: `ReadFrame` never hands out a frame longer than the configured
    maximum, and `SetMaxReadFrameSize` clamps that to 2^24-1. -/
theorem C32_maxsize (fr fr' : Framer) (inp rest : Bytes) (f : Frame)
    (h : readFrame fr inp = (.ok f, fr', rest)) :
    ∃ fh rest0, parseHeader inp = some (fh, rest0) ∧ fh.length ≤ fr.maxReadSize ∧ fh.length ≤ rest0.length := by
  unfold readFrame at h
  cases hh : parseHeader inp with
  | none => rw [hh] at h; simp at h
  | some x =>
    obtain ⟨fh, rest0⟩ := x
    rw [hh] at h
    simp only at h
    split at h
    · simp at h
    · split at h
      · simp at h
      · exact ⟨fh, rest0, rfl, by omega, by omega⟩

theorem C32_maxsize_clamp (v : Nat) : (newFramer v).maxReadSize ≤ 16777215 := by
  unfold newFramer maxFrameSize; simp only; split <;> omega

/-- Full-strength sequencing statement (RFC 7540 §6.2/§6.10: ANY frame other than the expected
    CONTINUATION inside a header block is a connection error): -/
def SeqStrict : Prop :=
  ∀ (fr : Framer) (fh : FH) (p : Bytes), p.length = fh.length → seqBad fr.lastHeaderStream fh = true →
    classOf (acceptFrame fr fh p).1 = .connErr ∨ classOf (acceptFrame fr fh p).1 = .ioErr

/-- it does NOT hold for the code as it is: the type parser runs before `checkFrameOrder`, so a
    frame the parser answers with a StreamError (WINDOW_UPDATE with increment 0 on a stream, HEADERS
    with an empty fragment) inside another stream's header block is only a (non-terminal) stream
    error; the caller reads on and the block's CONTINUATION is then accepted. -/
theorem C32_witness_seq_stream_error : ¬ SeqStrict := by
  intro h
  have := h ⟨1, 16384⟩ ⟨8, 0, 4, 3⟩ [0, 0, 0, 0] rfl (by decide)
  revert this
  decide

/-- what does hold: inside a header block nothing but the expected CONTINUATION is ever ACCEPTED,
    and unless the type parser itself answered with a StreamError the rejection is terminal
    (the caller stops reading: connection error or i/o error). -/
theorem C32_sequencing_partial (fr : Framer) (fh : FH) (p : Bytes)
    (hbad : seqBad fr.lastHeaderStream fh = true) :
    ∃ e, (acceptFrame fr fh p).1 = .error e ∧
      ((∀ s c, parseFrame fh p ≠ .error (.stream s c)) → terminal e = true) := by
  have hord : checkFrameOrder fr fh = .error (.conn cProtocol) := by
    unfold seqBad at hbad
    unfold checkFrameOrder
    by_cases h0 : fr.lastHeaderStream = 0
    · simp only [h0, bne_self_eq_false, Bool.false_and, Bool.false_or, beq_self_eq_true, Bool.true_and] at hbad
      simp [h0, hbad]
    · have hne : (fr.lastHeaderStream != 0) = true := by simpa using h0
      have hz : (fr.lastHeaderStream == 0) = false := by simpa using h0
      simp only [hne, hz, Bool.true_and, Bool.false_and, Bool.or_false, Bool.or_eq_true, bne_iff_ne, ne_eq] at hbad
      simp only [hne, if_true]
      rcases hbad with h9 | hs
      · simp [h9]
      · by_cases h9 : fh.typ = 9
        · simp [h9, hs]
        · simp [h9]
  unfold acceptFrame
  cases hp : parseFrame fh p with
  | error e =>
    refine ⟨e, rfl, fun hns => ?_⟩
    cases e with
    | stream s c => exact absurd rfl (hns s c)
    | conn c => rfl
    | eof => rfl
    | ueof => rfl
    | tooLarge => rfl
  | ok f0 =>
    simp only [hord]
    exact ⟨_, rfl, fun _ => rfl⟩

/-- **C32 (model = specification, per frame)**: for EVERY header, payload and framer state, the
    class of what `ReadFrame` does with the frame (accept / connection error / stream error / io error;
    SETTINGS judged after the receiver's `Setting.Valid` loop) is exactly what the RFC table `specFrame`
    demands — except in the one situation of the known finding (a frame the table classifies as a
    stream error arriving inside another header block). -/
theorem C32_class_eq_spec_partial (fr : Framer) (fh : FH) (p : Bytes) (hlen : p.length = fh.length)
    (hk : ¬ (seqBad fr.lastHeaderStream fh = true ∧ specCore fh p = .streamErr)) :
    classOf (acceptFrame fr fh p).1 = specFrame fr.lastHeaderStream fh p := by
  have hcls := cls_parseFrame fh p hlen
  unfold specFrame
  by_cases hbad : seqBad fr.lastHeaderStream fh = true
  · -- out of order: checkFrameOrder answers with a connection error unless the parser already failed
    obtain ⟨e, he, _⟩ := C32_sequencing_partial fr fh p hbad
    simp only [hbad, if_true]
    unfold acceptFrame at he ⊢
    cases hp : parseFrame fh p with
    | error e' =>
      rw [hp] at hcls
      simp only []
      rw [← hcls]
      cases e' with
      | conn c => rfl
      | stream s c => exact absurd ⟨hbad, by rw [← hcls]; rfl⟩ hk
      | eof => rfl
      | ueof => rfl
      | tooLarge => exact absurd hcls.symm (specCore_ne_tooLarge fh p)
    | ok f0 =>
      rw [hp] at he hcls
      simp only [] at he ⊢
      cases ho : checkFrameOrder fr fh with
      | ok fr0 => rw [ho] at he; simp at he
      | error e0 =>
        rw [ho] at he
        simp only [] at he ⊢
        have he0 : e0 = .conn cProtocol := by
          unfold checkFrameOrder at ho
          repeat' split at ho
          all_goals first | (exact (Except.error.inj ho).symm) | cases ho
        subst he0
        rw [← hcls]
        simp only [classOf]
        split <;> simp
  · have hb : seqBad fr.lastHeaderStream fh = false := by simpa using hbad
    simp only [hb, Bool.false_eq_true, if_false]
    have hord : checkFrameOrder fr fh = .ok (orderNext fr fh) := by
      apply order_ok
      unfold seqBad at hb
      unfold orderOK
      by_cases h0 : fr.lastHeaderStream = 0
      · simp only [h0, bne_self_eq_false, Bool.false_and, Bool.false_or, beq_self_eq_true, Bool.true_and,
          beq_eq_false_iff_ne, ne_eq] at hb
        simp [h0, hb]
      · have hne : (fr.lastHeaderStream != 0) = true := by simpa using h0
        have hz : (fr.lastHeaderStream == 0) = false := by simpa using h0
        simp only [hne, hz, Bool.true_and, Bool.false_and, Bool.or_false, Bool.or_eq_false_iff, bne_eq_false_iff_eq] at hb
        simp [h0, hb.1, hb.2]
    unfold acceptFrame
    cases hp : parseFrame fh p with
    | error e' => rw [hp] at hcls; exact hcls
    | ok f0 => rw [hp] at hcls; simp only [hord]; exact hcls

/-- **C32 (completeness — the converse of `C32_rules`)**: every frame the RFC table accepts is returned
    by `ReadFrame` (and passes the SETTINGS value loop).  Together with `C32_rules`: the framer rejects
    EXACTLY the malformed frames. -/
theorem C32_complete (fr : Framer) (fh : FH) (p : Bytes) (hlen : p.length = fh.length)
    (hs : specFrame fr.lastHeaderStream fh p = .accept) :
    ∃ f, acceptFrame fr fh p = (.ok f, orderNext fr fh) ∧ postCheck f = none := by
  have hk : ¬ (seqBad fr.lastHeaderStream fh = true ∧ specCore fh p = .streamErr) := by
    rintro ⟨hb, hc⟩
    unfold specFrame at hs
    simp [hb, hc] at hs
  have hcls := C32_class_eq_spec_partial fr fh p hlen hk
  rw [hs] at hcls
  cases hr : acceptFrame fr fh p with
  | mk r fr' =>
    rw [hr] at hcls
    simp only [] at hcls
    cases r with
    | error e => cases e <;> simp [classOf] at hcls
    | ok f =>
      have hseq := C32_sequencing fr fr' fh p f hr
      refine ⟨f, by rw [hseq.2.2], ?_⟩
      simp only [classOf] at hcls
      split at hcls
      · cases hcls
      · rename_i hn; simpa using hn

/-- exact accept/reject characterisation -/
theorem C32_accept_iff (fr : Framer) (fh : FH) (p : Bytes) (hlen : p.length = fh.length) :
    (∃ f fr', acceptFrame fr fh p = (.ok f, fr') ∧ postCheck f = none) ↔
      specFrame fr.lastHeaderStream fh p = .accept := by
  constructor
  · rintro ⟨f, fr', h, hp⟩; exact C32_rules fr fr' fh p f hlen h hp
  · intro h; obtain ⟨f, hf, hp⟩ := C32_complete fr fh p hlen h; exact ⟨f, _, hf, hp⟩

/-- **C32 (totality, guards explicit)**: `Checked.readFrame` is `Framer.ReadFrame` with every Go slice
    and index expression of the read path (`buf[i]`, `p[:n]`, `p[a:b]`, `p[n:]`, `p[:len(p)-pad]` with a
    possibly negative bound, `binary.BigEndian.Uint32/16`) as a PARTIAL operation whose failure `none` is
    the runtime panic.  For every framer state and every byte string it does not panic, and it computes
    exactly what the unchecked model computes: every slice access is guarded by a preceding check. -/
theorem C32_total (fr : Framer) (inp : Bytes) : Checked.readFrame fr inp = some (readFrame fr inp) :=
  readFrame_ok fr inp

theorem C32_never_panics (fr : Framer) (inp : Bytes) : Checked.readFrame fr inp ≠ none := by
  rw [C32_total]; exact fun h => by cases h

/-- the same for each type parser alone, for ANY header/payload pair (also when `len(payload)` differs
    from `fh.Length`, which `ReadFrame` never produces) -/
theorem C32_total_parsers (fh : FH) (p : Bytes) : Checked.parseFrame fh p = some (parseFrame fh p) :=
  parseFrame_ok fh p

/-- and for the receiver's `ForeachSetting(Setting.Valid)` loop (`buf[:2] buf[2:6] buf[6:]`) on every
    frame `ReadFrame` can return -/
theorem C32_total_settings_loop (fr fr' : Framer) (inp rest : Bytes) (f : Frame)
    (h : readFrame fr inp = (.ok f, fr', rest)) : Checked.postCheck f = some (postCheck f) := by
  apply postCheck_ok
  intro fh' p' hf
  subst hf
  unfold readFrame at h
  cases hh : parseHeader inp with
  | none => rw [hh] at h; simp at h
  | some x =>
    obtain ⟨fh, rest0⟩ := x
    rw [hh] at h
    simp only at h
    split at h
    · simp at h
    · split at h
      · simp at h
      · simp only [Prod.mk.injEq] at h
        have h1 := h.1
        unfold acceptFrame at h1
        cases hp : parseFrame fh (rest0.take fh.length) with
        | error e => rw [hp] at h1; simp at h1
        | ok f0 =>
          rw [hp] at h1
          simp only at h1
          cases ho : checkFrameOrder fr fh with
          | error e => rw [ho] at h1; simp at h1
          | ok fr0 =>
            rw [ho] at h1
            simp only [Except.ok.injEq] at h1
            subst h1
            exact parseFrame_settings_len fh fh' _ p' hp

/-- a witness that the checked operations do fail when a guard is missing: the slicing of the
    `Value` loop on a 5-byte payload (what the dropped `len % 6` check would reach) panics. -/
example : Checked.valueLoop 6 [0, 4, 0, 0, 0] 4 = none := by decide

/-- **C32 (segmentation)**: the framer's read loop on ANY chunking of the input — cuts inside the 9-byte
    header, inside the payload, byte by byte, with empty reads, last data delivered together with io.EOF —
    returns exactly what it returns on the concatenation (io.ReadFull modelled as the ReadAtLeast loop). -/
theorem C32_chunking (fuel : Nat) (fr : Framer) (r : Rd) : readAllR fuel fr r = readAll fuel fr r.rest :=
  readAllR_eq fuel fr r

theorem C32_chunking_frame (fr : Framer) (r : Rd) :
    readFrame fr r.rest = ((readFrameR fr r).1, (readFrameR fr r).2.1, (readFrameR fr r).2.2.rest) :=
  readFrameR_eq fr r

/-- `io.ReadFull` on a scripted reader: the first `want` bytes of the concatenation, or EOF (nothing
    read) / ErrUnexpectedEOF (partial), whatever the chunking. -/
theorem C32_readFull (r : Rd) (want : Nat) :
    (r.rest.length ≥ want →
      (readFull (r.chunks.length + 2) r want []).1 = .ok (r.rest.take want) ∧
      (readFull (r.chunks.length + 2) r want []).2.rest = r.rest.drop want) ∧
    (r.rest.length < want →
      (readFull (r.chunks.length + 2) r want []).1 = .error (if r.rest.isEmpty then .eof else .ueof)) := by
  have h := readFull_spec (r.chunks.length + 2) r want [] (Nat.le_refl _) (by simp)
  simp only [List.length_nil, Nat.zero_add, Nat.sub_zero, List.nil_append, List.isEmpty_nil, Bool.true_and] at h
  exact ⟨fun hw => ⟨(h.1 hw).1, (h.1 hw).2.1⟩, fun hw => (h.2 hw).1⟩

/-- **C32 (write side, over-long payloads)**: every `Write*` method returns `ErrFrameTooLarge` exactly
    when its own checks pass and the payload it assembled has 2^24 bytes or more, and otherwise writes
    9 + payload bytes (`wPayloadLen` = the length formula per frame type). -/
theorem C32_write_size (allow : Bool) (w : W) :
    (∀ bs, runW allow w = .ok bs → bs.length = 9 + wPayloadLen w ∧ wPayloadLen w < 16777216) ∧
    (runW allow w = .error .tooLarge → wPayloadLen w ≥ 16777216) := by
  have key : ∀ (t f s : Nat) (p : Bytes),
      (∀ bs, endWrite t f s p = .ok bs → bs.length = 9 + p.length ∧ p.length < 16777216) ∧
      (endWrite t f s p = .error .tooLarge → p.length ≥ 16777216) := by
    intro t f s p
    unfold endWrite
    split
    · exact ⟨fun bs h => (by cases h), fun _ => (by omega)⟩
    · refine ⟨fun bs h => ?_, fun h => (by cases h)⟩
      injection h with h; subst h
      simp [put32]; omega
  have hz : ∀ n : Nat, (List.replicate n (0 : Nat)).length = n := fun n => List.length_replicate
  cases w with
  | data sid es d pad =>
    cases pad with
    | none =>
      simp only [runW, writeData, wPayloadLen]
      split
      · exact ⟨fun bs h => (by cases h), fun h => (by cases h)⟩
      · exact key _ _ _ _
    | some pd =>
      simp only [runW, writeData, wPayloadLen]
      split
      · exact ⟨fun bs h => (by cases h), fun h => (by cases h)⟩
      · split
        · exact ⟨fun bs h => (by cases h), fun h => (by cases h)⟩
        · have := key 0 (b2n es 1 + 8) sid (pd.length :: (d ++ pd))
          simp only [List.length_cons, List.length_append] at this
          constructor
          · intro bs h; have := this.1 bs h; omega
          · intro h; have := this.2 h; omega
  | headers sid es eh pl pr frag =>
    simp only [runW, writeHeaders, wPayloadLen]
    split
    · exact ⟨fun bs h => (by cases h), fun h => (by cases h)⟩
    · split
      · exact ⟨fun bs h => (by cases h), fun h => (by cases h)⟩
      · have := key 1 (b2n (pl != 0) 8 + b2n es 1 + b2n eh 4 + b2n (pr != Prio.zero) 32) sid
          ((if (pl != 0) = true then [pl] else []) ++ (if (pr != Prio.zero) = true then prioBytes pr else []) ++ frag ++
            List.replicate pl 0)
        have h1 : (if (pl != 0) = true then [pl] else ([] : Bytes)).length = (if (pl != 0) = true then 1 else 0) := by
          split <;> rfl
        have h2 : (if (pr != Prio.zero) = true then prioBytes pr else ([] : Bytes)).length =
            (if (pr != Prio.zero) = true then 5 else 0) := by
          split
          · simp [prioBytes, put32]
          · rfl
        simp only [List.length_append, List.length_replicate, h1, h2] at this
        exact this
  | priority sid pr =>
    simp only [runW, writePriority, wPayloadLen]
    split
    · exact ⟨fun bs h => (by cases h), fun h => (by cases h)⟩
    · have := key 2 0 sid (prioBytes pr)
      simp only [prioBytes, put32, List.length_append, List.length_cons, List.length_nil] at this
      exact this
  | rst sid c =>
    simp only [runW, writeRST, wPayloadLen]
    split
    · exact ⟨fun bs h => (by cases h), fun h => (by cases h)⟩
    · have := key 3 0 sid (put32 c)
      simp only [put32, List.length_cons, List.length_nil] at this
      exact this
  | settings ss =>
    simp only [runW, writeSettings, wPayloadLen]
    have := key 4 0 0 (encSettings ss)
    rw [encSettings_length] at this
    exact this
  | settingsAck =>
    simp only [runW, writeSettingsAck, wPayloadLen]
    exact key 4 1 0 []
  | pushPromise sid pr eh pl frag =>
    simp only [runW, writePushPromise, wPayloadLen]
    split
    · exact ⟨fun bs h => (by cases h), fun h => (by cases h)⟩
    · split
      · exact ⟨fun bs h => (by cases h), fun h => (by cases h)⟩
      · have := key 5 (b2n (pl != 0) 8 + b2n eh 4) sid
          ((if (pl != 0) = true then [pl] else []) ++ put32 pr ++ frag ++ List.replicate pl 0)
        have h1 : (if (pl != 0) = true then [pl] else ([] : Bytes)).length = (if (pl != 0) = true then 1 else 0) := by
          split <;> rfl
        simp only [List.length_append, List.length_replicate, h1, put32, List.length_cons, List.length_nil] at this
        exact this
  | ping ack d =>
    simp only [runW, writePing, wPayloadLen]
    exact key _ _ _ _
  | goAway l c d =>
    simp only [runW, writeGoAway, wPayloadLen]
    have := key 7 0 0 (put32 (low31 l) ++ put32 c ++ d)
    simp only [put32, List.length_append, List.length_cons, List.length_nil] at this
    constructor
    · intro bs h; have := this.1 bs h; omega
    · intro h; have := this.2 h; omega
  | windowUpdate sid inc =>
    simp only [runW, writeWindowUpdate, wPayloadLen]
    split
    · exact ⟨fun bs h => (by cases h), fun h => (by cases h)⟩
    · have := key 8 0 sid (put32 inc)
      simp only [put32, List.length_cons, List.length_nil] at this
      exact this
  | continuation sid eh frag =>
    simp only [runW, writeContinuation, wPayloadLen]
    split
    · exact ⟨fun bs h => (by cases h), fun h => (by cases h)⟩
    · exact key _ _ _ _
  | raw t f sid p =>
    simp only [runW, writeRaw, wPayloadLen]
    exact key _ _ _ _

/-- the sized writer calls of the harness (`wb` ops) have the payload length the driver computes -/
theorem C32_big_sized (kind : String) (n pl : Nat) (w : W) (h : mkBig kind n pl = some w) :
    wPayloadLen w = sizedLen kind n pl := by
  unfold mkBig at h
  unfold sizedLen
  simp only at h
  split at h
  · rename_i hk
    injection h with h; subst h
    by_cases hp : pl = 0
    · simp [hk, hp, wPayloadLen]
    · simp [hk, hp, wPayloadLen]
  · rename_i hD
    split at h
    · rename_i hk; injection h with h; subst h; simp [hD, hk, wPayloadLen, Prio.zero]
    · rename_i hH
      split at h
      · rename_i hk; injection h with h; subst h; simp [hD, hH, hk, wPayloadLen]
      · rename_i hU
        split at h
        · rename_i hk; injection h with h; subst h
          have e1 : ("C" == "G") = false := by decide
          have e2 : ("C" == "S") = false := by decide
          simp only [beq_iff_eq] at hk
          subst hk
          simp [hD, hH, hU, e1, e2, wPayloadLen]
        · rename_i hC
          split at h
          · rename_i hk; injection h with h; subst h; simp [hD, hH, hU, hk, wPayloadLen]
          · rename_i hG
            split at h
            · rename_i hk; injection h with h; subst h
              simp only [beq_iff_eq] at hk
              subst hk
              have e2 : ("X" == "S") = false := by decide
              simp [hD, hH, hU, hG, e2, wPayloadLen]
            · rename_i hX
              split at h
              · rename_i hk; injection h with h; subst h; simp [hD, hH, hU, hG, hk, wPayloadLen]
              · cases h

/-- **C32 (readMetaFrame, CONTINUATION assembly)**: with `ReadMetaHeaders` set, the frame that
    `readMetaFrame` reads while a header block is open is always a CONTINUATION of that block — the type
    assertion `f.(*ContinuationFrame)` cannot fail — for every framer/decoder state and every input. -/
theorem C32_meta_no_panic (cfg : MetaCfg) (mf : MFramer) (inp : Bytes) :
    (readFrameM cfg mf inp).1 ≠ .panic :=
  readFrameM_no_panic cfg mf inp

/-- inside an open header block `ReadFrame` returns nothing but a CONTINUATION, and the block stays
    open until one carries END_HEADERS (what `metaLoop` relies on to concatenate the fragments in order) -/
theorem C32_meta_block_frames (fr fr' : Framer) (inp rest : Bytes) (f : Frame)
    (hopen : fr.lastHeaderStream ≠ 0) (h : readFrame fr inp = (.ok f, fr', rest)) :
    ∃ fh frag, f = .continuation fh frag ∧ (hasFlag fh.flags 4 = false → fr'.lastHeaderStream ≠ 0) :=
  readFrame_in_block fr fr' inp rest f hopen h

/-- **C32 (MaxHeaderListSize)**: the fields of every MetaHeadersFrame returned have a total size
    (name + value + 32 octets each, RFC 7540 6.5.2) of at most `MaxHeaderListSize`. -/
theorem C32_meta_list_size (cfg : MetaCfg) (mf mf' : MFramer) (inp rest : Bytes) (fh : FH) (pr : Prio)
    (fs : List Field) (t : Bool) (hc : cfg.maxList ≠ 0)
    (h : readFrameM cfg mf inp = (.mh fh pr fs t, mf', rest)) : sumSize fs ≤ cfg.maxList :=
  readFrameM_list_size cfg mf mf' inp rest fh pr fs t hc h

/-- **C32 (readMetaFrame, field validity and order)**: every field of a returned MetaHeadersFrame has a
    valid value and (unless it is a pseudo header) a valid lower-case token name; no pseudo header field
    follows a regular one (`Ordered` on the reversed list); and the pseudo set passes `checkPseudos`
    (known names, no duplicate, not request and response mixed). -/
theorem C32_meta_fields_valid (cfg : MetaCfg) (mf mf' : MFramer) (inp rest : Bytes) (fh : FH) (pr : Prio)
    (fs : List Field) (t : Bool) (h : readFrameM cfg mf inp = (.mh fh pr fs t, mf', rest)) :
    (∀ f ∈ fs, FieldOK f) ∧ Ordered fs.reverse ∧ pseudoOK fs = true :=
  readFrameM_fields cfg mf mf' inp rest fh pr fs t h

/-! Non-vacuity -/
example : expectRT (.headers 3 true false 2 ⟨1, true, 200⟩ [1, 2, 3]) =
    some (.headers ⟨1, 41, 11, 3⟩ ⟨1, true, 200⟩ [1, 2, 3]) := by decide
example : runW false (.headers 3 true false 2 ⟨1, true, 200⟩ [1, 2, 3]) =
    .ok [0, 0, 11, 1, 41, 0, 0, 0, 3, 2, 128, 0, 0, 1, 200, 1, 2, 3, 0, 0] := by rfl
example : acceptFrame ⟨0, 16384⟩ ⟨0, 8, 4, 1⟩ [3, 9, 9, 9] = (.ok (.data ⟨0, 8, 4, 1⟩ []), ⟨0, 16384⟩) := by rfl
example : (acceptFrame ⟨0, 16384⟩ ⟨0, 8, 4, 1⟩ [4, 9, 9, 9]).1 = .error (.conn 1) := by rfl
example : seqBad 1 ⟨8, 0, 4, 3⟩ = true := by decide

end BfeVerif.C32
