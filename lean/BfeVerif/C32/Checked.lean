import BfeVerif.C32.Model
/-!
  C32 — the read path of frame.go once more, but with every Go slice / index expression as an
  explicit PARTIAL operation: `none` = the runtime panic Go raises when the bounds check fails.
  (Bounds are checked against `len`, which is stricter than Go's check against `cap` for slice
  expressions, so "no `none`" here implies "no panic" there.)  `Props.lean` proves that this checked
  reader never yields `none` and agrees with the unchecked model — that is the totality claim with the
  guards visible, instead of a model that is total because `List.take` cannot fail.
-/
namespace BfeVerif.C32.Checked
open BfeVerif.C32

abbrev R (α : Type) := Option α

/-- `p[i]` -/
def idx (p : Bytes) (i : Nat) : R Nat := p[i]?
/-- `p[lo:]` -/
def sliceFrom (p : Bytes) (lo : Nat) : R Bytes := if lo ≤ p.length then some (p.drop lo) else none
/-- `p[:hi]`, constant or unsigned `hi` -/
def sliceTo (p : Bytes) (hi : Nat) : R Bytes := if hi ≤ p.length then some (p.take hi) else none
/-- `p[:hi]` with `hi` a computed Go `int` (may be negative) -/
def sliceToI (p : Bytes) (hi : Int) : R Bytes :=
  if 0 ≤ hi ∧ hi ≤ (p.length : Int) then some (p.take hi.toNat) else none
/-- `p[lo:hi]` -/
def slice (p : Bytes) (lo hi : Nat) : R Bytes :=
  if lo ≤ hi ∧ hi ≤ p.length then some ((p.take hi).drop lo) else none
/-- `binary.BigEndian.Uint32(b)` (`_ = b[3]`) -/
def u32 : Bytes → R Nat
  | a :: b :: c :: d :: _ => some (be32 a b c d)
  | _ => none
/-- `binary.BigEndian.Uint16(b)` (`_ = b[1]`) -/
def u16 : Bytes → R Nat
  | a :: b :: _ => some (a * 256 + b)
  | _ => none

def readByte (p : Bytes) : R (Except Err (Bytes × Nat)) :=
  if p.length == 0 then some (.error .ueof)
  else do let r ← sliceFrom p 1; let b ← idx p 0; pure (.ok (r, b))

def readUint32 (p : Bytes) : R (Except Err (Bytes × Nat)) :=
  if p.length < 4 then some (.error .ueof)
  else do let r ← sliceFrom p 4; let h ← sliceTo p 4; let v ← u32 h; pure (.ok (r, v))

def parseData (fh : FH) (payload : Bytes) : R (Except Err Frame) :=
  if fh.sid == 0 then some (.error (.conn cProtocol))
  else do
    let rb ← (if hasFlag fh.flags 8 then readByte payload else some (.ok (payload, 0)))
    match rb with
    | .error e => pure (.error e)
    | .ok (payload, padSize) =>
      if padSize > payload.length then pure (.error (.conn cProtocol))
      else do
        let d ← sliceToI payload ((payload.length : Int) - (padSize : Int))
        pure (.ok (.data fh d))

/-- `SettingsFrame.Value` : `for len(buf) > 0 { buf[:2] … buf[2:6] … buf = buf[6:] }` -/
def valueLoop : Nat → Bytes → Nat → R (Option Nat)
  | 0, _, _ => some none
  | fuel + 1, buf, id =>
    if buf.length > 0 then do
      let h ← sliceTo buf 2
      let sid ← u16 h
      if sid == id then do
        let v4 ← slice buf 2 6
        let v ← u32 v4
        pure (some v)
      else do
        let r ← sliceFrom buf 6
        valueLoop fuel r id
    else some none

/-- `ForeachSetting(Setting.Valid)` with the same slicing -/
def validLoop : Nat → Bytes → R (Option Err)
  | 0, _ => some none
  | fuel + 1, buf =>
    if buf.length > 0 then do
      let h ← sliceTo buf 2
      let sid ← u16 h
      let v4 ← slice buf 2 6
      let v ← u32 v4
      match settingValid (sid, v) with
      | some e => pure (some e)
      | none => do
        let r ← sliceFrom buf 6
        validLoop fuel r
    else some none

def parseSettings (fh : FH) (p : Bytes) : R (Except Err Frame) :=
  if hasFlag fh.flags 1 && fh.length > 0 then some (.error (.conn cFrameSize))
  else if fh.sid != 0 then some (.error (.conn cProtocol))
  else if p.length % 6 != 0 then some (.error (.conn cFrameSize))
  else do
    let v ← valueLoop (p.length + 1) p 4
    match v with
    | some v => if v > 2147483647 then pure (.error (.conn cFlowControl)) else pure (.ok (.settings fh p))
    | none => pure (.ok (.settings fh p))

def parsePing (fh : FH) (p : Bytes) : R (Except Err Frame) :=
  if p.length != 8 then some (.error (.conn cFrameSize))
  else if fh.sid != 0 then some (.error (.conn cProtocol))
  else some (.ok (.ping fh p))          -- copy(f.Data[:], payload) cannot panic

def parseGoAway (fh : FH) (p : Bytes) : R (Except Err Frame) :=
  if fh.sid != 0 then some (.error (.conn cProtocol))
  else if p.length < 8 then some (.error (.conn cFrameSize))
  else do
    let a ← sliceTo p 4; let last ← u32 a
    let b ← slice p 4 8; let code ← u32 b
    let dbg ← sliceFrom p 8
    pure (.ok (.goAway fh (low31 last) code dbg))

/-- the decision of parseWindowUpdateFrame once the 4 bytes are decoded -/
def wuResult (fh : FH) (inc : Nat) : Except Err Frame :=
  if inc == 0 then
    (if fh.sid == 0 then .error (.conn cProtocol) else .error (.stream fh.sid cProtocol))
  else .ok (.windowUpdate fh inc)

def parseWindowUpdate (fh : FH) (p : Bytes) : R (Except Err Frame) :=
  if p.length != 4 then some (.error (.conn cFrameSize))
  else
    match sliceTo p 4 with                       -- p[:4]
    | none => none
    | some a =>
      match u32 a with                           -- binary.BigEndian.Uint32
      | none => none
      | some v => some (wuResult fh (low31 v))

def parseHeaders (fh : FH) (p : Bytes) : R (Except Err Frame) :=
  if fh.sid == 0 then some (.error (.conn cProtocol))
  else do
    let rb ← (if hasFlag fh.flags 8 then readByte p else some (.ok (p, 0)))
    match rb with
    | .error e => pure (.error e)
    | .ok (p, pad) =>
      let rp : R (Except Err (Bytes × Prio)) :=
        if hasFlag fh.flags 32 then do
          let r1 ← readUint32 p
          match r1 with
          | .error e => pure (.error e)
          | .ok (p, v) =>
            let r2 ← readByte p
            match r2 with
            | .error e => pure (.error e)
            | .ok (p, w) => pure (.ok (p, ⟨low31 v, v != low31 v, w⟩))
        else some (.ok (p, Prio.zero))
      let r ← rp
      match r with
      | .error e => pure (.error e)
      | .ok (p, pr) =>
        if (p.length : Int) - (pad : Int) ≤ 0 then pure (.error (.stream fh.sid cProtocol))
        else do
          let frag ← sliceToI p ((p.length : Int) - (pad : Int))
          pure (.ok (.headers fh pr frag))

def parsePriority (fh : FH) (payload : Bytes) : R (Except Err Frame) :=
  if fh.sid == 0 then some (.error (.conn cProtocol))
  else if payload.length != 5 then some (.error (.conn cFrameSize))
  else do
    let a ← sliceTo payload 4; let v ← u32 a
    let w ← idx payload 4
    pure (.ok (.priority fh ⟨low31 v, low31 v != v, w⟩))

def parseRST (fh : FH) (p : Bytes) : R (Except Err Frame) :=
  if p.length != 4 then some (.error (.conn cFrameSize))
  else if fh.sid == 0 then some (.error (.conn cProtocol))
  else do let a ← sliceTo p 4; let v ← u32 a; pure (.ok (.rst fh v))

def parseContinuation (fh : FH) (p : Bytes) : R (Except Err Frame) :=
  if fh.sid == 0 then some (.error (.conn cProtocol)) else some (.ok (.continuation fh p))

def parsePushPromise (fh : FH) (p : Bytes) : R (Except Err Frame) :=
  if fh.sid == 0 then some (.error (.conn cProtocol))
  else do
    let rb ← (if hasFlag fh.flags 8 then readByte p else some (.ok (p, 0)))
    match rb with
    | .error e => pure (.error e)
    | .ok (p, pad) =>
      let r1 ← readUint32 p
      match r1 with
      | .error e => pure (.error e)
      | .ok (p, v) =>
        if pad > p.length then pure (.error (.conn cProtocol))
        else do
          let frag ← sliceToI p ((p.length : Int) - (pad : Int))
          pure (.ok (.pushPromise fh (low31 v) frag))

def parseFrame (fh : FH) (p : Bytes) : R (Except Err Frame) :=
  match fh.typ with
  | 0 => parseData fh p
  | 1 => parseHeaders fh p
  | 2 => parsePriority fh p
  | 3 => parseRST fh p
  | 4 => parseSettings fh p
  | 5 => parsePushPromise fh p
  | 6 => parsePing fh p
  | 7 => parseGoAway fh p
  | 8 => parseWindowUpdate fh p
  | 9 => parseContinuation fh p
  | _ => some (.ok (.unknown fh p))

/-- header decode: `buf[0] … buf[3] buf[4] binary.BigEndian.Uint32(buf[5:])` on the 9 bytes read -/
def decodeHeader (buf : Bytes) : R FH := do
  let l0 ← idx buf 0; let l1 ← idx buf 1; let l2 ← idx buf 2
  let t ← idx buf 3; let f ← idx buf 4
  let tail ← sliceFrom buf 5
  let s ← u32 tail
  pure ⟨t, f, l0 * 65536 + l1 * 256 + l2, low31 s⟩

/-- `Framer.ReadFrame` with checked slicing; the outer `Option` is the panic channel -/
def readFrame (fr : Framer) (inp : Bytes) : R (Except Err Frame × Framer × Bytes) :=
  if inp.length < 9 then some (.error (if inp.isEmpty then .eof else .ueof), fr, [])
  else do
    let hb ← sliceTo inp 9                      -- io.ReadFull(r, buf[:frameHeaderLen])
    let fh ← decodeHeader hb
    let rest ← sliceFrom inp 9
    if fh.length > fr.maxReadSize then pure (.error .tooLarge, fr, rest)
    else if rest.length < fh.length then pure (.error (if rest.isEmpty then .eof else .ueof), fr, [])
    else do
      let payload ← sliceTo rest fh.length     -- getReadBuf(fh.Length) filled by io.ReadFull
      let rest' ← sliceFrom rest fh.length
      let pr ← parseFrame fh payload
      match pr with
      | .error e => pure (.error e, fr, rest')
      | .ok f =>
        match checkFrameOrder fr fh with
        | .error e => pure (.error e, fr, rest')
        | .ok fr' => pure (.ok f, fr', rest')

/-- the receiver's value loop on an accepted frame -/
def postCheck : Frame → R (Option Err)
  | .settings fh p => if hasFlag fh.flags 1 then some none else validLoop (p.length + 1) p
  | _ => some none

end BfeVerif.C32.Checked
