import BfeVerif.C32.Meta
import BfeVerif.C32.Proofs
/-! C32 hardening: readMetaFrame never hits its type assertion; header list size bound. -/
namespace BfeVerif.C32

/-- inside a header block `ReadFrame` can only return a CONTINUATION, and the block stays open
    unless that frame carries END_HEADERS -/
theorem readFrame_in_block (fr fr' : Framer) (inp rest : Bytes) (f : Frame)
    (hopen : fr.lastHeaderStream ≠ 0) (h : readFrame fr inp = (.ok f, fr', rest)) :
    ∃ fh frag, f = .continuation fh frag ∧ (hasFlag fh.flags 4 = false → fr'.lastHeaderStream ≠ 0) := by
  unfold readFrame at h
  cases hh : parseHeader inp with
  | none => rw [hh] at h; simp at h
  | some x =>
    obtain ⟨fh, rest0⟩ := x
    rw [hh] at h
    simp only at h
    split at h
    · simp at h
    · split at h
      · simp at h
      · simp only [Prod.mk.injEq] at h
        obtain ⟨h1, h2, _⟩ := h
        unfold acceptFrame at h1 h2
        cases hp : parseFrame fh (rest0.take fh.length) with
        | error e => rw [hp] at h1; simp at h1
        | ok f0 =>
          rw [hp] at h1 h2
          simp only at h1 h2
          cases ho : checkFrameOrder fr fh with
          | error e => rw [ho] at h1; simp at h1
          | ok fr0 =>
            rw [ho] at h1 h2
            simp only [Except.ok.injEq] at h1 h2
            subst h1; subst h2
            -- order check passed with an open block: type 9 on that stream
            have hne : (fr.lastHeaderStream != 0) = true := by simpa using hopen
            unfold checkFrameOrder at ho
            simp only [hne, if_true] at ho
            split at ho
            · cases ho
            · rename_i h9
              split at ho
              · cases ho
              · rename_i hs
                simp only [bne_iff_ne, ne_eq, Decidable.not_not] at h9 hs
                have hfr0 := Except.ok.inj ho
                unfold parseFrame at hp
                simp only [h9] at hp
                unfold parseContinuation at hp
                split at hp
                · cases hp
                · have hf0 := Except.ok.inj hp
                  refine ⟨fh, rest0.take fh.length, hf0.symm, fun hflag => ?_⟩
                  rw [← hfr0]
                  simp [h9, hflag, hs, hopen]

theorem parseFrame_headers (fh1 fh : FH) (p : Bytes) (pr : Prio) (frag : Bytes)
    (hp : parseFrame fh1 p = .ok (.headers fh pr frag)) : fh1.typ = 1 ∧ fh = fh1 ∧ fh1.sid ≠ 0 := by
  by_cases h1 : fh1.typ = 1
  · unfold parseFrame at hp
    simp only [h1] at hp
    unfold parseHeaders at hp
    split at hp
    · cases hp
    · rename_i hs
      have hs' : fh1.sid ≠ 0 := by simpa using hs
      repeat' split at hp
      all_goals (try simp only [] at hp)
      all_goals (repeat' split at hp)
      all_goals first
        | (cases hp; done)
        | (cases hp; exact ⟨h1, rfl, hs'⟩)
        | (injection hp with hp; injection hp with a b c; exact ⟨h1, a.symm, hs'⟩)
  · exfalso
    unfold parseFrame at hp
    split at hp
    all_goals first
      | (rename_i ht; exact h1 ht)
      | (simp only [parseData, parsePriority, parseRST, parseSettings, parsePushPromise, parsePing, parseGoAway,
          parseWindowUpdate, parseContinuation] at hp
         repeat' split at hp
         all_goals first | cases hp | (injection hp with hp; cases hp))
      | (injection hp with hp; cases hp)

theorem metaLoop_no_panic (cfg : MetaCfg) (fh0 : FH) (pr : Prio) :
    ∀ (fuel : Nat) (mf : MFramer) (e : Emit) (frag : Bytes) (ended : Bool) (inp : Bytes),
      (ended = false → mf.fr.lastHeaderStream ≠ 0) →
      (metaLoop cfg fh0 pr fuel mf e frag ended inp).1 ≠ .panic := by
  intro fuel
  induction fuel with
  | zero =>
    intro mf e frag ended inp _
    simp only [metaLoop]
    intro h; cases h
  | succ fuel ih =>
    intro mf e frag ended inp hinv
    generalize hr : metaLoop cfg fh0 pr (fuel + 1) mf e frag ended inp = r
    unfold metaLoop at hr
    cases hw : hdecWrite cfg mf.save e frag with
    | error x => rw [hw] at hr; simp only at hr; subst hr; intro h; cases h
    | ok y =>
      obtain ⟨save, e'⟩ := y
      rw [hw] at hr
      simp only at hr
      cases ended with
      | true =>
        simp only [if_true] at hr
        split at hr
        · subst hr; intro h; cases h
        · split at hr
          · subst hr; intro h; cases h
          · split at hr
            · subst hr; intro h; cases h
            · subst hr; intro h; cases h
      | false =>
        simp only [Bool.false_eq_true, if_false] at hr
        have hopen := hinv rfl
        cases hrf : readFrame mf.fr inp with
        | mk res x =>
          obtain ⟨fr', rest'⟩ := x
          rw [hrf] at hr
          cases res with
          | error er => simp only at hr; subst hr; intro h; cases h
          | ok f =>
            obtain ⟨fh, frag', hf, hnext⟩ := readFrame_in_block mf.fr fr' inp rest' f hopen hrf
            subst hf
            simp only at hr
            rw [← hr]
            exact ih { mf with save := save, fr := fr' } e' frag' (hasFlag fh.flags 4) rest'
              (by intro hflag; exact hnext hflag)

/-- `Framer.ReadFrame` with ReadMetaHeaders never reaches the failing branch of `f.(*ContinuationFrame)` -/
theorem readFrameM_no_panic (cfg : MetaCfg) (mf : MFramer) (inp : Bytes) :
    (readFrameM cfg mf inp).1 ≠ .panic := by
  unfold readFrameM
  cases hrf : readFrame mf.fr inp with
  | mk res x =>
    obtain ⟨fr', rest⟩ := x
    cases res with
    | error e => simp only; intro h; cases h
    | ok f =>
      cases f with
      | headers fh pr frag =>
        simp only
        apply metaLoop_no_panic
        intro hflag
        -- the HEADERS frame was accepted without END_HEADERS: the block is open on its stream
        have hacc : ∃ p, acceptFrame mf.fr fh p = (.ok (.headers fh pr frag), fr') ∨ True := ⟨[], Or.inr trivial⟩
        clear hacc
        unfold readFrame at hrf
        cases hh : parseHeader inp with
        | none => rw [hh] at hrf; simp at hrf
        | some x =>
          obtain ⟨fh1, rest0⟩ := x
          rw [hh] at hrf
          simp only at hrf
          split at hrf
          · simp at hrf
          · split at hrf
            · simp at hrf
            · simp only [Prod.mk.injEq] at hrf
              obtain ⟨h1, h2, _⟩ := hrf
              unfold acceptFrame at h1 h2
              cases hp : parseFrame fh1 (rest0.take fh1.length) with
              | error e => rw [hp] at h1; simp at h1
              | ok f0 =>
                rw [hp] at h1 h2
                simp only at h1 h2
                cases ho : checkFrameOrder mf.fr fh1 with
                | error e => rw [ho] at h1; simp at h1
                | ok fr0 =>
                  rw [ho] at h1 h2
                  simp only [Except.ok.injEq] at h1 h2
                  subst h2
                  subst h1
                  -- parseFrame produced a HEADERS frame: type 1, sid ≠ 0, same header
                  obtain ⟨ht, hfh, hsid⟩ := parseFrame_headers fh1 fh _ pr frag hp
                  subst hfh
                  unfold checkFrameOrder at ho
                  repeat' split at ho
                  all_goals first
                    | (cases ho; done)
                    | (have := Except.ok.inj ho; rw [← this]; simp [ht, hflag, hsid]; done)
                    | (exfalso; simp_all; done)
      | _ => simp only; intro h; cases h

/-! ### header list size -/

def sumSize : List Field → Nat
  | [] => 0
  | f :: t => f.size + sumSize t

theorem sumSize_append (l : List Field) (a : Field) : sumSize (l ++ [a]) = sumSize l + a.size := by
  induction l with
  | nil => simp [sumSize]
  | cons f t ih => simp only [List.cons_append, sumSize, ih]; omega

theorem sumSize_reverse (l : List Field) : sumSize l.reverse = sumSize l := by
  induction l with
  | nil => rfl
  | cons f t ih => simp only [List.reverse_cons, sumSize_append, ih, sumSize]; omega

/-- the emit function's accounting: `remain + size of the fields kept so far` is constant -/
def EmitInv (R : Nat) (e : Emit) : Prop := e.remain + sumSize e.fields = R

theorem emit_inv (cfg : MetaCfg) (R : Nat) (e e' : Emit) (f : Field) (hi : EmitInv R e)
    (h : emit cfg e f = .ok e') : EmitInv R e' := by
  unfold emit at h
  simp only [] at h
  repeat' split at h
  all_goals first
    | (cases h; done)
    | (injection h with h; subst h; unfold EmitInv at hi ⊢; simp only [sumSize]; omega)

theorem decodeLoop_inv (cfg : MetaCfg) (R : Nat) : ∀ (fuel : Nat) (buf : Bytes) (e : Emit) (save : Bytes) (e' : Emit),
    EmitInv R e → decodeLoop cfg fuel buf e = .ok (save, e') → EmitInv R e' := by
  intro fuel
  induction fuel with
  | zero => intro buf e save e' _ h; simp [decodeLoop] at h
  | succ fuel ih =>
    intro buf e save e' hi h
    unfold decodeLoop at h
    split at h
    · injection h with h; injection h with _ h2; subst h2; exact hi
    · split at h
      · split at h
        · cases h
        · injection h with h; injection h with _ h2; subst h2; exact hi
      · cases h
      · cases h
      · exact ih _ _ _ _ hi h
      · split at h
        · cases h
        · split at h
          · split at h
            · cases h
            · rename_i e1 hem
              exact ih _ _ _ _ (emit_inv cfg R e e1 _ hi hem) h
          · exact ih _ _ _ _ hi h

theorem hdecWrite_inv (cfg : MetaCfg) (R : Nat) (save : Bytes) (e : Emit) (frag save' : Bytes) (e' : Emit)
    (hi : EmitInv R e) (h : hdecWrite cfg save e frag = .ok (save', e')) : EmitInv R e' := by
  unfold hdecWrite at h
  split at h
  · injection h with h; injection h with _ h2; subst h2; exact hi
  · exact decodeLoop_inv cfg R _ _ _ _ _ hi h

theorem metaLoop_size (cfg : MetaCfg) (fh0 : FH) (pr : Prio) (R : Nat) :
    ∀ (fuel : Nat) (mf : MFramer) (e : Emit) (frag : Bytes) (ended : Bool) (inp : Bytes)
      (fh : FH) (pr' : Prio) (fs : List Field) (t : Bool) (mf' : MFramer) (rest : Bytes),
      EmitInv R e → metaLoop cfg fh0 pr fuel mf e frag ended inp = (.mh fh pr' fs t, mf', rest) →
      sumSize fs ≤ R := by
  intro fuel
  induction fuel with
  | zero => intro mf e frag ended inp fh pr' fs t mf' rest _ h; simp [metaLoop] at h
  | succ fuel ih =>
    intro mf e frag ended inp fh pr' fs t mf' rest hi h
    unfold metaLoop at h
    cases hw : hdecWrite cfg mf.save e frag with
    | error x => rw [hw] at h; simp at h
    | ok y =>
      obtain ⟨save, e'⟩ := y
      have hi' := hdecWrite_inv cfg R _ _ _ _ _ hi hw
      rw [hw] at h
      simp only at h
      cases ended with
      | true =>
        simp only [if_true] at h
        split at h
        · simp at h
        · split at h
          · simp at h
          · split at h
            · simp at h
            · simp only [Prod.mk.injEq, MRes.mh.injEq] at h
              obtain ⟨⟨_, _, hf, _⟩, _⟩ := h
              subst hf
              rw [sumSize_reverse]
              unfold EmitInv at hi'
              omega
      | false =>
        simp only [Bool.false_eq_true, if_false] at h
        cases hrf : readFrame mf.fr inp with
        | mk res x =>
          obtain ⟨fr', rest'⟩ := x
          rw [hrf] at h
          cases res with
          | error er => simp at h
          | ok f =>
            cases f with
            | continuation fh2 frag2 => simp only at h; exact ih _ _ _ _ _ _ _ _ _ _ _ hi' h
            | _ => simp at h

/-- **MaxHeaderListSize**: the fields of a MetaHeadersFrame that ReadFrame returns have total size
    (name + value + 32 each) at most the configured limit -/
theorem readFrameM_list_size (cfg : MetaCfg) (mf mf' : MFramer) (inp rest : Bytes) (fh : FH) (pr : Prio)
    (fs : List Field) (t : Bool) (hc : cfg.maxList ≠ 0)
    (h : readFrameM cfg mf inp = (.mh fh pr fs t, mf', rest)) : sumSize fs ≤ cfg.maxList := by
  unfold readFrameM at h
  cases hrf : readFrame mf.fr inp with
  | mk res x =>
    obtain ⟨fr', rest'⟩ := x
    rw [hrf] at h
    cases res with
    | error e => simp at h
    | ok f =>
      cases f with
      | headers fh1 pr1 frag =>
        simp only at h
        refine metaLoop_size cfg fh1 pr1 cfg.maxList _ _ _ _ _ _ _ _ _ _ _ _ ?_ h
        have : (cfg.maxList == 0) = false := by simpa using hc
        simp [EmitInv, sumSize, this]
      | _ => simp at h

/-! ### validity and order of the returned fields -/

/-- on the REVERSED list (newest first): a pseudo header field is preceded only by pseudo fields -/
def Ordered : List Field → Prop
  | [] => True
  | f :: t => (isPseudo f.name = true → ∀ g ∈ t, isPseudo g.name = true) ∧ Ordered t

def FieldOK (f : Field) : Prop := validValue f.value = true ∧ (isPseudo f.name = true ∨ validName f.name = true)

def EmitOK (e : Emit) : Prop :=
  e.invalid = false →
    (∀ f ∈ e.fields, FieldOK f) ∧ (e.sawRegular = false → ∀ f ∈ e.fields, isPseudo f.name = true) ∧ Ordered e.fields

theorem emit_ok (cfg : MetaCfg) (e e' : Emit) (f : Field) (hi : EmitOK e) (h : emit cfg e f = .ok e') : EmitOK e' := by
  unfold emit at h
  simp only [] at h
  split at h
  · cases h
  · by_cases hps : isPseudo f.name = true
    · simp only [hps, if_true] at h
      split at h
      · injection h with h; subst h; intro hc; cases hc
      · rename_i hinv
        split at h
        · cases h
        · injection h with h; subst h
          simp only [Bool.or_eq_true, not_or, Bool.not_eq_true, Bool.not_eq_eq_eq_not, Bool.not_false,
            Bool.not_eq_true'] at hinv
          obtain ⟨⟨hi0, hv⟩, hsaw⟩ := hinv
          intro _
          obtain ⟨a, b, c⟩ := hi hi0
          have hv' : validValue f.value = true := by
            cases hvv : validValue f.value with
            | true => rfl
            | false => exact absurd (by rw [hvv]; rfl) hv
          refine ⟨?_, ?_, ?_⟩
          · intro g hg
            rcases List.mem_cons.mp hg with rfl | hg
            · exact ⟨hv', Or.inl hps⟩
            · exact a g hg
          · intro _ g hg
            rcases List.mem_cons.mp hg with rfl | hg
            · exact hps
            · exact b hsaw g hg
          · exact ⟨fun _ => b hsaw, c⟩
    · have hps' : isPseudo f.name = false := by simpa using hps
      simp only [hps', Bool.false_eq_true, if_false] at h
      split at h
      · injection h with h; subst h; intro hc; cases hc
      · rename_i hinv
        split at h
        · cases h
        · injection h with h; subst h
          simp only [Bool.or_eq_true, not_or, Bool.not_eq_true, Bool.not_eq_eq_eq_not, Bool.not_false,
            Bool.not_eq_true'] at hinv
          obtain ⟨⟨hi0, hv⟩, hn⟩ := hinv
          intro _
          obtain ⟨a, b, c⟩ := hi hi0
          have hv' : validValue f.value = true := by
            cases hvv : validValue f.value with
            | true => rfl
            | false => exact absurd (by rw [hvv]; rfl) hv
          have hn' : validName f.name = true := by
            cases hnn : validName f.name with
            | true => rfl
            | false => exact absurd (by rw [hnn]; rfl) hn
          refine ⟨?_, ?_, ?_⟩
          · intro g hg
            rcases List.mem_cons.mp hg with rfl | hg
            · exact ⟨hv', Or.inr hn'⟩
            · exact a g hg
          · intro hc; cases hc
          · exact ⟨fun hc => (by rw [hps'] at hc; cases hc), c⟩

theorem decodeLoop_ok (cfg : MetaCfg) : ∀ (fuel : Nat) (buf : Bytes) (e : Emit) (save : Bytes) (e' : Emit),
    EmitOK e → decodeLoop cfg fuel buf e = .ok (save, e') → EmitOK e' := by
  intro fuel
  induction fuel with
  | zero => intro buf e save e' _ h; simp [decodeLoop] at h
  | succ fuel ih =>
    intro buf e save e' hi h
    unfold decodeLoop at h
    split at h
    · injection h with h; injection h with _ h2; subst h2; exact hi
    · split at h
      · split at h
        · cases h
        · injection h with h; injection h with _ h2; subst h2; exact hi
      · cases h
      · cases h
      · exact ih _ _ _ _ hi h
      · split at h
        · cases h
        · split at h
          · split at h
            · cases h
            · rename_i e1 hem
              exact ih _ _ _ _ (emit_ok cfg e e1 _ hi hem) h
          · exact ih _ _ _ _ hi h

theorem hdecWrite_ok (cfg : MetaCfg) (save : Bytes) (e : Emit) (frag save' : Bytes) (e' : Emit)
    (hi : EmitOK e) (h : hdecWrite cfg save e frag = .ok (save', e')) : EmitOK e' := by
  unfold hdecWrite at h
  split at h
  · injection h with h; injection h with _ h2; subst h2; exact hi
  · exact decodeLoop_ok cfg _ _ _ _ _ hi h

theorem metaLoop_fields (cfg : MetaCfg) (fh0 : FH) (pr : Prio) :
    ∀ (fuel : Nat) (mf : MFramer) (e : Emit) (frag : Bytes) (ended : Bool) (inp : Bytes)
      (fh : FH) (pr' : Prio) (fs : List Field) (t : Bool) (mf' : MFramer) (rest : Bytes),
      EmitOK e → metaLoop cfg fh0 pr fuel mf e frag ended inp = (.mh fh pr' fs t, mf', rest) →
      (∀ f ∈ fs, FieldOK f) ∧ Ordered fs.reverse ∧ pseudoOK fs = true := by
  intro fuel
  induction fuel with
  | zero => intro mf e frag ended inp fh pr' fs t mf' rest _ h; simp [metaLoop] at h
  | succ fuel ih =>
    intro mf e frag ended inp fh pr' fs t mf' rest hi h
    unfold metaLoop at h
    cases hw : hdecWrite cfg mf.save e frag with
    | error x => rw [hw] at h; simp at h
    | ok y =>
      obtain ⟨save, e'⟩ := y
      have hi' := hdecWrite_ok cfg _ _ _ _ _ hi hw
      rw [hw] at h
      simp only at h
      cases ended with
      | true =>
        simp only [if_true] at h
        split at h
        · simp at h
        · split at h
          · simp at h
          · rename_i hinv
            split at h
            · simp at h
            · rename_i hps
              simp only [Prod.mk.injEq, MRes.mh.injEq] at h
              obtain ⟨⟨_, _, hf, _⟩, _⟩ := h
              subst hf
              have hinv' : e'.invalid = false := by simpa using hinv
              obtain ⟨a, _, c⟩ := hi' hinv'
              refine ⟨fun f hf => a f (List.mem_reverse.mp hf), (by rw [List.reverse_reverse]; exact c), (by simpa using hps)⟩
      | false =>
        simp only [Bool.false_eq_true, if_false] at h
        cases hrf : readFrame mf.fr inp with
        | mk res x =>
          obtain ⟨fr', rest'⟩ := x
          rw [hrf] at h
          cases res with
          | error er => simp at h
          | ok f =>
            cases f with
            | continuation fh2 frag2 => simp only at h; exact ih _ _ _ _ _ _ _ _ _ _ _ hi' h
            | _ => simp at h

theorem readFrameM_fields (cfg : MetaCfg) (mf mf' : MFramer) (inp rest : Bytes) (fh : FH) (pr : Prio)
    (fs : List Field) (t : Bool) (h : readFrameM cfg mf inp = (.mh fh pr fs t, mf', rest)) :
    (∀ f ∈ fs, FieldOK f) ∧ Ordered fs.reverse ∧ pseudoOK fs = true := by
  unfold readFrameM at h
  cases hrf : readFrame mf.fr inp with
  | mk res x =>
    obtain ⟨fr', rest'⟩ := x
    rw [hrf] at h
    cases res with
    | error e => simp at h
    | ok f =>
      cases f with
      | headers fh1 pr1 frag =>
        simp only at h
        refine metaLoop_fields cfg fh1 pr1 _ _ _ _ _ _ _ _ _ _ _ _ ?_ h
        intro _
        exact ⟨fun f hf => (by cases hf), fun _ f hf => (by cases hf), trivial⟩
      | _ => simp at h

end BfeVerif.C32
