import BfeVerif.C32.Chunked
/-! C32 hardening: io.ReadFull over any chunking = a prefix of the concatenation. -/
namespace BfeVerif.C32

/-- specification of `io.ReadFull` in terms of the concatenated input -/
theorem readFull_spec : ∀ (fuel : Nat) (r : Rd) (want : Nat) (acc : Bytes),
    r.chunks.length + 2 ≤ fuel → acc.length ≤ want →
    (acc.length + r.rest.length ≥ want →
      (readFull fuel r want acc).1 = .ok (acc ++ r.rest.take (want - acc.length)) ∧
      (readFull fuel r want acc).2.rest = r.rest.drop (want - acc.length) ∧
      (readFull fuel r want acc).2.eofWithData = r.eofWithData) ∧
    (acc.length + r.rest.length < want →
      (readFull fuel r want acc).1 = .error (if acc.isEmpty && r.rest.isEmpty then .eof else .ueof) ∧
      (readFull fuel r want acc).2.rest = []) := by
  intro fuel
  induction fuel with
  | zero => intro r want acc hf; omega
  | succ fuel ih =>
    intro r want acc hf hacc
    obtain ⟨chunks, ewd⟩ := r
    simp only [Rd.rest] at *
    unfold readFull
    by_cases hdone : acc.length ≥ want
    · have hw : want - acc.length = 0 := by omega
      simp only [hdone, if_true, hw, List.take_zero, List.append_nil, List.drop_zero]
      exact ⟨fun _ => ⟨(by first | rfl | trivial), (by first | rfl | trivial), (by first | rfl | trivial)⟩, fun h => by omega⟩
    · simp only [hdone, if_false]
      cases chunks with
      | nil =>
        simp only [Rd.read, List.flatten_nil, List.length_nil, Nat.add_zero, List.append_nil, if_true]
        refine ⟨fun h => by omega, fun _ => ?_⟩
        have h1 : ¬ acc.length ≥ want := hdone
        simp only [h1, if_false, List.isEmpty_nil, Bool.and_true]
        refine ⟨?_, (by first | rfl | trivial)⟩
        cases acc with
        | nil => simp
        | cons a t => simp
      | cons c cs =>
        simp only [Rd.read, List.flatten_cons, List.length_append]
        by_cases hc : c.length ≤ want - acc.length
        · simp only [hc, if_true]
          by_cases heof : (cs.isEmpty && ewd) = true
          · -- last chunk, delivered together with io.EOF
            have hcs : cs = [] := by
              simp only [Bool.and_eq_true, List.isEmpty_iff] at heof; exact heof.1
            subst hcs
            simp only [heof, if_true, List.flatten_nil, List.append_nil, List.length_nil, Nat.add_zero,
              List.length_append]
            constructor
            · intro h
              have : c.length = want - acc.length := by omega
              have h2 : acc.length + c.length ≥ want := by omega
              simp only [h2, if_true]
              refine ⟨by rw [← this, List.take_length], by rw [← this, List.drop_length], (by first | rfl | trivial)⟩
            · intro h
              have h2 : ¬ acc.length + c.length ≥ want := by omega
              simp only [h2, if_false]
              refine ⟨?_, (by first | rfl | trivial)⟩
              cases acc with
              | nil =>
                cases c with
                | nil => simp
                | cons a t => simp
              | cons a t => simp
          · have heof' : (cs.isEmpty && ewd) = false := by simpa using heof
            simp only [heof', Bool.false_eq_true, if_false]
            have := ih ⟨cs, ewd⟩ want (acc ++ c) (by simp at hf ⊢; omega) (by simp; omega)
            simp only [Rd.rest, List.length_append] at this
            obtain ⟨h1, h2⟩ := this
            constructor
            · intro h
              obtain ⟨a1, a2, a3⟩ := h1 (by omega)
              refine ⟨?_, ?_, a3⟩
              · rw [a1, List.append_assoc]
                congr 1
                rw [List.take_append]
                have : want - acc.length - c.length = want - (acc.length + c.length) := by omega
                rw [List.take_of_length_le hc, this]
              · rw [a2, List.drop_append, List.drop_of_length_le hc]
                have : want - acc.length - c.length = want - (acc.length + c.length) := by omega
                simp [this]
            · intro h
              obtain ⟨b1, b2⟩ := h2 (by omega)
              refine ⟨?_, b2⟩
              rw [b1]
              cases acc with
              | nil =>
                cases c with
                | nil => simp
                | cons a t => simp
              | cons a t => simp
        · -- the chunk holds more than is wanted: a partial read completes the buffer
          simp only [hc, if_false, Bool.false_eq_true]
          have hlen : (acc ++ c.take (want - acc.length)).length = want := by
            simp [List.length_take]; omega
          cases fuel with
          | zero => simp at hf
          | succ f =>
            unfold readFull
            have hge : (acc ++ c.take (want - acc.length)).length ≥ want := by omega
            simp only [hge, if_true, Rd.rest, List.flatten_cons]
            constructor
            · intro _
              refine ⟨?_, ?_, (by first | rfl | trivial)⟩
              · congr 1
                rw [List.take_append]
                have : want - acc.length - c.length = 0 := by omega
                simp [this]
              · rw [List.drop_append]
                have : want - acc.length - c.length = 0 := by omega
                simp [this]
            · intro h; omega

theorem parseHeader_short (inp : Bytes) (h : inp.length < 9) : parseHeader inp = none := by
  match inp, h with
  | [], _ | [_], _ | [_, _], _ | [_, _, _], _ | [_, _, _, _], _ | [_, _, _, _, _], _ | [_, _, _, _, _, _], _
  | [_, _, _, _, _, _, _], _ | [_, _, _, _, _, _, _, _], _ => rfl

theorem parseHeader_take (inp : Bytes) (h : 9 ≤ inp.length) :
    ∃ fh, parseHeader inp = some (fh, inp.drop 9) ∧ parseHeader (inp.take 9) = some (fh, []) := by
  match inp, h with
  | l0 :: l1 :: l2 :: t :: f :: s0 :: s1 :: s2 :: s3 :: rest, _ =>
    exact ⟨⟨t, f, l0 * 65536 + l1 * 256 + l2, low31 (be32 s0 s1 s2 s3)⟩, by simp [parseHeader], by simp [parseHeader]⟩

/-- one `ReadFrame` on any chunking of the input = one `ReadFrame` on the concatenation -/
theorem readFrameR_eq (fr : Framer) (r : Rd) :
    readFrame fr r.rest = ((readFrameR fr r).1, (readFrameR fr r).2.1, (readFrameR fr r).2.2.rest) := by
  have hspec := readFull_spec (r.chunks.length + 2) r 9 [] (Nat.le_refl _) (by simp)
  unfold readFrameR
  generalize hq : readFull (r.chunks.length + 2) r 9 [] = q at hspec
  obtain ⟨res, r1⟩ := q
  simp only [List.length_nil, Nat.zero_add, Nat.sub_zero, List.nil_append, List.isEmpty_nil, Bool.true_and] at hspec
  by_cases h9 : r.rest.length ≥ 9
  · obtain ⟨e1, e2, e3⟩ := hspec.1 h9
    subst e1
    obtain ⟨fh, hp1, hp2⟩ := parseHeader_take r.rest h9
    simp only [hp2]
    unfold readFrame
    simp only [hp1]
    by_cases hbig : fh.length > fr.maxReadSize
    · simp only [hbig, if_true]
      rw [e2]
    · simp only [hbig, if_false]
      have hspec2 := readFull_spec (r1.chunks.length + 2) r1 fh.length [] (Nat.le_refl _) (by simp)
      generalize hq2 : readFull (r1.chunks.length + 2) r1 fh.length [] = q2 at hspec2
      obtain ⟨res2, r2⟩ := q2
      simp only [List.length_nil, Nat.zero_add, Nat.sub_zero, List.nil_append, List.isEmpty_nil, Bool.true_and] at hspec2
      rw [e2] at hspec2
      by_cases hpl : (r.rest.drop 9).length ≥ fh.length
      · obtain ⟨f1, f2, f3⟩ := hspec2.1 hpl
        subst f1
        have : ¬ (r.rest.drop 9).length < fh.length := by omega
        simp only [this, if_false]
        rw [f2]
      · have hlt : (r.rest.drop 9).length < fh.length := by omega
        obtain ⟨g1, g2⟩ := hspec2.2 hlt
        subst g1
        simp only [hlt, if_true]
        rw [g2]
  · have hlt : r.rest.length < 9 := by omega
    obtain ⟨g1, g2⟩ := hspec.2 hlt
    subst g1
    unfold readFrame
    simp only [parseHeader_short r.rest hlt]
    rw [g2]

/-- the whole read loop on any chunking = the read loop on the concatenation -/
theorem readAllR_eq : ∀ (fuel : Nat) (fr : Framer) (r : Rd), readAllR fuel fr r = readAll fuel fr r.rest := by
  intro fuel
  induction fuel with
  | zero => intro fr r; rfl
  | succ f ih =>
    intro fr r
    unfold readAllR readAll
    rw [readFrameR_eq fr r]
    generalize readFrameR fr r = x
    obtain ⟨res, fr', r'⟩ := x
    cases res with
    | ok fm => simp only [ih]
    | error e => simp only [ih]

end BfeVerif.C32
