/-
  C32 — model of the HTTP/2 framer of bfe_http2/frame.go (+ Setting.Valid of http2.go).  Core-only.

  Bytes are `Nat`s (the driver feeds values < 256; the theorems that need it say so).  uint32
  arithmetic of the Go code is written with `/ % + *` on `Nat` so that `omega` can reason about it:
     v & 0x7fffffff  ↦  v % 2^31          v | 1<<31 (v < 2^31)  ↦  v + 2^31
     Flags.Has(bit)  ↦  flags / bit % 2 = 1   (all flag constants are single bits)
  Mirrored: readFrameHeader, Framer.ReadFrame (maxReadSize check, io.ReadFull outcomes, parser
  dispatch, connError→ConnectionError conversion, checkFrameOrder with lastHeaderStream), the ten
  parse* functions + parseUnknownFrame, readByte/readUint32, SettingsFrame.Value (first match),
  Setting.Valid via ForeachSetting (as serverConn.processSettings applies it), the Write* methods
  with startWrite/endWrite (ErrFrameTooLarge at 2^24) and AllowIllegalWrites.
  Not modelled: ReadMetaHeaders/readMetaFrame (HPACK merging, C35), logging, buffer reuse/invalidate.
-/
namespace BfeVerif.C32

abbrev Bytes := List Nat

def be32 (a b c d : Nat) : Nat := a * 16777216 + b * 65536 + c * 256 + d
def put32 (v : Nat) : Bytes := [v / 16777216 % 256, v / 65536 % 256, v / 256 % 256, v % 256]
def put16 (v : Nat) : Bytes := [v / 256 % 256, v % 256]
def low31 (v : Nat) : Nat := v % 2147483648
def hasFlag (f bit : Nat) : Bool := f / bit % 2 == 1

structure FH where
  typ : Nat
  flags : Nat
  length : Nat
  sid : Nat
deriving Repr, DecidableEq

inductive Err where
  | conn (code : Nat)              -- ConnectionError{code}
  | stream (sid code : Nat)        -- StreamError{sid, code}  (not terminal)
  | eof                            -- io.EOF
  | ueof                           -- io.ErrUnexpectedEOF
  | tooLarge                       -- ErrFrameTooLarge
deriving Repr, DecidableEq

structure Prio where
  dep : Nat
  excl : Bool
  weight : Nat
deriving Repr, DecidableEq

def Prio.zero : Prio := ⟨0, false, 0⟩

inductive Frame where
  | data (fh : FH) (d : Bytes)
  | headers (fh : FH) (pr : Prio) (frag : Bytes)
  | priority (fh : FH) (pr : Prio)
  | rst (fh : FH) (code : Nat)
  | settings (fh : FH) (p : Bytes)
  | pushPromise (fh : FH) (promised : Nat) (frag : Bytes)
  | ping (fh : FH) (d : Bytes)
  | goAway (fh : FH) (last code : Nat) (debug : Bytes)
  | windowUpdate (fh : FH) (inc : Nat)
  | continuation (fh : FH) (frag : Bytes)
  | unknown (fh : FH) (p : Bytes)
deriving Repr, DecidableEq

def Frame.fh : Frame → FH
  | .data fh _ | .headers fh _ _ | .priority fh _ | .rst fh _ | .settings fh _ | .pushPromise fh _ _
  | .ping fh _ | .goAway fh _ _ _ | .windowUpdate fh _ | .continuation fh _ | .unknown fh _ => fh

-- error codes
def cProtocol : Nat := 1
def cFlowControl : Nat := 3
def cFrameSize : Nat := 6

/-! ### parsers -/

def readByte : Bytes → Except Err (Bytes × Nat)
  | [] => .error .ueof
  | b :: r => .ok (r, b)

def readUint32 : Bytes → Except Err (Bytes × Nat)
  | a :: b :: c :: d :: r => .ok (r, be32 a b c d)
  | _ => .error .ueof

def parseData (fh : FH) (p : Bytes) : Except Err Frame :=
  if fh.sid == 0 then .error (.conn cProtocol)
  else
    match (if hasFlag fh.flags 8 then readByte p else .ok (p, 0)) with
    | .error e => .error e
    | .ok (p, pad) =>
      if pad > p.length then .error (.conn cProtocol)
      else .ok (.data fh (p.take (p.length - pad)))

/-- the 6-byte entries of a SETTINGS payload (callers checked `len % 6 = 0`) -/
def settingsOf : Bytes → List (Nat × Nat)
  | a :: b :: c :: d :: e :: f :: r => (a * 256 + b, be32 c d e f) :: settingsOf r
  | _ => []

/-- `SettingsFrame.Value` : the FIRST entry with that id -/
def settingValue (p : Bytes) (id : Nat) : Option Nat :=
  match (settingsOf p).find? (fun s => s.1 == id) with
  | some s => some s.2
  | none => none

def parseSettings (fh : FH) (p : Bytes) : Except Err Frame :=
  if hasFlag fh.flags 1 && fh.length > 0 then .error (.conn cFrameSize)
  else if fh.sid != 0 then .error (.conn cProtocol)
  else if p.length % 6 != 0 then .error (.conn cFrameSize)
  else
    match settingValue p 4 with
    | some v => if v > 2147483647 then .error (.conn cFlowControl) else .ok (.settings fh p)
    | none => .ok (.settings fh p)

def parsePing (fh : FH) (p : Bytes) : Except Err Frame :=
  if p.length != 8 then .error (.conn cFrameSize)
  else if fh.sid != 0 then .error (.conn cProtocol)
  else .ok (.ping fh p)

def parseGoAway (fh : FH) (p : Bytes) : Except Err Frame :=
  if fh.sid != 0 then .error (.conn cProtocol)
  else
    match p with
    | a :: b :: c :: d :: e :: f :: g :: h :: r => .ok (.goAway fh (low31 (be32 a b c d)) (be32 e f g h) r)
    | _ => .error (.conn cFrameSize)

def parseWindowUpdate (fh : FH) (p : Bytes) : Except Err Frame :=
  match p with
  | [a, b, c, d] =>
    let inc := low31 (be32 a b c d)
    if inc == 0 then
      if fh.sid == 0 then .error (.conn cProtocol) else .error (.stream fh.sid cProtocol)
    else .ok (.windowUpdate fh inc)
  | _ => .error (.conn cFrameSize)

def parseHeaders (fh : FH) (p : Bytes) : Except Err Frame :=
  if fh.sid == 0 then .error (.conn cProtocol)
  else
    match (if hasFlag fh.flags 8 then readByte p else .ok (p, 0)) with
    | .error e => .error e
    | .ok (p, pad) =>
      let r : Except Err (Bytes × Prio) :=
        if hasFlag fh.flags 32 then
          match readUint32 p with
          | .error e => .error e
          | .ok (p, v) =>
            match readByte p with
            | .error e => .error e
            | .ok (p, w) => .ok (p, ⟨low31 v, v != low31 v, w⟩)
        else .ok (p, Prio.zero)
      match r with
      | .error e => .error e
      | .ok (p, pr) =>
        if p.length ≤ pad then .error (.stream fh.sid cProtocol)     -- `len(p)-int(padLength) <= 0`
        else .ok (.headers fh pr (p.take (p.length - pad)))

def parsePriority (fh : FH) (p : Bytes) : Except Err Frame :=
  if fh.sid == 0 then .error (.conn cProtocol)
  else
    match p with
    | [a, b, c, d, w] =>
      let v := be32 a b c d
      .ok (.priority fh ⟨low31 v, low31 v != v, w⟩)
    | _ => .error (.conn cFrameSize)

def parseRST (fh : FH) (p : Bytes) : Except Err Frame :=
  match p with
  | [a, b, c, d] => if fh.sid == 0 then .error (.conn cProtocol) else .ok (.rst fh (be32 a b c d))
  | _ => .error (.conn cFrameSize)

def parseContinuation (fh : FH) (p : Bytes) : Except Err Frame :=
  if fh.sid == 0 then .error (.conn cProtocol) else .ok (.continuation fh p)

def parsePushPromise (fh : FH) (p : Bytes) : Except Err Frame :=
  if fh.sid == 0 then .error (.conn cProtocol)
  else
    match (if hasFlag fh.flags 8 then readByte p else .ok (p, 0)) with
    | .error e => .error e
    | .ok (p, pad) =>
      match readUint32 p with
      | .error e => .error e
      | .ok (p, v) =>
        if pad > p.length then .error (.conn cProtocol)
        else .ok (.pushPromise fh (low31 v) (p.take (p.length - pad)))

/-- `typeFrameParser(fh.Type)(fh, payload)` -/
def parseFrame (fh : FH) (p : Bytes) : Except Err Frame :=
  match fh.typ with
  | 0 => parseData fh p
  | 1 => parseHeaders fh p
  | 2 => parsePriority fh p
  | 3 => parseRST fh p
  | 4 => parseSettings fh p
  | 5 => parsePushPromise fh p
  | 6 => parsePing fh p
  | 7 => parseGoAway fh p
  | 8 => parseWindowUpdate fh p
  | 9 => parseContinuation fh p
  | _ => .ok (.unknown fh p)

/-! ### Framer.ReadFrame -/

structure Framer where
  lastHeaderStream : Nat
  maxReadSize : Nat
deriving Repr, DecidableEq

def maxFrameSize : Nat := 16777215

/-- `NewFramer` + `SetMaxReadFrameSize(v)` -/
def newFramer (v : Nat) : Framer := ⟨0, if v > maxFrameSize then maxFrameSize else v⟩

def checkFrameOrder (fr : Framer) (fh : FH) : Except Err Framer :=
  let upd : Framer :=
    if fh.typ == 1 || fh.typ == 9 then
      (if hasFlag fh.flags 4 then { fr with lastHeaderStream := 0 } else { fr with lastHeaderStream := fh.sid })
    else fr
  if fr.lastHeaderStream != 0 then
    if fh.typ != 9 then .error (.conn cProtocol)
    else if fh.sid != fr.lastHeaderStream then .error (.conn cProtocol)
    else .ok upd
  else if fh.typ == 9 then .error (.conn cProtocol)
  else .ok upd

def parseHeader : Bytes → Option (FH × Bytes)
  | l0 :: l1 :: l2 :: t :: f :: s0 :: s1 :: s2 :: s3 :: rest =>
    some (⟨t, f, l0 * 65536 + l1 * 256 + l2, low31 (be32 s0 s1 s2 s3)⟩, rest)
  | _ => none

/-- the part of `ReadFrame` after header and payload were read: parser, then checkFrameOrder -/
def acceptFrame (fr : Framer) (fh : FH) (payload : Bytes) : Except Err Frame × Framer :=
  match parseFrame fh payload with
  | .error e => (.error e, fr)
  | .ok f =>
    match checkFrameOrder fr fh with
    | .error e => (.error e, fr)
    | .ok fr' => (.ok f, fr')

/-- one `ReadFrame` call on the unread input: result, new framer state, unread rest -/
def readFrame (fr : Framer) (inp : Bytes) : Except Err Frame × Framer × Bytes :=
  match parseHeader inp with
  | none => (.error (if inp.isEmpty then .eof else .ueof), fr, [])
  | some (fh, rest) =>
    if fh.length > fr.maxReadSize then (.error .tooLarge, fr, rest)
    else if rest.length < fh.length then (.error (if rest.isEmpty then .eof else .ueof), fr, [])
    else
      let r := acceptFrame fr fh (rest.take fh.length)
      (r.1, r.2, rest.drop fh.length)

/-- `terminalReadFrameError` : only StreamError lets the caller read on -/
def terminal : Err → Bool
  | .stream _ _ => false
  | _ => true

/-! ### Setting.Valid, applied to every entry by ForeachSetting (serverConn.processSettings) -/

def settingValid (s : Nat × Nat) : Option Err :=
  if s.1 == 2 then (if s.2 != 1 && s.2 != 0 then some (.conn cProtocol) else none)
  else if s.1 == 4 then (if s.2 > 2147483647 then some (.conn cFlowControl) else none)
  else if s.1 == 5 then (if s.2 < 16384 || s.2 > 16777215 then some (.conn cProtocol) else none)
  else none

def settingsValid : List (Nat × Nat) → Option Err
  | [] => none
  | s :: r => match settingValid s with | some e => some e | none => settingsValid r

/-- the value check the receiver applies to an accepted frame (`f.ForeachSetting(Setting.Valid)` for a
    non-ACK SETTINGS frame; nothing for other frames) -/
def postCheck : Frame → Option Err
  | .settings fh p => if hasFlag fh.flags 1 then none else settingsValid (settingsOf p)
  | _ => none

/-- the serve loop's use of the framer: read until a terminal error (a SETTINGS frame whose values
    are rejected by Setting.Valid ends the connection too) -/
def readAll : Nat → Framer → Bytes → List (Except Err Frame)
  | 0, _, _ => []
  | fuel + 1, fr, inp =>
    match readFrame fr inp with
    | (.ok f, fr', rest) => if (postCheck f).isSome then [.ok f] else .ok f :: readAll fuel fr' rest
    | (.error e, fr', rest) => if terminal e then [.error e] else .error e :: readAll fuel fr' rest

/-! ### writers -/

inductive WErr where
  | streamID | padLength | depID | window | tooLarge
deriving Repr, DecidableEq

def validStreamID (sid : Nat) : Bool := sid != 0 && sid < 2147483648

/-- startWrite … endWrite : header + payload, `ErrFrameTooLarge` when the payload needs ≥ 2^24 -/
def endWrite (typ flags sid : Nat) (payload : Bytes) : Except WErr Bytes :=
  if payload.length ≥ 16777216 then .error .tooLarge
  else .ok ([payload.length / 65536 % 256, payload.length / 256 % 256, payload.length % 256, typ % 256, flags % 256]
            ++ put32 sid ++ payload)

def b2n (b : Bool) (v : Nat) : Nat := if b then v else 0

/-- WriteDataPadded; `pad = none` is a nil slice (no PADDED flag) -/
def writeData (allow : Bool) (sid : Nat) (endStream : Bool) (data : Bytes) (pad : Option Bytes) : Except WErr Bytes :=
  if !validStreamID sid && !allow then .error .streamID
  else
    match pad with
    | none => endWrite 0 (b2n endStream 1) sid data
    | some pd =>
      if pd.length > 255 then .error .padLength
      else endWrite 0 (b2n endStream 1 + 8) sid (pd.length :: (data ++ pd))

def writeSettings (ss : List (Nat × Nat)) : Except WErr Bytes :=
  endWrite 4 0 0 (ss.flatMap fun s => put16 s.1 ++ put32 s.2)

def writeSettingsAck : Except WErr Bytes := endWrite 4 1 0 []

def writePing (ack : Bool) (data : Bytes) : Except WErr Bytes := endWrite 6 (b2n ack 1) 0 data

def writeGoAway (maxStreamID code : Nat) (debug : Bytes) : Except WErr Bytes :=
  endWrite 7 0 0 (put32 (low31 maxStreamID) ++ put32 code ++ debug)

def writeWindowUpdate (allow : Bool) (sid incr : Nat) : Except WErr Bytes :=
  if (incr < 1 || incr > 2147483647) && !allow then .error .window
  else endWrite 8 0 sid (put32 incr)

/-- `v |= 1<<31` on a uint32 -/
def setHigh (v : Nat) : Nat := if v / 2147483648 % 2 == 1 then v else v + 2147483648

def prioBytes (pr : Prio) : Bytes := put32 (if pr.excl then setHigh pr.dep else pr.dep) ++ [pr.weight]

def writeHeaders (allow : Bool) (sid : Nat) (frag : Bytes) (endStream endHeaders : Bool) (padLen : Nat) (pr : Prio) :
    Except WErr Bytes :=
  if !validStreamID sid && !allow then .error .streamID
  else
    let hasPr := pr != Prio.zero
    let flags := b2n (padLen != 0) 8 + b2n endStream 1 + b2n endHeaders 4 + b2n hasPr 32
    if hasPr && !validStreamID pr.dep && !allow then .error .depID
    else
      endWrite 1 flags sid
        ((if padLen != 0 then [padLen] else []) ++ (if hasPr then prioBytes pr else []) ++ frag ++ List.replicate padLen 0)

def writePriority (allow : Bool) (sid : Nat) (pr : Prio) : Except WErr Bytes :=
  if !validStreamID sid && !allow then .error .streamID
  else endWrite 2 0 sid (prioBytes pr)

def writeRST (allow : Bool) (sid code : Nat) : Except WErr Bytes :=
  if !validStreamID sid && !allow then .error .streamID
  else endWrite 3 0 sid (put32 code)

def writeContinuation (allow : Bool) (sid : Nat) (endHeaders : Bool) (frag : Bytes) : Except WErr Bytes :=
  if !validStreamID sid && !allow then .error .streamID
  else endWrite 9 (b2n endHeaders 4) sid frag

def writePushPromise (allow : Bool) (sid promise : Nat) (frag : Bytes) (endHeaders : Bool) (padLen : Nat) :
    Except WErr Bytes :=
  if !validStreamID sid && !allow then .error .streamID
  else if !validStreamID promise && !allow then .error .streamID
  else
    endWrite 5 (b2n (padLen != 0) 8 + b2n endHeaders 4) sid
      ((if padLen != 0 then [padLen] else []) ++ put32 promise ++ frag ++ List.replicate padLen 0)

def writeRaw (typ flags sid : Nat) (payload : Bytes) : Except WErr Bytes := endWrite typ flags sid payload

/-! ### writer calls as data (op language of the harness; hypotheses of the round-trip theorems) -/
inductive W where
  | data (sid : Nat) (es : Bool) (d : Bytes) (pad : Option Bytes)
  | headers (sid : Nat) (es eh : Bool) (padLen : Nat) (pr : Prio) (frag : Bytes)
  | priority (sid : Nat) (pr : Prio)
  | rst (sid code : Nat)
  | settings (ss : List (Nat × Nat))
  | settingsAck
  | pushPromise (sid promise : Nat) (eh : Bool) (padLen : Nat) (frag : Bytes)
  | ping (ack : Bool) (d : Bytes)
  | goAway (last code : Nat) (debug : Bytes)
  | windowUpdate (sid incr : Nat)
  | continuation (sid : Nat) (eh : Bool) (frag : Bytes)
  | raw (typ flags sid : Nat) (p : Bytes)

def runW (allow : Bool) : W → Except WErr Bytes
  | .data sid es d pad => writeData allow sid es d pad
  | .headers sid es eh pl pr frag => writeHeaders allow sid frag es eh pl pr
  | .priority sid pr => writePriority allow sid pr
  | .rst sid c => writeRST allow sid c
  | .settings ss => writeSettings ss
  | .settingsAck => writeSettingsAck
  | .pushPromise sid pr eh pl frag => writePushPromise allow sid pr frag eh pl
  | .ping ack d => writePing ack d
  | .goAway l c d => writeGoAway l c d
  | .windowUpdate sid inc => writeWindowUpdate allow sid inc
  | .continuation sid eh frag => writeContinuation allow sid eh frag
  | .raw t f sid p => writeRaw t f sid p

/-- The frame the round-trip theorems promise for a writer call (`none` = outside their hypotheses:
    then only the acceptance class is judged). -/
def expectRT : W → Option Frame
  | .data sid es d pad =>
    if validStreamID sid && (match pad with | none => true | some pd => pd.length ≤ 255) then
      match pad with
      | none => some (.data ⟨0, b2n es 1, d.length, sid⟩ d)
      | some pd => some (.data ⟨0, b2n es 1 + 8, 1 + d.length + pd.length, sid⟩ d)
    else none
  | .headers sid es eh pl pr frag =>
    let hasPr := pr != Prio.zero
    if validStreamID sid && (!hasPr || validStreamID pr.dep) && !frag.isEmpty && pl < 256 && pr.weight < 256 then
      some (.headers ⟨1, b2n (pl != 0) 8 + b2n es 1 + b2n eh 4 + b2n hasPr 32,
        (if pl != 0 then 1 else 0) + (if hasPr then 5 else 0) + frag.length + pl, sid⟩ pr frag)
    else none
  | .priority sid pr =>
    if validStreamID sid && pr.dep < 2147483648 && pr.weight < 256 then some (.priority ⟨2, 0, 5, sid⟩ pr) else none
  | .rst sid c => if validStreamID sid && c < 4294967296 then some (.rst ⟨3, 0, 4, sid⟩ c) else none
  | .settings ss =>
    if ss.all (fun s => s.1 < 65536 && s.2 < 4294967296) &&
        (match ss.find? (fun s => s.1 == 4) with | some s => s.2 ≤ 2147483647 | none => true) then
      some (.settings ⟨4, 0, 6 * ss.length, 0⟩ (ss.flatMap fun s => put16 s.1 ++ put32 s.2)) else none
  | .settingsAck => some (.settings ⟨4, 1, 0, 0⟩ [])
  | .pushPromise sid pr eh pl frag =>
    if validStreamID sid && validStreamID pr && pl < 256 then
      some (.pushPromise ⟨5, b2n (pl != 0) 8 + b2n eh 4, (if pl != 0 then 1 else 0) + 4 + frag.length + pl, sid⟩ pr frag)
    else none
  | .ping ack d => if d.length == 8 then some (.ping ⟨6, b2n ack 1, 8, 0⟩ d) else none
  | .goAway l c d => if c < 4294967296 then some (.goAway ⟨7, 0, 8 + d.length, 0⟩ (low31 l) c d) else none
  | .windowUpdate sid inc =>
    if sid < 2147483648 && 1 ≤ inc && inc ≤ 2147483647 then some (.windowUpdate ⟨8, 0, 4, sid⟩ inc) else none
  | .continuation sid eh frag => if validStreamID sid then some (.continuation ⟨9, b2n eh 4, frag.length, sid⟩ frag) else none
  | .raw t f sid p =>
    if t > 9 && t < 256 && f < 256 && sid < 2147483648 then some (.unknown ⟨t, f, p.length, sid⟩ p) else none

/-- payload length of the frame a writer call produces (what `endWrite` compares with 2^24) -/
def wPayloadLen : W → Nat
  | .data _ _ d none => d.length
  | .data _ _ d (some pd) => 1 + d.length + pd.length
  | .headers _ _ _ pl pr frag => (if pl != 0 then 1 else 0) + (if pr != Prio.zero then 5 else 0) + frag.length + pl
  | .priority _ _ => 5
  | .rst _ _ => 4
  | .settings ss => 6 * ss.length
  | .settingsAck => 0
  | .pushPromise _ _ _ pl frag => (if pl != 0 then 1 else 0) + 4 + frag.length + pl
  | .ping _ d => d.length
  | .goAway _ _ d => 8 + d.length
  | .windowUpdate _ _ => 4
  | .continuation _ _ frag => frag.length
  | .raw _ _ _ p => p.length

/-- writer calls with a zero-filled variable part of `n` bytes (entries for SETTINGS) and pad length `pl`,
    used by the harness for payloads around the 2^24 limit without spelling the bytes out -/
def mkBig (kind : String) (n pl : Nat) : Option W :=
  let z := List.replicate n 0
  if kind == "D" then some (.data 1 false z (if pl == 0 then none else some (List.replicate pl 0)))
  else if kind == "H" then some (.headers 1 false true pl Prio.zero z)
  else if kind == "U" then some (.pushPromise 1 2 true pl z)
  else if kind == "C" then some (.continuation 1 true z)
  else if kind == "G" then some (.goAway 1 0 z)
  else if kind == "X" then some (.raw 10 0 1 z)
  else if kind == "S" then some (.settings (List.replicate n (1, 0)))
  else none

/-- `wPayloadLen (mkBig kind n pl)` computed from the numbers alone -/
def sizedLen (kind : String) (n pl : Nat) : Nat :=
  if kind == "D" then (if pl == 0 then n else 1 + n + pl)
  else if kind == "H" then (if pl != 0 then 1 else 0) + n + pl
  else if kind == "U" then (if pl != 0 then 1 else 0) + 4 + n + pl
  else if kind == "G" then 8 + n
  else if kind == "S" then 6 * n
  else n

/-! ### Specification: RFC 7540 frame-level rules, as a flat table independent of the parsers -/

inductive Class where
  | accept | connErr | streamErr | ioErr | tooLarge
deriving Repr, DecidableEq

/-- number of leading payload bytes taken by the fixed fields of a HEADERS / PUSH_PROMISE / DATA frame -/
def fixedLen (fh : FH) : Nat :=
  (if hasFlag fh.flags 8 && (fh.typ == 0 || fh.typ == 1 || fh.typ == 5) then 1 else 0) +
  (if fh.typ == 1 && hasFlag fh.flags 32 then 5 else 0) + (if fh.typ == 5 then 4 else 0)

/-- RFC 7540 §6.5.2: ENABLE_PUSH ∈ {0,1}, INITIAL_WINDOW_SIZE ≤ 2^31-1, 2^14 ≤ MAX_FRAME_SIZE ≤ 2^24-1 -/
def rfcSettingBad (s : Nat × Nat) : Bool :=
  (s.1 == 2 && s.2 > 1) || (s.1 == 4 && s.2 > 2147483647) || (s.1 == 5 && (s.2 < 16384 || s.2 > 16777215))

def padOf (fh : FH) (p : Bytes) : Nat :=
  if hasFlag fh.flags 8 && (fh.typ == 0 || fh.typ == 1 || fh.typ == 5) then p.headD 0 else 0

/-- RFC 7540 §6.1–§6.9 per-type rules for ONE frame (stream-0 restrictions, fixed sizes, padding
    bounds, SETTINGS ack/length/values, WINDOW_UPDATE increment).  `ioErr` = the fixed fields do not
    fit in the payload (bfe reports io.ErrUnexpectedEOF, which ends the connection).  bfe is stricter
    than the RFC in one place: a HEADERS frame whose fragment is empty is a stream error. -/
def specCore (fh : FH) (p : Bytes) : Class :=
  let n := p.length
  match fh.typ with
  | 0 => if fh.sid == 0 then .connErr else if n < fixedLen fh then .ioErr
         else if padOf fh p > n - fixedLen fh then .connErr else .accept
  | 1 => if fh.sid == 0 then .connErr else if n < fixedLen fh then .ioErr
         else if padOf fh p ≥ n - fixedLen fh then .streamErr     -- padding too long, or (bfe) empty fragment
         else .accept
  | 2 => if fh.sid == 0 then .connErr else if n != 5 then .connErr else .accept
  | 3 => if n != 4 then .connErr else if fh.sid == 0 then .connErr else .accept
  | 4 => if (hasFlag fh.flags 1 && n != 0) || fh.sid != 0 || n % 6 != 0 then .connErr
         else if (settingsOf p).any rfcSettingBad then .connErr      -- §6.5.2 value ranges, every entry
         else .accept
  | 5 => if fh.sid == 0 then .connErr else if n < fixedLen fh then .ioErr
         else if padOf fh p > n - fixedLen fh then .connErr else .accept
  | 6 => if n != 8 || fh.sid != 0 then .connErr else .accept
  | 7 => if fh.sid != 0 || n < 8 then .connErr else .accept
  | 8 => if n != 4 then .connErr
         else if low31 (be32 (p.getD 0 0) (p.getD 1 0) (p.getD 2 0) (p.getD 3 0)) == 0 then
           (if fh.sid == 0 then .connErr else .streamErr)
         else .accept
  | 9 => if fh.sid == 0 then .connErr else .accept
  | _ => .accept

/-- §6.2 / §6.10: header blocks are contiguous.  `exp` = stream of the open header block (0 = none). -/
def seqBad (exp : Nat) (fh : FH) : Bool :=
  (exp != 0 && (fh.typ != 9 || fh.sid != exp)) || (exp == 0 && fh.typ == 9)

/-- what a receiver must do with one frame.  Full strength: a sequencing violation is a CONNECTION
    error whatever else is wrong with the frame. -/
def specFrame (exp : Nat) (fh : FH) (p : Bytes) : Class :=
  if seqBad exp fh then (if specCore fh p == .ioErr then .ioErr else .connErr) else specCore fh p

/-- class of one entry of the read loop (ReadFrame result + the receiver's SETTINGS value check) -/
def classOf : Except Err Frame → Class
  | .ok f => if (postCheck f).isSome then .connErr else .accept
  | .error (.conn _) => .connErr
  | .error (.stream _ _) => .streamErr
  | .error .eof | .error .ueof => .ioErr
  | .error .tooLarge => .tooLarge

end BfeVerif.C32
