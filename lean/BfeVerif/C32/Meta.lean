import BfeVerif.C32.Model
/-!
  C32 hardening — `Framer.ReadFrame` with `ReadMetaHeaders` set: `readMetaFrame` (frame.go) assembling
  HEADERS + CONTINUATION frames and feeding the fragments IN ORDER to the HPACK decoder, with its emit
  function (URI limit, header-list size limit, field validity, pseudo-header order) and `checkPseudos`.

  The HPACK decoder itself belongs to another property; here it is modelled only for the byte
  sublanguage the harness generates and the driver can decode exactly:
    1xxxxxxx (index < 127)            indexed field, static table (the dynamic table stays empty)
    0000xxxx / 0001xxxx (idx < 15)    literal without indexing / never indexed, name literal or static
    001xxxxx (size < 31)              dynamic table size update
    strings: no Huffman bit, length < 127
  anything else (Huffman, multi-byte integers, incremental indexing) yields `unsupported`, and the
  driver then only demands "no panic".  Incremental behaviour is mirrored: `saveBuf` keeps a truncated
  field between Write calls (and between header blocks when a block is abandoned), the `errNeedMore`
  size paranoia, `Close` = "truncated headers".  Core-only.
-/
namespace BfeVerif.C32

def staticTableS : List (String × String) := [
  (":authority", ""),
  (":method", "GET"),
  (":method", "POST"),
  (":path", "/"),
  (":path", "/index.html"),
  (":scheme", "http"),
  (":scheme", "https"),
  (":status", "200"),
  (":status", "204"),
  (":status", "206"),
  (":status", "304"),
  (":status", "400"),
  (":status", "404"),
  (":status", "500"),
  ("accept-charset", ""),
  ("accept-encoding", "gzip, deflate"),
  ("accept-language", ""),
  ("accept-ranges", ""),
  ("accept", ""),
  ("access-control-allow-origin", ""),
  ("age", ""),
  ("allow", ""),
  ("authorization", ""),
  ("cache-control", ""),
  ("content-disposition", ""),
  ("content-encoding", ""),
  ("content-language", ""),
  ("content-length", ""),
  ("content-location", ""),
  ("content-range", ""),
  ("content-type", ""),
  ("cookie", ""),
  ("date", ""),
  ("etag", ""),
  ("expect", ""),
  ("expires", ""),
  ("from", ""),
  ("host", ""),
  ("if-match", ""),
  ("if-modified-since", ""),
  ("if-none-match", ""),
  ("if-range", ""),
  ("if-unmodified-since", ""),
  ("last-modified", ""),
  ("link", ""),
  ("location", ""),
  ("max-forwards", ""),
  ("proxy-authenticate", ""),
  ("proxy-authorization", ""),
  ("range", ""),
  ("referer", ""),
  ("refresh", ""),
  ("retry-after", ""),
  ("server", ""),
  ("set-cookie", ""),
  ("strict-transport-security", ""),
  ("transfer-encoding", ""),
  ("user-agent", ""),
  ("vary", ""),
  ("via", ""),
  ("www-authenticate", "")]

def strBytes (s : String) : Bytes := s.toUTF8.toList.map (·.toNat)

structure Field where
  name : Bytes
  value : Bytes
deriving Repr, DecidableEq

def staticTable : List Field := staticTableS.map fun p => ⟨strBytes p.1, strBytes p.2⟩

structure MetaCfg where
  maxList : Nat      -- Framer.MaxHeaderListSize (also the decoder's max string length)
  maxUri : Nat       -- Framer.MaxHeaderUriSize
deriving Repr

inductive MErr where
  | comp           -- ConnectionError{COMPRESSION_ERROR}
  | uri            -- maxHeaderUriSizeError  (returned as is: terminal)
  | hls            -- maxHeaderListSizeError (returned as is: terminal)
  | unsupported    -- outside the modelled HPACK sublanguage
deriving Repr, DecidableEq

inductive RS where
  | more | ok (s rest : Bytes) | strLen | unsup

/-- `Decoder.readString` -/
def readStr (maxStr : Nat) : Bytes → RS
  | [] => .more
  | b :: r =>
    if b ≥ 127 then .unsup
    else if maxStr != 0 && b > maxStr then .strLen
    else if r.length < b then .more
    else .ok (r.take b) (r.drop b)

inductive P1 where
  | more | field (f : Field) (rest : Bytes) | skip (rest : Bytes) | comp | unsup

/-- `Decoder.parseHeaderFieldRepr` on a non-empty buffer -/
def parseOne (maxStr : Nat) : Bytes → P1
  | [] => .more
  | b :: r =>
    if b ≥ 128 then
      let idx := b - 128
      if idx == 127 then .unsup
      else if idx == 0 || idx > 61 then .comp
      else match staticTable[idx - 1]? with
        | some f => .field f r
        | none => .comp
    else if b ≥ 64 then .unsup
    else if b ≥ 32 then (if b - 32 == 31 then .unsup else .skip r)
    else
      let nameIdx := b % 16
      if nameIdx == 15 then .unsup
      else
        let nm : RS :=
          if nameIdx > 0 then
            match staticTable[nameIdx - 1]? with
            | some f => .ok f.name r
            | none => .unsup
          else readStr maxStr r
        match nm with
        | .more => .more
        | .strLen => .comp
        | .unsup => .unsup
        | .ok name r1 =>
          match readStr maxStr r1 with
          | .more => .more
          | .strLen => .comp
          | .unsup => .unsup
          | .ok value r2 => .field ⟨name, value⟩ r2

def isTokenByte (b : Nat) : Bool :=
  (b == 33) || (35 ≤ b && b ≤ 39) || b == 42 || b == 43 || b == 45 || b == 46 || (48 ≤ b && b ≤ 57) ||
  (65 ≤ b && b ≤ 90) || (94 ≤ b && b ≤ 122) || b == 124 || b == 126

/-- `validHeaderFieldName` -/
def validName (n : Bytes) : Bool :=
  !n.isEmpty && n.all fun b => b < 127 && isTokenByte b && !(65 ≤ b && b ≤ 90)

/-- `validHeaderFieldValue` -/
def validValue (v : Bytes) : Bool := v.all fun b => !((b < 32 && b != 9) || b == 127)

def isPseudo (n : Bytes) : Bool := n.head? == some 58

/-- state of one `readMetaFrame` call (the closure variables of its emit function) -/
structure Emit where
  enabled : Bool
  sawRegular : Bool
  invalid : Bool
  remain : Nat
  fields : List Field      -- reversed
  truncated : Bool
deriving Repr

def Field.size (f : Field) : Nat := f.name.length + f.value.length + 32

/-- the emit function of readMetaFrame -/
def emit (cfg : MetaCfg) (e : Emit) (f : Field) : Except MErr Emit :=
  if f.name == strBytes ":path" && f.value.length > cfg.maxUri then .error .uri
  else
    let inv1 := e.invalid || !validValue f.value
    let ps := isPseudo f.name
    let inv2 := if ps then (inv1 || e.sawRegular) else (inv1 || !validName f.name)
    let saw := if ps then e.sawRegular else true
    if inv2 then .ok { e with invalid := true, sawRegular := saw, enabled := false }
    else if f.size > e.remain then .error .hls
    else .ok { e with sawRegular := saw, remain := e.remain - f.size, fields := f :: e.fields }

/-- `Decoder.Write` loop on `buf = saveBuf ++ fragment`: new saveBuf and emit state, or the error -/
def decodeLoop (cfg : MetaCfg) : Nat → Bytes → Emit → Except MErr (Bytes × Emit)
  | 0, _, _ => .error .unsupported
  | fuel + 1, buf, e =>
    if buf.isEmpty then .ok ([], e)
    else
      match parseOne cfg.maxList buf with
      | .more =>
        if cfg.maxList != 0 && buf.length > 2 * (cfg.maxList + 8) then .error .comp else .ok (buf, e)
      | .comp => .error .comp
      | .unsup => .error .unsupported
      | .skip rest => decodeLoop cfg fuel rest e
      | .field f rest =>
        if cfg.maxList != 0 && (f.name.length > cfg.maxList || f.value.length > cfg.maxList) then .error .comp
        else if e.enabled then
          match emit cfg e f with
          | .error x => .error x
          | .ok e' => decodeLoop cfg fuel rest e'
        else decodeLoop cfg fuel rest e

/-- `hdec.Write(frag)` -/
def hdecWrite (cfg : MetaCfg) (save : Bytes) (e : Emit) (frag : Bytes) : Except MErr (Bytes × Emit) :=
  if frag.isEmpty then .ok (save, e) else decodeLoop cfg (save.length + frag.length + 1) (save ++ frag) e

/-- `checkPseudos` on the accepted fields (in order) -/
def pseudoOK (fs : List Field) : Bool :=
  let pf := fs.takeWhile fun f => isPseudo f.name
  let req := [strBytes ":method", strBytes ":path", strBytes ":scheme", strBytes ":authority"]
  let known := pf.all fun f => req.contains f.name || f.name == strBytes ":status"
  let nodup := (pf.map (·.name)).eraseDups.length == pf.length
  let isReq := pf.any fun f => req.contains f.name
  let isResp := pf.any fun f => f.name == strBytes ":status"
  known && nodup && !(isReq && isResp)

/-- what ReadFrame returns in meta mode -/
inductive MRes where
  | frame (f : Frame)                                        -- any non-HEADERS frame
  | mh (fh : FH) (pr : Prio) (fields : List Field) (truncated : Bool)
  | err (e : Err)
  | merr (e : MErr)
  | panic                                                     -- `f.(*ContinuationFrame)` on another frame type
deriving Repr

structure MFramer where
  fr : Framer
  save : Bytes          -- the decoder's saveBuf (survives an abandoned header block)
deriving Repr

/-- the loop of readMetaFrame: current fragment, END_HEADERS of the current frame -/
def metaLoop (cfg : MetaCfg) (fh0 : FH) (pr : Prio) :
    Nat → MFramer → Emit → Bytes → Bool → Bytes → MRes × MFramer × Bytes
  | 0, mf, _, _, _, inp => (.merr .unsupported, mf, inp)
  | fuel + 1, mf, e, frag, ended, inp =>
    match hdecWrite cfg mf.save e frag with
    | .error x => (.merr x, { mf with save := [] }, inp)
    | .ok (save, e') =>
      let mf1 := { mf with save := save }
      if ended then
        -- hdec.Close(), invalid, checkPseudos
        if !save.isEmpty then (.merr .comp, { mf1 with save := [] }, inp)
        else if e'.invalid then (.err (.stream fh0.sid cProtocol), mf1, inp)
        else if !pseudoOK e'.fields.reverse then (.err (.stream fh0.sid cProtocol), mf1, inp)
        else (.mh fh0 pr e'.fields.reverse e'.truncated, mf1, inp)
      else
        match readFrame mf1.fr inp with
        | (.error x, fr', rest) => (.err x, { mf1 with fr := fr' }, rest)
        | (.ok (.continuation fh frag'), fr', rest) =>
          metaLoop cfg fh0 pr fuel { mf1 with fr := fr' } e' frag' (hasFlag fh.flags 4) rest
        | (.ok _, fr', rest) => (.panic, { mf1 with fr := fr' }, rest)

/-- `Framer.ReadFrame` with ReadMetaHeaders set -/
def readFrameM (cfg : MetaCfg) (mf : MFramer) (inp : Bytes) : MRes × MFramer × Bytes :=
  match readFrame mf.fr inp with
  | (.error e, fr', rest) => (.err e, { mf with fr := fr' }, rest)
  | (.ok (.headers fh pr frag), fr', rest) =>
    let e0 : Emit := ⟨true, false, false, (if cfg.maxList == 0 then 1048576 else cfg.maxList), [], false⟩
    metaLoop cfg fh pr (rest.length + 2) { mf with fr := fr' } e0 frag (hasFlag fh.flags 4) rest
  | (.ok f, fr', rest) => (.frame f, { mf with fr := fr' }, rest)

def mterminal : MRes → Bool
  | .err e => terminal e
  | .merr _ => true
  | .panic => true
  | .frame f => (postCheck f).isSome
  | .mh .. => false

def readAllM (cfg : MetaCfg) : Nat → MFramer → Bytes → List MRes
  | 0, _, _ => []
  | fuel + 1, mf, inp =>
    match readFrameM cfg mf inp with
    | (r, mf', rest) => if mterminal r then [r] else r :: readAllM cfg fuel mf' rest

end BfeVerif.C32
