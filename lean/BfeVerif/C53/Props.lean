import BfeVerif.C53.Proofs
/-! C53 — property theorems (rate limiting jails keys after the threshold). -/
namespace BfeVerif.C53

/-- Other keys are unaffected: one `recordAndCheck` call for key `k'`, with ARBITRARY clock reads,
    leaves what both dictionaries say about any other key `k` unchanged — unless the call's LRU
    insertions evicted `k` (the stated capacity hypothesis). -/
theorem C53_other_keys (c : Cfg) (s : St) (rd : Nat → Nat) (k k' : Key) (h : k' ≠ k)
    (hev : k ∉ (recordAndCheck c s k' rd).ev) :
    view (recordAndCheck c s k' rd).st k = view s k :=
  recordAndCheck_frame c s rd h hev

end BfeVerif.C53
