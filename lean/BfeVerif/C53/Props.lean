import BfeVerif.C53.Proofs
/-! C53 — property theorems (rate limiting jails keys after the threshold). -/
namespace BfeVerif.C53

/-- Other keys are unaffected: one `recordAndCheck` call for key `k'`, with ARBITRARY clock reads,
    leaves what both dictionaries say about any other key `k` unchanged — unless the call's LRU
    insertions evicted `k` (the stated capacity hypothesis). -/
theorem C53_other_keys (c : Cfg) (s : St) (rd : Nat → Nat) (k k' : Key) (h : k' ≠ k)
    (hev : k ∉ (recordAndCheck c s k' rd).ev) :
    view (recordAndCheck c s k' rd).st k = view s k :=
  recordAndCheck_frame c s rd h hev

/-- Jail, step level (partial: one call, not a whole history).  While the prison dictionary holds a
    free time `ft` for `k`, a request of `k` whose (first) clock read is before `ft` is denied, for
    ARBITRARY later reads, evicts nothing and leaves the record of `k` as it is. -/
theorem C53_jail_partial (c : Cfg) (s : St) (k : Key) (rd : Nat → Nat) (ft : Nat)
    (h : dfind s.prison k = some ft) (ht : rd 0 < ft) :
    (recordAndCheck c s k rd).deny = true ∧ (recordAndCheck c s k rd).ev = [] ∧
    dfind (recordAndCheck c s k rd).st.prison k = some ft ∧
    (recordAndCheck c s k rd).st.access = s.access := by
  unfold recordAndCheck shouldDeny
  simp [h, ht, dfind]

/-- After the free time (first clock read ≥ ft) the record is removed by the first `shouldDeny`:
    the verdict is then the one of `recordAccess` on a state without a prison record for `k`. -/
theorem C53_release_partial (c : Cfg) (s : St) (k : Key) (rd : Nat → Nat) (ft : Nat)
    (h : dfind s.prison k = some ft) (ht : ft ≤ rd 0) :
    (shouldDeny rd { access := s.access, prison := s.prison } k).1 = false ∧
    dfind (shouldDeny rd { access := s.access, prison := s.prison } k).2.prison k = none := by
  unfold shouldDeny
  have : ¬ rd 0 < ft := by omega
  simp [h, this, dfind, dfind_ddel_self]

example : (recordAndCheck ⟨10, 5, 1, 4, 4⟩ ⟨[], [(7, 100)]⟩ 7 (fun _ => 50)).deny = true := by decide
example : (recordAndCheck ⟨10, 5, 1, 4, 4⟩ ⟨[], [(7, 100)]⟩ 7 (fun _ => 100)).deny = false := by decide
/-- threshold 1: second hit inside the window is jailed until start + cp + stay = 0 + 10 + 5 -/
example : (recordAndCheck ⟨10, 5, 1, 4, 4⟩ ⟨[(7, ⟨1, 0⟩)], []⟩ 7 (fun _ => 3)).st.prison = [(7, 15)] := by decide

end BfeVerif.C53
