import BfeVerif.C53.Proofs
/-! C53 — property theorems (rate limiting jails keys after the threshold). -/
namespace BfeVerif.C53

/-- Other keys are unaffected: one `recordAndCheck` call for key `k'`, with ARBITRARY clock reads,
    leaves what both dictionaries say about any other key `k` unchanged — unless the call's LRU
    insertions evicted `k` (the stated capacity hypothesis). -/
theorem C53_other_keys (c : Cfg) (s : St) (rd : Nat → Nat) (k k' : Key) (h : k' ≠ k)
    (hev : k ∉ (recordAndCheck c s k' rd).ev) :
    view (recordAndCheck c s k' rd).st k = view s k :=
  recordAndCheck_frame c s rd h hev

/-- Jail, step level (one call, arbitrary clock reads).  While the prison dictionary holds a
    free time `ft` for `k`, a request of `k` whose (first) clock read is before `ft` is denied, for
    ARBITRARY later reads, evicts nothing and leaves the record of `k` as it is. -/
theorem C53_jail_step (c : Cfg) (s : St) (k : Key) (rd : Nat → Nat) (ft : Nat)
    (h : dfind s.prison k = some ft) (ht : rd 0 < ft) :
    (recordAndCheck c s k rd).deny = true ∧ (recordAndCheck c s k rd).ev = [] ∧
    dfind (recordAndCheck c s k rd).st.prison k = some ft ∧
    (recordAndCheck c s k rd).st.access = s.access := by
  unfold recordAndCheck shouldDeny
  simp [h, ht, dfind]

/-- After the free time (first clock read ≥ ft) the record is removed by the first `shouldDeny`:
    the verdict is then the one of `recordAccess` on a state without a prison record for `k`. -/
theorem C53_release_step (c : Cfg) (s : St) (k : Key) (rd : Nat → Nat) (ft : Nat)
    (h : dfind s.prison k = some ft) (ht : ft ≤ rd 0) :
    (shouldDeny rd { access := s.access, prison := s.prison } k).1 = false ∧
    dfind (shouldDeny rd { access := s.access, prison := s.prison } k).2.prison k = none := by
  unfold shouldDeny
  have : ¬ rd 0 < ft := by omega
  simp [h, this, dfind, dfind_ddel_self]

example : (recordAndCheck ⟨10, 5, 1, 4, 4⟩ ⟨[], [(7, 100)]⟩ 7 (fun _ => 50)).deny = true := by decide
example : (recordAndCheck ⟨10, 5, 1, 4, 4⟩ ⟨[], [(7, 100)]⟩ 7 (fun _ => 100)).deny = false := by decide
/-- threshold 1: second hit inside the window is jailed until start + cp + stay = 0 + 10 + 5 -/
example : (recordAndCheck ⟨10, 5, 1, 4, 4⟩ ⟨[(7, ⟨1, 0⟩)], []⟩ 7 (fun _ => 3)).st.prison = [(7, 15)] := by decide

/-! ## History level

`inst h` is a history of calls `(key, t)` in which all clock reads of one call return the same
value `t` (an "instantaneous" call; in reality the reads of one call differ by its duration, a few
microseconds — the theorems that need this idealisation carry the suffix `_partial`).
`kTimes k h` / `kVerdicts k h vs` project a history / its verdicts to the requests of key `k`.
The ideal limiter `specStep` / `specRun` handles ONE key and knows nothing about dictionaries. -/

/-- Other keys, history level, ARBITRARY clock reads: a whole history of requests of other keys
    leaves the dictionaries' entries of `k` unchanged, provided `k` was not evicted. -/
theorem C53_other_keys_history (c : Cfg) (k : Key) (es : List Event) (s : St)
    (hne : ∀ e ∈ es, e.1 ≠ k) (hev : k ∉ (runHist c s es).2.2) :
    view (runHist c s es).2.1 k = view s k :=
  other_keys_hist c k es s hne hev

/-- **Refinement.**  For every history of instantaneous calls with all keys interleaved and every key
    `k` that is never evicted from an LRU dictionary: the verdicts given to `k`'s requests are exactly
    those of the ideal one-key fixed-window limiter run on the times of `k`'s requests alone — in
    particular they do not depend on the other keys' requests at all — and the abstraction relation
    between the dictionaries' entries for `k` and the ideal state is maintained. -/
theorem C53_refines_spec_partial (c : Cfg) (k : Key) (h : List (Key × Nat)) (s : St) (ks : KS)
    (hR : Rel (view s k) ks) (hev : k ∉ (runHist c s (inst h)).2.2) :
    kVerdicts k h (runHist c s (inst h)).1 = (specRun c ks (kTimes k h)).1 ∧
    Rel (view (runHist c s (inst h)).2.1 k) (specRun c ks (kTimes k h)).2 :=
  hist_refines c k h s ks hR hev

/-- Jail, ideal machine.  `pre` are Threshold requests and `tl` one more, all inside the counting
    window opened by the first of them (`t0`, window `[t0, t0+cp]`): the first Threshold requests are
    allowed, request Threshold+1 is denied and so is every later request before the free time
    `t0 + cp + stay`; the state is then still "jailed until t0+cp+stay". -/
theorem C53_spec_jail (c : Cfg) (pre : List Nat) (tl : Nat) (later : List Nat)
    (hlen : pre.length = c.th)
    (hwin : ∀ x ∈ pre ++ [tl], x ≤ (pre ++ [tl]).headD 0 + c.cp)
    (hfree : tl < (pre ++ [tl]).headD 0 + c.cp + c.stay)
    (hlater : ∀ x ∈ later, x < (pre ++ [tl]).headD 0 + c.cp + c.stay) :
    specRun c .idle (pre ++ tl :: later) =
      (List.replicate c.th false ++ true :: List.replicate later.length true,
       .jailed ((pre ++ [tl]).headD 0 + c.cp + c.stay)) := by
  cases pre with
  | nil =>
    simp only [List.length_nil] at hlen
    simp only [List.nil_append, List.headD_cons] at hwin hfree hlater ⊢
    have hj := jailed_phase c (tl + c.cp + c.stay) later hlater
    have hstep : specStep c .idle tl = (true, .jailed (tl + c.cp + c.stay)) := by
      simp [specStep, specCount, ← hlen, hfree]
    simp [specRun, hstep, hj, ← hlen]
  | cons t0 pre' =>
    simp only [List.cons_append, List.headD_cons] at hwin hfree hlater ⊢
    simp only [List.length_cons] at hlen
    have h1 : ¬ 0 + 1 > c.th := by omega
    have hstep0 : specStep c .idle t0 = (false, .counting t0 1) := by
      simp [specStep, specCount]; omega
    have hcp := count_phase c t0 pre' 1 (fun x hx => hwin x (by simp [hx])) (by omega)
    have htl : tl ≤ t0 + c.cp := hwin tl (by simp)
    have hstep1 : specStep c (.counting t0 (1 + pre'.length)) tl = (true, .jailed (t0 + c.cp + c.stay)) := by
      have : ¬ t0 + c.cp < tl := by omega
      have h2 : 1 + pre'.length + 1 > c.th := by omega
      simp [specStep, specCount, this, h2, hfree]
    have hj := jailed_phase c (t0 + c.cp + c.stay) later hlater
    rw [show t0 :: (pre' ++ tl :: later) = [t0] ++ (pre' ++ (tl :: later)) from rfl]
    rw [specRun_append, specRun_append]
    simp only [specRun, hstep0, hcp, hstep1, hj, ← hlen]
    simp [List.replicate_succ]

/-- Release, ideal machine: the first request at or after the free time is counted as the first
    request of a new window (and therefore allowed when Threshold ≥ 1). -/
theorem C53_spec_release (c : Cfg) (u t : Nat) (hu : u ≤ t) (hth : 1 ≤ c.th) :
    specStep c (.jailed u) t = (false, .counting t 1) := by
  have h1 : ¬ t < u := by omega
  have h2 : ¬ 0 + 1 > c.th := by omega
  simp [specStep, specCount, h1]; omega

/-- Below the threshold, ideal machine: if the request times are non-decreasing and NO interval
    `[s, s+cp]` contains more than Threshold of them, no request is ever denied. -/
theorem C53_spec_below_never (c : Cfg) (ts : List Nat) (hs : List.Pairwise (· ≤ ·) ts)
    (hH : ∀ s, (ts.filter (fun x => decide (s ≤ x) && decide (x ≤ s + c.cp))).length ≤ c.th) :
    (specRun c .idle ts).1 = List.replicate ts.length false := by
  cases ts with
  | nil => simp [specRun]
  | cons t r =>
    have hp := List.pairwise_cons.mp hs
    have hge : ∀ x ∈ t :: r, t ≤ x := by
      intro x hx
      rcases List.mem_cons.mp hx with h | h
      · omega
      · exact hp.1 x h
    have hcongr : (t :: r).filter (fun x => decide (t ≤ x) && decide (x ≤ t + c.cp)) =
        (t :: r).filter (fun x => decide (x ≤ t + c.cp)) := by
      apply List.filter_congr
      intro x hx
      simp [hge x hx]
    have h0 := hH t
    rw [hcongr] at h0
    have := below_never_aux c (t :: r) t 0 hs hge hH (by omega)
    simp only [specRun] at this ⊢
    rw [specStep_idle_eq]
    exact this

/-- **Jail, model, history level.**  Arbitrary interleaving with other keys; `k` has no counter and no
    prison record initially and is never evicted.  If `k`'s requests are `pre` (Threshold many), `tl`,
    `later` as in `C53_spec_jail`, then exactly the first Threshold requests of `k` are allowed and all
    others — from request Threshold+1 until the free time — are denied, and afterwards the prison
    dictionary holds the free time `t0 + cp + stay` for `k` (and no counter). -/
theorem C53_jail_partial (c : Cfg) (k : Key) (h : List (Key × Nat)) (s : St)
    (hfresh : view s k = (none, none)) (hev : k ∉ (runHist c s (inst h)).2.2)
    (pre : List Nat) (tl : Nat) (later : List Nat) (hk : kTimes k h = pre ++ tl :: later)
    (hlen : pre.length = c.th)
    (hwin : ∀ x ∈ pre ++ [tl], x ≤ (pre ++ [tl]).headD 0 + c.cp)
    (hfree : tl < (pre ++ [tl]).headD 0 + c.cp + c.stay)
    (hlater : ∀ x ∈ later, x < (pre ++ [tl]).headD 0 + c.cp + c.stay) :
    kVerdicts k h (runHist c s (inst h)).1 =
      List.replicate c.th false ++ true :: List.replicate later.length true ∧
    view (runHist c s (inst h)).2.1 k = (none, some ((pre ++ [tl]).headD 0 + c.cp + c.stay)) := by
  have hr := C53_refines_spec_partial c k h s .idle hfresh hev
  rw [hk, C53_spec_jail c pre tl later hlen hwin hfree hlater] at hr
  exact ⟨hr.1, hr.2⟩

/-- **Allowed after the free time, model.**  A jailed key (prison record `u`, no counter) whose request
    comes at or after `u` is allowed (Threshold ≥ 1) and starts a new counting window. -/
theorem C53_release_partial (c : Cfg) (s : St) (k : Key) (t u : Nat)
    (hj : view s k = (none, some u)) (hu : u ≤ t) (hth : 1 ≤ c.th)
    (hev : k ∉ (recordAndCheck c s k (fun _ => t)).ev) :
    (recordAndCheck c s k (fun _ => t)).deny = false ∧
    view (recordAndCheck c s k (fun _ => t)).st k = (some ⟨1, t⟩, none) := by
  have hs := step_refines c s k t (.jailed u) hj hev
  rw [C53_spec_release c u t hu hth] at hs
  exact ⟨hs.1, hs.2.1⟩

/-- **Below the threshold, model, history level.**  Arbitrary interleaving with other keys; `k` fresh
    and never evicted; if `k`'s request times are non-decreasing and no interval `[s, s+cp]` contains
    more than Threshold of them, none of `k`'s requests is denied. -/
theorem C53_below_never_partial (c : Cfg) (k : Key) (h : List (Key × Nat)) (s : St)
    (hfresh : view s k = (none, none)) (hev : k ∉ (runHist c s (inst h)).2.2)
    (hs : List.Pairwise (· ≤ ·) (kTimes k h))
    (hH : ∀ s', ((kTimes k h).filter (fun x => decide (s' ≤ x) && decide (x ≤ s' + c.cp))).length ≤ c.th) :
    kVerdicts k h (runHist c s (inst h)).1 = List.replicate (kTimes k h).length false := by
  have hr := C53_refines_spec_partial c k h s .idle hfresh hev
  rw [hr.1]
  exact C53_spec_below_never c (kTimes k h) hs hH

/-! non-vacuity: cp 10, stay 5, threshold 2, capacities 4; keys 7 and 8 interleaved -/
def cEx : Cfg := ⟨10, 5, 2, 4, 4⟩
def hEx : List (Key × Nat) := [(7, 0), (8, 1), (7, 3), (8, 4), (7, 9), (7, 12), (8, 13), (7, 14)]

/-- the hypotheses of C53_jail_partial hold for key 7 (pre = [0,3], tl = 9, later = [12,14], free time 15) -/
example : kVerdicts 7 hEx (runHist cEx {} (inst hEx)).1 = [false, false, true, true, true] ∧
    view (runHist cEx {} (inst hEx)).2.1 7 = (none, some 15) :=
  C53_jail_partial cEx 7 hEx {} rfl (by decide) [0, 3] 9 [12, 14] (by decide) rfl
    (by decide) (by decide) (by decide)

/-- key 8 of the same history stays below the threshold (C53_below_never_partial applies) -/
example : kVerdicts 8 hEx (runHist cEx {} (inst hEx)).1 = [false, false, false] :=
  C53_below_never_partial cEx 8 hEx {} rfl (by decide) (by decide) (by
    intro s'
    by_cases hs : s' < 14
    · exact (by decide : ∀ s' < 14,
        ((kTimes 8 hEx).filter (fun x => decide (s' ≤ x) && decide (x ≤ s' + cEx.cp))).length ≤ cEx.th) s' hs
    · have : (kTimes 8 hEx).filter (fun x => decide (s' ≤ x) && decide (x ≤ s' + cEx.cp)) = [] := by
        rw [List.filter_eq_nil_iff]
        intro x hx
        simp [kTimes, hEx] at hx
        simp
        omega
      rw [this]; simp)

/-- release: after the free time 15 key 7 is allowed again -/
example : (recordAndCheck cEx ⟨[], [(7, 15)]⟩ 7 (fun _ => 15)).deny = false :=
  (C53_release_partial cEx ⟨[], [(7, 15)]⟩ 7 15 15 rfl (by decide) (by decide) (by decide)).1

/-- the instantaneous-call idealisation matters only by the duration of the triggering call: with
    distinct reads the stored free time is later by (third read − first read of IncAndCheck) -/
example : (recordAndCheck cEx ⟨[(7, ⟨2, 0⟩)], []⟩ 7 (fun j => 9 + j)).st.prison = [(7, 16)] := by decide

/-! ## Module level: reload histories, several rules per request -/

/-- A rejected rule file changes nothing (the old table, with all its dictionaries, stays in use). -/
theorem C53_reload_rejected (sc : Nat) (tb : Table) (wf : Bool) (conf : List (Nat × List RuleSpec))
    (h : confValid wf conf = false) : reload sc tb wf conf = tb := by
  simp [reload, h]

/-- The table after an accepted reload depends only on the accepted file and, per rule of that file, on
    the old rule with the SAME product and the SAME name: nothing else of the old table can leak. -/
theorem C53_reload_depends_on_named_state (sc : Nat) (tb1 tb2 : Table) (wf : Bool)
    (conf : List (Nat × List RuleSpec)) (hv : confValid wf conf = true)
    (h : ∀ p n, oldRule tb1 p n = oldRule tb2 p n) :
    reload sc tb1 wf conf = reload sc tb2 wf conf := by
  simp only [reload, hv, if_true, h]

/-- Fresh start: after an accepted reload every rule whose (product, name) did not exist before has
    empty dictionaries — a renamed rule, a rule moved to another product or a new rule inherits nothing,
    whatever other rules had counted or jailed. -/
theorem C53_reload_fresh (sc : Nat) (tb : Table) (wf : Bool) (conf : List (Nat × List RuleSpec))
    (hv : confValid wf conf = true) (pr : Nat × List RuleM) (hpr : pr ∈ reload sc tb wf conf)
    (r : RuleM) (hr : r ∈ pr.2) (hnew : oldRule tb pr.1 r.name = none) :
    r.st.access = [] ∧ r.st.prison = [] := by
  simp only [reload, hv, if_true, List.mem_map] at hpr
  obtain ⟨pc, _, rfl⟩ := hpr
  simp only [List.mem_map] at hr
  obtain ⟨sp, _, rfl⟩ := hr
  have hn : (mkRule sc (oldRule tb pc.1 sp.name) sp).name = sp.name := rfl
  rw [hn] at hnew
  simp [mkRule, hnew]

/-- Kept rule: a rule whose (product, name) existed takes over exactly that rule's dictionaries, and its
    capacities never shrink. -/
theorem C53_reload_kept (sc : Nat) (o : RuleM) (sp : RuleSpec) :
    (mkRule sc (some o) sp).st = o.st ∧ o.acap ≤ (mkRule sc (some o) sp).acap ∧
    o.pcap ≤ (mkRule sc (some o) sp).pcap := by
  refine ⟨rfl, ?_, ?_⟩
  · simp only [mkRule]; split <;> omega
  · simp only [mkRule]; split <;> omega

/-- A request that no rule can sign (signed header / cookie / query / url pattern missing) or that
    matches no rule's condition is neither counted nor denied by any rule. -/
theorem C53_unsignable_not_counted (q : ReqM) (rs : List RuleM)
    (h : ∀ r ∈ rs, (r.needSel && !q.sel) = true ∨ q.key r.sign r.needSel = none) :
    (processRules q rs).stopped = false ∧ (processRules q rs).denied = [] ∧ (processRules q rs).rules = rs := by
  induction rs with
  | nil => simp [processRules]
  | cons r rs ih =>
    have ih' := ih (fun x hx => h x (List.mem_cons_of_mem _ hx))
    rcases h r (List.mem_cons_self) with h1 | h1
    · simp only [processRules, h1, if_true]
      exact ⟨ih'.1, ih'.2.1, by rw [ih'.2.2]⟩
    · by_cases h0 : (r.needSel && !q.sel) = true
      · simp only [processRules, h0, if_true]
        exact ⟨ih'.1, ih'.2.1, by rw [ih'.2.2]⟩
      · simp only [processRules, h0, h1]
        exact ⟨ih'.1, ih'.2.1, by rw [ih'.2.2]; simp⟩

/-! exact boundaries (cp 10, stay 5, threshold 2): a hit exactly at the window end `start + cp` is still
    counted in the window (the reset test is `start + cp < now`), one tick later it opens a new window;
    a request exactly at the free time is released (`now < freeTime` is false) -/
example : (recordAndCheck cEx ⟨[(7, ⟨2, 0⟩)], []⟩ 7 (fun _ => 10)).deny = true := by decide
example : (recordAndCheck cEx ⟨[(7, ⟨2, 0⟩)], []⟩ 7 (fun _ => 11)).deny = false := by decide
example : (recordAndCheck cEx ⟨[], [(7, 15)]⟩ 7 (fun _ => 14)).deny = true := by decide
example : (recordAndCheck cEx ⟨[], [(7, 15)]⟩ 7 (fun _ => 15)).deny = false := by decide
/-- threshold 0 with stay 0: the hit at the very end of its own window is jailed for zero time -/
example : (recordAndCheck ⟨10, 0, 0, 4, 4⟩ ⟨[], []⟩ 7 (fun _ => 3)).deny = true := by decide
/-- LRU at capacity: with prison capacity 1, jailing key 8 evicts the jailed key 7 (reported in `ev`) -/
example : (recordAndCheck ⟨10, 5, 0, 4, 1⟩ ⟨[], [(7, 100)]⟩ 8 (fun _ => 3)).ev = [7] := by decide

end BfeVerif.C53
