import BfeVerif.Common.Proto
import BfeVerif.C53.Model
/-!
  C53 driver.
  op   = `cp=<ms>;stay=<ms>;th=<n>;ac=<n>;pc=<n>;ev=<key>@<planned ms>,...`   (one rule, one timed history)
  impl = `v=<0/1 per event>;len=<access>,<prison>;t=<b>-<a>,...`   b/a = UnixNano before/after each real
         recordAndCheck call, relative to the start of the case (MEASURED, not the planned schedule).
  The model is run with every clock read of call i set to b_i.  The real reads lie in [b_i,a_i]; any stored
  time is built from at most 3 reads, so both sides of a comparison are off by at most 4·W (W = max a_i-b_i)
  in total: if every comparison made by the model and by the spec has |lhs-rhs| > 4W+2µs the real run took
  the same branches.  Otherwise the case is `skip` (tag `jitter`): no verdict depends on timing jitter.
-/
namespace BfeVerif.C53
open BfeVerif.Proto

def parseKV (s : String) : List (String × String) :=
  (s.splitOn ";").filterMap fun f =>
    match f.splitOn "=" with
    | [a, b] => some (a, b)
    | _ => none

def look (kv : List (String × String)) (k : String) : Option String :=
  (kv.find? (·.1 == k)).map (·.2)

def lookNat (kv : List (String × String)) (k : String) : Option Nat :=
  (look kv k).bind String.toNat?

def parseEvents (s : String) : Option (List (Nat × Nat)) :=
  if s == "-" then some [] else
  (s.splitOn ",").mapM fun f =>
    match f.splitOn "@" with
    | [a, b] => do let k ← a.toNat?; let t ← b.toNat?; pure (k, t)
    | _ => none

def parseTimes (s : String) : Option (List (Nat × Nat)) :=
  if s == "-" then some [] else
  (s.splitOn ",").mapM fun f =>
    match f.splitOn "-" with
    | [a, b] => do let x ← a.toNat?; let y ← b.toNat?; pure (x, y)
    | _ => none

def bits (l : List Bool) : String := String.ofList (l.map fun b => if b then '1' else '0')

/-- run the model, also collecting comparisons -/
def runC (c : Cfg) : St → List (Key × Nat) → List Bool × St × List Key × List (Nat × Nat)
  | s, [] => ([], s, [], [])
  | s, (k, t) :: es =>
    let o := recordAndCheck c s k (fun _ => t)
    let r := runC c o.st es
    (o.deny :: r.1, r.2.1, o.ev ++ r.2.2.1, o.cmps ++ r.2.2.2)

/-- comparisons the ideal machine makes at one step -/
def specCmps (c : Cfg) (ks : KS) (t : Nat) : List (Nat × Nat) :=
  match ks with
  | .jailed u => [(t, u)] ++ (if t < u then [] else if 1 > c.th then [(t, t + c.cp + c.stay)] else [])
  | .idle => if 1 > c.th then [(t, t + c.cp + c.stay)] else []
  | .counting s n =>
    let sn : Nat × Nat := if s + c.cp < t then (t, 0) else (s, n)
    [(s + c.cp, t)] ++ (if sn.2 + 1 > c.th then [(t, sn.1 + c.cp + c.stay)] else [])

/-- ideal verdicts for one key with failure classes when the implementation bit differs -/
def specCheck (c : Cfg) : KS → List (Nat × Bool) → List (Nat × Nat) × Option String
  | _, [] => ([], none)
  | ks, (t, implDeny) :: es =>
    let r := specStep c ks t
    let cm := specCmps c ks t
    if r.1 != implDeny then
      let cls :=
        if implDeny then "deny-without-jail"
        else match ks with
          | .jailed u => if t < u then "released-early" else "no-jail-at-threshold"
          | _ => "no-jail-at-threshold"
      (cm, some cls)
    else
      let q := specCheck c r.2 es
      (cm ++ q.1, q.2)

def absDiff (a b : Nat) : Nat := if a < b then b - a else a - b

def dedup (l : List Nat) : List Nat := l.foldl (fun acc x => if acc.contains x then acc else acc ++ [x]) []

def dedupS (l : List String) : List String := l.foldl (fun acc x => if acc.contains x then acc else acc ++ [x]) []

def runR (op impl : String) : Ans :=
  let kv := parseKV op
  match lookNat kv "cp", lookNat kv "stay", lookNat kv "th", lookNat kv "ac", lookNat kv "pc",
        (look kv "ev").bind parseEvents with
  | some cp, some stay, some th, some ac, some pc, some evs =>
    let c : Cfg := { cp := cp * 1000000, stay := stay * 1000000, th := th, acap := ac, pcap := pc }
    let ikv := parseKV impl
    match look ikv "v", look ikv "len", (look ikv "t").bind parseTimes with
    | some iv, some _, some ts =>
      if ts.length != evs.length || iv.length != evs.length then
        { model := "impl-shape", verdict := "ok" }
      else
        let tstr := (look ikv "t").getD ""
        let hist : List (Key × Nat) := (evs.zip ts).map fun (e, t) => (e.1, t.1)
        let maxW := ts.foldl (fun m t => max m (t.2 - t.1)) 0
        let slack := 4 * maxW + 2000
        let r := runC c {} hist
        let ibits := iv.toList.map (· == '1')
        let keys := dedup (evs.map (·.1))
        let evicted := r.2.2.1
        -- spec oracle per key that was never evicted
        let per := keys.filter (fun k => !evicted.contains k) |>.map fun k =>
          specCheck c .idle (((hist.zip ibits).filter (fun x => x.1.1 == k)).map fun x => (x.1.2, x.2))
        let scm := per.foldl (fun acc p => acc ++ p.1) []
        let sfail := per.findSome? (·.2)
        let allc := r.2.2.2 ++ scm
        let tight := allc.any fun p => absDiff p.1 p.2 ≤ slack
        let nden := (r.1.filter id).length
        let tags :=
          (if nden > 0 then ["nt", "jail"] else ["nojail"]) ++
          (if evicted.isEmpty then [] else ["evict"]) ++
          (if keys.length > 1 then ["multikey"] else []) ++
          (if th == 0 then ["th0"] else []) ++ (if stay == 0 then ["stay0"] else []) ++
          (if nden > 0 && r.1.getLast? == some false then ["endfree"] else [])
        if tight then
          { model := impl, verdict := "skip", tags := ["jitter"] }
        else
          { model := "v=" ++ bits r.1 ++ ";len=" ++ toString r.2.1.access.length ++ "," ++
                     toString r.2.1.prison.length ++ ";t=" ++ tstr
            verdict := match sfail with | some cls => "FAIL:" ++ cls | none => "ok"
            tags := tags }
    | _, _, _ => { model := "unparsable-impl", verdict := "ok" }
  | _, _, _, _, _, _ => { model := "bad-op", verdict := "skip" }

/-! ### `m` ops: module level with reload histories

  `m sc=<scale>;steps=<step>|<step>|...`
    load step    `L<w>~<prod>:<rule>+<rule>~<prod>:...`   w = 0 well-formed file, other letter = malformed kind
                 rule = `name.cp.stay.th.ac.pc.sel.stop.sign`  (seconds; stop 0 REQ_HEADER_SET, 1 CLOSE, 2 FINISH)
    request step `Q<ms>~<prod>~<sel>~<h>~<c>~<p>~<q1>~<q2>`    `-` = absent, `_` = empty value
  impl = `o=<outcome per step>;len=<prod/name:access:prison,...>;t=<b>-<a>,...` (t: request steps only)
  outcome: load `ok|err`; request `<G|C|F><names of REQ_HEADER_SET rules that denied, ascending, '.'-separated>` -/

structure RuleX where
  spec : RuleSpec
  stopc : Nat

def parseRuleX (s : String) : Option RuleX :=
  match s.splitOn "." with
  | [n, cp, st, th, ac, pc, sel, stop, sg] => do
    let n ← n.toNat?; let cp ← cp.toInt?; let st ← st.toInt?; let th ← th.toInt?
    let ac ← ac.toInt?; let pc ← pc.toInt?; let stop ← stop.toNat?; let sg ← sg.toNat?
    pure { spec := { name := n, cp := cp, stay := st, th := th, ac := ac, pc := pc,
                     needSel := sel == "1", stop := stop != 0, sign := sg }, stopc := stop }
  | _ => none

inductive MStep where
  | load (wf : Bool) (conf : List (Nat × List RuleX))
  | req (ms prod : Nat) (sel : Bool) (h c : String) (p : Nat) (q1 q2 : String)

def parseStep (s : String) : Option MStep :=
  if s.startsWith "L" then
    match ((s.drop 1).toString).splitOn "~" with
    | w :: prods => do
      let conf ← prods.mapM fun ps =>
        match ps.splitOn ":" with
        | [p, rs] => do
          let p ← p.toNat?
          let rules ← (if rs == "" then some [] else (rs.splitOn "+").mapM parseRuleX)
          pure (p, rules)
        | _ => none
      pure (.load (w == "0") conf)
    | _ => none
  else if s.startsWith "Q" then
    match ((s.drop 1).toString).splitOn "~" with
    | [ms, prod, sel, h, c, p, q1, q2] => do
      let ms ← ms.toNat?; let prod ← prod.toNat?; let p ← p.toNat?
      pure (.req ms prod (sel == "1") h c p q1 q2)
    | _ => none
  else none

/-- sub-expressions of `^/u/(\d+)/(\w+)` on the harness' path table -/
def pathKey : Nat → Option String
  | 0 => some "12,ab" | 1 => some "12,cd" | 2 => some "13,ab" | 4 => some "12,ab" | _ => none

def valOf (s : String) : String := if s == "_" then "" else s

/-- the signed data of the four AccessSignConf variants (none = Sign returns an error) -/
def keyStr (variant : Nat) (h c : String) (p : Nat) (q1 q2 : String) : Option String :=
  match variant with
  | 0 => if h == "-" || h == "_" then none else some ("0#" ++ h)
  | 1 => if h == "-" || h == "_" || c == "-" then none else some ("1#" ++ h ++ "&" ++ valOf c)
  | 2 => (pathKey p).map ("2#" ++ ·)
  | _ =>
    let v := (if q1 == "-" then "" else valOf q1) ++ (if q2 == "-" then "" else valOf q2)
    if v == "" then none else some ("3#" ++ v)

def idxOf (l : List String) (s : String) : Nat := (l.findIdx? (· == s)).getD l.length

def lookStop (conf : List (Nat × List RuleX)) (p n : Nat) : Nat :=
  match conf.find? (·.1 == p) with
  | some (_, rs) => ((rs.find? (·.spec.name == n)).map (·.stopc)).getD 0
  | none => 0

def sortNat (l : List Nat) : List Nat := l.foldl (fun acc x => (acc.filter (· < x)) ++ [x] ++ (acc.filter (· ≥ x))) []

def outcomeStr (stopped : Bool) (denied : List Nat) (stopc : Nat) : String :=
  let pass := if stopped then denied.dropLast else denied
  (if stopped then (if stopc == 2 then "F" else "C") else "G") ++ ".".intercalate ((sortNat (dedup pass)).map toString)

/-- ideal module: per (product, rule, key) the ideal one-key limiter, no dictionaries -/
structure IRule where
  x : RuleX
  cfg : Cfg
  ks : List (Key × KS) := []

def ksFind (l : List (Key × KS)) (k : Key) : KS := ((l.find? (·.1 == k)).map (·.2)).getD .idle
def ksSet (l : List (Key × KS)) (k : Key) (v : KS) : List (Key × KS) := (k, v) :: l.filter (·.1 != k)

def iProcess (keyOf : Nat → Bool → Option Key) (sel : Bool) (t : Nat) : List IRule → Bool × List Nat × List IRule × List (Nat × Nat)
  | [] => (false, [], [], [])
  | r :: rs =>
    if r.x.spec.needSel && !sel then
      let y := iProcess keyOf sel t rs; (y.1, y.2.1, r :: y.2.2.1, y.2.2.2)
    else match keyOf r.x.spec.sign r.x.spec.needSel with
      | none => let y := iProcess keyOf sel t rs; (y.1, y.2.1, r :: y.2.2.1, y.2.2.2)
      | some k =>
        let st := ksFind r.ks k
        let o := specStep r.cfg st t
        let cm := specCmps r.cfg st t
        let r' := { r with ks := ksSet r.ks k o.2 }
        if o.1 && r.x.spec.stop then (true, [r.x.spec.name], r' :: rs, cm)
        else
          let y := iProcess keyOf sel t rs
          (y.1, (if o.1 then [r.x.spec.name] else []) ++ y.2.1, r' :: y.2.2.1, cm ++ y.2.2.2)

structure MState where
  tb : Table := []
  conf : List (Nat × List RuleX) := []
  itb : List (Nat × List IRule) := []
  outs : List String := []      -- model outcomes (reverse order)
  iouts : List String := []     -- ideal outcomes (reverse order)
  cmps : List (Nat × Nat) := []
  evicted : Bool := false
  reloaded : Bool := false
  ri : Nat := 0                 -- index of the next request

def mStep (scale : Nat) (keys : List String) (times : List (Nat × Nat)) (ms : MState) : MStep → MState
  | .load wf conf =>
    let sconf := conf.map fun pr => (pr.1, pr.2.map (·.spec))
    if confValid wf sconf then
      let tb := reload scale ms.tb wf sconf
      let itb : List (Nat × List IRule) := conf.map fun pr =>
        (pr.1, pr.2.map fun x =>
          let old := ((ms.itb.find? (·.1 == pr.1)).bind fun o => o.2.find? (·.x.spec.name == x.spec.name))
          let r := mkRule scale none x.spec
          { x := x, cfg := r.cfg, ks := (old.map (·.ks)).getD [] })
      { ms with tb := tb, conf := conf, itb := itb, outs := "ok" :: ms.outs, iouts := "ok" :: ms.iouts,
                reloaded := !ms.tb.isEmpty || ms.reloaded }
    else { ms with outs := "err" :: ms.outs, iouts := "err" :: ms.iouts }
  | .req _ prod sel h c p q1 q2 =>
    let t := (times.getD ms.ri (0, 0)).1
    let keyOf : Nat → Bool → Option Key := fun v ns =>
      (keyStr v h c p q1 q2).map fun k => idxOf keys ((if ns then "S" else "T") ++ k)
    let q : ReqM := { product := prod, sel := sel, key := keyOf, t := t }
    let r := handle ms.tb q
    let stopc := if r.1.stopped then
        (let n := r.1.denied.getLast?.getD 0
         -- the stopping rule belongs to the global product if the global pass stopped, else to the request's
         let inGlobal := (onProduct ms.tb 0 q).1.stopped
         lookStop ms.conf (if inGlobal then 0 else prod) n) else 0
    -- ideal
    let ig := match ms.itb.find? (·.1 == 0) with
      | some (_, rs) => iProcess keyOf sel t rs
      | none => (false, [], [], [])
    let itb1 := ms.itb.map fun pr => if pr.1 == 0 && (ms.itb.find? (·.1 == 0)).isSome then (pr.1, ig.2.2.1) else pr
    let ip := if ig.1 then (false, [], [], []) else
      match itb1.find? (·.1 == prod) with
      | some (_, rs) => iProcess keyOf sel t rs
      | none => (false, [], [], [])
    let itb2 := if ig.1 then itb1 else
      itb1.map fun pr => if pr.1 == prod && (itb1.find? (·.1 == prod)).isSome then (pr.1, ip.2.2.1) else pr
    let istopped := ig.1 || ip.1
    let idenied := ig.2.1 ++ ip.2.1
    let istopc := if istopped then lookStop ms.conf (if ig.1 then 0 else prod) (idenied.getLast?.getD 0) else 0
    { ms with tb := r.2, itb := itb2,
              outs := outcomeStr r.1.stopped r.1.denied stopc :: ms.outs,
              iouts := outcomeStr istopped idenied istopc :: ms.iouts,
              cmps := r.1.cmps ++ ig.2.2.2 ++ ip.2.2.2 ++ ms.cmps,
              evicted := ms.evicted || !r.1.ev.isEmpty, ri := ms.ri + 1 }

def lensStr (tb : Table) : String :=
  let ents := tb.foldl (fun acc pr => acc ++ pr.2.map fun r => (pr.1, r.name, r.st.access.length, r.st.prison.length)) []
  let sorted := ents.foldl (fun acc e => (acc.filter fun x => x.1 < e.1 || (x.1 == e.1 && x.2.1 < e.2.1)) ++ [e] ++
                                         (acc.filter fun x => !(x.1 < e.1 || (x.1 == e.1 && x.2.1 < e.2.1)))) []
  if sorted.isEmpty then "-" else
  ",".intercalate (sorted.map fun e => toString e.1 ++ "/" ++ toString e.2.1 ++ ":" ++ toString e.2.2.1 ++ ":" ++ toString e.2.2.2)

def runM (op impl : String) : Ans :=
  let kv := parseKV op
  match lookNat kv "sc", (look kv "steps").bind (fun s => (s.splitOn "|").mapM parseStep) with
  | some sc, some steps =>
    let ikv := parseKV impl
    match look ikv "o", look ikv "len", (look ikv "t").bind parseTimes with
    | some io, some _, some ts =>
      let nreq := (steps.filter fun s => match s with | .req .. => true | _ => false).length
      if ts.length != nreq then { model := "impl-shape", verdict := "ok" } else
      let keys := dedupS (steps.foldl (fun acc s => match s with
        | .req _ _ _ h c p q1 q2 =>
          let ks := [0, 1, 2, 3].filterMap fun v => keyStr v h c p q1 q2
          acc ++ ks.map ("S" ++ ·) ++ ks.map ("T" ++ ·)
        | _ => acc) [])
      let fin := steps.foldl (mStep sc keys ts) {}
      let maxW := ts.foldl (fun m t => max m (t.2 - t.1)) 0
      let slack := 4 * maxW + 2000
      let tight := fin.cmps.any fun p => absDiff p.1 p.2 ≤ slack
      let mouts := ",".intercalate fin.outs.reverse
      let iouts := ",".intercalate fin.iouts.reverse
      let anyDeny := fin.outs.any fun o => o.startsWith "C" || o.startsWith "F" || (o.startsWith "G" && o.length > 1)
      let nload := (steps.filter fun s => match s with | .load .. => true | _ => false).length
      let tags := ["m"] ++ (if anyDeny then ["nt", "m-jail"] else []) ++ (if fin.reloaded then ["m-reload"] else []) ++
        (if fin.outs.contains "err" then ["m-rejected"] else []) ++ (if fin.evicted then ["m-evict"] else []) ++
        (if nload > 2 then ["m-multireload"] else [])
      if tight then { model := impl, verdict := "skip", tags := ["jitter"] }
      else
        let verdict :=
          if fin.evicted then "ok"            -- the ideal machine has no capacity: judged by correspondence only
          else if io == iouts then "ok"
          else
            -- first differing step
            let pairs := (io.splitOn ",").zip fin.iouts.reverse
            match pairs.find? (fun p => p.1 != p.2) with
            | some (a, b) =>
              let kind :=
                if a == "ok" || a == "err" || b == "ok" || b == "err" then "reload-verdict"
                else if a.length > b.length || (b.startsWith "G" && !a.startsWith "G") then "deny-without-jail"
                else if a.length < b.length || (a.startsWith "G" && !b.startsWith "G") then "no-jail"
                else "wrong-action-or-rule"
              "FAIL:module-" ++ kind ++ (if fin.reloaded then "-after-reload" else "")
            | none => "FAIL:module-outcome-count"
        { model := "o=" ++ mouts ++ ";len=" ++ lensStr fin.tb ++ ";t=" ++ (look ikv "t").getD "", verdict := verdict, tags := tags }
    | _, _, _ => { model := "unparsable-impl", verdict := "ok" }
  | _, _ => { model := "bad-op", verdict := "skip" }

def run (op impl : String) : Ans :=
  if op.startsWith "m " then runM (op.drop 2).toString impl else runR op impl

end BfeVerif.C53
