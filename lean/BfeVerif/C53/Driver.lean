import BfeVerif.Common.Proto
import BfeVerif.C53.Model
/-!
  C53 driver.
  op   = `cp=<ms>;stay=<ms>;th=<n>;ac=<n>;pc=<n>;ev=<key>@<planned ms>,...`   (one rule, one timed history)
  impl = `v=<0/1 per event>;len=<access>,<prison>;t=<b>-<a>,...`   b/a = UnixNano before/after each real
         recordAndCheck call, relative to the start of the case (MEASURED, not the planned schedule).
  The model is run with every clock read of call i set to b_i.  The real reads lie in [b_i,a_i]; any stored
  time is built from at most 3 reads, so both sides of a comparison are off by at most 4·W (W = max a_i-b_i)
  in total: if every comparison made by the model and by the spec has |lhs-rhs| > 4W+2µs the real run took
  the same branches.  Otherwise the case is `skip` (tag `jitter`): no verdict depends on timing jitter.
-/
namespace BfeVerif.C53
open BfeVerif.Proto

def parseKV (s : String) : List (String × String) :=
  (s.splitOn ";").filterMap fun f =>
    match f.splitOn "=" with
    | [a, b] => some (a, b)
    | _ => none

def look (kv : List (String × String)) (k : String) : Option String :=
  (kv.find? (·.1 == k)).map (·.2)

def lookNat (kv : List (String × String)) (k : String) : Option Nat :=
  (look kv k).bind String.toNat?

def parseEvents (s : String) : Option (List (Nat × Nat)) :=
  if s == "-" then some [] else
  (s.splitOn ",").mapM fun f =>
    match f.splitOn "@" with
    | [a, b] => do let k ← a.toNat?; let t ← b.toNat?; pure (k, t)
    | _ => none

def parseTimes (s : String) : Option (List (Nat × Nat)) :=
  if s == "-" then some [] else
  (s.splitOn ",").mapM fun f =>
    match f.splitOn "-" with
    | [a, b] => do let x ← a.toNat?; let y ← b.toNat?; pure (x, y)
    | _ => none

def bits (l : List Bool) : String := String.ofList (l.map fun b => if b then '1' else '0')

/-- run the model, also collecting comparisons -/
def runC (c : Cfg) : St → List (Key × Nat) → List Bool × St × List Key × List (Nat × Nat)
  | s, [] => ([], s, [], [])
  | s, (k, t) :: es =>
    let o := recordAndCheck c s k (fun _ => t)
    let r := runC c o.st es
    (o.deny :: r.1, r.2.1, o.ev ++ r.2.2.1, o.cmps ++ r.2.2.2)

/-- comparisons the ideal machine makes at one step -/
def specCmps (c : Cfg) (ks : KS) (t : Nat) : List (Nat × Nat) :=
  match ks with
  | .jailed u => [(t, u)] ++ (if t < u then [] else if 1 > c.th then [(t, t + c.cp + c.stay)] else [])
  | .idle => if 1 > c.th then [(t, t + c.cp + c.stay)] else []
  | .counting s n =>
    let sn : Nat × Nat := if s + c.cp < t then (t, 0) else (s, n)
    [(s + c.cp, t)] ++ (if sn.2 + 1 > c.th then [(t, sn.1 + c.cp + c.stay)] else [])

/-- ideal verdicts for one key with failure classes when the implementation bit differs -/
def specCheck (c : Cfg) : KS → List (Nat × Bool) → List (Nat × Nat) × Option String
  | _, [] => ([], none)
  | ks, (t, implDeny) :: es =>
    let r := specStep c ks t
    let cm := specCmps c ks t
    if r.1 != implDeny then
      let cls :=
        if implDeny then "deny-without-jail"
        else match ks with
          | .jailed u => if t < u then "released-early" else "no-jail-at-threshold"
          | _ => "no-jail-at-threshold"
      (cm, some cls)
    else
      let q := specCheck c r.2 es
      (cm ++ q.1, q.2)

def absDiff (a b : Nat) : Nat := if a < b then b - a else a - b

def dedup (l : List Nat) : List Nat := l.foldl (fun acc x => if acc.contains x then acc else acc ++ [x]) []

def run (op impl : String) : Ans :=
  let kv := parseKV op
  match lookNat kv "cp", lookNat kv "stay", lookNat kv "th", lookNat kv "ac", lookNat kv "pc",
        (look kv "ev").bind parseEvents with
  | some cp, some stay, some th, some ac, some pc, some evs =>
    let c : Cfg := { cp := cp * 1000000, stay := stay * 1000000, th := th, acap := ac, pcap := pc }
    let ikv := parseKV impl
    match look ikv "v", look ikv "len", (look ikv "t").bind parseTimes with
    | some iv, some _, some ts =>
      if ts.length != evs.length || iv.length != evs.length then
        { model := "impl-shape", verdict := "ok" }
      else
        let tstr := (look ikv "t").getD ""
        let hist : List (Key × Nat) := (evs.zip ts).map fun (e, t) => (e.1, t.1)
        let maxW := ts.foldl (fun m t => max m (t.2 - t.1)) 0
        let slack := 4 * maxW + 2000
        let r := runC c {} hist
        let ibits := iv.toList.map (· == '1')
        let keys := dedup (evs.map (·.1))
        let evicted := r.2.2.1
        -- spec oracle per key that was never evicted
        let per := keys.filter (fun k => !evicted.contains k) |>.map fun k =>
          specCheck c .idle (((hist.zip ibits).filter (fun x => x.1.1 == k)).map fun x => (x.1.2, x.2))
        let scm := per.foldl (fun acc p => acc ++ p.1) []
        let sfail := per.findSome? (·.2)
        let allc := r.2.2.2 ++ scm
        let tight := allc.any fun p => absDiff p.1 p.2 ≤ slack
        let nden := (r.1.filter id).length
        let tags :=
          (if nden > 0 then ["nt", "jail"] else ["nojail"]) ++
          (if evicted.isEmpty then [] else ["evict"]) ++
          (if keys.length > 1 then ["multikey"] else []) ++
          (if th == 0 then ["th0"] else []) ++ (if stay == 0 then ["stay0"] else []) ++
          (if nden > 0 && r.1.getLast? == some false then ["endfree"] else [])
        if tight then
          { model := impl, verdict := "skip", tags := ["jitter"] }
        else
          { model := "v=" ++ bits r.1 ++ ";len=" ++ toString r.2.1.access.length ++ "," ++
                     toString r.2.1.prison.length ++ ";t=" ++ tstr
            verdict := match sfail with | some cls => "FAIL:" ++ cls | none => "ok"
            tags := tags }
    | _, _, _ => { model := "unparsable-impl", verdict := "ok" }
  | _, _, _, _, _, _ => { model := "bad-op", verdict := "skip" }

end BfeVerif.C53
