/-
  C53 — model of mod_prison's per-rule rate limiter (bfe_modules/mod_prison/rule.go, access.go)
  and of the two go-lib `lru_cache.LRUCache` dictionaries it uses.  Core-only.

  Go code mirrored (one call of `prisonRule.recordAndCheck` for an already computed sign = key):

    recordAndCheck:  if shouldDeny(sign) { return true };  recordAccess(sign);  return shouldDeny(sign)
    shouldDeny:      freeTime, ok := prisonDict.Get(sign)          // Get moves the entry to the LRU front
                     if !ok { return false }                        // (no clock read in this case)
                     if time.Now() < freeTime { return true }
                     prisonDict.Del(sign); return false
    recordAccess:    f, ok := accessDict.Get(sign)
                     if !ok { f = NewAccessCounter() /* count 0, startTime = time.Now() */ ; accessDict.Add(sign, f) }
                     block, rest := f.IncAndCheck(checkPeriod, threshold)
                     if block { free := stay + rest + time.Now(); prisonDict.Add(sign, free); accessDict.Del(sign) }
    IncAndCheck:     now := time.Now()
                     if startTime+checkPeriod < now { count = 0; startTime = time.Now() }
                     count++ ; return count > threshold, startTime + checkPeriod - now

  Time: every `time.Now()` of one call reads the next value of that call's read function
  `rd : Nat → Nat` (`rd j` = value returned by the j-th read of the call).
  `rest` uses truncated subtraction; it equals Go's int64 value whenever `rd` is non-decreasing
  (then `startTime + checkPeriod ≥ now` on both paths).
-/
namespace BfeVerif.C53

abbrev Key := Nat

/-! ### go-lib lru_cache.LRUCache as an association list, head = front of the LRU list -/

def dfind {V : Type} : List (Key × V) → Key → Option V
  | [], _ => none
  | (k', v) :: r, k => if k' = k then some v else dfind r k

def ddel {V : Type} : List (Key × V) → Key → List (Key × V)
  | [], _ => []
  | (k', v) :: r, k => if k' = k then ddel r k else (k', v) :: ddel r k

/-- in-place update of the value (the dictionaries store pointers to counters) -/
def dset {V : Type} : List (Key × V) → Key → V → List (Key × V)
  | [], _, _ => []
  | (k', v') :: r, k, v => if k' = k then (k', v) :: dset r k v else (k', v') :: dset r k v

/-- `LRUCache.Get`: found ⇒ moved to the front -/
def dtouch {V : Type} (d : List (Key × V)) (k : Key) : List (Key × V) :=
  match dfind d k with
  | some v => (k, v) :: ddel d k
  | none => d

def lastKey {V : Type} : List (Key × V) → List Key
  | [] => []
  | [(k, _)] => [k]
  | _ :: r => lastKey r

/-- `LRUCache.Add`: returns the new list and the evicted key (if any) -/
def dadd {V : Type} (d : List (Key × V)) (k : Key) (v : V) (cap : Nat) : List (Key × V) × List Key :=
  match dfind d k with
  | some _ => ((k, v) :: ddel d k, [])
  | none =>
    if (d.length + 1) > cap then (((k, v) :: d).dropLast, lastKey ((k, v) :: d)) else ((k, v) :: d, [])

/-! ### the rule -/

structure Cfg where
  cp : Nat      -- checkPeriodNs
  stay : Nat    -- stayPeriodNs
  th : Nat      -- threshold
  acap : Nat    -- accessDictSize
  pcap : Nat    -- prisonDictSize

structure Counter where
  count : Nat
  stime : Nat
deriving DecidableEq, Repr

structure St where
  access : List (Key × Counter) := []
  prison : List (Key × Nat) := []

/-- working state inside one call of recordAndCheck -/
structure W where
  access : List (Key × Counter)
  prison : List (Key × Nat)
  j : Nat := 0                   -- time.Now() reads consumed so far by this call
  ev : List Key := []            -- keys evicted by this call (history variable)
  cmps : List (Nat × Nat) := []  -- both sides of every time comparison made (history variable)

def shouldDeny (rd : Nat → Nat) (w : W) (k : Key) : Bool × W :=
  match dfind w.prison k with
  | none => (false, w)
  | some ft =>
    let now := rd w.j
    let w1 : W := { w with prison := (k, ft) :: ddel w.prison k, j := w.j + 1, cmps := (now, ft) :: w.cmps }
    if now < ft then (true, w1)
    else (false, { w1 with prison := ddel w1.prison k })

/-- `accessDict.Get` / `NewAccessCounter` + `accessDict.Add` -/
def getCounter (c : Cfg) (rd : Nat → Nat) (w : W) (k : Key) : Counter × W :=
  match dfind w.access k with
  | some f => (f, { w with access := (k, f) :: ddel w.access k })
  | none =>
    let f : Counter := { count := 0, stime := rd w.j }
    let r := dadd w.access k f c.acap
    (f, { w with access := r.1, j := w.j + 1, ev := r.2 ++ w.ev })

/-- `IncAndCheck` on counter `f`; returns the updated counter, `rest`, and the working state -/
def incAndCheck (c : Cfg) (rd : Nat → Nat) (w : W) (f : Counter) : Counter × Nat × W :=
  let now := rd w.j
  let w1 : W := { w with j := w.j + 1, cmps := (f.stime + c.cp, now) :: w.cmps }
  if f.stime + c.cp < now then
    let f2 : Counter := { count := 1, stime := rd w1.j }
    (f2, f2.stime + c.cp - now, { w1 with j := w1.j + 1 })
  else
    ({ f with count := f.count + 1 }, f.stime + c.cp - now, w1)

def recordAccess (c : Cfg) (rd : Nat → Nat) (w : W) (k : Key) : W :=
  let r := getCounter c rd w k
  let i := incAndCheck c rd r.2 r.1
  let f := i.1
  let w2 : W := { i.2.2 with access := dset i.2.2.access k f }
  if f.count > c.th then
    let ft := c.stay + i.2.1 + rd w2.j
    let p := dadd w2.prison k ft c.pcap
    { w2 with prison := p.1, access := ddel w2.access k, j := w2.j + 1, ev := p.2 ++ w2.ev }
  else w2

/-- result of one call -/
structure Out where
  deny : Bool
  st : St
  ev : List Key
  cmps : List (Nat × Nat)

def recordAndCheck (c : Cfg) (s : St) (k : Key) (rd : Nat → Nat) : Out :=
  let w0 : W := { access := s.access, prison := s.prison }
  let r := shouldDeny rd w0 k
  if r.1 then { deny := true, st := ⟨r.2.access, r.2.prison⟩, ev := r.2.ev, cmps := r.2.cmps }
  else
    let r2 := shouldDeny rd (recordAccess c rd r.2 k) k
    { deny := r2.1, st := ⟨r2.2.access, r2.2.prison⟩, ev := r2.2.ev, cmps := r2.2.cmps }

/-- a history: (key, read function of that call) -/
abbrev Event := Key × (Nat → Nat)

/-- run a history; returns verdicts (in order), final state, all evicted keys -/
def runHist (c : Cfg) : St → List Event → List Bool × St × List Key
  | s, [] => ([], s, [])
  | s, (k, rd) :: es =>
    let o := recordAndCheck c s k rd
    let r := runHist c o.st es
    (o.deny :: r.1, r.2.1, o.ev ++ r.2.2)

/-! ### the specification: an ideal fixed-window limiter for ONE key, events are instants -/

inductive KS where
  | idle
  | counting (start n : Nat)
  | jailed (u : Nat)
deriving DecidableEq, Repr

/-- count the request at time `t` (key currently not jailed) -/
def specCount (c : Cfg) (ks : KS) (t : Nat) : Bool × KS :=
  let sn : Nat × Nat := match ks with
    | .counting s n => if s + c.cp < t then (t, 0) else (s, n)
    | _ => (t, 0)
  if sn.2 + 1 > c.th then
    let u := sn.1 + c.cp + c.stay
    if t < u then (true, .jailed u) else (false, .idle)
  else (false, .counting sn.1 (sn.2 + 1))

def specStep (c : Cfg) (ks : KS) (t : Nat) : Bool × KS :=
  match ks with
  | .jailed u => if t < u then (true, .jailed u) else specCount c .idle t
  | ks => specCount c ks t

def specRun (c : Cfg) : KS → List Nat → List Bool × KS
  | ks, [] => ([], ks)
  | ks, t :: ts =>
    let r := specStep c ks t
    let q := specRun c r.2 ts
    (r.1 :: q.1, q.2)

/-- the per-key view of the model state -/
def view (s : St) (k : Key) : Option Counter × Option Nat := (dfind s.access k, dfind s.prison k)

/-- abstraction relation between the model's view of key `k` and the ideal state -/
def Rel (v : Option Counter × Option Nat) (ks : KS) : Prop :=
  match ks with
  | .idle => v = (none, none)
  | .counting s n => v = (some ⟨n, s⟩, none) ∧ 0 < n
  | .jailed u => v = (none, some u)

/-! ### module level (mod_prison.go, rules.go, product_rule_table.go)

  `prisonHandler`: rules of product "global" first, then the rules of the request's product.
  `processRules`: every rule of the list whose condition matches calls `recordAndCheck` (so ALL matching
  rules count the request) until one denies with action CLOSE / FINISH, which ends the handler; a deny of
  a rule with another action (here REQ_HEADER_SET) runs the action and processing goes on.
  `AccessSigner.Sign` failing (a signed header / cookie / query / url pattern is missing) makes
  `recordAndCheck` return false without touching the dictionaries.
  Reload (`productRuleTable.load`): a conf that fails the checks changes nothing; otherwise the table
  is REPLACED, and a rule takes over the two dictionaries of the old rule with the same product and the
  same name (capacity only ever enlarged), every other rule starts with empty dictionaries. -/

structure RuleM where
  name : Nat
  cp : Nat
  stay : Nat
  th : Nat
  acap : Nat          -- effective capacity of the access dictionary
  pcap : Nat          -- effective capacity of the prison dictionary
  needSel : Bool      -- condition: false = default_t(), true = the request must carry header X-Sel
  stop : Bool         -- action CLOSE / FINISH (true) or REQ_HEADER_SET (false)
  sign : Nat          -- which AccessSignConf (interpreted by `ReqM.key`)
  st : St := {}

def RuleM.cfg (r : RuleM) : Cfg := ⟨r.cp, r.stay, r.th, r.acap, r.pcap⟩

structure ReqM where
  product : Nat
  sel : Bool
  key : Nat → Bool → Option Key   -- AccessSigner.Sign per sign configuration AND per condition string (the
                                 -- signature is labelled with the rule's condStr); none = Sign returns an error
  t : Nat                    -- value of every clock read of this request

structure PR where
  stopped : Bool := false
  denied : List Nat := []          -- names of the rules that denied, in order
  rules : List RuleM := []
  ev : List Key := []
  cmps : List (Nat × Nat) := []

def processRules (q : ReqM) : List RuleM → PR
  | [] => {}
  | r :: rs =>
    if r.needSel && !q.sel then
      let x := processRules q rs
      { x with rules := r :: x.rules }
    else
      match q.key r.sign r.needSel with
      | none =>
        let x := processRules q rs
        { x with rules := r :: x.rules }
      | some k =>
        let o := recordAndCheck r.cfg r.st k (fun _ => q.t)
        let r' : RuleM := { r with st := o.st }
        if o.deny && r.stop then
          { stopped := true, denied := [r.name], rules := r' :: rs, ev := o.ev, cmps := o.cmps }
        else
          let x := processRules q rs
          { stopped := x.stopped, denied := (if o.deny then [r.name] else []) ++ x.denied,
            rules := r' :: x.rules, ev := o.ev ++ x.ev, cmps := o.cmps ++ x.cmps }

abbrev Table := List (Nat × List RuleM)

def tblFind : Table → Nat → Option (List RuleM)
  | [], _ => none
  | (p, rs) :: r, q => if p = q then some rs else tblFind r q

def tblSet : Table → Nat → List RuleM → Table
  | [], _, _ => []
  | (p, rs) :: r, q, v => if p = q then (p, v) :: r else (p, rs) :: tblSet r q v

/-- `processProductRules` -/
def onProduct (tb : Table) (p : Nat) (q : ReqM) : PR × Table :=
  match tblFind tb p with
  | none => ({}, tb)
  | some rs =>
    let x := processRules q rs
    (x, tblSet tb p x.rules)

/-- `prisonHandler` (global product = 0) -/
def handle (tb : Table) (q : ReqM) : PR × Table :=
  let g := onProduct tb 0 q
  if g.1.stopped then g
  else
    let x := onProduct g.2 q.product q
    ({ stopped := x.1.stopped, denied := g.1.denied ++ x.1.denied, rules := [],
       ev := g.1.ev ++ x.1.ev, cmps := g.1.cmps ++ x.1.cmps }, x.2)

/-- one rule of a rule file (periods in seconds, everything as written) -/
structure RuleSpec where
  name : Nat
  cp : Int
  stay : Int
  th : Int
  ac : Int
  pc : Int
  needSel : Bool
  stop : Bool
  sign : Nat

/-- `PrisonRuleCheck` (numeric part) -/
def RuleSpec.valid (r : RuleSpec) : Bool :=
  decide (0 < r.cp) && decide (0 ≤ r.th) && decide (0 ≤ r.stay) && decide (0 < r.ac) && decide (0 < r.pc)

def distinctNames : List RuleSpec → Bool
  | [] => true
  | r :: rs => !(rs.any (·.name == r.name)) && distinctNames rs

/-- `productRuleConfCheck`; `wellFormed` = the file parses, all fields present, actions allowed -/
def confValid (wellFormed : Bool) (conf : List (Nat × List RuleSpec)) : Bool :=
  wellFormed && conf.all fun pr => pr.2.all RuleSpec.valid && distinctNames pr.2

def ruleFind : List RuleM → Nat → Option RuleM
  | [], _ => none
  | r :: rs, n => if r.name = n then some r else ruleFind rs n

/-- the old rule with the same product and name, if any -/
def oldRule (tb : Table) (p n : Nat) : Option RuleM := (tblFind tb p).bind (ruleFind · n)

/-- `newPrisonRule` + `initDict(oldRule)`; `scale` divides the periods (harness hook) -/
def mkRule (scale : Nat) (old : Option RuleM) (s : RuleSpec) : RuleM :=
  { name := s.name, cp := s.cp.toNat * 1000000000 / scale, stay := s.stay.toNat * 1000000000 / scale,
    th := s.th.toNat,
    acap := (match old with | some o => if s.ac.toNat < o.acap then o.acap else s.ac.toNat | none => s.ac.toNat),
    pcap := (match old with | some o => if s.pc.toNat < o.pcap then o.pcap else s.pc.toNat | none => s.pc.toNat),
    needSel := s.needSel, stop := s.stop, sign := s.sign,
    st := (match old with | some o => o.st | none => {}) }

def reload (scale : Nat) (tb : Table) (wellFormed : Bool) (conf : List (Nat × List RuleSpec)) : Table :=
  if confValid wellFormed conf then
    conf.map fun pr => (pr.1, pr.2.map fun s => mkRule scale (oldRule tb pr.1 s.name) s)
  else tb

end BfeVerif.C53
