import BfeVerif.C53.Driver
def main : IO Unit := BfeVerif.Proto.driverMain BfeVerif.C53.run
