import BfeVerif.C53.Model
/-! C53 helper lemmas: LRU dictionary facts and per-function frame lemmas. -/
namespace BfeVerif.C53

variable {V : Type}

theorem dfind_ddel_ne (d : List (Key × V)) {k k' : Key} (h : k' ≠ k) :
    dfind (ddel d k') k = dfind d k := by
  induction d with
  | nil => rfl
  | cons a r ih =>
    obtain ⟨x, v⟩ := a
    simp only [ddel]
    split
    · rename_i h1; subst h1; simp [dfind, h, ih]
    · simp only [dfind]; split <;> simp [ih]

theorem dfind_ddel_self (d : List (Key × V)) (k : Key) : dfind (ddel d k) k = none := by
  induction d with
  | nil => rfl
  | cons a r ih =>
    obtain ⟨x, v⟩ := a
    by_cases h1 : x = k <;> simp [ddel, dfind, h1, ih]

theorem dfind_dset_ne (d : List (Key × V)) {k k' : Key} (v : V) (h : k' ≠ k) :
    dfind (dset d k' v) k = dfind d k := by
  induction d with
  | nil => rfl
  | cons a r ih =>
    obtain ⟨x, w⟩ := a
    simp only [dset]
    split
    · rename_i h1; subst h1; simp [dfind, h, ih]
    · simp only [dfind]; split <;> simp [ih]

theorem dfind_dset_self (d : List (Key × V)) (k : Key) (v : V) :
    dfind (dset d k v) k = (dfind d k).map (fun _ => v) := by
  induction d with
  | nil => rfl
  | cons a r ih =>
    obtain ⟨x, w⟩ := a
    by_cases h1 : x = k <;> simp [dset, dfind, h1, ih]

theorem dfind_dropLast (d : List (Key × V)) (k : Key) (h : k ∉ lastKey d) :
    dfind d.dropLast k = dfind d k := by
  induction d with
  | nil => rfl
  | cons a r ih =>
    obtain ⟨x, w⟩ := a
    cases r with
    | nil =>
      simp [lastKey] at h
      have : x ≠ k := fun e => h e.symm
      simp [dfind, this]
    | cons b r' =>
      have h' : k ∉ lastKey (b :: r') := by simpa [lastKey] using h
      have := ih h'
      simp only [List.dropLast_cons_cons, dfind, this]

theorem dfind_dadd_ne (d : List (Key × V)) {k k' : Key} (v : V) (cap : Nat) (h : k' ≠ k)
    (hev : k ∉ (dadd d k' v cap).2) : dfind (dadd d k' v cap).1 k = dfind d k := by
  unfold dadd at *
  split at hev <;> rename_i hf
  · simp [hf, dfind, h, dfind_ddel_ne]
  · split at hev <;> rename_i hc
    · simp only [hf, hc, if_true]
      rw [dfind_dropLast _ _ hev]
      simp [dfind, h]
    · simp [hf, hc, dfind, h]

theorem dfind_dadd_self (d : List (Key × V)) (k : Key) (v : V) (cap : Nat)
    (hev : k ∉ (dadd d k v cap).2) : dfind (dadd d k v cap).1 k = some v := by
  unfold dadd at *
  split at hev <;> rename_i hf
  · simp [hf, dfind]
  · split at hev <;> rename_i hc
    · simp only [hf, hc, if_true]
      rw [dfind_dropLast _ _ hev]
      simp [dfind]
    · simp [hf, hc, dfind]

/-! frame lemmas: a call for key `k'` does not change what the dictionaries say about `k ≠ k'` -/

theorem shouldDeny_frame (rd : Nat → Nat) (w : W) {k k' : Key} (h : k' ≠ k) :
    dfind (shouldDeny rd w k').2.access k = dfind w.access k ∧
    dfind (shouldDeny rd w k').2.prison k = dfind w.prison k ∧
    (shouldDeny rd w k').2.ev = w.ev := by
  unfold shouldDeny
  split
  · simp
  · dsimp only
    split <;> simp [dfind, h, dfind_ddel_ne]

theorem getCounter_frame (c : Cfg) (rd : Nat → Nat) (w : W) {k k' : Key} (h : k' ≠ k)
    (hev : k ∉ (getCounter c rd w k').2.ev) :
    dfind (getCounter c rd w k').2.access k = dfind w.access k ∧
    (getCounter c rd w k').2.prison = w.prison ∧ k ∉ w.ev := by
  unfold getCounter at *
  split
  · rename_i f hf
    simp only [hf] at hev
    simp [dfind, h, dfind_ddel_ne]
    exact hev
  · rename_i hf
    simp only [hf, List.mem_append, not_or] at hev
    refine ⟨?_, rfl, hev.2⟩
    exact dfind_dadd_ne _ _ _ h hev.1

theorem incAndCheck_frame (c : Cfg) (rd : Nat → Nat) (w : W) (f : Counter) :
    (incAndCheck c rd w f).2.2.access = w.access ∧ (incAndCheck c rd w f).2.2.prison = w.prison ∧
    (incAndCheck c rd w f).2.2.ev = w.ev := by
  unfold incAndCheck
  dsimp only
  split <;> simp

theorem recordAccess_frame (c : Cfg) (rd : Nat → Nat) (w : W) {k k' : Key} (h : k' ≠ k)
    (hev : k ∉ (recordAccess c rd w k').ev) :
    dfind (recordAccess c rd w k').access k = dfind w.access k ∧
    dfind (recordAccess c rd w k').prison k = dfind w.prison k ∧ k ∉ w.ev := by
  unfold recordAccess at *
  dsimp only at *
  have hi := incAndCheck_frame c rd (getCounter c rd w k').2 (getCounter c rd w k').1
  split at hev
  · rename_i hc
    simp only [List.mem_append, not_or] at hev
    rw [hi.2.2] at hev
    have hg := getCounter_frame c rd w h hev.2
    rw [if_pos hc]
    refine ⟨?_, ?_, hg.2.2⟩
    · show dfind (ddel _ k') k = _
      rw [dfind_ddel_ne _ h, dfind_dset_ne _ _ h, hi.1]; exact hg.1
    · have := dfind_dadd_ne _ _ _ h hev.1
      show dfind (dadd _ k' _ _).1 k = _
      rw [this, hi.2.1, hg.2.1]
  · rename_i hc
    rw [hi.2.2] at hev
    have hg := getCounter_frame c rd w h hev
    rw [if_neg hc]
    refine ⟨?_, ?_, hg.2.2⟩
    · show dfind (dset _ k' _) k = _
      rw [dfind_dset_ne _ _ h, hi.1]; exact hg.1
    · show dfind (incAndCheck c rd _ _).2.2.prison k = _
      rw [hi.2.1, hg.2.1]

theorem recordAndCheck_frame (c : Cfg) (s : St) (rd : Nat → Nat) {k k' : Key} (h : k' ≠ k)
    (hev : k ∉ (recordAndCheck c s k' rd).ev) :
    view (recordAndCheck c s k' rd).st k = view s k := by
  unfold recordAndCheck at *
  dsimp only at *
  simp only [view]
  split at hev
  · rename_i hd
    simp only [if_pos hd]
    have := shouldDeny_frame rd { access := s.access, prison := s.prison } h
    simp only [this.1, this.2.1]
  · rename_i hd
    simp only [if_neg hd]
    simp only at hev
    have h1 := shouldDeny_frame rd { access := s.access, prison := s.prison } h
    have h2 := shouldDeny_frame rd
      (recordAccess c rd (shouldDeny rd { access := s.access, prison := s.prison } k').2 k') h
    rw [h2.2.2] at hev
    have h3 := recordAccess_frame c rd _ h hev
    simp only [h2.1, h2.2.1, h3.1, h3.2.1, h1.1, h1.2.1]

/-! ### the call for key `k` itself, all clock reads of the call equal to `t` -/

def snOf (c : Cfg) (t : Nat) : Option Counter → Nat × Nat
  | some f => if f.stime + c.cp < t then (t, 0) else (f.stime, f.count)
  | none => (t, 0)

theorem shouldDeny_none (rd : Nat → Nat) (w : W) (k : Key) (h : dfind w.prison k = none) :
    shouldDeny rd w k = (false, w) := by
  simp only [shouldDeny, h]

theorem shouldDeny_some (rd : Nat → Nat) (w : W) (k : Key) (u : Nat) (h : dfind w.prison k = some u) :
    (shouldDeny rd w k).1 = decide (rd w.j < u) ∧
    (shouldDeny rd w k).2.access = w.access ∧ (shouldDeny rd w k).2.ev = w.ev ∧
    dfind (shouldDeny rd w k).2.prison k = (if rd w.j < u then some u else none) := by
  simp only [shouldDeny, h]
  by_cases hlt : rd w.j < u
  · simp [hlt, dfind]
  · simp [hlt, ddel, dfind_ddel_self]

theorem getCounter_self (c : Cfg) (rd : Nat → Nat) (w : W) (k : Key)
    (hev : k ∉ (getCounter c rd w k).2.ev) :
    (getCounter c rd w k).1 = (match dfind w.access k with | some f => f | none => ⟨0, rd w.j⟩) ∧
    dfind (getCounter c rd w k).2.access k = some (getCounter c rd w k).1 ∧
    (getCounter c rd w k).2.prison = w.prison ∧ k ∉ w.ev := by
  cases hA : dfind w.access k with
  | some f =>
    simp only [getCounter, hA] at hev ⊢
    simp [dfind, hev]
  | none =>
    simp only [getCounter, hA] at hev ⊢
    simp only [List.mem_append, not_or] at hev
    exact ⟨trivial, dfind_dadd_self _ _ _ _ hev.1, trivial, hev.2⟩

theorem incAndCheck_self (c : Cfg) (t : Nat) (w : W) (f : Counter) :
    (incAndCheck c (fun _ => t) w f).1 =
      (if f.stime + c.cp < t then ⟨1, t⟩ else ⟨f.count + 1, f.stime⟩) ∧
    (incAndCheck c (fun _ => t) w f).2.1 = (incAndCheck c (fun _ => t) w f).1.stime + c.cp - t := by
  unfold incAndCheck
  dsimp only
  split <;> simp

theorem counter_after (c : Cfg) (t : Nat) (w : W) (k : Key)
    (hev : k ∉ (getCounter c (fun _ => t) w k).2.ev) :
    (incAndCheck c (fun _ => t) (getCounter c (fun _ => t) w k).2 (getCounter c (fun _ => t) w k).1).1 =
      ⟨(snOf c t (dfind w.access k)).2 + 1, (snOf c t (dfind w.access k)).1⟩ := by
  have hg := (getCounter_self c (fun _ => t) w k hev).1
  rw [(incAndCheck_self c t _ _).1, hg]
  cases hA : dfind w.access k with
  | some f =>
    simp only [snOf]
    split <;> simp
  | none =>
    simp only [snOf]
    have : ¬ t + c.cp < t := by omega
    simp [this]

theorem recordAccess_self (c : Cfg) (t : Nat) (w : W) (k : Key)
    (hev : k ∉ (recordAccess c (fun _ => t) w k).ev) :
    if (snOf c t (dfind w.access k)).2 + 1 > c.th then
      dfind (recordAccess c (fun _ => t) w k).access k = none ∧
      dfind (recordAccess c (fun _ => t) w k).prison k =
        some (c.stay + ((snOf c t (dfind w.access k)).1 + c.cp - t) + t)
    else
      dfind (recordAccess c (fun _ => t) w k).access k =
        some ⟨(snOf c t (dfind w.access k)).2 + 1, (snOf c t (dfind w.access k)).1⟩ ∧
      dfind (recordAccess c (fun _ => t) w k).prison k = dfind w.prison k := by
  unfold recordAccess at *
  dsimp only at *
  have hi := incAndCheck_frame c (fun _ => t) (getCounter c (fun _ => t) w k).2 (getCounter c (fun _ => t) w k).1
  have his := incAndCheck_self c t (getCounter c (fun _ => t) w k).2 (getCounter c (fun _ => t) w k).1
  split at hev
  · rename_i hc
    simp only [List.mem_append, not_or] at hev
    rw [hi.2.2] at hev
    have hf := counter_after c t w k hev.2
    have hcnt : (snOf c t (dfind w.access k)).2 + 1 > c.th := by rw [hf] at hc; exact hc
    rw [if_pos hcnt, if_pos hc]
    refine ⟨dfind_ddel_self _ _, ?_⟩
    have := dfind_dadd_self _ _ _ _ hev.1
    show dfind (dadd _ k _ _).1 k = _
    rw [this, his.2, hf]
  · rename_i hc
    rw [hi.2.2] at hev
    have hf := counter_after c t w k hev
    have hg := getCounter_self c (fun _ => t) w k hev
    have hcnt : ¬ (snOf c t (dfind w.access k)).2 + 1 > c.th := by rw [hf] at hc; exact hc
    rw [if_neg hcnt, if_neg hc]
    refine ⟨?_, ?_⟩
    · show dfind (dset _ k _) k = _
      rw [dfind_dset_self, hi.1, hg.2.1, hf]; rfl
    · show dfind (incAndCheck c _ _ _).2.2.prison k = _
      rw [hi.2.1, hg.2.2.1]

/-- the model's free time equals the ideal one when all reads of the call coincide -/
theorem ft_eq (c : Cfg) (t : Nat) (A : Option Counter) :
    c.stay + ((snOf c t A).1 + c.cp - t) + t = (snOf c t A).1 + c.cp + c.stay := by
  have : t ≤ (snOf c t A).1 + c.cp := by
    cases A with
    | none => simp [snOf]
    | some f =>
      simp only [snOf]
      split <;> simp <;> omega
  omega

theorem shouldDeny_ev (rd : Nat → Nat) (w : W) (k : Key) : (shouldDeny rd w k).2.ev = w.ev := by
  cases h : dfind w.prison k with
  | none => rw [shouldDeny_none rd w k h]
  | some u => exact (shouldDeny_some rd w k u h).2.2.1

theorem tail_refines (c : Cfg) (t : Nat) (w : W) (k : Key) (hP : dfind w.prison k = none)
    (hev : k ∉ (shouldDeny (fun _ => t) (recordAccess c (fun _ => t) w k) k).2.ev) :
    (shouldDeny (fun _ => t) (recordAccess c (fun _ => t) w k) k).1 =
      (if (snOf c t (dfind w.access k)).2 + 1 > c.th
        then decide (t < (snOf c t (dfind w.access k)).1 + c.cp + c.stay) else false) ∧
    dfind (shouldDeny (fun _ => t) (recordAccess c (fun _ => t) w k) k).2.access k =
      (if (snOf c t (dfind w.access k)).2 + 1 > c.th then none
        else some ⟨(snOf c t (dfind w.access k)).2 + 1, (snOf c t (dfind w.access k)).1⟩) ∧
    dfind (shouldDeny (fun _ => t) (recordAccess c (fun _ => t) w k) k).2.prison k =
      (if (snOf c t (dfind w.access k)).2 + 1 > c.th ∧ t < (snOf c t (dfind w.access k)).1 + c.cp + c.stay
        then some ((snOf c t (dfind w.access k)).1 + c.cp + c.stay) else none) := by
  rw [shouldDeny_ev] at hev
  have hra := recordAccess_self c t w k hev
  by_cases hcnt : (snOf c t (dfind w.access k)).2 + 1 > c.th
  · rw [if_pos hcnt] at hra
    rw [ft_eq] at hra
    have hs := shouldDeny_some (fun _ => t) (recordAccess c (fun _ => t) w k) k _ hra.2
    simp only [if_pos hcnt]
    refine ⟨hs.1, ?_, ?_⟩
    · rw [hs.2.1]; exact hra.1
    · rw [hs.2.2.2]
      by_cases hlt : t < (snOf c t (dfind w.access k)).1 + c.cp + c.stay
      · simp [hlt, hcnt]
      · simp [hlt]
  · rw [if_neg hcnt] at hra
    rw [hP] at hra
    rw [shouldDeny_none _ _ _ hra.2]
    simp only [if_neg hcnt]
    refine ⟨trivial, hra.1, ?_⟩
    rw [hra.2]
    simp [hcnt]

theorem rac_unfold (c : Cfg) (s : St) (k : Key) (rd : Nat → Nat) :
    recordAndCheck c s k rd =
      if (shouldDeny rd { access := s.access, prison := s.prison } k).1 = true then
        { deny := true,
          st := ⟨(shouldDeny rd { access := s.access, prison := s.prison } k).2.access,
                 (shouldDeny rd { access := s.access, prison := s.prison } k).2.prison⟩,
          ev := (shouldDeny rd { access := s.access, prison := s.prison } k).2.ev,
          cmps := (shouldDeny rd { access := s.access, prison := s.prison } k).2.cmps }
      else
        { deny := (shouldDeny rd (recordAccess c rd (shouldDeny rd { access := s.access, prison := s.prison } k).2 k) k).1,
          st := ⟨(shouldDeny rd (recordAccess c rd (shouldDeny rd { access := s.access, prison := s.prison } k).2 k) k).2.access,
                 (shouldDeny rd (recordAccess c rd (shouldDeny rd { access := s.access, prison := s.prison } k).2 k) k).2.prison⟩,
          ev := (shouldDeny rd (recordAccess c rd (shouldDeny rd { access := s.access, prison := s.prison } k).2 k) k).2.ev,
          cmps := (shouldDeny rd (recordAccess c rd (shouldDeny rd { access := s.access, prison := s.prison } k).2 k) k).2.cmps } := by
  rfl

/-- the ideal count step written with `snOf` -/
theorem specCount_sn (c : Cfg) (ks : KS) (t : Nat) (A : Option Counter)
    (h : (ks = .idle ∧ A = none) ∨ (∃ s n, ks = .counting s n ∧ A = some ⟨n, s⟩)) :
    specCount c ks t =
      if (snOf c t A).2 + 1 > c.th then
        (if t < (snOf c t A).1 + c.cp + c.stay then (true, .jailed ((snOf c t A).1 + c.cp + c.stay)) else (false, .idle))
      else (false, .counting (snOf c t A).1 ((snOf c t A).2 + 1)) := by
  rcases h with ⟨h1, h2⟩ | ⟨s, n, h1, h2⟩
  · subst h1; subst h2
    simp only [specCount, snOf]
    try rfl
  · subst h1; subst h2
    simp only [specCount, snOf]
    try (split <;> rfl)

/-- from a working state without prison record for `k`: the rest of the call is the ideal count step -/
theorem tail_spec (c : Cfg) (t : Nat) (w : W) (k : Key) (ks : KS) (hP : dfind w.prison k = none)
    (hA : (ks = .idle ∧ dfind w.access k = none) ∨ (∃ s n, ks = .counting s n ∧ dfind w.access k = some ⟨n, s⟩))
    (hev : k ∉ (shouldDeny (fun _ => t) (recordAccess c (fun _ => t) w k) k).2.ev) :
    (shouldDeny (fun _ => t) (recordAccess c (fun _ => t) w k) k).1 = (specCount c ks t).1 ∧
    Rel (dfind (shouldDeny (fun _ => t) (recordAccess c (fun _ => t) w k) k).2.access k,
         dfind (shouldDeny (fun _ => t) (recordAccess c (fun _ => t) w k) k).2.prison k) (specCount c ks t).2 := by
  have ht := tail_refines c t w k hP hev
  rw [specCount_sn c ks t _ hA, ht.1, ht.2.1, ht.2.2]
  by_cases hcnt : (snOf c t (dfind w.access k)).2 + 1 > c.th
  · by_cases hlt : t < (snOf c t (dfind w.access k)).1 + c.cp + c.stay
    · simp [hcnt, hlt, Rel]
    · simp [hcnt, hlt, Rel]
  · simp [hcnt, Rel]

theorem step_refines (c : Cfg) (s : St) (k : Key) (t : Nat) (ks : KS)
    (hR : Rel (view s k) ks) (hev : k ∉ (recordAndCheck c s k (fun _ => t)).ev) :
    (recordAndCheck c s k (fun _ => t)).deny = (specStep c ks t).1 ∧
    Rel (view (recordAndCheck c s k (fun _ => t)).st k) (specStep c ks t).2 := by
  rw [rac_unfold] at hev ⊢
  cases ks with
  | idle =>
    simp only [Rel, view, Prod.mk.injEq] at hR
    have h0 := shouldDeny_none (fun _ => t) { access := s.access, prison := s.prison } k hR.2
    rw [h0] at hev ⊢
    simp only [Bool.false_eq_true, if_false] at hev ⊢
    exact tail_spec c t _ k .idle hR.2 (Or.inl ⟨rfl, hR.1⟩) hev
  | counting st n =>
    simp only [Rel, view, Prod.mk.injEq] at hR
    have h0 := shouldDeny_none (fun _ => t) { access := s.access, prison := s.prison } k hR.1.2
    rw [h0] at hev ⊢
    simp only [Bool.false_eq_true, if_false] at hev ⊢
    exact tail_spec c t _ k (.counting st n) hR.1.2 (Or.inr ⟨st, n, rfl, hR.1.1⟩) hev
  | jailed u =>
    simp only [Rel, view, Prod.mk.injEq] at hR
    have hs := shouldDeny_some (fun _ => t) { access := s.access, prison := s.prison } k u hR.2
    by_cases hlt : t < u
    · have h1 : (shouldDeny (fun _ => t) { access := s.access, prison := s.prison } k).1 = true := by
        rw [hs.1]; simp [hlt]
      rw [if_pos h1]
      simp only [specStep, hlt, if_true, view, Rel]
      refine ⟨trivial, ?_⟩
      rw [hs.2.1, hs.2.2.2]
      simp [hlt, hR.1]
    · have h1 : ¬ (shouldDeny (fun _ => t) { access := s.access, prison := s.prison } k).1 = true := by
        rw [hs.1]; simp [hlt]
      rw [if_neg h1] at hev ⊢
      simp only [specStep, hlt, if_false]
      have hP' : dfind (shouldDeny (fun _ => t) { access := s.access, prison := s.prison } k).2.prison k = none := by
        rw [hs.2.2.2]; simp [hlt]
      have hA' : dfind (shouldDeny (fun _ => t) { access := s.access, prison := s.prison } k).2.access k = none := by
        rw [hs.2.1]; exact hR.1
      exact tail_spec c t _ k .idle hP' (Or.inl ⟨rfl, hA'⟩) hev

/-! ### histories -/

/-- a history of calls whose clock reads all coincide: (key, time) -/
def inst (h : List (Key × Nat)) : List Event := h.map fun e => (e.1, fun _ => e.2)

/-- the times of `k`'s requests in a history -/
def kTimes (k : Key) : List (Key × Nat) → List Nat
  | [] => []
  | (k', t) :: r => if k' = k then t :: kTimes k r else kTimes k r

/-- the verdicts given to `k`'s requests -/
def kVerdicts (k : Key) : List (Key × Nat) → List Bool → List Bool
  | (k', _) :: r, v :: vs => if k' = k then v :: kVerdicts k r vs else kVerdicts k r vs
  | _, _ => []

theorem hist_refines (c : Cfg) (k : Key) : ∀ (h : List (Key × Nat)) (s : St) (ks : KS),
    Rel (view s k) ks → k ∉ (runHist c s (inst h)).2.2 →
    kVerdicts k h (runHist c s (inst h)).1 = (specRun c ks (kTimes k h)).1 ∧
    Rel (view (runHist c s (inst h)).2.1 k) (specRun c ks (kTimes k h)).2 := by
  intro h
  induction h with
  | nil => intro s ks hR _; simpa [inst, runHist, kVerdicts, kTimes, specRun] using hR
  | cons e r ih =>
    intro s ks hR hev
    obtain ⟨k', t⟩ := e
    simp only [inst, List.map_cons, runHist, List.mem_append, not_or] at hev ⊢
    by_cases hk : k' = k
    · subst hk
      have hs := step_refines c s k' t ks hR hev.1
      have := ih (recordAndCheck c s k' (fun _ => t)).st (specStep c ks t).2 hs.2 hev.2
      simp only [inst] at this
      simp only [kVerdicts, kTimes, if_true, specRun, this.1, hs.1]
      exact ⟨trivial, this.2⟩
    · have hf := recordAndCheck_frame c s (fun _ => t) hk hev.1
      have := ih (recordAndCheck c s k' (fun _ => t)).st ks (by rw [hf]; exact hR) hev.2
      simp only [inst] at this
      simp only [kVerdicts, kTimes, if_neg hk]
      exact this

theorem other_keys_hist (c : Cfg) (k : Key) : ∀ (es : List Event) (s : St),
    (∀ e ∈ es, e.1 ≠ k) → k ∉ (runHist c s es).2.2 → view (runHist c s es).2.1 k = view s k := by
  intro es
  induction es with
  | nil => intro s _ _; rfl
  | cons e r ih =>
    intro s hne hev
    obtain ⟨k', rd⟩ := e
    simp only [runHist, List.mem_append, not_or] at hev ⊢
    have hk : k' ≠ k := hne (k', rd) (by simp)
    have hf := recordAndCheck_frame c s rd hk hev.1
    rw [ih _ (fun e he => hne e (by simp [he])) hev.2, hf]

/-! ### the ideal machine -/

theorem specRun_append (c : Cfg) : ∀ (a b : List Nat) (ks : KS),
    specRun c ks (a ++ b) =
      ((specRun c ks a).1 ++ (specRun c (specRun c ks a).2 b).1, (specRun c (specRun c ks a).2 b).2) := by
  intro a
  induction a with
  | nil => intro b ks; simp [specRun]
  | cons t r ih => intro b ks; simp [specRun, ih]

theorem count_phase (c : Cfg) (s : Nat) : ∀ (ts : List Nat) (n : Nat),
    (∀ t ∈ ts, t ≤ s + c.cp) → n + ts.length ≤ c.th →
    specRun c (.counting s n) ts = (List.replicate ts.length false, .counting s (n + ts.length)) := by
  intro ts
  induction ts with
  | nil => intro n _ _; simp [specRun]
  | cons t r ih =>
    intro n hin hle
    have h1 : ¬ s + c.cp < t := by have := hin t (by simp); omega
    have h2 : ¬ n + 1 > c.th := by simp at hle; omega
    have hstep : specStep c (.counting s n) t = (false, .counting s (n + 1)) := by
      simp [specStep, specCount, h1, h2]
    have := ih (n + 1) (fun x hx => hin x (by simp [hx])) (by simp at hle ⊢; omega)
    simp only [specRun, hstep, this, List.length_cons, List.replicate_succ]
    congr 2
    omega

theorem jailed_phase (c : Cfg) (u : Nat) : ∀ (ts : List Nat), (∀ t ∈ ts, t < u) →
    specRun c (.jailed u) ts = (List.replicate ts.length true, .jailed u) := by
  intro ts
  induction ts with
  | nil => intro _; simp [specRun]
  | cons t r ih =>
    intro hin
    have h1 : t < u := hin t (by simp)
    have := ih (fun x hx => hin x (by simp [hx]))
    simp [specRun, specStep, h1, this, List.replicate_succ]

theorem filter_len_cons_le (p : Nat → Bool) (t : Nat) (r : List Nat) :
    (r.filter p).length ≤ ((t :: r).filter p).length := by
  rw [List.filter_cons]
  split <;> simp

/-- below the threshold in every window ⇒ no denial (from a counting state) -/
theorem below_never_aux (c : Cfg) : ∀ (ts : List Nat) (s n : Nat),
    List.Pairwise (· ≤ ·) ts → (∀ x ∈ ts, s ≤ x) →
    (∀ s', (ts.filter (fun x => decide (s' ≤ x) && decide (x ≤ s' + c.cp))).length ≤ c.th) →
    n + (ts.filter (fun x => decide (x ≤ s + c.cp))).length ≤ c.th →
    (specRun c (.counting s n) ts).1 = List.replicate ts.length false := by
  intro ts
  induction ts with
  | nil => intro s n _ _ _ _; simp [specRun]
  | cons t r ih =>
    intro s n hp hge hH hcnt
    rw [List.pairwise_cons] at hp
    have hHr : ∀ s', (r.filter (fun x => decide (s' ≤ x) && decide (x ≤ s' + c.cp))).length ≤ c.th :=
      fun s' => Nat.le_trans (filter_len_cons_le _ t r) (hH s')
    by_cases hre : s + c.cp < t
    · -- the window expired: a new one starts at t
      have hHt := hH t
      rw [List.filter_cons] at hHt
      simp only [Nat.le_refl, decide_true, Nat.le_add_right, Bool.and_self, if_true, List.length_cons] at hHt
      have hcongr : r.filter (fun x => decide (t ≤ x) && decide (x ≤ t + c.cp)) =
          r.filter (fun x => decide (x ≤ t + c.cp)) := by
        apply List.filter_congr
        intro x hx
        simp [hp.1 x hx]
      rw [hcongr] at hHt
      have hth : ¬ 0 + 1 > c.th := by omega
      have hstep : specStep c (.counting s n) t = (false, .counting t 1) := by
        simp [specStep, specCount, hre]; omega
      have := ih t 1 hp.2 hp.1 hHr (by omega)
      simp only [specRun, hstep, this, List.length_cons, List.replicate_succ]
    · have hcnt' := hcnt
      rw [List.filter_cons] at hcnt'
      have hts : t ≤ s + c.cp := by omega
      simp only [hts, decide_true, if_true, List.length_cons] at hcnt'
      have hstep : specStep c (.counting s n) t = (false, .counting s (n + 1)) := by
        simp [specStep, specCount, hre]; omega
      have := ih s (n + 1) hp.2 (fun x hx => hge x (by simp [hx])) hHr (by omega)
      simp only [specRun, hstep, this, List.length_cons, List.replicate_succ]

theorem specStep_idle_eq (c : Cfg) (t : Nat) : specStep c .idle t = specStep c (.counting t 0) t := by
  simp [specStep, specCount]

end BfeVerif.C53
