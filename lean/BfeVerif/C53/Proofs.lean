import BfeVerif.C53.Model
/-! C53 helper lemmas: LRU dictionary facts and per-function frame lemmas. -/
namespace BfeVerif.C53

variable {V : Type}

theorem dfind_ddel_ne (d : List (Key × V)) {k k' : Key} (h : k' ≠ k) :
    dfind (ddel d k') k = dfind d k := by
  induction d with
  | nil => rfl
  | cons a r ih =>
    obtain ⟨x, v⟩ := a
    simp only [ddel]
    split
    · rename_i h1; subst h1; simp [dfind, h, ih]
    · simp only [dfind]; split <;> simp [ih]

theorem dfind_ddel_self (d : List (Key × V)) (k : Key) : dfind (ddel d k) k = none := by
  induction d with
  | nil => rfl
  | cons a r ih =>
    obtain ⟨x, v⟩ := a
    by_cases h1 : x = k <;> simp [ddel, dfind, h1, ih]

theorem dfind_dset_ne (d : List (Key × V)) {k k' : Key} (v : V) (h : k' ≠ k) :
    dfind (dset d k' v) k = dfind d k := by
  induction d with
  | nil => rfl
  | cons a r ih =>
    obtain ⟨x, w⟩ := a
    simp only [dset]
    split
    · rename_i h1; subst h1; simp [dfind, h, ih]
    · simp only [dfind]; split <;> simp [ih]

theorem dfind_dset_self (d : List (Key × V)) (k : Key) (v : V) :
    dfind (dset d k v) k = (dfind d k).map (fun _ => v) := by
  induction d with
  | nil => rfl
  | cons a r ih =>
    obtain ⟨x, w⟩ := a
    by_cases h1 : x = k <;> simp [dset, dfind, h1, ih]

theorem dfind_dropLast (d : List (Key × V)) (k : Key) (h : k ∉ lastKey d) :
    dfind d.dropLast k = dfind d k := by
  induction d with
  | nil => rfl
  | cons a r ih =>
    obtain ⟨x, w⟩ := a
    cases r with
    | nil =>
      simp [lastKey] at h
      have : x ≠ k := fun e => h e.symm
      simp [dfind, this]
    | cons b r' =>
      have h' : k ∉ lastKey (b :: r') := by simpa [lastKey] using h
      have := ih h'
      simp only [List.dropLast_cons_cons, dfind, this]

theorem dfind_dadd_ne (d : List (Key × V)) {k k' : Key} (v : V) (cap : Nat) (h : k' ≠ k)
    (hev : k ∉ (dadd d k' v cap).2) : dfind (dadd d k' v cap).1 k = dfind d k := by
  unfold dadd at *
  split at hev <;> rename_i hf
  · simp [hf, dfind, h, dfind_ddel_ne]
  · split at hev <;> rename_i hc
    · simp only [hf, hc, if_true]
      rw [dfind_dropLast _ _ hev]
      simp [dfind, h]
    · simp [hf, hc, dfind, h]

theorem dfind_dadd_self (d : List (Key × V)) (k : Key) (v : V) (cap : Nat)
    (hev : k ∉ (dadd d k v cap).2) : dfind (dadd d k v cap).1 k = some v := by
  unfold dadd at *
  split at hev <;> rename_i hf
  · simp [hf, dfind]
  · split at hev <;> rename_i hc
    · simp only [hf, hc, if_true]
      rw [dfind_dropLast _ _ hev]
      simp [dfind]
    · simp [hf, hc, dfind]

/-! frame lemmas: a call for key `k'` does not change what the dictionaries say about `k ≠ k'` -/

theorem shouldDeny_frame (rd : Nat → Nat) (w : W) {k k' : Key} (h : k' ≠ k) :
    dfind (shouldDeny rd w k').2.access k = dfind w.access k ∧
    dfind (shouldDeny rd w k').2.prison k = dfind w.prison k ∧
    (shouldDeny rd w k').2.ev = w.ev := by
  unfold shouldDeny
  split
  · simp
  · dsimp only
    split <;> simp [dfind, h, dfind_ddel_ne]

theorem getCounter_frame (c : Cfg) (rd : Nat → Nat) (w : W) {k k' : Key} (h : k' ≠ k)
    (hev : k ∉ (getCounter c rd w k').2.ev) :
    dfind (getCounter c rd w k').2.access k = dfind w.access k ∧
    (getCounter c rd w k').2.prison = w.prison ∧ k ∉ w.ev := by
  unfold getCounter at *
  split
  · rename_i f hf
    simp only [hf] at hev
    simp [dfind, h, dfind_ddel_ne]
    exact hev
  · rename_i hf
    simp only [hf, List.mem_append, not_or] at hev
    refine ⟨?_, rfl, hev.2⟩
    exact dfind_dadd_ne _ _ _ h hev.1

theorem incAndCheck_frame (c : Cfg) (rd : Nat → Nat) (w : W) (f : Counter) :
    (incAndCheck c rd w f).2.2.access = w.access ∧ (incAndCheck c rd w f).2.2.prison = w.prison ∧
    (incAndCheck c rd w f).2.2.ev = w.ev := by
  unfold incAndCheck
  dsimp only
  split <;> simp

theorem recordAccess_frame (c : Cfg) (rd : Nat → Nat) (w : W) {k k' : Key} (h : k' ≠ k)
    (hev : k ∉ (recordAccess c rd w k').ev) :
    dfind (recordAccess c rd w k').access k = dfind w.access k ∧
    dfind (recordAccess c rd w k').prison k = dfind w.prison k ∧ k ∉ w.ev := by
  unfold recordAccess at *
  dsimp only at *
  have hi := incAndCheck_frame c rd (getCounter c rd w k').2 (getCounter c rd w k').1
  split at hev
  · rename_i hc
    simp only [List.mem_append, not_or] at hev
    rw [hi.2.2] at hev
    have hg := getCounter_frame c rd w h hev.2
    rw [if_pos hc]
    refine ⟨?_, ?_, hg.2.2⟩
    · show dfind (ddel _ k') k = _
      rw [dfind_ddel_ne _ h, dfind_dset_ne _ _ h, hi.1]; exact hg.1
    · have := dfind_dadd_ne _ _ _ h hev.1
      show dfind (dadd _ k' _ _).1 k = _
      rw [this, hi.2.1, hg.2.1]
  · rename_i hc
    rw [hi.2.2] at hev
    have hg := getCounter_frame c rd w h hev
    rw [if_neg hc]
    refine ⟨?_, ?_, hg.2.2⟩
    · show dfind (dset _ k' _) k = _
      rw [dfind_dset_ne _ _ h, hi.1]; exact hg.1
    · show dfind (incAndCheck c rd _ _).2.2.prison k = _
      rw [hi.2.1, hg.2.1]

theorem recordAndCheck_frame (c : Cfg) (s : St) (rd : Nat → Nat) {k k' : Key} (h : k' ≠ k)
    (hev : k ∉ (recordAndCheck c s k' rd).ev) :
    view (recordAndCheck c s k' rd).st k = view s k := by
  unfold recordAndCheck at *
  dsimp only at *
  simp only [view]
  split at hev
  · rename_i hd
    simp only [if_pos hd]
    have := shouldDeny_frame rd { access := s.access, prison := s.prison } h
    simp only [this.1, this.2.1]
  · rename_i hd
    simp only [if_neg hd]
    simp only at hev
    have h1 := shouldDeny_frame rd { access := s.access, prison := s.prison } h
    have h2 := shouldDeny_frame rd
      (recordAccess c rd (shouldDeny rd { access := s.access, prison := s.prison } k').2 k') h
    rw [h2.2.2] at hev
    have h3 := recordAccess_frame c rd _ h hev
    simp only [h2.1, h2.2.1, h3.1, h3.2.1, h1.1, h1.2.1]

end BfeVerif.C53
