import BfeVerif.C41.Model
/-! Lemmas for C41 (core Lean only). -/
namespace BfeVerif.C41
open BfeVerif.Generated.C41

theorem mutualVersion_spec {cfg : Config} {x v : Nat} (h : mutualVersion cfg x = some v) :
    v ≤ cfg.maxVersion ∧ v ≤ x ∧ (cfg.minVersion ≤ cfg.maxVersion → cfg.minVersion ≤ v) := by
  unfold mutualVersion at h
  split at h
  · cases h
  · split at h
    · cases h; omega
    · cases h; omega

/-- what the grade demands of the protocol version (ssllabs rule quoted in common.go) -/
def GradeAllows (grade : String) (v : Nat) : Prop :=
  (grade = gradeA → versionTLS10 ≤ v) ∧ (grade = gradeAPlus → versionTLS12 ≤ v)

theorem checkVersionGrade_spec {v v' : Nat} {g : String} (h : checkVersionGrade v g = some v') :
    v' = v ∧ GradeAllows g v := by
  unfold checkVersionGrade at h
  split at h
  · cases h
  · split at h
    · cases h
    · rename_i h1 h2
      cases h
      refine ⟨rfl, ?_, ?_⟩
      · intro hg; subst hg
        simp only [beq_self_eq_true, Bool.true_and, decide_eq_true_eq] at h1; omega
      · intro hg; subst hg
        simp only [beq_self_eq_true, Bool.true_and, decide_eq_true_eq] at h2; omega

theorem lookupSuite_spec {id : Nat} {s : Suite} (h : lookupSuite id = some s) : s ∈ table ∧ s.id = id := by
  unfold lookupSuite at h
  have h1 := List.mem_of_find?_eq_some h
  have h2 := List.find?_some h
  exact ⟨h1, by simpa using h2⟩

theorem tryLoop_spec {id ver : Nat} {e ec ch : Bool} {rc : RC4Mode} {sup : List Nat} {i : Nat} {s : Suite} {j : Nat}
    (h : tryLoop id ver e ec ch rc sup i = some (s, j)) :
    id ∈ sup ∧ lookupSuite id = some s ∧ suiteOk s ver e ec ch rc = true := by
  induction sup generalizing i with
  | nil => simp [tryLoop] at h
  | cons a rest ih =>
    unfold tryLoop at h
    split at h
    · rename_i hid
      have hid' : id = a := by simpa using hid
      split at h
      · have := ih h; exact ⟨List.mem_cons_of_mem _ this.1, this.2⟩
      · rename_i cand hl
        split at h
        · rename_i hok
          cases h
          exact ⟨by simp [hid'], hl, hok⟩
        · have := ih h; exact ⟨List.mem_cons_of_mem _ this.1, this.2⟩
    · have := ih h; exact ⟨List.mem_cons_of_mem _ this.1, this.2⟩

theorem tryCipherSuite_spec {id ver : Nat} {e ec ch : Bool} {rc : RC4Mode} {sup : List Nat} {s : Suite} {j : Nat}
    (h : tryCipherSuite id sup ver e ec ch rc = some (s, j)) :
    id ∈ sup ∧ s ∈ table ∧ s.id = id ∧ suiteOk s ver e ec ch rc = true := by
  have := tryLoop_spec h
  have hl := lookupSuite_spec this.2.1
  exact ⟨this.1, hl.1, hl.2, this.2.2⟩

theorem pickLoop_spec {try_ : Nat → Option (Suite × Nat)} {ids : List Nat} {s : Suite}
    (h : pickLoop try_ ids none = some s) : ∃ id ∈ ids, ∃ j, try_ id = some (s, j) := by
  induction ids with
  | nil => simp [pickLoop] at h
  | cons a rest ih =>
    unfold pickLoop at h
    split at h
    · rename_i s' j hj
      cases h
      exact ⟨a, by simp, j, hj⟩
    · obtain ⟨id, hm, j, hj⟩ := ih h
      exact ⟨id, List.mem_cons_of_mem _ hm, j, hj⟩

theorem pickLoopEcdhe_spec {try_ : Nat → Option (Suite × Nat)} {ids : List Nat} {s : Suite}
    (h : pickLoopEcdhe try_ ids none = some s) : ∃ id ∈ ids, ∃ j, try_ id = some (s, j) := by
  induction ids with
  | nil => simp [pickLoopEcdhe] at h
  | cons a rest ih =>
    unfold pickLoopEcdhe at h
    split at h
    · obtain ⟨id, hm, j, hj⟩ := ih h
      exact ⟨id, List.mem_cons_of_mem _ hm, j, hj⟩
    · split at h
      · rename_i s' j hj
        cases h
        exact ⟨a, by simp, j, hj⟩
      · obtain ⟨id, hm, j, hj⟩ := ih h
        exact ⟨id, List.mem_cons_of_mem _ hm, j, hj⟩

theorem equivStep_spec {try_ : Nat → Option (Suite × Nat)} {serverOrder id : Nat}
    {sel : Option (Suite × Nat × Nat)} {s : Suite} {a b : Nat}
    (h : equivStep try_ serverOrder id sel = some (s, a, b)) :
    (∃ j, try_ id = some (s, j)) ∨ sel = some (s, a, b) := by
  unfold equivStep at h
  split at h
  · rename_i s1 clientOrder ht
    split at h
    · have h' := Option.some.inj h
      have hs : s1 = s := congrArg (·.1) h'
      exact Or.inl ⟨clientOrder, by rw [ht, hs]⟩
    · split at h
      · have h' := Option.some.inj h
        have hs : s1 = s := congrArg (·.1) h'
        exact Or.inl ⟨clientOrder, by rw [ht, hs]⟩
      · exact Or.inr h
  · exact Or.inr h

/-- invariant of the equivalent-suite loop: the selected suite came out of `try_` on one of the listed ids -/
theorem equivLoop_spec {try_ : Nat → Option (Suite × Nat)} {l : List (Nat × Nat)}
    {sel : Option (Suite × Nat × Nat)} {s : Suite} {so co : Nat}
    (h : equivLoop try_ l sel = some (s, so, co)) :
    (∃ p ∈ l, ∃ j, try_ p.2 = some (s, j)) ∨ (∃ so' co', sel = some (s, so', co')) := by
  induction l generalizing sel with
  | nil => simp only [equivLoop] at h; exact Or.inr ⟨so, co, h⟩
  | cons a rest ih =>
    obtain ⟨serverOrder, id⟩ := a
    unfold equivLoop at h
    split at h
    · rename_i s1 so1 co1 hst
      have hfrom : ∀ s', s1 = s' →
          (∃ p ∈ (serverOrder, id) :: rest, ∃ j, try_ p.2 = some (s', j)) ∨ (∃ so' co', sel = some (s', so', co')) := by
        intro s' hs'
        subst hs'
        rcases equivStep_spec hst with ⟨j, hj⟩ | hsel
        · exact Or.inl ⟨(serverOrder, id), by simp, j, hj⟩
        · exact Or.inr ⟨_, _, hsel⟩
      split at h
      · have h' := Option.some.inj h
        exact hfrom s (congrArg (·.1) h')
      · rcases ih h with ⟨p, hp, j, hj⟩ | ⟨so', co', hc⟩
        · exact Or.inl ⟨p, List.mem_cons_of_mem _ hp, j, hj⟩
        · have h' := Option.some.inj hc
          exact hfrom s (congrArg (·.1) h')
    · rcases ih h with ⟨p, hp, j, hj⟩ | ⟨so', co', hc⟩
      · exact Or.inl ⟨p, List.mem_cons_of_mem _ hp, j, hj⟩
      · cases hc

theorem negotiateEquivalent_spec {try_ : Nat → Option (Suite × Nat)} {prio ids : List Nat} {s : Suite}
    (h : negotiateEquivalent try_ prio ids = some s) : ∃ id ∈ ids, ∃ j, try_ id = some (s, j) := by
  unfold negotiateEquivalent at h
  cases hr : equivLoop try_ (prio.zip ids) none with
  | none => simp [hr] at h
  | some t =>
    obtain ⟨s', so, co⟩ := t
    simp only [hr, Option.map_some, Option.some.injEq] at h
    subst h
    rcases equivLoop_spec hr with ⟨p, hp, j, hj⟩ | ⟨_, _, hc⟩
    · exact ⟨p.2, (List.of_mem_zip hp).2, j, hj⟩
    · cases hc

theorem mutualProtocol_spec {c s : List String} {p : String} (h : mutualProtocol c s = some p) :
    p ∈ s ∧ p ∈ c := by
  induction s with
  | nil => simp [mutualProtocol] at h
  | cons a rest ih =>
    unfold mutualProtocol at h
    split at h
    · rename_i hc
      cases h
      exact ⟨by simp, by simpa using hc⟩
    · have := ih h; exact ⟨List.mem_cons_of_mem _ this.1, this.2⟩

/-- the client-certificate part of the resumption decision -/
def ClientCertOk (clientAuth : Nat) (st : Session) : Prop :=
  ((clientAuth = requireAnyClientCert ∨ clientAuth = requireAndVerifyClientCert) → st.hasCerts = true) ∧
  (clientAuth = noClientCert → st.hasCerts = false)

theorem resumeClientCertOk_spec {ca : Nat} {st : Session} (h : resumeClientCertOk ca st = true) :
    ClientCertOk ca st := by
  unfold resumeClientCertOk at h
  constructor
  · intro hneed
    cases hcs : st.hasCerts with
    | true => rfl
    | false => rcases hneed with h1 | h1 <;> simp [h1, hcs] at h
  · intro hno
    cases hcs : st.hasCerts with
    | false => rfl
    | true => simp [hno, hcs] at h

theorem checkForResumption_spec {cfg : Config} {h : Hello} {lk : Lookups} {cvers ca : Nat} {e ec ch : Bool}
    {rc : RC4Mode} {suite : Suite} {st : Session}
    (hr : checkForResumption cfg h lk cvers ca e ec ch rc = some (suite, st)) :
    sessionLookup cfg h lk = some st ∧
    resumeVersionOk cfg h cvers st = true ∧
    st.suite ∈ h.suites ∧
    (∃ j, tryCipherSuite st.suite cfg.cipherSuites st.vers e ec ch rc = some (suite, j)) ∧
    ClientCertOk ca st := by
  unfold checkForResumption at hr
  split at hr
  · cases hr
  · rename_i st' hl
    split at hr
    · cases hr
    · rename_i hv
      split at hr
      · cases hr
      · rename_i hs
        split at hr
        · cases hr
        · rename_i suite' j ht
          split at hr
          · cases hr
          · rename_i hc
            have h' := Option.some.inj hr
            have e1 : suite' = suite := congrArg (·.1) h'
            have e2 : st' = st := congrArg (·.2) h'
            subst e1 e2
            exact ⟨hl, by simpa using hv, by simpa using hs, ⟨j, ht⟩,
              resumeClientCertOk_spec (by simpa using hc)⟩

theorem resumeVersionOk_same {cfg : Config} {h : Hello} {cvers : Nat} {st : Session}
    (hf : resumeRequiresSameVersion = true) (hv : resumeVersionOk cfg h cvers st = true) : cvers = st.vers := by
  unfold resumeVersionOk at hv
  simp only [hf, if_true, Bool.and_eq_true, beq_iff_eq] at hv
  exact hv.1

theorem suiteOk_spec {s : Suite} {ver : Nat} {e ec ch : Bool} {rc : RC4Mode}
    (h : suiteOk s ver e ec ch rc = true) :
    (s.has suiteECDHE = true → e = true) ∧ s.has suiteECDSA = ec ∧
    (s.has suiteTLS12 = true → versionTLS12 ≤ ver) ∧ (s.has suiteChacha20 = true → ch = true) ∧
    (s.has suiteRC4 = true → rc ≠ .disable) ∧ (rc = .only → s.has suiteRC4 = true) := by
  unfold suiteOk at h
  generalize s.has suiteECDHE = b1 at *
  generalize s.has suiteECDSA = b2 at *
  generalize s.has suiteTLS12 = b3 at *
  generalize s.has suiteChacha20 = b4 at *
  generalize s.has suiteRC4 = b5 at *
  simp only [Bool.and_eq_true, Bool.not_eq_true', Bool.and_eq_false_imp, beq_iff_eq, Bool.not_eq_false',
    decide_eq_true_eq] at h
  obtain ⟨⟨⟨⟨⟨h1, h2⟩, h3⟩, h4⟩, h5⟩, h6⟩ := h
  refine ⟨?_, h2, ?_, ?_, ?_, ?_⟩
  · intro hb; simpa using h1 hb
  · intro hb
    false_or_by_contra
    rename_i hlt
    have := h3 (by omega)
    simp [hb] at this
  · intro hb; simpa using h4 hb
  · intro hb hrc
    have := h5 hb
    simp [hrc] at this
  · intro hrc
    cases b5 with
    | true => rfl
    | false =>
      have := h6 (by simp)
      simp [hrc] at this

/-- the client's ECC extensions, where present, are compatible with the server's curves / point format
    (RFC 4492 §4: a client that sends neither extension accepts any curve; not under SSL 3.0) -/
def EccCompat (cfg : Config) (h : Hello) (v : Nat) : Prop :=
  (supportedCurveOf cfg h = true ∨ h.curves = []) ∧ (supportedPointOf h = true ∨ h.points = []) ∧
  ((h.curves = [] ∨ h.points = []) → versionSSL30 < v)

theorem checkEllipticMayOk_spec {cfg : Config} {h : Hello} {v : Nat}
    (hm : checkEllipticMayOk v (supportedCurveOf cfg h) (supportedPointOf h) h = true) : EccCompat cfg h v := by
  unfold checkEllipticMayOk at hm
  split at hm
  · cases hm
  · rename_i hv
    have hv' : versionSSL30 < v := by omega
    split at hm
    · rename_i h1
      simp only [Bool.and_eq_true, List.isEmpty_iff] at h1
      exact ⟨Or.inl h1.1, Or.inr h1.2, fun _ => hv'⟩
    · split at hm
      · rename_i h1
        simp only [Bool.and_eq_true, List.isEmpty_iff] at h1
        exact ⟨Or.inr h1.2, Or.inl h1.1, fun _ => hv'⟩
      · split at hm
        · rename_i h1
          simp only [Bool.and_eq_true, List.isEmpty_iff] at h1
          exact ⟨Or.inr h1.1, Or.inr h1.2, fun _ => hv'⟩
        · cases hm

theorem ellipticOk_compat {cfg : Config} {h : Hello} {v : Nat}
    (he : (supportedCurveOf cfg h && supportedPointOf h) = true) : EccCompat cfg h v := by
  simp only [Bool.and_eq_true] at he
  refine ⟨Or.inl he.1, Or.inl he.2, ?_⟩
  rintro (hc | hp)
  · have := he.1; simp [supportedCurveOf, hc] at this
  · have := he.2; simp [supportedPointOf, hp] at this

/-- the three ways `readClientHello` can succeed -/
inductive Outcome (cfg : Config) (rule : Option Rule) (h : Hello) (lk : Lookups) (v : Nat) (suite : Suite) (p : Params) : Prop
  | resumed (st : Session)
      (hc : checkForResumption cfg h lk v (clientAuthOf cfg rule) (supportedCurveOf cfg h && supportedPointOf h)
        cfg.certEcdsa (chachaOf rule) (checkCipherGrade cfg (gradeOf rule) v) = some (suite, st))
      (hp : p = mkParams cfg rule h v suite true false (some st))
  | full
      (hf : firstPick cfg h v (supportedCurveOf cfg h && supportedPointOf h) cfg.certEcdsa (chachaOf rule)
        (checkCipherGrade cfg (gradeOf rule) v) = some suite)
      (hs : ¬ ((h.suites.contains fallbackSCSV && decide (h.vers < scsvBound cfg)) = true))
      (hp : p = mkParams cfg rule h v suite false false none)
  | fullNoExt
      (hf : fallbackPick cfg h v cfg.certEcdsa (chachaOf rule) (checkCipherGrade cfg (gradeOf rule) v) = some suite)
      (hs : ¬ ((h.suites.contains fallbackSCSV && decide (h.vers < scsvBound cfg)) = true))
      (hp : p = mkParams cfg rule h v suite false true none)

theorem rch_ok {cfg : Config} {rule : Option Rule} {h : Hello} {lk : Lookups} {p : Params}
    (hr : readClientHello cfg rule h lk = .ok p) :
    ∃ v0 v suite, mutualVersion cfg h.vers = some v0 ∧ checkVersionGrade v0 (gradeOf rule) = some v ∧
      Outcome cfg rule h lk v suite p := by
  unfold readClientHello at hr
  split at hr
  · cases hr
  · rename_i v0 hv0
    split at hr
    · cases hr
    · rename_i v hv
      refine ⟨v0, v, ?_⟩
      simp only at hr
      split at hr
      · cases hr
      · split at hr
        · cases hr
        · split at hr
          · rename_i suite st hc
            cases hr
            exact ⟨suite, hv0, hv, .resumed st hc rfl⟩
          · split at hr
            · rename_i suite hf
              split at hr
              · cases hr
              · rename_i hs
                cases hr
                exact ⟨suite, hv0, hv, .full hf hs rfl⟩
            · split at hr
              · cases hr
              · rename_i suite hf
                split at hr
                · cases hr
                · rename_i hs
                  cases hr
                  exact ⟨suite, hv0, hv, .fullNoExt hf hs rfl⟩

end BfeVerif.C41
