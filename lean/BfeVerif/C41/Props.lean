import BfeVerif.C41.Proofs
import BfeVerif.C41.Select
import BfeVerif.C41.Serve
import BfeVerif.C41.Records
import BfeVerif.C41.Reload
/-!
  C41 — TLS negotiation picks mutually supported parameters and resists downgrade.
  Property theorems only.  All are about `readClientHello` of `Model.lean`, i.e. about the decisions taken
  before any key exchange; key exchange, record protection and "application data flows" are executed by
  the harness, not modelled.

  Two facts regenerated from the source enter the statements: `scsvUsesEffectiveMax` (the SCSV test compares
  against `maxVersion()`) and `resumeRequiresSameVersion` (a session of another version is not resumed).
  If the source loses either, the proofs below stop checking.
-/
namespace BfeVerif.C41
open BfeVerif.Generated.C41

theorem C41_fact_scsv : scsvUsesEffectiveMax = true := by decide
theorem C41_fact_resume_version : resumeRequiresSameVersion = true := by decide

/-- **Version, upper part and grade (full strength).**  An accepted hello gets a version not above the server's
    effective maximum, not above the client's, and allowed by the grade of the connection's rule. -/
theorem C41_version_upper {cfg : Config} {rule : Option Rule} {h : Hello} {lk : Lookups} {p : Params}
    (hr : readClientHello cfg rule h lk = .ok p) :
    p.vers ≤ cfg.maxVersion ∧ p.vers ≤ h.vers ∧ GradeAllows (gradeOf rule) p.vers := by
  obtain ⟨v0, v, suite, hv0, hv, ho⟩ := rch_ok hr
  have hm := mutualVersion_spec hv0
  have hg := checkVersionGrade_spec hv
  have hpv : p.vers = v := by cases ho <;> (rename_i hp; rw [hp]; rfl)
  rw [hpv, hg.1]
  exact ⟨hm.1, hm.2.1, hg.2⟩

/-- The full statement also demands `cfg.minVersion ≤ p.vers`.  It fails for a configuration whose range is
    inverted (`MinVersion > MaxVersion`): `mutualVersion` clamps to the maximum after testing the minimum. -/
def C41_version_lower_statement : Prop :=
  ∀ (cfg : Config) (rule : Option Rule) (h : Hello) (lk : Lookups) (p : Params),
    readClientHello cfg rule h lk = .ok p → cfg.minVersion ≤ p.vers

theorem C41_version_lower_partial {cfg : Config} {rule : Option Rule} {h : Hello} {lk : Lookups} {p : Params}
    (hwf : cfg.minVersion ≤ cfg.maxVersion)
    (hr : readClientHello cfg rule h lk = .ok p) : cfg.minVersion ≤ p.vers := by
  obtain ⟨v0, v, suite, hv0, hv, ho⟩ := rch_ok hr
  have hm := mutualVersion_spec hv0
  have hg := checkVersionGrade_spec hv
  have hpv : p.vers = v := by cases ho <;> (rename_i hp; rw [hp]; rfl)
  rw [hpv, hg.1]
  exact hm.2.2 hwf

def wCfg : Config :=
  { minVersionRaw := 0, maxVersionRaw := 0, cipherSuitesRaw := none, priority := [], preferServer := false,
    ssl3PoodleProofed := false, ticketsDisabled := false, cacheEnabled := false, nextProtos := [],
    clientAuth := 0, curvePrefsRaw := [], hasCert := true, certEcdsa := false }

def wHello : Hello :=
  { vers := 0x0303, suites := [0x002f], compression := [0], curves := [], points := [], alpn := [], npn := false,
    ticketSupported := false, ticketPresent := false, sessionIdPresent := false }

def wNoLookups : Lookups := { ticket := none, cache := none }

/-- witness (corpus/C41/known.ops): MinVersion = TLS1.2, MaxVersion = TLS1.0, hello TLS1.2 → TLS1.0 is negotiated -/
theorem C41_witness_inverted_range : ¬ C41_version_lower_statement := by
  intro hall
  have := hall { wCfg with minVersionRaw := 0x0303, maxVersionRaw := 0x0301 } none wHello wNoLookups
    (mkParams { wCfg with minVersionRaw := 0x0303, maxVersionRaw := 0x0301 } none wHello 0x0301 ⟨0x002f, 0⟩ false false none)
    rfl
  revert this
  decide

/-- what the server's configuration and the rule of this connection allow for a suite at version `v` -/
structure SuiteAcceptable (cfg : Config) (rule : Option Rule) (h : Hello) (v : Nat) (s : Suite) : Prop where
  inTable : s ∈ table
  ecdhe : s.has suiteECDHE = true → EccCompat cfg h v
  certType : s.has suiteECDSA = cfg.certEcdsa
  tls12 : s.has suiteTLS12 = true → versionTLS12 ≤ v
  chacha : s.has suiteChacha20 = true → chachaOf rule = true
  rc4off : s.has suiteRC4 = true → checkCipherGrade cfg (gradeOf rule) v ≠ .disable
  rc4only : checkCipherGrade cfg (gradeOf rule) v = .only → s.has suiteRC4 = true

/-- **Cipher suite (full strength).**  The suite of an accepted hello (full or resumed handshake) was offered
    by the client, is in the server's configured list, is an entry of the `cipherSuites` table, and passes
    every per-connection restriction (curves, certificate type, TLS1.2-only, chacha20 switch of the rule,
    RC4 policy of the grade) at the negotiated version. -/
theorem C41_suite {cfg : Config} {rule : Option Rule} {h : Hello} {lk : Lookups} {p : Params}
    (hr : readClientHello cfg rule h lk = .ok p) :
    p.suite.id ∈ h.suites ∧ p.suite.id ∈ cfg.cipherSuites ∧ SuiteAcceptable cfg rule h p.vers p.suite := by
  obtain ⟨v0, v, suite, hv0, hv, ho⟩ := rch_ok hr
  -- common tail: from a successful `tryCipherSuite` at version `v`
  have key : ∀ (id : Nat) (sup : List Nat) (ell : Bool) (j : Nat),
      tryCipherSuite id sup v ell cfg.certEcdsa (chachaOf rule) (checkCipherGrade cfg (gradeOf rule) v) = some (suite, j) →
      (ell = true → EccCompat cfg h v) →
      suite.id = id ∧ id ∈ sup ∧ SuiteAcceptable cfg rule h v suite := by
    intro id sup ell j ht hell
    have t := tryCipherSuite_spec ht
    have so := suiteOk_spec t.2.2.2
    exact ⟨t.2.2.1, t.1, ⟨t.2.1, fun hb => hell (so.1 hb), so.2.1, so.2.2.1, so.2.2.2.1, so.2.2.2.2.1, so.2.2.2.2.2⟩⟩
  cases ho with
  | resumed st hc hp =>
    have c := checkForResumption_spec hc
    have hvs : v = st.vers := resumeVersionOk_same C41_fact_resume_version c.2.1
    obtain ⟨j, ht⟩ := c.2.2.2.1
    rw [← hvs] at ht
    have k := key st.suite cfg.cipherSuites _ j ht (fun he => ellipticOk_compat he)
    subst hp
    show suite.id ∈ h.suites ∧ suite.id ∈ cfg.cipherSuites ∧ SuiteAcceptable cfg rule h v suite
    rw [k.1]
    exact ⟨c.2.2.1, k.2.1, k.2.2⟩
  | full hf hs hp =>
    subst hp
    show suite.id ∈ h.suites ∧ suite.id ∈ cfg.cipherSuites ∧ SuiteAcceptable cfg rule h v suite
    unfold firstPick at hf
    have hpick : ∃ id ∈ preferenceList cfg h, ∃ j, tryCipherSuite id (supportedList cfg h) v
        (supportedCurveOf cfg h && supportedPointOf h) cfg.certEcdsa (chachaOf rule)
        (checkCipherGrade cfg (gradeOf rule) v) = some (suite, j) := by
      split at hf
      · exact negotiateEquivalent_spec hf
      · exact pickLoop_spec hf
    obtain ⟨id, hid, j, ht⟩ := hpick
    have k := key id _ _ j ht (fun he => ellipticOk_compat he)
    rw [k.1]
    unfold preferenceList at hid
    unfold supportedList at k
    cases hps : cfg.preferServer <;> simp only [hps, if_true, Bool.false_eq_true, if_false] at hid k
    · exact ⟨hid, k.2.1, k.2.2⟩
    · exact ⟨k.2.1, hid, k.2.2⟩
  | fullNoExt hf hs hp =>
    subst hp
    show suite.id ∈ h.suites ∧ suite.id ∈ cfg.cipherSuites ∧ SuiteAcceptable cfg rule h v suite
    unfold fallbackPick at hf
    split at hf
    · rename_i hmay
      obtain ⟨id, hid, j, ht⟩ := pickLoopEcdhe_spec hf
      have k := key id _ true j ht (fun _ => checkEllipticMayOk_spec hmay)
      rw [k.1]
      unfold preferenceList at hid
      unfold supportedList at k
      cases hps : cfg.preferServer <;> simp only [hps, if_true, Bool.false_eq_true, if_false] at hid k
      · exact ⟨hid, k.2.1, k.2.2⟩
      · exact ⟨k.2.1, hid, k.2.2⟩
    · cases hf

/-- The full ALPN statement: a selected protocol was offered by both sides. -/
def C41_alpn_statement : Prop :=
  ∀ (cfg : Config) (rule : Option Rule) (h : Hello) (lk : Lookups) (p : Params),
    readClientHello cfg rule h lk = .ok p → p.alpn ≠ "" →
    p.alpn ∈ h.alpn ∧ p.alpn ∈ nextProtosOf cfg rule

/-- **ALPN, what the code guarantees.**  The protocol in the ServerHello is either mutual, or it is the literal
    "http/1.1" that `validateHttp2Accepted` substitutes for a mutually offered "h2" when the suite or version
    is not acceptable for HTTP/2 — whether or not anybody offered "http/1.1". -/
theorem C41_alpn_partial {cfg : Config} {rule : Option Rule} {h : Hello} {lk : Lookups} {p : Params}
    (hr : readClientHello cfg rule h lk = .ok p) (hne : p.alpn ≠ "") :
    (p.alpn ∈ h.alpn ∧ p.alpn ∈ nextProtosOf cfg rule) ∨
    (p.alpn = "http/1.1" ∧ "h2" ∈ h.alpn ∧ "h2" ∈ nextProtosOf cfg rule ∧
      (http2Accepted.contains p.suite.id = false ∨ p.vers < versionTLS12)) := by
  obtain ⟨v0, v, suite, hv0, hv, ho⟩ := rch_ok hr
  have hp : ∃ r e s, p = mkParams cfg rule h v suite r e s := by
    cases ho with
    | resumed st _ hp => exact ⟨_, _, _, hp⟩
    | full _ _ hp => exact ⟨_, _, _, hp⟩
    | fullNoExt _ _ hp => exact ⟨_, _, _, hp⟩
  obtain ⟨r, e, s, hp⟩ := hp
  subst hp
  simp only [mkParams] at hne ⊢
  -- the pre-validation choice is mutual or empty
  have hch : alpnChoice h (nextProtosOf cfg rule) = "" ∨
      (alpnChoice h (nextProtosOf cfg rule) ∈ h.alpn ∧ alpnChoice h (nextProtosOf cfg rule) ∈ nextProtosOf cfg rule) := by
    unfold alpnChoice
    split
    · split
      · rename_i p' hm
        have := mutualProtocol_spec hm
        exact Or.inr ⟨this.2, this.1⟩
      · exact Or.inl rfl
    · exact Or.inl rfl
  generalize alpnChoice h (nextProtosOf cfg rule) = a at *
  unfold validateHttp2 at hne ⊢
  split
  · rename_i ha
    have ha' : a = "h2" := by simpa using ha
    rcases hch with h0 | hmut
    · rw [h0] at ha'; exact absurd ha' (by decide)
    · split
      · rename_i hbad
        right
        refine ⟨rfl, ha' ▸ hmut.1, ha' ▸ hmut.2, ?_⟩
        simp only [Bool.or_eq_true, Bool.not_eq_true', decide_eq_true_eq] at hbad
        exact hbad
      · left; exact hmut
  · rename_i ha
    simp only [ha] at hne
    rcases hch with h0 | hmut
    · exact absurd h0 hne
    · left; exact hmut

/-- The clean conclusion under the hypothesis that excludes the substitution defect. -/
theorem C41_alpn_when_http11_mutual {cfg : Config} {rule : Option Rule} {h : Hello} {lk : Lookups} {p : Params}
    (hr : readClientHello cfg rule h lk = .ok p) (hne : p.alpn ≠ "")
    (hyp : ("h2" ∈ h.alpn ∧ "h2" ∈ nextProtosOf cfg rule) → ("http/1.1" ∈ h.alpn ∧ "http/1.1" ∈ nextProtosOf cfg rule)) :
    p.alpn ∈ h.alpn ∧ p.alpn ∈ nextProtosOf cfg rule := by
  rcases C41_alpn_partial hr hne with hm | ⟨he, h1, h2, _⟩
  · exact hm
  · rw [he]; exact hyp ⟨h1, h2⟩

/-- witness (corpus/C41/known.ops): client offers only "h2" and only a CBC suite, server list is h2,http/1.1:
    the ServerHello carries "http/1.1", which the client never offered. -/
theorem C41_witness_alpn : ¬ C41_alpn_statement := by
  intro hall
  have := hall { wCfg with nextProtos := ["h2", "http/1.1"] } none { wHello with alpn := ["h2"] } wNoLookups
    (mkParams { wCfg with nextProtos := ["h2", "http/1.1"] } none { wHello with alpn := ["h2"] } 0x0303 ⟨0x002f, 0⟩ false false none)
    rfl (by decide)
  revert this
  decide

/-- The full SCSV statement (RFC 7507 §3): a hello carrying TLS_FALLBACK_SCSV with a version below the server's
    highest enabled version is never accepted. -/
def C41_scsv_statement : Prop :=
  ∀ (cfg : Config) (rule : Option Rule) (h : Hello) (lk : Lookups) (p : Params),
    fallbackSCSV ∈ h.suites → h.vers < cfg.maxVersion → readClientHello cfg rule h lk ≠ .ok p

/-- **SCSV, full handshakes (including a server that leaves MaxVersion at its default).**  Such a hello is
    accepted only on the resumption path; every full handshake is refused. -/
theorem C41_scsv_partial {cfg : Config} {rule : Option Rule} {h : Hello} {lk : Lookups} {p : Params}
    (hs : fallbackSCSV ∈ h.suites) (hv : h.vers < cfg.maxVersion)
    (hr : readClientHello cfg rule h lk = .ok p) : p.resume = true := by
  obtain ⟨v0, v, suite, hv0, hvg, ho⟩ := rch_ok hr
  have hb : scsvBound cfg = cfg.maxVersion := by unfold scsvBound; rw [C41_fact_scsv]; rfl
  have hscsv : (h.suites.contains fallbackSCSV && decide (h.vers < scsvBound cfg)) = true := by
    rw [hb]; simp [hs, hv]
  cases ho with
  | resumed st _ hp => rw [hp]; rfl
  | full _ hn _ => exact absurd hscsv hn
  | fullNoExt _ hn _ => exact absurd hscsv hn

/-- … and when it is refused at that point, the alert is inappropriate_fallback or an earlier refusal; in
    particular, with no session to resume the hello is refused whatever else it contains. -/
theorem C41_scsv_no_session {cfg : Config} {rule : Option Rule} {h : Hello} {p : Params}
    (hs : fallbackSCSV ∈ h.suites) (hv : h.vers < cfg.maxVersion) :
    readClientHello cfg rule h { ticket := none, cache := none } ≠ .ok p := by
  intro hr
  obtain ⟨v0, v, suite, hv0, hvg, ho⟩ := rch_ok hr
  have := C41_scsv_partial hs hv hr
  cases ho with
  | resumed st hc hp =>
    have c := checkForResumption_spec hc
    have : sessionLookup cfg h { ticket := none, cache := none } = none := by
      unfold sessionLookup; split <;> (try split) <;> (try split) <;> rfl
    rw [this] at c; cases c.1
  | full _ _ hp => rw [hp] at this; cases this
  | fullNoExt _ _ hp => rw [hp] at this; cases this

/-- witness (corpus/C41/known.ops): TLS1.0 hello with SCSV and a valid TLS1.0 ticket against a default
    (TLS1.2) server is resumed instead of refused: the SCSV test sits after `checkForResumption`. -/
theorem C41_witness_scsv_resume : ¬ C41_scsv_statement := by
  intro hall
  have := hall wCfg none
    { wHello with vers := 0x0301, suites := [0x002f, 0x5600], ticketSupported := true, ticketPresent := true }
    { ticket := some ⟨0x0301, 0x002f, false⟩, cache := none }
    (mkParams wCfg none { wHello with vers := 0x0301, suites := [0x002f, 0x5600], ticketSupported := true, ticketPresent := true }
      0x0301 ⟨0x002f, 0⟩ true false (some ⟨0x0301, 0x002f, false⟩))
    (by decide) (by decide)
  exact this rfl

/-- **Resumed handshakes keep version and suite of the session** (needed for C41's "uses" on the
    abbreviated path; the ticket / cache side is C44). -/
theorem C41_resume_keeps_version {cfg : Config} {rule : Option Rule} {h : Hello} {lk : Lookups} {p : Params}
    (hr : readClientHello cfg rule h lk = .ok p) (hres : p.resume = true) :
    ∃ st, p.sess = some st ∧ sessionLookup cfg h lk = some st ∧ st.vers = p.vers ∧ st.suite = p.suite.id := by
  obtain ⟨v0, v, suite, hv0, hvg, ho⟩ := rch_ok hr
  cases ho with
  | resumed st hc hp =>
    have c := checkForResumption_spec hc
    have hvs : v = st.vers := resumeVersionOk_same C41_fact_resume_version c.2.1
    obtain ⟨j, ht⟩ := c.2.2.2.1
    have t := tryCipherSuite_spec ht
    subst hp
    exact ⟨st, rfl, c.1, hvs.symm, t.2.2.1.symm⟩
  | full _ _ hp => rw [hp] at hres; cases hres
  | fullNoExt _ _ hp => rw [hp] at hres; cases hres

/-! ## Which rule, which certificate, which client-certificate policy (Select.lean) -/

theorem C41_fact_sni_normalised : sniRuleLookupNormalised = true := by decide

/-- **The rule applied is the one configured for the connection.**  (1) A connection arriving on a configured VIP gets
    that VIP's rule whatever SNI it presents.  (2) Otherwise it gets the rule whose SniConf lists the presented server
    name — compared case-insensitively and without trailing dots, so no spelling of a configured host name escapes
    its rule (this needs the `sniRuleLookupNormalised` fact, i.e. the repaired lookup).  (3) Otherwise the default
    rule.  Names are unique after lower-casing (`checkSniConf` refuses duplicates). -/
theorem C41_rule_lookup {α : Type} (t : RuleTable α) (vip : Option String) (sni : String)
    (hnd : (t.sni.map fun p => lowerAscii p.1).Nodup) :
    (∀ v r, vip = some v → lookup t.vip v = some r → getRule t vip sni = r) ∧
    (vip.bind (lookup t.vip) = none → ∀ name r, (name, r) ∈ t.sni → lowerAscii name = normName sni →
      getRule t vip sni = r) ∧
    (vip.bind (lookup t.vip) = none → (∀ p ∈ t.sni, lowerAscii p.1 ≠ normName sni) → getRule t vip sni = t.dflt) := by
  have hk : ∀ n, sniLoadKey n = lowerAscii n := fun n => by unfold sniLoadKey; rw [C41_fact_sni_normalised]; rfl
  have hq : sniLookupKey sni = normName sni := by unfold sniLookupKey; rw [C41_fact_sni_normalised]; rfl
  have hmap : (t.sni.map fun p => (sniLoadKey p.1, p.2)) = t.sni.map fun p => (lowerAscii p.1, p.2) := by
    apply List.map_congr_left; intro p _; rw [hk]
  refine ⟨?_, ?_, ?_⟩
  · intro v r hv hl
    unfold getRule; subst hv
    simp only [Option.bind_some, hl]
  · intro hnone name r hm he
    unfold getRule
    rw [hnone, hmap, hq, ← he]
    simp only
    rw [lookup_of_mem_nodup lowerAscii t.sni name r hnd hm]
  · intro hnone hall
    unfold getRule
    rw [hnone, hmap, hq]
    simp only
    rw [lookup_none_of_forall]
    intro p hp
    obtain ⟨q, hq', rfl⟩ := List.mem_map.mp hp
    exact hall q hq'

/-- Two spellings of one host name get the same rule. -/
theorem C41_rule_case_insensitive {α : Type} (t : RuleTable α) (vip : Option String) (a b : String)
    (h : normName a = normName b) : getRule t vip a = getRule t vip b := by
  unfold getRule sniLookupKey
  rw [C41_fact_sni_normalised]
  simp only [if_true, h]

/-- **The certificate matches the SNI by exact name, then by wildcard.**  VIP's certificate first; otherwise, for a
    non-empty server name (lower-cased, trailing dots removed): the certificate that carries the name exactly if there
    is one — even if wildcard patterns match too —, else a certificate one of whose wildcard patterns matches
    (whichever the map iteration meets first), else the default certificate; the default also for an empty name. -/
theorem C41_cert_lookup (t : CertTable) (vip : Option String) (sni : String) :
    (∀ v c, vip = some v → lookup t.vip v = some c → certGet t vip sni = c) ∧
    (vip.bind (lookup t.vip) = none → sni.isEmpty = false → ∀ c, lookup t.normal (normName sni) = some c →
      certGet t vip sni = c) ∧
    (vip.bind (lookup t.vip) = none → sni.isEmpty = false → lookup t.normal (normName sni) = none →
      (∃ pat, (pat, certGet t vip sni) ∈ t.wildcard ∧ matchHostnames pat (normName sni) = true) ∨
      ((∀ p ∈ t.wildcard, matchHostnames p.1 (normName sni) = false) ∧ certGet t vip sni = t.dflt)) ∧
    (vip.bind (lookup t.vip) = none → sni.isEmpty = true → certGet t vip sni = t.dflt) := by
  refine ⟨?_, ?_, ?_, ?_⟩
  · intro v c hv hl
    unfold certGet; subst hv
    simp only [Option.bind_some, hl]
  · intro hnone hne c hl
    unfold certGet nameCertGet
    rw [hnone]
    simp only [hne, Bool.false_eq_true, if_false, hl]
  · intro hnone hne hl
    unfold certGet nameCertGet
    rw [hnone]
    simp only [hne, Bool.false_eq_true, if_false, hl]
    cases hf : t.wildcard.find? (fun p => matchHostnames p.1 (normName sni)) with
    | none =>
      right
      refine ⟨?_, by simp⟩
      intro p hp
      have := List.find?_eq_none.mp hf p hp
      simpa using this
    | some p =>
      left
      refine ⟨p.1, ?_, ?_⟩
      · simpa using List.mem_of_find?_eq_some hf
      · simpa using List.find?_some hf
  · intro hnone he
    unfold certGet
    rw [hnone]
    simp only [he, if_true]

/-- **Client certificates.**  If the client-certificate part of a full handshake succeeds under the connection's
    policy (the rule's `ClientAuth` forces RequireAndVerifyClientCert, `clientAuthOf`), then: a policy that requires a
    certificate got one; a policy that verifies got a chain that verifies against the connection's CA pool for client
    authentication and whose leaf lists the ClientAuth usage; and any accepted certificate parsed, is not revoked,
    has a usable key, and proved possession of it (CertificateVerify). -/
theorem C41_client_auth {policy : Nat} {cc r : Option ClientCert} (h : clientAuthStep policy cc = .ok r) :
    ((policy = requireAnyClientCert ∨ policy = requireAndVerifyClientCert) → ∃ c, r = some c) ∧
    (∀ c, r = some c → verifyClientCertIfGiven ≤ policy → c.chainOk = true ∧ c.ekuListed = true) ∧
    (∀ c, r = some c → cc = some c ∧ c.parses = true ∧ c.revoked = false ∧ c.keyOk = true ∧ c.sigOk = true) ∧
    (policy < requestClientCert → r = none) := by
  unfold clientAuthStep at h
  split at h
  · rename_i hp
    cases h
    refine ⟨?_, (by intro c hc; cases hc), (by intro c hc; cases hc), fun _ => rfl⟩
    rintro (h1 | h1) <;> (rw [h1] at hp; exact absurd hp (by decide))
  · rename_i hp
    cases cc with
    | none =>
      simp only at h
      split at h
      · cases h
      · rename_i hq
        cases h
        refine ⟨?_, (by intro c hc; cases hc), (by intro c hc; cases hc), fun hlt => absurd hlt hp⟩
        rintro (h1 | h1) <;> (exfalso; apply hq; simp [h1])
    | some c =>
      simp only at h
      split at h; · cases h
      rename_i h1
      split at h; · cases h
      rename_i h2
      split at h; · cases h
      rename_i h3
      split at h; · cases h
      rename_i h4
      split at h; · cases h
      rename_i h5
      split at h; · cases h
      rename_i h6
      cases h
      refine ⟨fun _ => ⟨c, rfl⟩, ?_, ?_, fun hlt => absurd hlt hp⟩
      · intro c' hc hpol
        cases hc
        have hd : decide (policy ≥ verifyClientCertIfGiven) = true := by simpa using hpol
        constructor
        · cases hco : c.chainOk with
          | true => rfl
          | false => exact absurd (by simp [hd, hco]) h3
        · cases hco : c.ekuListed with
          | true => rfl
          | false => exact absurd (by simp [hd, hco]) h4
      · intro c' hc
        cases hc
        refine ⟨rfl, ?_, ?_, ?_, ?_⟩
        · simpa using h1
        · simpa using h2
        · simpa using h5
        · simpa using h6

/-- The CA pool is the rule's when the rule demands client certificates and names a pool, else the Config's. -/
theorem C41_client_ca_pool (cfgPool rulePool : Option String) (p : String) :
    clientCAPool cfgPool (some p) true = some p ∧ clientCAPool cfgPool rulePool false = cfgPool := ⟨rfl, rfl⟩

/-- **Curves.**  Every curve an operator can configure (bfe_conf.CurvesMap) is one the ECDHE key agreement implements,
    and with such preferences the curve the key exchange picks is implemented, preferred by the server and offered by
    the client.  (A raw `Config.CurvePreferences` naming another curve id — impossible through bfe's configuration — is
    counted as supported by readClientHello and then fails closed in generateServerKeyExchange.) -/
theorem C41_curves_configurable_implemented : ∀ c ∈ configurableCurves, c ∈ implementedCurves := by decide

theorem C41_key_exchange_curve (prefs clientCurves : List Nat) (hp : ∀ c ∈ prefs, c ∈ implementedCurves)
    (h : keyExchangeCurve prefs clientCurves ≠ 0) :
    keyExchangeCurve prefs clientCurves ∈ implementedCurves ∧ keyExchangeCurve prefs clientCurves ∈ prefs ∧
    keyExchangeCurve prefs clientCurves ∈ clientCurves := by
  cases hf : prefs.find? (fun c => clientCurves.contains c) with
  | none =>
    have : keyExchangeCurve prefs clientCurves = 0 := by unfold keyExchangeCurve; rw [hf]
    exact absurd this h
  | some c =>
    have he : keyExchangeCurve prefs clientCurves = c := by unfold keyExchangeCurve; rw [hf]
    rw [he]
    have hm := List.mem_of_find?_eq_some hf
    have hc := List.find?_some hf
    exact ⟨hp c hm, hm, by simpa using hc⟩

example : getRule (α := String) { vip := [], sni := [("a.example.com", "P1")], dflt := "default" } none "A.Example.COM." = "P1" := by decide
example : certGet { vip := [], normal := [("x.b.example.com", "C1")], wildcard := [("*.b.example.com", "C2")], dflt := "D" } none "X.B.example.com" = "C1" := by decide
-- (wildcard matching uses `String.splitOn`, which the kernel does not unfold: it is exercised by the `cl` stream)
example : clientAuthStep 4 none = .error 42 := rfl
example : clientAuthStep 4 (some ⟨true, false, true, true, true, true⟩) = .ok (some ⟨true, false, true, true, true, true⟩) := rfl
example : clientAuthStep 3 (some ⟨true, false, false, true, true, true⟩) = .error 42 := rfl

/-! ## End to end: the rule looked up for (VIP, SNI) is the rule `readClientHello` applies -/

theorem C41_fact_server_name_first : serverNameSetBeforeLookups = true := by decide

/-- **The negotiation is governed by the rule configured for the presented SNI / VIP.**  `readClientHello` looks the
    rule up through the Conn; because the hello's server name is stored in the Conn BEFORE that lookup (fact
    `serverNameSetBeforeLookups`), what it applies is exactly the rule `C41_rule_lookup` describes for (vip, sni) — and
    an accepted hello therefore has a version the rule's grade allows, a chacha20 suite only if the rule enables
    them, an RC4 suite only under the rule's grade policy, the client-certificate policy of the rule
    (RequireAndVerify if it demands client auth, else the Config's), and an ALPN answer from the rule's protocols
    (or the "http/1.1" substituted for a mutual "h2"). -/
theorem C41_rule_applied (t : RuleTable Rule) (cfg : Config) (vip : Option String) (sni : String) (h : Hello) (lk : Lookups) :
    serve t cfg vip sni h lk = readClientHello cfg (some (getRule t vip sni)) h lk ∧
    ∀ p, serve t cfg vip sni h lk = .ok p →
      GradeAllows (getRule t vip sni).grade p.vers ∧
      (p.suite.has suiteChacha20 = true → (getRule t vip sni).chacha20 = true) ∧
      (p.suite.has suiteRC4 = true → checkCipherGrade cfg (getRule t vip sni).grade p.vers ≠ .disable) ∧
      p.clientAuth = (if (getRule t vip sni).clientAuth then requireAndVerifyClientCert else cfg.clientAuth) ∧
      (p.alpn ≠ "" → p.alpn ∈ (getRule t vip sni).nextProtos ∨
        (p.alpn = "http/1.1" ∧ "h2" ∈ (getRule t vip sni).nextProtos)) := by
  have hs : serve t cfg vip sni h lk = readClientHello cfg (some (getRule t vip sni)) h lk := by
    unfold serve nameSeenByLookups; rw [C41_fact_server_name_first]; rfl
  refine ⟨hs, ?_⟩
  intro p hp
  rw [hs] at hp
  have hv := C41_version_upper hp
  have hsu := (C41_suite hp).2.2
  refine ⟨hv.2.2, hsu.chacha, hsu.rc4off, ?_, ?_⟩
  · obtain ⟨v0, v, suite, _, _, ho⟩ := rch_ok hp
    cases ho with
    | resumed st _ hpp => rw [hpp]; rfl
    | full _ _ hpp => rw [hpp]; rfl
    | fullNoExt _ _ hpp => rw [hpp]; rfl
  · intro hne
    rcases C41_alpn_partial hp hne with hm | ⟨he, _, h2, _⟩
    · exact Or.inl hm.2
    · exact Or.inr ⟨he, h2⟩

/-! ## Reload histories (tlsConfLoad) -/

/-- **A rejected reload changes nothing.**  A configuration file that does not pass the loader's validation (not JSON, no
    Version, unknown certificate, invalid grade / protocol list / VIP, ClientAuth without a CA, duplicated VIP or name, a
    name its certificate does not cover, a missing CA file) leaves the state — both maps — exactly as it was. -/
theorem C41_reload_rejected_changes_nothing (certs : List (String × List String)) (ca : List String) (st : TlsState)
    (c : ConfFile) (h : validConf certs ca c = false) : loadStep certs ca st c = st := by
  unfold loadStep
  cases c with
  | garbage => rfl
  | noVersion => rfl
  | products ps => simp [h]

/-- **An accepted reload replaces everything.**  After a valid file the state is that file's configuration, whatever was
    loaded before: no VIP, name, rule or certificate binding of an earlier configuration survives. -/
theorem C41_reload_accepted_replaces (certs : List (String × List String)) (ca : List String) (st st' : TlsState)
    (ps : List ProdConf) (h : validConf certs ca (.products ps) = true) :
    loadStep certs ca st (.products ps) = some ps ∧ loadStep certs ca st (.products ps) = loadStep certs ca st' (.products ps) := by
  unfold loadStep
  simp [h]

/-- **An accepted configuration names every host once, whatever the spelling.**  Two products cannot both claim a host name,
    not even in different letter case (the loader's duplicate test folds case since the repair) — so the lower-cased keys
    that `TLSServerRuleMap.Update` stores never collide and `C41_rule_lookup`'s uniqueness hypothesis is what the loader
    guarantees. -/
theorem C41_loader_names_unique (certs : List (String × List String)) (ca : List String) (ps : List ProdConf)
    (h : validConf certs ca (.products ps) = true) :
    nodupB ((ps.flatMap fun p => p.snis).map lowerAscii) = true := by
  have hf : sniConfDuplicateCheckFoldsCase = true := by decide
  unfold validConf at h
  simp only [Bool.and_eq_true] at h
  have := h.1.1.2
  unfold sniDupKey at this
  simpa [hf] using this

/-- **Only the last accepted configuration matters**, step by step over any history of reloads; hence every rule / certificate
    lookup and every negotiation (`ruleTableOf`, `certTableOf`, `serve`) after the history is a function of that
    configuration alone. -/
theorem C41_reload_last_accepted (certs : List (String × List String)) (ca : List String) (st : TlsState)
    (hist : List ConfFile) (c : ConfFile) :
    stateAfter certs ca st (hist ++ [c]) =
      (match c with
       | .products ps => if validConf certs ca c then some ps else stateAfter certs ca st hist
       | _ => stateAfter certs ca st hist) := by
  rw [stateAfter_append]
  unfold loadStep
  cases c <;> rfl

/-! ## Delivery of the hello -/

/-- **Segmentation does not matter.**  However the client (or the network) cuts a well-formed ClientHello message into
    handshake records — and whatever follows it —, `readHandshake` hands exactly that message to `readClientHello`.
    (TCP-level chunking below the record layer is exercised by the `rw` stream: 1-byte reads, empty reads, data+EOF.) -/
theorem C41_segmentation (recs : List (List UInt8)) (hand msg tail : List UInt8)
    (hm : 4 ≤ msg.length) (hw : msg.length = 4 + declLen msg) (he : hand ++ recs.flatten = msg ++ tail) :
    ∃ rest, readHandshake recs hand = some (msg, rest) := by
  induction recs generalizing hand with
  | nil =>
    simp only [List.flatten_nil, List.append_nil] at he
    unfold readHandshake
    have hc : complete hand = some (hand.take (4 + declLen hand), hand.drop (4 + declLen hand)) := by
      unfold complete
      have h4 : 4 ≤ hand.length := by rw [he, List.length_append]; omega
      have hd : declLen hand = declLen msg := by rw [he, declLen_prefix msg tail hm]
      rw [if_pos]
      refine ⟨h4, ?_⟩
      rw [hd, ← hw, he, List.length_append]; omega
    have := complete_of_prefix (x := []) hm hw (by simpa using he) hc
    exact ⟨_, by rw [hc, this]⟩
  | cons r rs ih =>
    unfold readHandshake
    cases hc : complete hand with
    | some p =>
      obtain ⟨m, rest⟩ := p
      have := complete_of_prefix (x := (r :: rs).flatten) hm hw he hc
      exact ⟨rest, by rw [this]⟩
    | none =>
      simp only
      apply ih
      simpa [List.flatten_cons, List.append_assoc] using he

/-! Non-vacuity: concrete accepted hellos on each path (run by the kernel). -/
example : readClientHello wCfg none wHello wNoLookups =
    .ok (mkParams wCfg none wHello 0x0303 ⟨0x002f, 0⟩ false false none) := rfl
example : readClientHello wCfg none { wHello with vers := 0x0302, suites := [0x002f, 0x5600] } wNoLookups
    = .error .inappropriateFallback := rfl
example : readClientHello wCfg none { wHello with suites := [0xc013] } wNoLookups =
    .ok (mkParams wCfg none { wHello with suites := [0xc013] } 0x0303 ⟨0xc013, 1⟩ false true none) := rfl
example : (readClientHello { wCfg with nextProtos := ["h2", "http/1.1"] } (some ⟨"A+", false, true, ["h2", "http/1.1"]⟩)
    { wHello with suites := [0xcca8, 0xc02f], curves := [23], points := [0], alpn := ["http/1.1", "h2"] } wNoLookups).toOption.map
      (fun p => (p.alpn, p.suite.id, p.resume)) = some ("h2", 0xcca8, false) := by decide

end BfeVerif.C41
