import BfeVerif.C41.Driver
def main : IO Unit := BfeVerif.Proto.driverMain BfeVerif.C41.run
