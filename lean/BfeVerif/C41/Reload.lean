import BfeVerif.C41.Serve
/-!
  C41 — (re)loading the TLS configuration: `(*BfeServer).tlsConfLoad` (bfe_server/bfe_confdata_load.go) with the
  validation of `BfeTlsRuleConfCheck` / `TlsRuleConfCheck` / `checkNextProtos` / `checkVip` / `checkSniConf` /
  `CheckTlsConf` / `ClientCALoad` (bfe_config/bfe_tls_conf/tls_rule_conf), and what `MultiCertMap.Update` /
  `TLSServerRuleMap.Update` make of an accepted configuration.  A rejected file changes nothing; an accepted one replaces
  both maps entirely.  Core-only.
-/
namespace BfeVerif.C41
open BfeVerif.Generated.C41

structure ProdConf where
  name : String
  grade : String            -- as written in the file
  ca : String               -- "0" no client auth | "E" ClientAuth with empty ClientCAName | a CA name
  chacha : Bool
  protos : List String
  cert : String
  vips : List String        -- as written
  snis : List String
deriving Repr

inductive ConfFile where
  | garbage                 -- not JSON
  | noVersion               -- empty Version
  | products (ps : List ProdConf)
deriving Repr

def upperAscii (s : String) : String := String.ofList (s.toList.map Char.toUpper)

def stripPrefix (p s : String) : String := if s.startsWith p then (s.drop p.length).toString else s

/-- `net.ParseIP(vip).String()` on the address forms the harness writes -/
def canonVip (s : String) : Option String :=
  if s == "bad.ip" then none else some (lowerAscii (stripPrefix "::ffff:" s))

def knownProtos : List String := ["http/1.1", "h2", "spdy/3.1", "stream"]

def protosOk (l : List String) : Bool :=
  l.isEmpty || (l.all knownProtos.contains && l.eraseDups.length == l.length && l.contains "http/1.1")

def gradeOk (g : String) : Bool := ["A+", "A", "B", "C", ""].contains (upperAscii g)

def effGrade (g : String) : String := if upperAscii g == "" then gradeC else upperAscii g

def nodupB (l : List String) : Bool := l.eraseDups.length == l.length

/-- the key `checkSniConf` compares: the name in lower case since the repair, verbatim before -/
def sniDupKey (name : String) : String := if sniConfDuplicateCheckFoldsCase then lowerAscii name else name

/-- certs: (name, DNS names); caFiles: the `<name>.crt` files present in the client CA directory -/
def validConf (certs : List (String × List String)) (caFiles : List String) : ConfFile → Bool
  | .garbage => false
  | .noVersion => false
  | .products ps =>
    ps.all (fun p => !p.cert.isEmpty && protosOk p.protos && gradeOk p.grade && p.ca != "E" &&
      p.vips.all fun v => (canonVip v).isSome) &&
    nodupB (ps.flatMap fun p => p.vips.filterMap canonVip) &&
    nodupB ((ps.flatMap fun p => p.snis).map sniDupKey) &&
    ps.all (fun p => p.ca == "0" || caFiles.contains p.ca) &&
    ps.all (fun p => match lookup certs p.cert with
      | none => false
      | some names => p.snis.all fun s => names.any fun n => matchHostnames n s)

def prodRule (p : ProdConf) : Rule :=
  { grade := effGrade p.grade, clientAuth := p.ca != "0", chacha20 := p.chacha,
    nextProtos := if p.protos.isEmpty then ["http/1.1"] else p.protos }

def defaultRule : Rule := { grade := gradeC, clientAuth := false, chacha20 := false, nextProtos := ["http/1.1"] }

/-- the server's state: the last accepted configuration, if any -/
abbrev TlsState := Option (List ProdConf)

def loadStep (certs : List (String × List String)) (caFiles : List String) (st : TlsState) (c : ConfFile) : TlsState :=
  match c with
  | .products ps => if validConf certs caFiles c then some ps else st
  | _ => st

def stateAfter (certs : List (String × List String)) (caFiles : List String) (st : TlsState) (hist : List ConfFile) : TlsState :=
  hist.foldl (loadStep certs caFiles) st

def ruleTableOf (st : TlsState) : RuleTable (Rule × String) :=
  match st with
  | none => { vip := [], sni := [], dflt := (defaultRule, "") }
  | some ps =>
    { vip := ps.flatMap fun p => p.vips.filterMap fun v => (canonVip v).map fun c => (c, (prodRule p, if p.ca == "0" then "" else p.ca)),
      sni := ps.flatMap fun p => p.snis.map fun s => (s, (prodRule p, if p.ca == "0" then "" else p.ca)),
      dflt := (defaultRule, "") }

def certTableOf (certs : List (String × List String)) (st : TlsState) : CertTable :=
  match st with
  | none => { vip := [], normal := [], wildcard := [], dflt := "none" }
  | some ps =>
    let pairs : List (String × String) := certs.flatMap fun c => c.2.map fun n => (n, c.1)
    { vip := ps.flatMap fun p => p.vips.filterMap fun v => (canonVip v).map fun c => (c, p.cert),
      normal := pairs.filter fun p => !p.1.contains '*',
      wildcard := pairs.filter fun p => p.1.contains '*',
      dflt := "D" }

/-! ### lemmas (used by Props.lean) -/

theorem stateAfter_append (certs : List (String × List String)) (ca : List String) (st : TlsState) (h : List ConfFile) (c : ConfFile) :
    stateAfter certs ca st (h ++ [c]) = loadStep certs ca (stateAfter certs ca st h) c := by
  unfold stateAfter; rw [List.foldl_append]; rfl

end BfeVerif.C41
